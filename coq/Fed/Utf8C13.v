(* UTF-8 well-formedness as Go's unicode/utf8 decides it (utf8.Valid / utf8.ValidString), the
   replacement encoding/json applies when it writes a Go string that is not valid UTF-8 (every
   offending byte becomes U+FFFD), and strings.TrimSpace / TrimLeftFunc(unicode.IsSpace).
   Model only, no proofs. *)
From Verif Require Import Lib.Bytes.
Open Scope N_scope.

Definition in_range (lo hi c : N) : bool := (lo <=? c) && (c <=? hi).
Definition is_cont (c : N) : bool := in_range 128 191 c.

(* length of the well-formed UTF-8 sequence at the head of s (Unicode table 3-7), if any *)
Definition utf8_head (s : bytes) : option nat :=
  match s with
  | [] => None
  | c :: r =>
      if c <? 128 then Some 1%nat
      else if in_range 194 223 c then
        match r with c1 :: _ => if is_cont c1 then Some 2%nat else None | _ => None end
      else if in_range 224 239 c then
        match r with
        | c1 :: c2 :: _ =>
            let lo := if c =? 224 then 160 else 128 in
            let hi := if c =? 237 then 159 else 191 in
            if in_range lo hi c1 && is_cont c2 then Some 3%nat else None
        | _ => None
        end
      else if in_range 240 244 c then
        match r with
        | c1 :: c2 :: c3 :: _ =>
            let lo := if c =? 240 then 144 else 128 in
            let hi := if c =? 244 then 143 else 191 in
            if in_range lo hi c1 && is_cont c2 && is_cont c3 then Some 4%nat else None
        | _ => None
        end
      else None
  end.

(* utf8.Valid *)
Fixpoint utf8_valid_fuel (fuel : nat) (s : bytes) : bool :=
  match fuel with
  | O => match s with [] => true | _ => false end
  | S f =>
      match s with
      | [] => true
      | _ => match utf8_head s with
             | Some n => utf8_valid_fuel f (drop n s)
             | None => false
             end
      end
  end.
Definition utf8_valid (s : bytes) : bool := utf8_valid_fuel (length s) s.

Definition replacement : bytes := [239; 191; 189].

(* what a Go string becomes when it goes through json.Marshal and json.Unmarshal *)
Fixpoint to_valid_utf8_fuel (fuel : nat) (s : bytes) : bytes :=
  match fuel with
  | O => []
  | S f =>
      match s with
      | [] => []
      | c :: r =>
          match utf8_head s with
          | Some n => firstn n s ++ to_valid_utf8_fuel f (drop n s)
          | None => replacement ++ to_valid_utf8_fuel f r
          end
      end
  end.
Definition to_valid_utf8 (s : bytes) : bytes := to_valid_utf8_fuel (length s) s.

(* ---- Unicode white space (unicode.IsSpace), as UTF-8 byte sequences ---- *)
Definition space_seqs : list bytes :=
  [ [9]; [10]; [11]; [12]; [13]; [32];
    [194; 133]; [194; 160];
    [225; 154; 128];
    [226; 128; 128]; [226; 128; 129]; [226; 128; 130]; [226; 128; 131]; [226; 128; 132];
    [226; 128; 133]; [226; 128; 134]; [226; 128; 135]; [226; 128; 136]; [226; 128; 137];
    [226; 128; 138];
    [226; 128; 168]; [226; 128; 169]; [226; 128; 175];
    [226; 129; 159];
    [227; 128; 128] ].

Fixpoint strip_any (ps : list bytes) (s : bytes) : option bytes :=
  match ps with
  | [] => None
  | p :: ps' => if is_prefix p s then Some (drop (length p) s) else strip_any ps' s
  end.

Fixpoint trim_left_fuel (ps : list bytes) (fuel : nat) (s : bytes) : bytes :=
  match fuel with
  | O => s
  | S f => match strip_any ps s with
           | Some r => trim_left_fuel ps f r
           | None => s
           end
  end.

(* strings.TrimLeftFunc(s, unicode.IsSpace) *)
Definition trim_left (s : bytes) : bytes := trim_left_fuel space_seqs (length s) s.
(* trailing white space: the same on the reversed string with reversed sequences *)
Definition trim_right (s : bytes) : bytes :=
  rev (trim_left_fuel (map (@rev N) space_seqs) (length s) (rev s)).
(* strings.TrimSpace *)
Definition trim_space (s : bytes) : bytes := trim_right (trim_left s).

(* strings.Trim(s, cutset) for a one-byte cutset *)
Fixpoint trim_left_byte (c : N) (s : bytes) : bytes :=
  match s with
  | x :: r => if x =? c then trim_left_byte c r else s
  | [] => []
  end.
Definition trim_byte (c : N) (s : bytes) : bytes :=
  rev (trim_left_byte c (rev (trim_left_byte c s))).

(* ASCII lower case (strings.ToLower restricted to ASCII input) *)
Definition lower_byte (c : N) : N := if in_range 65 90 c then c + 32 else c.
Definition to_lower (s : bytes) : bytes := map lower_byte s.
