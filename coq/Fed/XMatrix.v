(* The X-Matrix Authorization header of fclient/request.go: emission by HTTPRequest (with the
   isSafeInHTTPQuotedString check) and ParseAuthorization.  Model only, no proofs. *)
From Verif Require Import Lib.Bytes Fed.Utf8C13.
Open Scope N_scope.

(* strings.Split(s, sep) for a one-byte separator: never empty *)
Fixpoint split_all (c : N) (s : bytes) : list bytes :=
  match s with
  | [] => [[]]
  | x :: r =>
      if x =? c then [] :: split_all c r
      else match split_all c r with
           | h :: t => (x :: h) :: t
           | [] => [[x]]
           end
  end.

(* isSafeInHTTPQuotedString: qdtext = HTAB / SP / %x21 / %x23-5B / %x5D-7E / %x80-FF *)
Definition qd_safe_byte (c : N) : bool :=
  (c =? 9) || (c =? 32) || (c =? 33) || in_range 35 91 c || in_range 93 126 c || (128 <=? c).
Definition is_safe_in_quoted (s : bytes) : bool := forallb qd_safe_byte s.

Definition s_xmatrix : bytes := bs "X-Matrix".
Definition s_origin : bytes := bs "origin".
Definition s_key : bytes := bs "key".
Definition s_sig : bytes := bs "sig".
Definition s_destination : bytes := bs "destination".

(* fmt.Sprintf of the header in HTTPRequest *)
Definition emit_auth (o k s d : bytes) : bytes :=
  s_xmatrix ++ [32] ++ s_origin ++ [61; 34] ++ o ++ [34; 44] ++ s_key ++ [61; 34] ++ k ++ [34; 44]
  ++ s_sig ++ [61; 34] ++ s ++ [34; 44] ++ s_destination ++ [61; 34] ++ d ++ [34].

Record xm := { x_origin : bytes; x_dest : bytes; x_key : bytes; x_sig : bytes }.
Definition xm0 : xm := {| x_origin := []; x_dest := []; x_key := []; x_sig := [] |}.

(* one comma-separated piece: split on the first '=', trim, unquote, assign by name *)
Definition apply_pair (acc : xm) (data : bytes) : xm :=
  match split_at 61 data with
  | None => acc
  | Some (n, v) =>
      let name := trim_space n in
      let value := trim_byte 34 (trim_space v) in
      let a1 := if bytes_eqb name s_origin
                then {| x_origin := value; x_dest := x_dest acc; x_key := x_key acc; x_sig := x_sig acc |} else acc in
      let a2 := if bytes_eqb name s_key
                then {| x_origin := x_origin a1; x_dest := x_dest a1; x_key := value; x_sig := x_sig a1 |} else a1 in
      let a3 := if bytes_eqb name s_sig
                then {| x_origin := x_origin a2; x_dest := x_dest a2; x_key := x_key a2; x_sig := value |} else a2 in
      if bytes_eqb name s_destination
      then {| x_origin := x_origin a3; x_dest := value; x_key := x_key a3; x_sig := x_sig a3 |} else a3
  end.

(* ParseAuthorization: (scheme, fields) *)
Definition parse_authorization (h : bytes) : bytes * xm :=
  match split_at 32 h with
  | None => (h, xm0)
  | Some (scheme, rest) =>
      if bytes_eqb scheme s_xmatrix
      then (scheme, fold_left apply_pair (split_all 44 rest) xm0)
      else (scheme, xm0)
  end.
