(* Proofs about the X-Matrix header: what HTTPRequest emits, ParseAuthorization reads back,
   for all field values made of printable ASCII other than the quote and the comma. *)
From Verif Require Import Lib.Bytes Fed.Utf8C13 Fed.XMatrix.
Open Scope N_scope.

(* printable ASCII except the double quote and the comma *)
Definition hdr_plain (c : N) : bool := in_range 33 126 c && negb (c =? 34) && negb (c =? 44).
Definition plain (s : bytes) : bool := forallb hdr_plain s.

Lemma hdr_plain_range c : hdr_plain c = true -> 33 <= c <= 126 /\ c <> 34 /\ c <> 44.
Proof.
  unfold hdr_plain, in_range. rewrite !andb_true_iff, !negb_true_iff, !N.leb_le, !N.eqb_neq. tauto.
Qed.

Lemma plain_cons c s : plain (c :: s) = true -> hdr_plain c = true /\ plain s = true.
Proof. unfold plain. simpl. rewrite andb_true_iff. tauto. Qed.

Lemma plain_app a b : plain (a ++ b) = plain a && plain b.
Proof. unfold plain. apply forallb_app. Qed.

Lemma plain_rev a : plain (rev a) = plain a.
Proof.
  induction a as [|c a IH]; [reflexivity|]. simpl rev. rewrite plain_app, IH. unfold plain. simpl.
  rewrite andb_true_r. apply andb_comm.
Qed.

(* ---- splitting ---- *)
Lemma split_at_app c a b : (forall x, In x a -> x <> c) -> split_at c (a ++ c :: b) = Some (a, b).
Proof.
  induction a as [|x a IH]; intro H; simpl.
  - rewrite N.eqb_refl. reflexivity.
  - assert (Hx : x <> c) by (apply H; left; reflexivity).
    apply N.eqb_neq in Hx. rewrite Hx. rewrite IH; [reflexivity|]. intros y Hy. apply H. right. exact Hy.
Qed.

Lemma split_all_none c a : (forall x, In x a -> x <> c) -> split_all c a = [a].
Proof.
  induction a as [|x a IH]; intro H; simpl; [reflexivity|].
  assert (Hx : x <> c) by (apply H; left; reflexivity).
  apply N.eqb_neq in Hx. rewrite Hx. rewrite IH; [reflexivity|]. intros y Hy. apply H. right. exact Hy.
Qed.

Lemma split_all_app c a b :
  (forall x, In x a -> x <> c) -> split_all c (a ++ c :: b) = a :: split_all c b.
Proof.
  induction a as [|x a IH]; intro H; simpl.
  - rewrite N.eqb_refl. reflexivity.
  - assert (Hx : x <> c) by (apply H; left; reflexivity).
    apply N.eqb_neq in Hx. rewrite Hx. rewrite IH; [reflexivity|]. intros y Hy. apply H. right. exact Hy.
Qed.

Lemma plain_no c s : plain s = true -> (c = 34 \/ c = 44 \/ c = 32) -> forall x, In x s -> x <> c.
Proof.
  intros Hp Hc x Hx. unfold plain in Hp. rewrite forallb_forall in Hp. apply Hp in Hx.
  apply hdr_plain_range in Hx. lia.
Qed.

(* ---- trimming ---- *)
(* first bytes of the white-space sequences *)
Definition space_lead (c : N) : bool :=
  in_range 9 13 c || (c =? 32) || (c =? 194) || (c =? 225) || (c =? 226) || (c =? 227).
(* last bytes of the white-space sequences *)
Definition space_tail (c : N) : bool :=
  in_range 9 13 c || (c =? 32) || in_range 128 138 c || (c =? 133) || (c =? 160) || (c =? 168)
  || (c =? 169) || (c =? 175) || (c =? 159).

Lemma strip_any_lead c s : space_lead c = false -> strip_any space_seqs (c :: s) = None.
Proof.
  unfold space_lead, in_range. rewrite !orb_false_iff, andb_false_iff, !N.leb_gt, !N.eqb_neq.
  intros (((((H1 & H2) & H3) & H4) & H5) & H6).
  unfold space_seqs, strip_any, is_prefix.
  repeat match goal with
         | |- context [?a =? c] =>
             let E := fresh in
             assert (E : (a =? c) = false) by (apply N.eqb_neq; lia); rewrite E; clear E; cbv beta iota
         end.
  reflexivity.
Qed.

Lemma strip_any_tail c s : space_tail c = false -> strip_any (map (@rev N) space_seqs) (c :: s) = None.
Proof.
  unfold space_tail, in_range. rewrite !orb_false_iff, !andb_false_iff, !N.leb_gt, !N.eqb_neq.
  intros ((((((((H1 & H2) & H3) & H4) & H5) & H6) & H7) & H8) & H9).
  cbn [space_seqs map rev app strip_any is_prefix].
  repeat match goal with
         | |- context [?a =? c] =>
             let E := fresh in
             assert (E : (a =? c) = false) by (apply N.eqb_neq; lia); rewrite E; clear E; cbv beta iota
         end.
  reflexivity.
Qed.

Lemma trim_left_lead c s : space_lead c = false -> trim_left (c :: s) = c :: s.
Proof.
  intro H. unfold trim_left. cbn [length trim_left_fuel]. rewrite strip_any_lead by exact H. reflexivity.
Qed.

Lemma trim_left_nil : trim_left [] = [].
Proof. reflexivity. Qed.

Lemma trim_right_tail c s : space_tail c = false -> trim_right (s ++ [c]) = s ++ [c].
Proof.
  intro H. unfold trim_right. rewrite rev_app_distr. cbn [rev app].
  rewrite app_length. cbn [length]. rewrite Nat.add_comm. cbn [Nat.add trim_left_fuel].
  rewrite strip_any_tail by exact H. change (c :: rev s) with ([c] ++ rev s).
  rewrite rev_app_distr, rev_involutive. reflexivity.
Qed.

Lemma plain_not_lead c : hdr_plain c = true -> space_lead c = false.
Proof.
  intro H. apply hdr_plain_range in H. unfold space_lead, in_range.
  rewrite !orb_false_iff, andb_false_iff, !N.leb_gt, !N.eqb_neq. lia.
Qed.
Lemma plain_not_tail c : hdr_plain c = true -> space_tail c = false.
Proof.
  intro H. apply hdr_plain_range in H. unfold space_tail, in_range.
  rewrite !orb_false_iff, !andb_false_iff, !N.leb_gt, !N.eqb_neq. lia.
Qed.

(* a string of plain bytes is left alone by TrimSpace *)
Lemma trim_space_plain s : plain s = true -> trim_space s = s.
Proof.
  intro H. unfold trim_space.
  assert (HL : trim_left s = s).
  { destruct s as [|c s]; [reflexivity|]. apply plain_cons in H as [Hc _].
    apply trim_left_lead. apply plain_not_lead. exact Hc. }
  rewrite HL. destruct s as [|c s] using rev_ind; [reflexivity|].
  rewrite plain_app in H. apply andb_true_iff in H as [_ H]. apply plain_cons in H as [Hc _].
  apply trim_right_tail. apply plain_not_tail. exact Hc.
Qed.

(* the quoted value: TrimSpace leaves it, Trim removes exactly the two quotes *)
Lemma trim_space_quoted v : trim_space (34 :: v ++ [34]) = 34 :: v ++ [34].
Proof.
  unfold trim_space. rewrite trim_left_lead by reflexivity.
  change (34 :: v ++ [34]) with ((34 :: v) ++ [34]). apply trim_right_tail. reflexivity.
Qed.

Lemma trim_left_byte_id c s : (forall x, In x s -> x <> c) -> trim_left_byte c s = s.
Proof.
  destruct s as [|x s]; intro H; [reflexivity|]. simpl.
  assert (Hx : x <> c) by (apply H; left; reflexivity). apply N.eqb_neq in Hx. rewrite Hx. reflexivity.
Qed.

Lemma trim_quotes_quoted v : (forall x, In x v -> x <> 34) -> trim_byte 34 (34 :: v ++ [34]) = v.
Proof.
  intro H. unfold trim_byte. cbn [trim_left_byte]. rewrite N.eqb_refl.
  destruct v as [|x v].
  - cbn [app trim_left_byte rev]. rewrite N.eqb_refl. reflexivity.
  - assert (Hx : x <> 34) by (apply H; left; reflexivity).
    cbn [app trim_left_byte]. apply N.eqb_neq in Hx. rewrite Hx.
    change (x :: v ++ [34]) with ((x :: v) ++ [34]). rewrite rev_app_distr. cbn [rev app trim_left_byte].
    rewrite N.eqb_refl. rewrite trim_left_byte_id.
    + change (rev v ++ [x]) with (rev (x :: v)). apply rev_involutive.
    + intros y Hy. apply H. apply in_rev. exact Hy.
Qed.

(* ---- one name="value" piece ---- *)
Definition piece (name v : bytes) : bytes := name ++ [61; 34] ++ v ++ [34].

Lemma piece_no_comma name v : plain name = true -> plain v = true ->
  forall x, In x (piece name v) -> x <> 44.
Proof.
  intros Hn Hv x Hx. unfold piece in Hx. rewrite !in_app_iff in Hx.
  destruct Hx as [Hx|[Hx|[Hx|Hx]]].
  - apply (plain_no 44 name Hn); [right; left; reflexivity | exact Hx].
  - simpl in Hx. destruct Hx as [<-|[<-|[]]]; lia.
  - apply (plain_no 44 v Hv); [right; left; reflexivity | exact Hx].
  - simpl in Hx. destruct Hx as [<-|[]]. lia.
Qed.

Lemma apply_pair_piece acc name v :
  plain name = true -> (forall x, In x name -> x <> 61) -> plain v = true ->
  apply_pair acc (piece name v) =
    let a1 := if bytes_eqb name s_origin
              then {| x_origin := v; x_dest := x_dest acc; x_key := x_key acc; x_sig := x_sig acc |} else acc in
    let a2 := if bytes_eqb name s_key
              then {| x_origin := x_origin a1; x_dest := x_dest a1; x_key := v; x_sig := x_sig a1 |} else a1 in
    let a3 := if bytes_eqb name s_sig
              then {| x_origin := x_origin a2; x_dest := x_dest a2; x_key := x_key a2; x_sig := v |} else a2 in
    if bytes_eqb name s_destination
    then {| x_origin := x_origin a3; x_dest := v; x_key := x_key a3; x_sig := x_sig a3 |} else a3.
Proof.
  intros Hn Hne Hv. unfold apply_pair, piece.
  change (name ++ [61; 34] ++ v ++ [34]) with (name ++ 61 :: (34 :: v ++ [34])).
  rewrite split_at_app by exact Hne.
  rewrite trim_space_plain by exact Hn.
  rewrite trim_space_quoted.
  rewrite trim_quotes_quoted by (apply (plain_no 34 v Hv); left; reflexivity).
  reflexivity.
Qed.

(* ---- the round trip ---- *)
Theorem parse_emit o k s d :
  plain o = true -> plain k = true -> plain s = true -> plain d = true ->
  parse_authorization (emit_auth o k s d)
  = (s_xmatrix, {| x_origin := o; x_dest := d; x_key := k; x_sig := s |}).
Proof.
  intros Ho Hk Hs Hd. unfold parse_authorization, emit_auth.
  change (s_xmatrix ++ [32] ++ ?r) with (s_xmatrix ++ 32 :: r).
  rewrite split_at_app by (intros x Hx; vm_compute in Hx; intuition (subst; discriminate)).
  rewrite bytes_eqb_refl.
  match goal with
  | |- (_, fold_left _ (split_all 44 ?l) _) = _ =>
      replace l with (piece s_origin o ++ 44 :: piece s_key k ++ 44 :: piece s_sig s ++ 44 :: piece s_destination d)
        by (unfold piece; repeat (rewrite <- ?app_assoc; cbn [app]); reflexivity)
  end.
  rewrite split_all_app by (apply piece_no_comma; [reflexivity|exact Ho]).
  rewrite split_all_app by (apply piece_no_comma; [reflexivity|exact Hk]).
  rewrite split_all_app by (apply piece_no_comma; [reflexivity|exact Hs]).
  rewrite split_all_none by (apply piece_no_comma; [reflexivity|exact Hd]).
  cbn [fold_left].
  rewrite (apply_pair_piece xm0 s_origin o)
    by (try reflexivity; try assumption; intros x Hx; vm_compute in Hx; intuition (subst; discriminate)).
  rewrite (apply_pair_piece _ s_key k)
    by (try reflexivity; try assumption; intros x Hx; vm_compute in Hx; intuition (subst; discriminate)).
  rewrite (apply_pair_piece _ s_sig s)
    by (try reflexivity; try assumption; intros x Hx; vm_compute in Hx; intuition (subst; discriminate)).
  rewrite (apply_pair_piece _ s_destination d)
    by (try reflexivity; try assumption; intros x Hx; vm_compute in Hx; intuition (subst; discriminate)).
  reflexivity.
Qed.

(* the scheme of anything HTTPRequest emits *)
Lemma emit_scheme o k s d : fst (parse_authorization (emit_auth o k s d)) = s_xmatrix.
Proof.
  unfold parse_authorization, emit_auth.
  change (s_xmatrix ++ [32] ++ ?r) with (s_xmatrix ++ 32 :: r).
  rewrite split_at_app by (intros x Hx; vm_compute in Hx; intuition (subst; discriminate)).
  rewrite bytes_eqb_refl. reflexivity.
Qed.
