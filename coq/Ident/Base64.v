(* C17 model: spec/base64.go (Base64Bytes.Encode / Decode) over encoding/base64's
   RawStdEncoding and RawURLEncoding (no padding, not strict).  Executable definitions only.

   Transcribed behaviour of encoding/base64 (Go 1.23) for the Raw encodings: CR and LF are skipped
   anywhere in the input; every other byte must belong to the alphabet (the padding character = is
   not in it); a final group of one character is an error; the unused low bits of a final group of
   two or three characters are ignored. *)
From Verif Require Import Lib.Bytes Ident.Chars.
Open Scope N_scope.

Definition b64_enc_char (url : bool) (v : N) : N :=
  if v <? 26 then 65 + v
  else if v <? 52 then 97 + (v - 26)
  else if v <? 62 then 48 + (v - 52)
  else if v =? 62 then (if url then 45 else 43)
  else (if url then 95 else 47).

Definition b64_dec_char (url : bool) (c : N) : option N :=
  if is_upper c then Some (c - 65)
  else if is_lower c then Some (c - 97 + 26)
  else if is_digit c then Some (c - 48 + 52)
  else if c =? (if url then 45 else 43) then Some 62
  else if c =? (if url then 95 else 47) then Some 63
  else None.

Fixpoint b64_encode (url : bool) (b : bytes) : bytes :=
  let e := b64_enc_char url in
  match b with
  | x :: y :: z :: r =>
      e (x / 4) :: e ((x mod 4) * 16 + y / 16) :: e ((y mod 16) * 4 + z / 64) :: e (z mod 64)
        :: b64_encode url r
  | [x; y] => [e (x / 4); e ((x mod 4) * 16 + y / 16); e ((y mod 16) * 4)]
  | [x] => [e (x / 4); e ((x mod 4) * 16)]
  | [] => []
  end.

(* the 6-bit values of the input, CR and LF skipped; None if a byte is outside the alphabet *)
Fixpoint b64_vals (url : bool) (s : bytes) : option (list N) :=
  match s with
  | [] => Some []
  | c :: r =>
      if (c =? 10) || (c =? 13) then b64_vals url r
      else match b64_dec_char url c, b64_vals url r with
           | Some v, Some vs => Some (v :: vs)
           | _, _ => None
           end
  end.

Fixpoint b64_groups (v : list N) : option bytes :=
  match v with
  | a :: b :: c :: d :: r =>
      match b64_groups r with
      | Some t => Some ((a * 4 + b / 16) :: ((b mod 16) * 16 + c / 4) :: ((c mod 4) * 64 + d) :: t)
      | None => None
      end
  | [a; b; c] => Some [a * 4 + b / 16; (b mod 16) * 16 + c / 4]
  | [a; b] => Some [a * 4 + b / 16]
  | [a] => None
  | [] => Some []
  end.

Definition b64_decode (url : bool) (s : bytes) : option bytes :=
  match b64_vals url s with
  | Some v => b64_groups v
  | None => None
  end.

(* Base64Bytes.Encode: RawStdEncoding *)
Definition base64bytes_encode (b : bytes) : bytes := b64_encode false b.

(* Base64Bytes.Decode: URL-safe alphabet iff the string contains - or _ *)
Definition base64bytes_decode (s : bytes) : option bytes :=
  b64_decode (mem_byte 45 s || mem_byte 95 s) s.
