(* C17 proofs: the unpadded base64 codec model round-trips for every byte string. *)
From Verif Require Import Lib.Bytes Ident.Chars Ident.Base64.
Open Scope N_scope.

Definition is_byte (x : N) : Prop := x < 256.
Definition bytes_ok (b : bytes) : Prop := Forall is_byte b.

(* ---- a three-at-a-time induction principle ---- *)
Lemma list_ind3 (P : bytes -> Prop) :
  P [] -> (forall x, P [x]) -> (forall x y, P [x; y]) ->
  (forall x y z r, P r -> P (x :: y :: z :: r)) -> forall l, P l.
Proof.
  intros H0 H1 H2 H3 l.
  assert (H : P l /\ (forall x, P (x :: l)) /\ (forall x y, P (x :: y :: l))).
  { induction l as [|a l IH].
    - auto.
    - destruct IH as (IH0 & IH1 & IH2). repeat split; auto. }
  apply H.
Qed.

(* ---- characters ---- *)
Definition range64 : list N := map N.of_nat (seq 0 64).

Lemma in_range64 v : v < 64 -> In v range64.
Proof.
  intro H. unfold range64. rewrite <- (N2Nat.id v). apply in_map. apply in_seq. lia.
Qed.

Definition char_ok (url : bool) (v : N) : bool :=
  let c := b64_enc_char url v in
  match b64_dec_char url c with Some w => w =? v | None => false end
  && negb (c =? 10) && negb (c =? 13)
  && (url || (negb (c =? 45) && negb (c =? 95)))
  && (negb url || (negb (c =? 43) && negb (c =? 47))).

Lemma char_ok_all url : forallb (char_ok url) range64 = true.
Proof. destruct url; vm_compute; reflexivity. Qed.

Lemma char_ok_lt url v : v < 64 -> char_ok url v = true.
Proof.
  intro H. pose proof (char_ok_all url) as A. rewrite forallb_forall in A.
  apply A. apply in_range64. exact H.
Qed.

Lemma dec_enc_char url v : v < 64 -> b64_dec_char url (b64_enc_char url v) = Some v.
Proof.
  intro H. pose proof (char_ok_lt url v H) as A. unfold char_ok in A.
  repeat (apply andb_true_iff in A; destruct A as [A ?]).
  destruct (b64_dec_char url (b64_enc_char url v)) as [w|]; [|discriminate].
  apply N.eqb_eq in A. subst. reflexivity.
Qed.

Lemma enc_char_not_newline url v :
  v < 64 -> (b64_enc_char url v =? 10) || (b64_enc_char url v =? 13) = false.
Proof.
  intro H. pose proof (char_ok_lt url v H) as A. unfold char_ok in A.
  repeat (apply andb_true_iff in A; destruct A as [A ?]).
  destruct (b64_enc_char url v =? 10); [discriminate|].
  destruct (b64_enc_char url v =? 13); [discriminate|]. reflexivity.
Qed.

Lemma std_char_not_url v :
  v < 64 -> (b64_enc_char false v =? 45) = false /\ (b64_enc_char false v =? 95) = false.
Proof.
  intro H. pose proof (char_ok_lt false v H) as A. unfold char_ok in A.
  repeat (apply andb_true_iff in A; destruct A as [A ?]).
  simpl in *.
  match goal with X : negb _ && negb _ = true |- _ => apply andb_true_iff in X; destruct X as [X1 X2] end.
  split; [destruct (b64_enc_char false v =? 45)|destruct (b64_enc_char false v =? 95)];
    simpl in *; congruence.
Qed.

Lemma url_char_not_std v :
  v < 64 -> (b64_enc_char true v =? 43) = false /\ (b64_enc_char true v =? 47) = false.
Proof.
  intro H. pose proof (char_ok_lt true v H) as A. unfold char_ok in A.
  repeat (apply andb_true_iff in A; destruct A as [A ?]).
  simpl in *.
  match goal with X : negb _ && negb _ = true |- _ => apply andb_true_iff in X; destruct X as [X1 X2] end.
  split; [destruct (b64_enc_char true v =? 43)|destruct (b64_enc_char true v =? 47)];
    simpl in *; congruence.
Qed.

Lemma dec_char_lt url c v : b64_dec_char url c = Some v -> v < 64.
Proof.
  unfold b64_dec_char, is_upper, is_lower, is_digit.
  destruct ((65 <=? c) && (c <=? 90)) eqn:E1.
  { apply andb_true_iff in E1 as [A B]. apply N.leb_le in A, B. intro H; inversion H; lia. }
  destruct ((97 <=? c) && (c <=? 122)) eqn:E2.
  { apply andb_true_iff in E2 as [A B]. apply N.leb_le in A, B. intro H; inversion H; lia. }
  destruct ((48 <=? c) && (c <=? 57)) eqn:E3.
  { apply andb_true_iff in E3 as [A B]. apply N.leb_le in A, B. intro H; inversion H; lia. }
  destruct (c =? (if url then 45 else 43)); [intro H; inversion H; lia|].
  destruct (c =? (if url then 95 else 47)); [intro H; inversion H; lia|]. discriminate.
Qed.

(* ---- six-bit values of a byte string ---- *)
Fixpoint sextets (b : bytes) : list N :=
  match b with
  | x :: y :: z :: r =>
      (x / 4) :: ((x mod 4) * 16 + y / 16) :: ((y mod 16) * 4 + z / 64) :: (z mod 64) :: sextets r
  | [x; y] => [x / 4; (x mod 4) * 16 + y / 16; (y mod 16) * 4]
  | [x] => [x / 4; (x mod 4) * 16]
  | [] => []
  end.

Lemma encode_sextets url b : b64_encode url b = map (b64_enc_char url) (sextets b).
Proof.
  induction b as [| x | x y | x y z r IH] using list_ind3; try reflexivity.
  cbn [b64_encode sextets map]. rewrite IH. reflexivity.
Qed.

Lemma div_lt x k n : k <> 0 -> x < k * n -> x / k < n.
Proof. intros Hk H. apply N.div_lt_upper_bound; assumption. Qed.

Lemma mod_lt' x k : k <> 0 -> x mod k < k.
Proof. intro. apply N.mod_lt. assumption. Qed.

Lemma sextets_lt b : bytes_ok b -> Forall (fun v => v < 64) (sextets b).
Proof.
  induction b as [| x | x y | x y z r IH] using list_ind3; intro H; cbn [sextets].
  - constructor.
  - inversion H as [|? ? Hx _]; subst. unfold is_byte in Hx.
    pose proof (div_lt x 4 64 ltac:(lia) ltac:(lia)). pose proof (mod_lt' x 4 ltac:(lia)).
    repeat constructor; lia.
  - inversion H as [|? ? Hx H']; subst. inversion H' as [|? ? Hy _]; subst. unfold is_byte in *.
    pose proof (div_lt x 4 64 ltac:(lia) ltac:(lia)). pose proof (mod_lt' x 4 ltac:(lia)).
    pose proof (div_lt y 16 16 ltac:(lia) ltac:(lia)). pose proof (mod_lt' y 16 ltac:(lia)).
    repeat constructor; lia.
  - inversion H as [|? ? Hx H']; subst. inversion H' as [|? ? Hy H'']; subst.
    inversion H'' as [|? ? Hz Hr]; subst. unfold is_byte in *.
    pose proof (div_lt x 4 64 ltac:(lia) ltac:(lia)). pose proof (mod_lt' x 4 ltac:(lia)).
    pose proof (div_lt y 16 16 ltac:(lia) ltac:(lia)). pose proof (mod_lt' y 16 ltac:(lia)).
    pose proof (div_lt z 64 4 ltac:(lia) ltac:(lia)). pose proof (mod_lt' z 64 ltac:(lia)).
    repeat (constructor; [lia|]). apply IH. exact Hr.
Qed.

Lemma vals_map_enc url vs :
  Forall (fun v => v < 64) vs -> b64_vals url (map (b64_enc_char url) vs) = Some vs.
Proof.
  induction 1 as [|v vs Hv _ IH]; [reflexivity|].
  cbn [map b64_vals]. rewrite (enc_char_not_newline url v Hv), (dec_enc_char url v Hv), IH.
  reflexivity.
Qed.

(* (a * k + b) split back, b < k *)
Lemma split_div a b k : k <> 0 -> b < k -> (a * k + b) / k = a.
Proof.
  intros Hk Hb. rewrite N.add_comm, N.div_add by exact Hk. rewrite (N.div_small b k Hb). lia.
Qed.

Lemma split_mod a b k : k <> 0 -> b < k -> (a * k + b) mod k = b.
Proof.
  intros Hk Hb. rewrite N.add_comm, N.mod_add by exact Hk. apply N.mod_small. exact Hb.
Qed.

Lemma rejoin x k : k <> 0 -> x / k * k + x mod k = x.
Proof. intro Hk. pose proof (N.div_mod x k Hk). lia. Qed.

Lemma groups_sextets b : bytes_ok b -> b64_groups (sextets b) = Some b.
Proof.
  induction b as [| x | x y | x y z r IH] using list_ind3; intro H; cbn [sextets b64_groups].
  - reflexivity.
  - replace ((x mod 4) * 16 / 16) with (x mod 4) by (rewrite N.div_mul; lia).
    rewrite rejoin by lia. reflexivity.
  - inversion H as [|? ? Hx H']; subst. inversion H' as [|? ? Hy _]; subst. unfold is_byte in *.
    pose proof (div_lt y 16 16 ltac:(lia) ltac:(lia)) as Hy16.
    rewrite (split_div (x mod 4) (y / 16) 16) by lia.
    rewrite (split_mod (x mod 4) (y / 16) 16) by lia.
    replace ((y mod 16) * 4 / 4) with (y mod 16) by (rewrite N.div_mul; lia).
    rewrite !rejoin by lia. reflexivity.
  - inversion H as [|? ? Hx H']; subst. inversion H' as [|? ? Hy H'']; subst.
    inversion H'' as [|? ? Hz Hr]; subst. unfold is_byte in *.
    pose proof (div_lt y 16 16 ltac:(lia) ltac:(lia)) as Hy16.
    pose proof (div_lt z 64 4 ltac:(lia) ltac:(lia)) as Hz64.
    rewrite (IH Hr).
    rewrite (split_div (x mod 4) (y / 16) 16) by lia.
    rewrite (split_mod (x mod 4) (y / 16) 16) by lia.
    rewrite (split_div (y mod 16) (z / 64) 4) by lia.
    rewrite (split_mod (y mod 16) (z / 64) 4) by lia.
    rewrite !rejoin by lia. reflexivity.
Qed.

(* ---- round trip ---- *)
Lemma decode_encode url b : bytes_ok b -> b64_decode url (b64_encode url b) = Some b.
Proof.
  intro H. unfold b64_decode. rewrite encode_sextets, (vals_map_enc url _ (sextets_lt b H)).
  apply groups_sextets. exact H.
Qed.

Lemma mem_byte_map_false c (f : N -> N) vs :
  Forall (fun v => (f v =? c) = false) vs -> mem_byte c (map f vs) = false.
Proof.
  induction 1 as [|v vs Hv _ IH]; [reflexivity|]. cbn [map mem_byte]. rewrite Hv, IH. reflexivity.
Qed.

Lemma std_text_has_no_url_char b :
  bytes_ok b -> mem_byte 45 (b64_encode false b) || mem_byte 95 (b64_encode false b) = false.
Proof.
  intro H. rewrite encode_sextets. pose proof (sextets_lt b H) as L.
  rewrite (mem_byte_map_false 45), (mem_byte_map_false 95); [reflexivity| |];
    (eapply Forall_impl; [|exact L]); intros v Hv; apply (std_char_not_url v Hv).
Qed.

Lemma base64bytes_decode_encode b : bytes_ok b -> base64bytes_decode (base64bytes_encode b) = Some b.
Proof.
  intro H. unfold base64bytes_decode, base64bytes_encode.
  rewrite (std_text_has_no_url_char b H). apply decode_encode. exact H.
Qed.

(* the two decoders agree on texts that use none of the four alphabet-specific characters *)
Lemma dec_char_common c :
  (c =? 43) = false -> (c =? 47) = false -> (c =? 45) = false -> (c =? 95) = false ->
  b64_dec_char false c = b64_dec_char true c.
Proof.
  intros A B C D. unfold b64_dec_char. cbn [negb]. rewrite A, B, C, D. reflexivity.
Qed.

Lemma vals_common s :
  mem_byte 43 s = false -> mem_byte 47 s = false -> mem_byte 45 s = false -> mem_byte 95 s = false ->
  b64_vals false s = b64_vals true s.
Proof.
  induction s as [|c r IH]; [reflexivity|]. cbn [mem_byte b64_vals]. intros A B C D.
  apply orb_false_iff in A as [A1 A2]. apply orb_false_iff in B as [B1 B2].
  apply orb_false_iff in C as [C1 C2]. apply orb_false_iff in D as [D1 D2].
  rewrite (dec_char_common c) by assumption.
  rewrite (IH A2 B2 C2 D2). reflexivity.
Qed.

Lemma url_text_has_no_std_char b :
  bytes_ok b -> mem_byte 43 (b64_encode true b) = false /\ mem_byte 47 (b64_encode true b) = false.
Proof.
  intro H. rewrite encode_sextets. pose proof (sextets_lt b H) as L.
  split; apply mem_byte_map_false; (eapply Forall_impl; [|exact L]); intros v Hv;
    apply (url_char_not_std v Hv).
Qed.

Lemma base64bytes_decode_url_text b :
  bytes_ok b -> base64bytes_decode (b64_encode true b) = Some b.
Proof.
  intro H. unfold base64bytes_decode.
  destruct (mem_byte 45 (b64_encode true b) || mem_byte 95 (b64_encode true b)) eqn:E.
  - apply decode_encode. exact H.
  - apply orb_false_iff in E as [E1 E2]. destruct (url_text_has_no_std_char b H) as [F1 F2].
    unfold b64_decode. rewrite (vals_common _ F1 F2 E1 E2).
    apply (decode_encode true b H).
Qed.

(* decoded values are byte strings *)
Lemma vals_lt url s vs : b64_vals url s = Some vs -> Forall (fun v => v < 64) vs.
Proof.
  revert vs; induction s as [|c r IH]; intros vs H; cbn [b64_vals] in H.
  - inversion H. constructor.
  - destruct ((c =? 10) || (c =? 13)); [apply IH; exact H|].
    destruct (b64_dec_char url c) as [v|] eqn:E; [|discriminate].
    destruct (b64_vals url r) as [vs'|]; [|discriminate]. inversion H; subst.
    constructor; [eapply dec_char_lt; eauto | apply IH; reflexivity].
Qed.

Lemma list_ind4 (P : list N -> Prop) :
  P [] -> (forall a, P [a]) -> (forall a b, P [a; b]) -> (forall a b c, P [a; b; c]) ->
  (forall a b c d r, P r -> P (a :: b :: c :: d :: r)) -> forall l, P l.
Proof.
  intros H0 H1 H2 H3 H4 l.
  assert (H : P l /\ (forall x, P (x :: l)) /\ (forall x y, P (x :: y :: l))
              /\ (forall x y z, P (x :: y :: z :: l))).
  { induction l as [|a l IH].
    - auto.
    - destruct IH as (I0 & I1 & I2 & I3). repeat split; auto. }
  apply H.
Qed.

Lemma groups_bytes_ok : forall vs b,
  Forall (fun v => v < 64) vs -> b64_groups vs = Some b -> bytes_ok b.
Proof.
  assert (Q : forall a b, a < 64 -> b < 64 -> a * 4 + b / 16 < 256).
  { intros a b Ha Hb. pose proof (div_lt b 16 4 ltac:(lia) ltac:(lia)). lia. }
  assert (R : forall b c, c < 64 -> (b mod 16) * 16 + c / 4 < 256).
  { intros b c Hc. pose proof (mod_lt' b 16 ltac:(lia)).
    pose proof (div_lt c 4 16 ltac:(lia) ltac:(lia)). lia. }
  assert (S : forall c d, d < 64 -> (c mod 4) * 64 + d < 256).
  { intros c d Hd. pose proof (mod_lt' c 4 ltac:(lia)). lia. }
  intro vs. induction vs as [| a | a b | a b c | a b c d r IH] using list_ind4; intros out L H.
  - inversion H. constructor.
  - discriminate.
  - cbn in H. inversion H; subst. inversion L as [|? ? La L']; subst.
    inversion L' as [|? ? Lb _]; subst. repeat constructor. apply Q; assumption.
  - cbn in H. inversion H; subst.
    inversion L as [|? ? La L']; subst. inversion L' as [|? ? Lb L'']; subst.
    inversion L'' as [|? ? Lc _]; subst.
    repeat constructor; [apply Q | apply R]; assumption.
  - cbn [b64_groups] in H.
    inversion L as [|? ? La L']; subst. inversion L' as [|? ? Lb L'']; subst.
    inversion L'' as [|? ? Lc L3]; subst. inversion L3 as [|? ? Ld Lr]; subst.
    destruct (b64_groups r) as [t|] eqn:E; [|discriminate]. inversion H; subst.
    constructor; [apply Q; assumption|]. constructor; [apply R; assumption|].
    constructor; [apply S; assumption|]. apply (IH t Lr eq_refl).
Qed.

Lemma decode_bytes_ok url s b : b64_decode url s = Some b -> bytes_ok b.
Proof.
  unfold b64_decode. destruct (b64_vals url s) as [vs|] eqn:E; [|discriminate].
  intro H. eapply groups_bytes_ok; [eapply vals_lt; exact E | exact H].
Qed.

(* whatever Decode returns re-encodes to a text that decodes to the same value *)
Lemma base64bytes_value_stable s b :
  base64bytes_decode s = Some b -> base64bytes_decode (base64bytes_encode b) = Some b.
Proof.
  intro H. apply base64bytes_decode_encode. unfold base64bytes_decode in H.
  eapply decode_bytes_ok. exact H.
Qed.
