(* C17 model helpers: character classes, splitting.  Executable definitions only. *)
From Verif Require Import Lib.Bytes.
Open Scope N_scope.

Definition ch_colon : N := 58.
Definition ch_dot : N := 46.
Definition ch_lbr : N := 91.
Definition ch_rbr : N := 93.

Definition is_lower (c : N) : bool := (97 <=? c) && (c <=? 122).
Definition is_upper (c : N) : bool := (65 <=? c) && (c <=? 90).
Definition is_hex (c : N) : bool :=
  is_digit c || ((97 <=? c) && (c <=? 102)) || ((65 <=? c) && (c <=? 70)).

Definition hex_value (c : N) : N :=
  if is_digit c then c - 48 else if (97 <=? c) then c - 87 else c - 55.

Definition len (s : bytes) : N := N.of_nat (length s).

Definition is_nil (s : bytes) : bool := match s with [] => true | _ => false end.

(* strings.Split(s, c) for a one-byte separator: always a non-empty list of fields *)
Fixpoint split_on (c : N) (s : bytes) : list bytes :=
  match s with
  | [] => [[]]
  | x :: r =>
      if x =? c then [] :: split_on c r
      else match split_on c r with
           | f :: fs => (x :: f) :: fs
           | [] => [[x]]
           end
  end.

(* strings.Cut(s, c): at the FIRST occurrence (= Lib.Bytes.split_at) *)
Definition cut_first (c : N) (s : bytes) : option (bytes * bytes) := split_at c s.

(* split at the LAST occurrence of c (strings.LastIndex) *)
Fixpoint cut_last (c : N) (s : bytes) : option (bytes * bytes) :=
  match s with
  | [] => None
  | x :: r =>
      match cut_last c r with
      | Some (a, b) => Some (x :: a, b)
      | None => if x =? c then Some ([], r) else None
      end
  end.

Fixpoint mem_byte (c : N) (s : bytes) : bool :=
  match s with [] => false | x :: r => (x =? c) || mem_byte c r end.

Fixpoint last_byte (s : bytes) : option N :=
  match s with
  | [] => None
  | [x] => Some x
  | _ :: r => last_byte r
  end.

(* all but the last byte *)
Fixpoint but_last (s : bytes) : bytes :=
  match s with
  | [] => []
  | [x] => []
  | x :: r => x :: but_last r
  end.

Fixpoint all_hex_groups {A} (f : bytes -> option A) (l : list bytes) : option (list A) :=
  match l with
  | [] => Some []
  | x :: l' => match f x, all_hex_groups f l' with
               | Some v, Some vs => Some (v :: vs)
               | _, _ => None
               end
  end.
