(* C17 proofs: the parsers accept exactly the grammar plus the named departures. *)
From Verif Require Import Lib.Bytes Ident.Chars Ident.ServerName Ident.Ids Ident.Strict.
Open Scope N_scope.

Lemma leb_false_ltb a b : (a <=? b) = false -> (b <? a) = true.
Proof. intro H. apply N.leb_gt in H. apply N.ltb_lt. exact H. Qed.
Lemma leb_true_ltb a b : (a <=? b) = true -> (b <? a) = false.
Proof. intro H. apply N.leb_le in H. apply N.ltb_ge. exact H. Qed.

Lemma sn_accept_cases s :
  sn_accept s = true <-> sn_strict s = true \/ sn_departure s <> [].
Proof.
  unfold sn_accept, sn_strict, sn_departure.
  destruct (sn_parse s) as [[[h p] k]|].
  - split; [intros _|reflexivity].
    destruct k; try (right; discriminate); try (left; reflexivity);
      (destruct (len h <=? 255) eqn:E; [left; reflexivity|right; rewrite (leb_false_ltb _ _ E); discriminate]).
  - split; [discriminate|]. intros [H|H]; [discriminate|contradiction].
Qed.

Lemma user_parse_domain hist s l d : user_id_parse hist s = Some (l, d) -> sn_accept d = true.
Proof.
  unfold user_id_parse. destruct ((len s <? 4) || (255 <? len s)); [discriminate|].
  destruct s as [|c rest]; [discriminate|]. destruct (negb (c =? user_sigil)); [discriminate|].
  destruct (cut_first ch_colon rest) as [[l' d']|]; [|discriminate].
  destruct (sn_accept d') eqn:E; [|discriminate]. cbn [negb].
  destruct (if hist then historical_localpart l' else strict_localpart l'); [|discriminate].
  intro H; inversion H; subst. exact E.
Qed.

Lemma user_accept_cases hist s :
  (exists p, user_id_parse hist s = Some p) <-> user_strict hist s = true \/ user_departure hist s <> [].
Proof.
  unfold user_strict, user_departure. destruct (user_id_parse hist s) as [[l d]|] eqn:E.
  - split; [intros _|eauto]. destruct (is_nil l); [right; discriminate|].
    rewrite andb_true_r. apply sn_accept_cases. eapply user_parse_domain; eauto.
  - split; [intros [p H]; discriminate|]. intros [H|H]; [discriminate|contradiction].
Qed.

Lemma room_parse_domain s o d : room_id_parse s = Some (o, Some d) -> sn_accept d = true.
Proof.
  unfold room_id_parse. destruct (len s <? 4); [discriminate|].
  destruct s as [|c rest]; [discriminate|]. destruct (negb (c =? room_sigil)); [discriminate|].
  destruct (negb (mem_byte ch_colon (c :: rest))).
  - destruct (domainless_opaque rest); discriminate.
  - destruct (cut_first ch_colon rest) as [[o' d']|]; [|discriminate].
    destruct (sn_accept d') eqn:E; [|discriminate]. cbn [negb]. destruct (is_nil o'); [discriminate|].
    intro H; inversion H; subst. exact E.
Qed.

Lemma room_accept_cases s :
  (exists p, room_id_parse s = Some p) <-> room_strict s = true \/ room_departure s <> [].
Proof.
  unfold room_strict, room_departure. destruct (room_id_parse s) as [[o [d|]]|] eqn:E.
  - split; [intros _|eauto]. pose proof (room_parse_domain s o d E) as A.
    apply sn_accept_cases in A as [A|A].
    + rewrite A. cbn [andb]. destruct (sn_departure d) eqn:Ed.
      * destruct (len s <=? 255) eqn:El; [left; reflexivity|right].
        rewrite (leb_false_ltb _ _ El). discriminate.
      * right. discriminate.
    + right. destruct (sn_departure d); [contradiction|discriminate].
  - split; [intros _; left; reflexivity|eauto].
  - split; [intros [p H]; discriminate|]. intros [H|H]; [discriminate|contradiction].
Qed.
