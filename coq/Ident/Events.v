(* C17 model: the size / length checks an event goes through on receipt
   (newEventFromUntrustedJSONV1/V2/V3 then CheckFields) and on build (EventBuilder.Build ->
   NewEventFromTrustedJSON -> CheckFields), as far as the verdict class is concerned.
   Executable definitions only.

   Preconditions under which [receive] describes NewEventFromUntrustedJSON (the harness generates
   such events; they are not part of the claim): the input is canonical JSON, has none of the keys
   the parser deletes (outlier, destinations, age_ts, unsigned, event_id for formats 2/3) and no
   key starting with an underscore, its content hash is right (so the event is not replaced by
   its redacted form), and the fields other than the four limited ones have their JSON types. *)
From Verif Require Import Lib.Bytes Ident.Chars Ident.Limits Ident.Versions Ident.ServerName Ident.Ids Json.Ast Json.Parse.
Open Scope N_scope.

Definition verdict_text (v : verdict) : bytes :=
  match v with
  | VOk => bs "ok"
  | VTooLarge true => bs "toolarge-persistable"
  | VTooLarge false => bs "toolarge"
  | VErr => bs "err"
  end.

Definition m_room_create : bytes := bs "m.room.create".

(* the room-ID check made when the event struct is filled: checkID for eventV1 / eventV2,
   checkRoomID (sigil, validity, length; skipped for the create event) for eventV3; in both
   cases a room ID that spec.NewRoomID refuses is refused (repair of F9), and a room ID that
   exceeds only the byte limit does not stop parsing (notOnlyTooManyBytes): CheckFields reports
   it, with the event *)
Definition room_valid (room : bytes) : bool :=
  match room_id_parse room with Some _ => true | None => false end.
Definition not_only_too_many_bytes (v : verdict) : verdict :=
  match v with VTooLarge true => VOk | e => e end.
Definition is_create_v3 (type : bytes) (state_key : option bytes) : bool :=
  bytes_eqb type m_room_create && match state_key with Some k => is_nil k | None => false end.
Definition check_room (struct : N) (type : bytes) (state_key : option bytes) (room : bytes) : verdict :=
  if struct =? 3 then
    if is_create_v3 type state_key then VOk
    else match room with
         | c :: _ => if c =? 33 then (if room_valid room then not_only_too_many_bytes (check_id_length room) else VErr) else VErr
         | [] => VErr
         end
  else match not_only_too_many_bytes (check_id room 33) with
       | VOk => if room_valid room then VOk else VErr
       | e => e
       end.

(* what RoomID() returns: for the create event of an eventV3 the room ID is derived from the
   event ID ('!' and the 43 base64 characters of the reference hash) *)
Definition derived_room_id : bytes := 33 :: repeat 65 43.
Definition room_id_of (struct : N) (type : bytes) (state_key : option bytes) (room : bytes) : bytes :=
  if (struct =? 3) && is_create_v3 type state_key then derived_room_id else room.

(* the room-ID check, then CheckFields *)
Definition event_checks (struct : N) (v : bytes) (refs_nil : bool) (json_len : N) (type : bytes)
    (state_key : option bytes) (sender room : bytes) : verdict :=
  match check_room struct type state_key room with
  | VOk => check_fields v refs_nil json_len type state_key sender (room_id_of struct type state_key room)
  | e => e
  end.

(* string-typed member: absent or null -> empty string; another type -> unmarshal error *)
Definition str_member (k : bytes) (j : json) : option bytes :=
  match jget k j with
  | None => Some []
  | Some JNull => Some []
  | Some (JStr s) => Some s
  | Some _ => None
  end.

Definition opt_str_member (k : bytes) (j : json) : option (option bytes) :=
  match jget k j with
  | None => Some None
  | Some JNull => Some None
  | Some (JStr s) => Some (Some s)
  | Some _ => None
  end.

Definition member_nil (k : bytes) (j : json) : bool :=
  match jget k j with
  | None => true
  | Some JNull => true
  | Some _ => false
  end.

(* AuthEventIDs() == nil || PrevEventIDs() == nil, per event struct *)
Definition refs_nil (struct : N) (j : json) : bool :=
  if struct =? 1 then false
  else if struct =? 2 then member_nil (bs "auth_events") j || member_nil (bs "prev_events") j
  else member_nil (bs "prev_events") j.

Definition receive (t : vtable) (v : bytes) (text : bytes) : verdict :=
  match ver_entry t v with
  | None => VErr
  | Some _ =>
    let struct := untrusted_struct t v in
    match parse_json text with
    | Some (JObj m) =>
        let j := JObj m in
        match str_member (bs "type") j, opt_str_member (bs "state_key") j,
              str_member (bs "sender") j, str_member (bs "room_id") j with
        | Some type, Some sk, Some sender, Some room =>
            event_checks struct v (refs_nil struct j) (len text) type sk sender room
        | _, _, _, _ => VErr
        end
    | _ => VErr
    end
  end.

(* EventBuilder.Build with string-array or nil prev/auth events; [json_len] is the length of the
   signed event JSON (unknown to the model: signatures and hashes) *)
Definition build (t : vtable) (v : bytes) (type : bytes) (state_key : option bytes)
    (sender room : bytes) (json_len : N) : verdict :=
  match ver_entry t v with
  | None => VErr
  | Some _ =>
    if domainless t v && bytes_eqb type m_room_create
       && match state_key with Some _ => true | None => false end && negb (is_nil room)
    then VErr
    else
      event_checks (trusted_struct t v) v false json_len type state_key sender room
  end.
