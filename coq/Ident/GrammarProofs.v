(* C17 proofs: the strict deciders of Ident/Strict.v decide the grammars of Ident/GrammarSpec.v,
   the IPv6 literal grammar being [ip6_model] here (what the IPv6 branch of the net.ParseIP model
   accepts); Ident/Ipv6Proofs.v shows that this is the RFC text grammar IPv6Lit. *)
From Verif Require Import Lib.Bytes Ident.Chars Ident.ServerName Ident.Ids Ident.Strict
  Ident.SplitFacts Ident.GrammarSpec.
Open Scope N_scope.

Definition ip6_model (a : bytes) : Prop := exists l, parse_ip a = Some (IP6 l).

(* ---- character classes ---- *)
Lemma is_digit_iff c : is_digit c = true <-> digit c.
Proof. unfold is_digit, digit. rewrite andb_true_iff, !N.leb_le. tauto. Qed.
Lemma is_upper_iff c : is_upper c = true <-> upper c.
Proof. unfold is_upper, upper. rewrite andb_true_iff, !N.leb_le. tauto. Qed.
Lemma is_lower_iff c : is_lower c = true <-> lower c.
Proof. unfold is_lower, lower. rewrite andb_true_iff, !N.leb_le. tauto. Qed.

Lemma is_dns_char_iff c : is_dns_char c = true <-> dns_char c.
Proof.
  unfold is_dns_char, dns_char, ch_dot.
  rewrite !orb_true_iff, is_upper_iff, is_lower_iff, is_digit_iff, !N.eqb_eq. tauto.
Qed.

Lemma is_local_char_iff c : is_local_char c = true <-> local_char c.
Proof.
  unfold is_local_char, local_char.
  rewrite !orb_true_iff, is_lower_iff, is_digit_iff, !N.eqb_eq. tauto.
Qed.

Lemma is_b64url_char_iff c : is_b64url_char c = true <-> b64url_char c.
Proof.
  unfold is_b64url_char, b64url_char.
  rewrite !orb_true_iff, is_upper_iff, is_lower_iff, is_digit_iff, !N.eqb_eq. tauto.
Qed.

Lemma forallb_iff (f : N -> bool) (P : N -> Prop) s :
  (forall c, f c = true <-> P c) -> (forallb f s = true <-> Forall P s).
Proof.
  intro H. rewrite forallb_forall, Forall_forall. split; intros A x Hx; apply H, A, Hx.
Qed.

Lemma is_nil_false s : is_nil s = false <-> s <> [].
Proof. destruct s; cbn; split; congruence. Qed.

Lemma len_le s n : (len s <=? N.of_nat n) = true <-> (length s <= n)%nat.
Proof. unfold len. rewrite N.leb_le. lia. Qed.

(* ---- decimal numerals ---- *)
Lemma parse_dec_acc_iff s : forall acc n,
  parse_dec_acc acc s = Some n <-> Forall digit s /\ n = dec_value acc s.
Proof.
  induction s as [|c r IH]; intros acc n; cbn [parse_dec_acc dec_value].
  - split; [intro H; inversion H; split; [constructor|reflexivity]|intros [_ ->]; reflexivity].
  - destruct (is_digit c) eqn:E.
    + rewrite IH. apply is_digit_iff in E. split.
      * intros [A B]. split; [constructor; assumption|assumption].
      * intros [A B]. inversion A; subst. split; [assumption|reflexivity].
    + split; [discriminate|]. intros [A _]. inversion A as [|? ? Hc _]; subst.
      apply is_digit_iff in Hc. congruence.
Qed.

Lemma parse_dec_iff s n : parse_dec s = Some n <-> Numeral s /\ n = dec_value 0 s.
Proof.
  unfold parse_dec, Numeral. destruct s as [|c r].
  - split; [discriminate|]. intros [[A _] _]. contradiction.
  - rewrite parse_dec_acc_iff. split; [intros [A B]; repeat split; [discriminate|assumption..]|].
    intros [[_ A] B]. split; assumption.
Qed.

Lemma parse_port_iff p : (exists n, parse_port p = Some n) <-> Port p.
Proof.
  unfold parse_port, Port. split.
  - intros [n H]. destruct (5 <? len p) eqn:L5; [discriminate|].
    destruct (parse_dec p) as [m|] eqn:E; [|discriminate].
    apply parse_dec_iff in E as [A ->].
    destruct (dec_value 0 p <=? 65535) eqn:L; [|discriminate]. apply N.leb_le in L.
    apply N.ltb_ge in L5. unfold len in L5. repeat split; try assumption; try apply A. lia.
  - intros (A & L5 & L). exists (dec_value 0 p).
    assert (E5 : (5 <? len p) = false) by (apply N.ltb_ge; unfold len; lia). rewrite E5.
    assert (E : parse_dec p = Some (dec_value 0 p)) by (apply parse_dec_iff; auto).
    rewrite E. apply N.leb_le in L. rewrite L. reflexivity.
Qed.

Lemma digits_no_colon p : Forall digit p -> mem_byte 58 p = false.
Proof. intro H. apply (forall_not_mem digit); [exact H|]. unfold digit. lia. Qed.

Lemma dns_no_colon h : Forall dns_char h -> mem_byte 58 h = false.
Proof. intro H. apply (forall_not_mem dns_char); [exact H|]. unfold dns_char, digit, upper, lower. lia. Qed.

(* ---- first_special / parse_ip ---- *)
Lemma first_special_colon_mem s : first_special s = Some 58 -> mem_byte 58 s = true.
Proof.
  induction s as [|c r IH]; cbn; [discriminate|].
  destruct ((c =? ch_dot) || (c =? ch_colon) || (c =? 37)) eqn:E.
  - intro H. inversion H; subst. reflexivity.
  - intro H. rewrite (IH H). apply orb_true_r.
Qed.

Lemma ip6_has_colon a : ip6_model a -> mem_byte 58 a = true.
Proof.
  intros [l H]. unfold parse_ip in H. destruct (first_special a) as [c|] eqn:E; [|discriminate].
  destruct (c =? ch_dot) eqn:E1.
  { destruct (ipv4_fields a) as [[[[? ?] ?] ?]|]; discriminate. }
  destruct (c =? ch_colon) eqn:E2; [|discriminate].
  apply N.eqb_eq in E2. subst. apply first_special_colon_mem. exact E.
Qed.

Lemma parse_ip_not_v6_without_colon h l : mem_byte 58 h = false -> parse_ip h <> Some (IP6 l).
Proof.
  intros H E. assert (A : ip6_model h) by (exists l; exact E).
  apply ip6_has_colon in A. congruence.
Qed.

(* ---- IPv4 literals are DNS names ---- *)
Lemma digit_dns c : digit c -> dns_char c.
Proof. unfold dns_char. tauto. Qed.

Lemma ipv4lit_dns h : IPv4Lit h -> DnsName h.
Proof.
  intros (a & b & c & d & [[Na Da] La] & [[Nb Db] Lb] & [[Nc Dc] Lc] & [[Nd Dd] Ld] & ->).
  assert (dot : dns_char 46) by (unfold dns_char; tauto).
  repeat split.
  - destruct a; [contradiction|discriminate].
  - assert (dd : forall x, Forall digit x -> Forall dns_char x).
    { intros x Hx. eapply Forall_impl; [|exact Hx]. intros y Hy. apply digit_dns. exact Hy. }
    apply Forall_app. split; [apply dd; exact Da|]. constructor; [exact dot|].
    apply Forall_app. split; [apply dd; exact Db|]. constructor; [exact dot|].
    apply Forall_app. split; [apply dd; exact Dc|]. constructor; [exact dot|].
    apply dd; exact Dd.
  - repeat (rewrite app_length; cbn [length]). lia.
Qed.

(* what the model's IPv4 reader accepts consists of digits and dots *)
Lemma ipv4_octet_digits f n : ipv4_octet f = Some n -> Forall digit f.
Proof.
  unfold ipv4_octet. destruct f as [|c r]; [discriminate|].
  destruct ((c =? 48) && negb (is_nil r)); [discriminate|].
  destruct (parse_dec (c :: r)) as [m|] eqn:E; [|discriminate]. intros _.
  apply parse_dec_iff in E as [[_ A] _]. exact A.
Qed.

Lemma ipv4_fields_dns s q : ipv4_fields s = Some q -> Forall dns_char s.
Proof.
  unfold ipv4_fields. intro H.
  apply (forall_of_fields dns_char ch_dot); [unfold dns_char, ch_dot; tauto|].
  destruct (split_on ch_dot s) as [|a [|b [|c [|d [|e l]]]]]; try discriminate.
  destruct (ipv4_octet a) eqn:Ea; [|discriminate]. destruct (ipv4_octet b) eqn:Eb; [|discriminate].
  destruct (ipv4_octet c) eqn:Ec; [|discriminate]. destruct (ipv4_octet d) eqn:Ed; [|discriminate].
  repeat constructor;
    (eapply Forall_impl; [intros x Hx; apply digit_dns; exact Hx|eapply ipv4_octet_digits; eauto]).
Qed.

Lemma parse_ip_v4_dns h a b c d : parse_ip h = Some (IP4 a b c d) -> Forall dns_char h.
Proof.
  unfold parse_ip. destruct (first_special h) as [x|]; [|discriminate].
  destruct (x =? ch_dot).
  - destruct (ipv4_fields h) as [q|] eqn:E; [|discriminate]. intros _. eapply ipv4_fields_dns; eauto.
  - destruct (x =? ch_colon); [|discriminate]. destruct (parse_ipv6 h); discriminate.
Qed.

(* ---- host kinds ---- *)
Lemma host_kind_dns_like h :
  h <> [] -> Forall dns_char h ->
  host_kind_of h = Some HDns \/ host_kind_of h = Some HV4.
Proof.
  intros Hn Hd. destruct h as [|c rest]; [contradiction|].
  unfold host_kind_of.
  assert (Hc : (c =? ch_lbr) = false).
  { apply N.eqb_neq. intro E. subst. inversion Hd as [|? ? A _]; subst.
    unfold dns_char, digit, upper, lower, ch_lbr in A. lia. }
  rewrite Hc.
  assert (Hall : forallb is_dns_char (c :: rest) = true)
    by (apply (forallb_iff _ _ _ is_dns_char_iff); exact Hd).
  destruct (parse_ip (c :: rest)) as [[a b c' d|l]|] eqn:E.
  - right. reflexivity.
  - exfalso. eapply parse_ip_not_v6_without_colon; [apply dns_no_colon; exact Hd|exact E].
  - left. rewrite Hall. reflexivity.
Qed.

Lemma host_kind_bracketed a : ip6_model a -> host_kind_of (91 :: a ++ [93]) = Some HBr6.
Proof.
  intros [l H]. unfold host_kind_of. change (91 =? ch_lbr) with true. cbn iota.
  change (91 :: a ++ [93]) with ((91 :: a) ++ [93]). rewrite last_byte_app.
  change (93 =? ch_rbr) with true. cbn iota. rewrite but_last_app, H. reflexivity.
Qed.

Lemma host_kind_sound h k :
  host_kind_of h = Some k ->
  match k with
  | HDns | HV4 => h <> [] /\ Forall dns_char h
  | HBr6 => exists a, ip6_model a /\ h = 91 :: a ++ [93]
  | HMapped | HBr4 => True
  end.
Proof.
  unfold host_kind_of. destruct h as [|c rest]; [discriminate|].
  destruct (c =? ch_lbr) eqn:Ec.
  - apply N.eqb_eq in Ec. subst c.
    destruct (last_byte (ch_lbr :: rest)) as [x|] eqn:El; [|discriminate].
    destruct (x =? ch_rbr) eqn:Ex; [|discriminate]. apply N.eqb_eq in Ex. subst x.
    destruct (parse_ip (but_last rest)) as [[? ? ? ?|l]|] eqn:Ep; intro H; inversion H; subst; [exact I|].
    exists (but_last rest). split; [exists l; exact Ep|].
    destruct rest as [|y r]; [cbn in El; inversion El|].
    assert (El' : last_byte (y :: r) = Some ch_rbr) by exact El.
    rewrite (last_byte_but_last _ _ El') at 1. reflexivity.
  - destruct (parse_ip (c :: rest)) as [[? ? ? ?|l]|] eqn:Ep.
    + intro H; inversion H; subst. split; [discriminate|eapply parse_ip_v4_dns; eauto].
    + destruct (is_v4_mapped l); [intro H; inversion H; subst; exact I|].
      destruct (forallb is_dns_char (c :: rest)) eqn:Ef; intro H; inversion H; subst.
      split; [discriminate|apply (forallb_iff _ _ _ is_dns_char_iff); exact Ef].
    + destruct (forallb is_dns_char (c :: rest)) eqn:Ef; intro H; inversion H; subst.
      split; [discriminate|apply (forallb_iff _ _ _ is_dns_char_iff); exact Ef].
Qed.

(* ---- splitServerName ---- *)
Lemma split_no_colon s : mem_byte 58 s = false -> split_server_name s = (s, None).
Proof. intro H. unfold split_server_name, ch_colon. rewrite (cut_last_not_mem _ _ H). reflexivity. Qed.

Lemma split_with_port h p :
  Port p -> exists n, split_server_name (h ++ 58 :: p) = (h, Some n).
Proof.
  intro Hp. destruct (proj2 (parse_port_iff p) Hp) as [n Hn]. exists n.
  unfold split_server_name. destruct Hp as [[_ Hd] _].
  unfold ch_colon. rewrite (cut_last_app 58 h p (digits_no_colon p Hd)). rewrite Hn. reflexivity.
Qed.

Lemma split_bracketed a : split_server_name (91 :: a ++ [93]) = (91 :: a ++ [93], None).
Proof.
  unfold split_server_name.
  destruct (cut_last ch_colon (91 :: a ++ [93])) as [[h p]|] eqn:E; [|reflexivity].
  destruct (parse_port p) as [n|] eqn:Ep; [|reflexivity]. exfalso.
  apply cut_last_some in E as [E _].
  assert (Hp : Port p) by (apply parse_port_iff; eauto). destruct Hp as [[Hne Hd] _].
  (* the last byte of the whole is the bracket, but the last byte of p is a digit *)
  assert (L : last_byte (91 :: a ++ [93]) = Some 93)
    by (change (91 :: a ++ [93]) with ((91 :: a) ++ [93]); apply last_byte_app).
  rewrite E in L.
  destruct p as [|x p'] using rev_ind; [contradiction|].
  replace (h ++ ch_colon :: p' ++ [x]) with ((h ++ ch_colon :: p') ++ [x]) in L
    by (rewrite <- app_assoc; reflexivity).
  rewrite last_byte_app in L. inversion L; subst.
  apply Forall_app in Hd as [_ Hx]. inversion Hx as [|? ? D _]; subst. unfold digit in D. lia.
Qed.

Lemma split_sound s h port :
  split_server_name s = (h, port) ->
  match port with
  | None => s = h
  | Some n => exists p, Port p /\ s = h ++ 58 :: p
  end.
Proof.
  unfold split_server_name. destruct (cut_last ch_colon s) as [[h' p]|] eqn:E.
  - destruct (parse_port p) as [n|] eqn:Ep; intro H; inversion H; subst; [|reflexivity].
    exists p. split; [apply parse_port_iff; eauto|]. apply cut_last_some in E as [E _]. exact E.
  - intro H; inversion H; subst. reflexivity.
Qed.

(* ---- server names ---- *)
Theorem sn_strict_iff s : sn_strict s = true <-> ServerNameG ip6_model s.
Proof.
  split.
  - unfold sn_strict, sn_parse. destruct s as [|c0 s0]; [discriminate|]. set (s := c0 :: s0).
    destruct (split_server_name s) as [h port] eqn:Es.
    destruct (host_kind_of h) as [k|] eqn:Ek; [|discriminate].
    pose proof (host_kind_sound h k Ek) as K. pose proof (split_sound s h port Es) as P.
    intro H.
    assert (Hh : Host ip6_model h).
    { destruct k; try discriminate.
      - destruct K as [K1 K2]. left. repeat split; try assumption.
        apply (len_le h 255). exact H.
      - destruct K as [K1 K2]. left. repeat split; try assumption.
        apply (len_le h 255). exact H.
      - right; right. exact K. }
    exists h. split; [exact Hh|]. destruct port as [n|]; [right; exact P|left; exact P].
  - intros (h & Hh & Hs).
    assert (Hk : (exists k, host_kind_of h = Some k /\
                   match k with HBr6 => True | HDns | HV4 => (len h <=? 255) = true | _ => False end)
                 /\ h <> []
                 /\ (mem_byte 58 h = false \/ exists a, h = 91 :: a ++ [93])).
    { destruct Hh as [D|[V|(a & Ha & ->)]].
      - destruct D as (D1 & D2 & D3).
        split; [|split; [exact D1|left; apply dns_no_colon; exact D2]].
        destruct (host_kind_dns_like h D1 D2) as [E|E]; eexists; (split; [exact E|]);
          apply (len_le h 255); exact D3.
      - apply ipv4lit_dns in V. destruct V as (D1 & D2 & D3).
        split; [|split; [exact D1|left; apply dns_no_colon; exact D2]].
        destruct (host_kind_dns_like h D1 D2) as [E|E]; eexists; (split; [exact E|]);
          apply (len_le h 255); exact D3.
      - split; [|split; [discriminate|right; eauto]].
        exists HBr6. split; [apply host_kind_bracketed; exact Ha|exact I]. }
    destruct Hk as ((k & Ek & Hlen) & Hne & Hshape).
    assert (Hsplit : exists port, split_server_name s = (h, port)).
    { destruct Hs as [->|(p & Hp & ->)].
      - destruct Hshape as [Hc|(a & ->)]; [exists None; apply split_no_colon; exact Hc|].
        exists None. apply split_bracketed.
      - destruct (split_with_port h p Hp) as [n Hn]. exists (Some n). exact Hn. }
    destruct Hsplit as [port Hsp].
    unfold sn_strict, sn_parse.
    assert (Hs0 : s <> []).
    { destruct Hs as [->|(p & _ & ->)]; [exact Hne|]. destruct h; discriminate. }
    destruct s as [|c0 s0]; [contradiction|]. rewrite Hsp, Ek.
    destruct k; try contradiction; try exact Hlen. reflexivity.
Qed.

Lemma sn_strict_accept s : sn_strict s = true -> sn_accept s = true.
Proof.
  unfold sn_strict, sn_accept. destruct (sn_parse s) as [[[h p] k]|]; [reflexivity|discriminate].
Qed.

Lemma server_name_nonempty s : ServerNameG ip6_model s -> s <> [].
Proof.
  intro H. apply sn_strict_iff in H. unfold sn_strict, sn_parse in H.
  destruct s; [discriminate|discriminate].
Qed.

(* ---- parts re-concatenate ---- *)
Lemma user_parts hist s l d : user_id_parse hist s = Some (l, d) -> s = 64 :: l ++ 58 :: d.
Proof.
  unfold user_id_parse. destruct ((len s <? 4) || (255 <? len s)); [discriminate|].
  destruct s as [|c rest]; [discriminate|].
  destruct (c =? user_sigil) eqn:Ec; [|discriminate]. apply N.eqb_eq in Ec. subst c. cbn [negb].
  destruct (cut_first ch_colon rest) as [[l' d']|] eqn:E; [|discriminate].
  destruct (sn_accept d'); [|discriminate]. cbn [negb].
  destruct (if hist then historical_localpart l' else strict_localpart l'); [|discriminate].
  intro H; inversion H; subst. apply cut_first_some in E as [-> _]. reflexivity.
Qed.

Lemma room_parts s o d :
  room_id_parse s = Some (o, d) ->
  match d with Some d' => s = 33 :: o ++ 58 :: d' | None => s = 33 :: o end.
Proof.
  unfold room_id_parse. destruct (len s <? 4); [discriminate|].
  destruct s as [|c rest]; [discriminate|].
  destruct (c =? room_sigil) eqn:Ec; [|discriminate]. apply N.eqb_eq in Ec. subst c. cbn [negb].
  destruct (mem_byte ch_colon (room_sigil :: rest)); cbn [negb].
  - destruct (cut_first ch_colon rest) as [[o' d']|] eqn:E; [|discriminate].
    destruct (sn_accept d'); [|discriminate]. cbn [negb]. destruct (is_nil o'); [discriminate|].
    intro H; inversion H; subst. apply cut_first_some in E as [-> _]. reflexivity.
  - destruct (domainless_opaque rest); [|discriminate]. intro H; inversion H; subst. reflexivity.
Qed.

Lemma server_name_parts s h port k :
  sn_parse s = Some (h, port, k) ->
  match port with
  | None => s = h
  | Some n => exists p, parse_port p = Some n /\ s = h ++ 58 :: p
  end.
Proof.
  unfold sn_parse. destruct s as [|c0 s0]; [discriminate|]. set (s := c0 :: s0).
  destruct (split_server_name s) as [h' port'] eqn:Es.
  destruct (host_kind_of h'); [|discriminate]. intro H; inversion H; subst.
  unfold split_server_name in Es. destruct (cut_last ch_colon s) as [[a p]|] eqn:E.
  - destruct (parse_port p) as [n|] eqn:Ep; inversion Es; subst; [|reflexivity].
    exists p. split; [exact Ep|]. apply cut_last_some in E as [E _]. exact E.
  - inversion Es; subst. reflexivity.
Qed.

(* ---- user IDs ---- *)
Lemma len_cons_app l d : len (64 :: l ++ 58 :: d) = 2 + len l + len d.
Proof. unfold len. cbn [length]. rewrite app_length. cbn [length]. lia. Qed.

Theorem user_strict_iff hist s : user_strict hist s = true <-> UserIdG ip6_model hist s.
Proof.
  split.
  - unfold user_strict. destruct (user_id_parse hist s) as [[l d]|] eqn:E; [|discriminate].
    intro H. apply andb_true_iff in H as [Hd Hl].
    pose proof (user_parts hist s l d E) as Hs.
    exists l, d. unfold user_id_parse in E.
    destruct ((len s <? 4) || (255 <? len s)) eqn:El; [discriminate|].
    apply orb_false_iff in El as [_ El]. apply N.ltb_ge in El.
    destruct s as [|c rest]; [discriminate|].
    destruct (c =? user_sigil); [|discriminate]. cbn [negb] in E.
    destruct (cut_first ch_colon rest) as [[l' d']|] eqn:Ec; [|discriminate].
    destruct (sn_accept d'); [|discriminate]. cbn [negb] in E.
    destruct (if hist then historical_localpart l' else strict_localpart l') eqn:Eloc; [|discriminate].
    inversion E; subst l' d'. apply cut_first_some in Ec as [_ Hm].
    repeat split.
    + exact Hs.
    + apply is_nil_false. destruct (is_nil l); [discriminate|reflexivity].
    + intro Hin. apply mem_byte_true_In in Hin. unfold ch_colon in Hm. congruence.
    + intros ->. unfold strict_localpart in Eloc. apply andb_true_iff in Eloc as [_ A].
      apply (forallb_iff _ _ _ is_local_char_iff). exact A.
    + apply sn_strict_iff. exact Hd.
    + unfold len in El. lia.
  - intros (l & d & -> & Hl & Hnc & Hloc & Hd & Hlen).
    pose proof (server_name_nonempty d Hd) as Hdn.
    apply sn_strict_iff in Hd.
    unfold user_strict, user_id_parse.
    assert (L1 : (len (64 :: l ++ 58 :: d) <? 4) = false).
    { apply N.ltb_ge. rewrite len_cons_app. unfold len.
      destruct l; [contradiction|]. destruct d; [contradiction|]. cbn [length]. lia. }
    assert (L2 : (255 <? len (64 :: l ++ 58 :: d)) = false).
    { apply N.ltb_ge. unfold len. lia. }
    rewrite L1, L2. cbn [orb]. change (64 =? user_sigil) with true. cbn [negb].
    assert (Hm : mem_byte ch_colon l = false).
    { destruct (mem_byte ch_colon l) eqn:E; [|reflexivity].
      apply mem_byte_true_In in E. contradiction. }
    unfold ch_colon in *. rewrite (cut_first_app 58 l d Hm), (sn_strict_accept d Hd). cbn [negb].
    assert (Eloc : (if hist then historical_localpart l else strict_localpart l) = true).
    { destruct hist; [reflexivity|]. unfold strict_localpart.
      apply andb_true_iff. split; [apply is_nil_false in Hl; rewrite Hl; reflexivity|].
      apply (forallb_iff _ _ _ is_local_char_iff). apply Hloc. reflexivity. }
    rewrite Eloc, Hd. apply is_nil_false in Hl. rewrite Hl. reflexivity.
Qed.

(* ---- room IDs ---- *)
Theorem room_strict_iff s : room_strict s = true <-> RoomIdG ip6_model s.
Proof.
  split.
  - unfold room_strict. destruct (room_id_parse s) as [[o [d|]]|] eqn:E; [| |discriminate].
    + intro H. apply andb_true_iff in H as [Hd Hlen]. left.
      pose proof (room_parts s o (Some d) E) as Hs. exists o, d.
      unfold room_id_parse in E. destruct (len s <? 4); [discriminate|].
      destruct s as [|c rest]; [discriminate|].
      destruct (c =? room_sigil); [|discriminate]. cbn [negb] in E.
      destruct (mem_byte ch_colon (c :: rest)); cbn [negb] in E.
      * destruct (cut_first ch_colon rest) as [[o' d']|] eqn:Ec; [|discriminate].
        destruct (sn_accept d'); [|discriminate]. cbn [negb] in E.
        destruct (is_nil o') eqn:En; [discriminate|]. inversion E; subst o' d'.
        apply cut_first_some in Ec as [_ Hm].
        repeat split.
        -- exact Hs.
        -- apply is_nil_false. exact En.
        -- intro Hin. apply mem_byte_true_In in Hin. unfold ch_colon in Hm. congruence.
        -- apply sn_strict_iff. exact Hd.
        -- apply (len_le _ 255). exact Hlen.
      * destruct (domainless_opaque rest); discriminate.
    + intros _. right. pose proof (room_parts s o None E) as Hs. exists o.
      unfold room_id_parse in E. destruct (len s <? 4); [discriminate|].
      destruct s as [|c rest]; [discriminate|].
      destruct (c =? room_sigil); [|discriminate]. cbn [negb] in E.
      destruct (mem_byte ch_colon (c :: rest)); cbn [negb] in E.
      * destruct (cut_first ch_colon rest) as [[o' d']|]; [|discriminate].
        destruct (sn_accept d'); [|discriminate]. cbn [negb] in E.
        destruct (is_nil o'); discriminate.
      * destruct (domainless_opaque rest) eqn:Ed; [|discriminate]. inversion E; subst o.
        unfold domainless_opaque in Ed. apply andb_true_iff in Ed as [A B].
        repeat split; [exact Hs| |apply (forallb_iff _ _ _ is_b64url_char_iff); exact B].
        apply N.eqb_eq in A. unfold len in A. lia.
  - intros [(o & d & -> & Ho & Hnc & Hd & Hlen)|(o & -> & Hlen & Hch)].
    + pose proof (server_name_nonempty d Hd) as Hdn. apply sn_strict_iff in Hd.
      unfold room_strict, room_id_parse.
      assert (L1 : (len (33 :: o ++ 58 :: d) <? 4) = false).
      { apply N.ltb_ge. unfold len. cbn [length]. rewrite app_length. cbn [length].
        destruct o; [contradiction|]. destruct d; [contradiction|]. cbn [length]. lia. }
      rewrite L1. change (33 =? room_sigil) with true. cbn [negb].
      assert (Hin : mem_byte ch_colon (33 :: o ++ 58 :: d) = true).
      { cbn [mem_byte]. rewrite mem_byte_app. cbn [mem_byte]. unfold ch_colon.
        rewrite N.eqb_refl, !orb_true_r. reflexivity. }
      rewrite Hin. cbn [negb].
      assert (Hm : mem_byte ch_colon o = false).
      { destruct (mem_byte ch_colon o) eqn:E; [|reflexivity].
        apply mem_byte_true_In in E. contradiction. }
      unfold ch_colon in *. rewrite (cut_first_app 58 o d Hm), (sn_strict_accept d Hd). cbn [negb].
      apply is_nil_false in Ho. rewrite Ho, Hd. apply (len_le _ 255). exact Hlen.
    + unfold room_strict, room_id_parse.
      assert (L1 : (len (33 :: o) <? 4) = false).
      { apply N.ltb_ge. unfold len. cbn [length]. lia. }
      rewrite L1. change (33 =? room_sigil) with true. cbn [negb].
      assert (Hm : mem_byte ch_colon (33 :: o) = false).
      { cbn [mem_byte]. change (33 =? ch_colon) with false. cbn [orb].
        apply (forall_not_mem b64url_char); [exact Hch|].
        unfold b64url_char, upper, lower, digit, ch_colon. lia. }
      rewrite Hm. cbn [negb].
      assert (Hd : domainless_opaque o = true).
      { unfold domainless_opaque. apply andb_true_iff. split.
        - apply N.eqb_eq. unfold len. lia.
        - apply (forallb_iff _ _ _ is_b64url_char_iff). exact Hch. }
      rewrite Hd. reflexivity.
Qed.
