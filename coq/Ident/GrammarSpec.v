(* C17 specification: the identifier grammars of the property text, written as predicates over byte
   strings by concatenation and existence (no parsing), after the Matrix specification appendices
   ("Server name", "User identifiers", "Room IDs") with the readings fixed in DESIGN section 5.0:

     server_name = hostname [ ":" port ]
     port        = 1*5DIGIT with value <= 65535        (the appendix, and the property text's bound)
     hostname    = IPv4address / "[" IPv6address "]" / dns-name
     IPv4address = 1*3DIGIT "." 1*3DIGIT "." 1*3DIGIT "." 1*3DIGIT
     IPv6address = the text forms of RFC 3513 section 2.2 (the appendix refers to it)
     dns-name    = 1*255dns-char ;  dns-char = DIGIT / ALPHA / "-" / "."
     user_id     = "@" localpart ":" server_name, at most 255 bytes, localpart non-empty;
                   localpart characters a-z 0-9 . _ = - / (the set the library documents, v1.4);
                   historical user IDs: any characters (the library documents that the historical
                   range check is deliberately disabled)
     room_id     = "!" opaque_id ":" server_name, at most 255 bytes, opaque_id non-empty
                 / "!" 43 URL-safe unpadded base64 characters (room version 12)

   Independent of the parser models. *)
From Verif Require Import Lib.Bytes.
Open Scope N_scope.

Definition digit (c : N) : Prop := 48 <= c /\ c <= 57.
Definition upper (c : N) : Prop := 65 <= c /\ c <= 90.
Definition lower (c : N) : Prop := 97 <= c /\ c <= 122.
Definition hexdig (c : N) : Prop := digit c \/ (65 <= c /\ c <= 70) \/ (97 <= c /\ c <= 102).
Definition dns_char (c : N) : Prop := digit c \/ upper c \/ lower c \/ c = 45 \/ c = 46.
Definition local_char (c : N) : Prop :=
  digit c \/ lower c \/ c = 95 \/ c = 45 \/ c = 61 \/ c = 46 \/ c = 47.
Definition b64url_char (c : N) : Prop := upper c \/ lower c \/ digit c \/ c = 95 \/ c = 45.

(* value of a decimal numeral *)
Fixpoint dec_value (acc : N) (s : bytes) : N :=
  match s with
  | [] => acc
  | c :: r => dec_value (acc * 10 + (c - 48)) r
  end.

Definition Numeral (s : bytes) : Prop := s <> [] /\ Forall digit s.

Definition Port (p : bytes) : Prop := Numeral p /\ (length p <= 5)%nat /\ dec_value 0 p <= 65535.

Definition DnsName (h : bytes) : Prop :=
  h <> [] /\ Forall dns_char h /\ (length h <= 255)%nat.

Definition Digits13 (o : bytes) : Prop := Numeral o /\ (length o <= 3)%nat.

Definition IPv4Lit (h : bytes) : Prop :=
  exists a b c d, Digits13 a /\ Digits13 b /\ Digits13 c /\ Digits13 d
                  /\ h = a ++ 46 :: b ++ 46 :: c ++ 46 :: d.

(* ---- IPv6 text (RFC 3513 2.2) ---- *)
Definition HexGroup (g : bytes) : Prop := g <> [] /\ (length g <= 4)%nat /\ Forall hexdig g.

(* an octet of the dotted quad that may end an IPv6 text: decimal, 0 to 255, written without
   leading zeros (RFC 3513 leaves the spelling open; this is how Go reads it) *)
Definition Octet (o : bytes) : Prop :=
  Numeral o /\ (o = [48] \/ hd 0 o <> 48) /\ dec_value 0 o <= 255.

Definition DottedQuad (q : bytes) : Prop :=
  exists a b c d, Octet a /\ Octet b /\ Octet c /\ Octet d
                  /\ q = a ++ 46 :: b ++ 46 :: c ++ 46 :: d.

(* fields joined by colons; the empty list joins to the empty string *)
Fixpoint colon_join (l : list bytes) : bytes :=
  match l with
  | [] => []
  | [x] => x
  | x :: l' => x ++ 58 :: colon_join l'
  end.

Definition IPv6Lit (s : bytes) : Prop :=
  (* x:x:x:x:x:x:x:x *)
  (exists gs, Forall HexGroup gs /\ length gs = 8%nat /\ s = colon_join gs)
  (* x:x:x:x:x:x:d.d.d.d *)
  \/ (exists gs q, Forall HexGroup gs /\ length gs = 6%nat /\ DottedQuad q
                   /\ s = colon_join (gs ++ [q]))
  (* one "::" standing for one or more groups of zeros *)
  \/ (exists pre post, Forall HexGroup pre /\ Forall HexGroup post
                       /\ (length pre + length post <= 7)%nat
                       /\ s = colon_join pre ++ 58 :: 58 :: colon_join post)
  (* the same, ending in a dotted quad (which counts for two groups) *)
  \/ (exists pre post q, Forall HexGroup pre /\ Forall HexGroup post /\ DottedQuad q
                         /\ (length pre + length post <= 5)%nat
                         /\ s = colon_join pre ++ 58 :: 58 :: colon_join (post ++ [q])).

(* ---- server names; [ip6] is the IPv6 literal grammar ---- *)
Section ServerName.
  Variable ip6 : bytes -> Prop.

  Definition Host (h : bytes) : Prop :=
    DnsName h \/ IPv4Lit h \/ (exists a, ip6 a /\ h = 91 :: a ++ [93]).

  Definition ServerNameG (s : bytes) : Prop :=
    exists h, Host h /\ (s = h \/ exists p, Port p /\ s = h ++ 58 :: p).

  Definition UserIdG (historical : bool) (s : bytes) : Prop :=
    exists l d, s = 64 :: l ++ 58 :: d
                /\ l <> [] /\ ~ In 58 l
                /\ (historical = false -> Forall local_char l)
                /\ ServerNameG d
                /\ (length s <= 255)%nat.

  Definition RoomIdG (s : bytes) : Prop :=
    (exists o d, s = 33 :: o ++ 58 :: d /\ o <> [] /\ ~ In 58 o /\ ServerNameG d
                 /\ (length s <= 255)%nat)
    \/ (exists o, s = 33 :: o /\ length o = 43%nat /\ Forall b64url_char o).
End ServerName.
