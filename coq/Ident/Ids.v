(* C17 model: spec/userid.go, spec/roomid.go, spec/senderid.go, event.go SplitID.
   Executable definitions only. *)
From Verif Require Import Lib.Bytes Ident.Chars Ident.ServerName.
Open Scope N_scope.

Definition user_sigil : N := 64.  (* @ *)
Definition room_sigil : N := 33.  (* ! *)

(* validUsernameRegex ^[0-9a-z_\-=./]+$ applied to the localpart *)
Definition is_local_char (c : N) : bool :=
  is_digit c || is_lower c || (c =? 95) || (c =? 45) || (c =? 61) || (c =? 46) || (c =? 47).

Definition strict_localpart (l : bytes) : bool := negb (is_nil l) && forallb is_local_char l.

(* historicallyValidCharacters: the range test is commented out in the library; it returns true *)
Definition historical_localpart (l : bytes) : bool := true.

(* parseAndValidateUserID: Some (local, domain) *)
Definition user_id_parse (historical : bool) (id : bytes) : option (bytes * bytes) :=
  if (len id <? 4) || (255 <? len id) then None else
  match id with
  | c :: rest =>
      if negb (c =? user_sigil) then None else
      match cut_first ch_colon rest with
      | None => None
      | Some (l, d) =>
          if negb (sn_accept d) then None else
          if (if historical then historical_localpart l else strict_localpart l)
          then Some (l, d) else None
      end
  | [] => None
  end.

(* domainlessRoomIDRegexp ^[A-Za-z0-9_-]{43}$ *)
Definition is_b64url_char (c : N) : bool :=
  is_upper c || is_lower c || is_digit c || (c =? 95) || (c =? 45).

Definition domainless_opaque (o : bytes) : bool := (len o =? 43) && forallb is_b64url_char o.

(* parseAndValidateRoomID: Some (opaque, Some domain) or Some (opaque, None) for the domainless form *)
Definition room_id_parse (id : bytes) : option (bytes * option bytes) :=
  if len id <? 4 then None else
  match id with
  | c :: rest =>
      if negb (c =? room_sigil) then None else
      if negb (mem_byte ch_colon id) then
        (if domainless_opaque rest then Some (rest, None) else None)
      else
      match cut_first ch_colon rest with
      | None => None
      | Some (o, d) =>
          if negb (sn_accept d) then None else
          if is_nil o then None else Some (o, Some d)
      end
  | [] => None
  end.

(* event.go SplitID(sigil, id) *)
Definition split_id (sigil : N) (id : bytes) : option (bytes * bytes) :=
  match id with
  | c :: rest => if c =? sigil then cut_first ch_colon rest else None
  | [] => None
  end.

(* SenderID.IsUserID on a non-empty sender (the library indexes byte 0 unconditionally) *)
Definition sender_is_user_id (s : bytes) : bool :=
  match s with c :: _ => c =? user_sigil | [] => false end.
