(* C17 proofs: the IPv6 branch of the net.ParseIP model accepts exactly the RFC text forms
   (GrammarSpec.IPv6Lit), hence the strict deciders decide the grammars with IPv6Lit. *)
From Verif Require Import Lib.Bytes Ident.Chars Ident.ServerName Ident.Ids Ident.Strict
  Ident.SplitFacts Ident.GrammarSpec Ident.GrammarProofs.
Open Scope N_scope.

(* ---- characters ---- *)
Lemma is_hex_iff c : is_hex c = true <-> hexdig c.
Proof.
  unfold is_hex, hexdig. rewrite !orb_true_iff, is_digit_iff, !andb_true_iff, !N.leb_le. tauto.
Qed.

Lemma hexdig_plain c : hexdig c -> c <> 58 /\ c <> 46 /\ c <> 37.
Proof. unfold hexdig, digit. lia. Qed.

Lemma digit_plain c : digit c -> c <> 58 /\ c <> 46 /\ c <> 37.
Proof. unfold digit. lia. Qed.

Lemma colon_join_is_join l : colon_join l = join_on 58 l.
Proof.
  induction l as [|x l IH]; [reflexivity|]. destruct l as [|y l']; [reflexivity|].
  change (colon_join (x :: y :: l')) with (x ++ 58 :: colon_join (y :: l')).
  change (join_on 58 (x :: y :: l')) with (x ++ 58 :: join_on 58 (y :: l')).
  rewrite IH. reflexivity.
Qed.

(* ---- hex groups ---- *)
Lemma hex_acc_iff f : forall acc, (exists v, hex_acc acc f = Some v) <-> Forall hexdig f.
Proof.
  induction f as [|c r IH]; intro acc; cbn [hex_acc].
  - split; [constructor|eauto].
  - destruct (is_hex c) eqn:E.
    + rewrite IH. apply is_hex_iff in E. split; [intro; constructor; assumption|].
      intro H; inversion H; assumption.
    + split; [intros [v H]; discriminate|]. intro H. inversion H as [|? ? Hc _]; subst.
      apply is_hex_iff in Hc. congruence.
Qed.

Lemma hexgroup_iff f : (exists v, hexgroup f = Some v) <-> HexGroup f.
Proof.
  unfold hexgroup, HexGroup. destruct f as [|c r].
  - split; [intros [v H]; discriminate|intros [H _]; contradiction].
  - destruct (len (c :: r) <=? 4) eqn:E.
    + rewrite hex_acc_iff. apply (len_le _ 4) in E. split; [intro; repeat split; [discriminate|assumption..]|].
      intros (_ & _ & H); exact H.
    + split; [intros [v H]; discriminate|]. intros (_ & L & _).
      apply (len_le _ 4) in L. change (N.of_nat 4) with 4 in L. congruence.
Qed.

Lemma hexgroup_none_of_dot f : mem_byte 46 f = true -> hexgroup f = None.
Proof.
  intro H. destruct (hexgroup f) as [v|] eqn:E; [|reflexivity]. exfalso.
  assert (G : HexGroup f) by (apply hexgroup_iff; eauto). destruct G as (_ & _ & G).
  apply mem_byte_true_In in H. rewrite Forall_forall in G. apply G in H.
  apply hexdig_plain in H. lia.
Qed.

Lemma hexgroup_no_colon g : HexGroup g -> mem_byte 58 g = false.
Proof.
  intros (_ & _ & H). apply (forall_not_mem hexdig); [exact H|]. intro A. apply hexdig_plain in A. lia.
Qed.

Lemma all_hex_groups_iff l :
  (exists r, all_hex_groups hexgroup l = Some r /\ length r = length l) <-> Forall HexGroup l.
Proof.
  induction l as [|f l IH]; cbn [all_hex_groups].
  - split; [constructor|]. intros _. exists []. auto.
  - split.
    + intros (r & H & L). destruct (hexgroup f) as [v|] eqn:E; [|discriminate].
      destruct (all_hex_groups hexgroup l) as [vs|] eqn:E'; [|discriminate].
      inversion H; subst. constructor; [apply hexgroup_iff; eauto|].
      apply IH. exists vs. cbn in L. split; [reflexivity|lia].
    + intro H. inversion H as [|? ? Hf Hl]; subst. apply hexgroup_iff in Hf as [v Hv].
      apply IH in Hl as (r & Hr & L). rewrite Hv, Hr. exists (v :: r). cbn. split; [reflexivity|lia].
Qed.

(* a weaker form, without the length *)
Lemma all_hex_groups_some l r : all_hex_groups hexgroup l = Some r -> Forall HexGroup l /\ length r = length l.
Proof.
  revert r; induction l as [|f l IH]; intros r H; cbn [all_hex_groups] in H.
  - inversion H. split; [constructor|reflexivity].
  - destruct (hexgroup f) as [v|] eqn:E; [|discriminate].
    destruct (all_hex_groups hexgroup l) as [vs|] eqn:E'; [|discriminate]. inversion H; subst.
    destruct (IH vs eq_refl) as [A B]. split; [constructor; [apply hexgroup_iff; eauto|exact A]|cbn; lia].
Qed.

(* ---- octets and dotted quads ---- *)
Lemma ipv4_octet_iff f : (exists n, ipv4_octet f = Some n) <-> Octet f.
Proof.
  unfold ipv4_octet, Octet. destruct f as [|c r].
  - split; [intros [n H]; discriminate|]. intros [[H _] _]. contradiction.
  - destruct ((c =? 48) && negb (is_nil r)) eqn:E.
    + split; [intros [n H]; discriminate|]. intros (_ & [A|A] & _).
      * inversion A; subst. cbn in E. discriminate.
      * cbn in A. apply andb_true_iff in E as [E _]. apply N.eqb_eq in E. contradiction.
    + split.
      * intros [n H]. destruct (parse_dec (c :: r)) as [m|] eqn:Ed; [|discriminate].
        apply parse_dec_iff in Ed as [Nm ->].
        destruct (dec_value 0 (c :: r) <=? 255) eqn:L; [|discriminate]. apply N.leb_le in L.
        repeat split; try assumption; try apply Nm.
        apply andb_false_iff in E as [E|E].
        -- right. cbn. apply N.eqb_neq. exact E.
        -- destruct r; [|discriminate].
           destruct (N.eq_dec c 48) as [->|Hc]; [left; reflexivity|right; exact Hc].
      * intros (Nm & _ & L). exists (dec_value 0 (c :: r)).
        assert (Ed : parse_dec (c :: r) = Some (dec_value 0 (c :: r))) by (apply parse_dec_iff; auto).
        rewrite Ed. apply N.leb_le in L. rewrite L. reflexivity.
Qed.

Lemma octet_no_dot o : Octet o -> mem_byte 46 o = false /\ mem_byte 58 o = false.
Proof.
  intros [[_ D] _]. split; apply (forall_not_mem digit); try exact D; intro A; apply digit_plain in A; lia.
Qed.

Lemma ipv4_fields_iff q : (exists r, ipv4_fields q = Some r) <-> DottedQuad q.
Proof.
  unfold ipv4_fields, DottedQuad. split.
  - intros [r H]. pose proof (join_split ch_dot q) as J.
    destruct (split_on ch_dot q) as [|a [|b [|c [|d [|e l]]]]]; try discriminate.
    destruct (ipv4_octet a) eqn:Ea; [|discriminate]. destruct (ipv4_octet b) eqn:Eb; [|discriminate].
    destruct (ipv4_octet c) eqn:Ec; [|discriminate]. destruct (ipv4_octet d) eqn:Ed; [|discriminate].
    exists a, b, c, d. repeat split; try (apply ipv4_octet_iff; eauto). symmetry. exact J.
  - intros (a & b & c & d & Oa & Ob & Oc & Od & ->).
    destruct (octet_no_dot a Oa) as [Da _]. destruct (octet_no_dot b Ob) as [Db _].
    destruct (octet_no_dot c Oc) as [Dc _]. destruct (octet_no_dot d Od) as [Dd _].
    unfold ch_dot. rewrite (split_app 46 a _ Da), (split_app 46 b _ Db), (split_app 46 c _ Dc), (split_single 46 d Dd).
    apply ipv4_octet_iff in Oa as [x ->]. apply ipv4_octet_iff in Ob as [y ->].
    apply ipv4_octet_iff in Oc as [z ->]. apply ipv4_octet_iff in Od as [w ->]. eauto.
Qed.

Lemma quad_has_dot q : DottedQuad q -> mem_byte 46 q = true.
Proof.
  intros (a & b & c & d & _ & _ & _ & _ & ->). rewrite mem_byte_app. cbn [mem_byte].
  rewrite N.eqb_refl, orb_true_r. reflexivity.
Qed.

Lemma quad_no_colon q : DottedQuad q -> mem_byte 58 q = false.
Proof.
  intros (a & b & c & d & Oa & Ob & Oc & Od & ->).
  destruct (octet_no_dot a Oa) as [_ Ca]. destruct (octet_no_dot b Ob) as [_ Cb].
  destruct (octet_no_dot c Oc) as [_ Cc]. destruct (octet_no_dot d Od) as [_ Cd].
  repeat (rewrite mem_byte_app; cbn [mem_byte]). rewrite Ca, Cb, Cc, Cd. reflexivity.
Qed.

(* ---- the fields after the last double colon (or all fields) ---- *)
Lemma body_groups_hex gs :
  Forall HexGroup gs -> exists r, body_groups gs = Some r /\ length r = length gs.
Proof.
  induction gs as [|g gs IH]; intro H; [exists []; auto|].
  inversion H as [|? ? Hg Hgs]; subst. apply hexgroup_iff in Hg as [v Hv].
  destruct (IH Hgs) as (r & Hr & L). cbn [body_groups]. rewrite Hv.
  destruct gs as [|g' gs'].
  - exists [v]. auto.
  - rewrite Hr. exists (v :: r). cbn [length] in *. split; [reflexivity|lia].
Qed.

Lemma body_groups_quad gs q :
  Forall HexGroup gs -> DottedQuad q ->
  exists r, body_groups (gs ++ [q]) = Some r /\ length r = (length gs + 2)%nat.
Proof.
  intros H Hq. induction gs as [|g gs IH].
  - cbn [app body_groups]. rewrite (hexgroup_none_of_dot q (quad_has_dot q Hq)).
    apply ipv4_fields_iff in Hq as [[[[a b] c] d] ->]. eexists. split; reflexivity.
  - inversion H as [|? ? Hg Hgs]; subst. apply hexgroup_iff in Hg as [v Hv].
    destruct (IH Hgs) as (r & Hr & L). cbn [app body_groups]. rewrite Hv.
    destruct (gs ++ [q]) as [|x xs] eqn:E; [destruct gs; discriminate|].
    rewrite Hr. exists (v :: r). cbn [length]. split; [reflexivity|lia].
Qed.

Lemma body_groups_sound fs : forall r,
  body_groups fs = Some r ->
  (Forall HexGroup fs /\ length r = length fs)
  \/ (exists gs q, fs = gs ++ [q] /\ Forall HexGroup gs /\ DottedQuad q /\ length r = (length gs + 2)%nat).
Proof.
  induction fs as [|f fs IH]; intros r H; cbn [body_groups] in H.
  - inversion H. left. split; [constructor|reflexivity].
  - destruct fs as [|f' fs'].
    + destruct (hexgroup f) as [v|] eqn:E.
      * inversion H; subst. left. split; [constructor; [apply hexgroup_iff; eauto|constructor]|reflexivity].
      * destruct (ipv4_fields f) as [[[[a b] c] d]|] eqn:E4; [|discriminate]. inversion H; subst.
        right. exists [], f. repeat split; [constructor|apply ipv4_fields_iff; eauto].
    + destruct (hexgroup f) as [v|] eqn:E; [|discriminate].
      destruct (body_groups (f' :: fs')) as [l|] eqn:E'; [|discriminate]. inversion H; subst.
      assert (Hf : HexGroup f) by (apply hexgroup_iff; eauto).
      destruct (IH l eq_refl) as [[A B]|(gs & q & Eq & A & Q & B)].
      * left. split; [constructor; assumption|cbn [length] in *; lia].
      * right. exists (f :: gs), q. rewrite Eq. repeat split; try assumption.
        -- constructor; assumption.
        -- cbn [length]. lia.
Qed.

(* ---- double colons ---- *)
Lemma cut_dcolon_some s : forall a b, cut_dcolon s = Some (a, b) -> s = a ++ 58 :: 58 :: b.
Proof.
  induction s as [|x t IH]; intros a b H; cbn [cut_dcolon] in H; [discriminate|].
  destruct t as [|y r]; [discriminate|].
  destruct ((x =? ch_colon) && (y =? ch_colon)) eqn:E.
  - inversion H; subst. apply andb_true_iff in E as [E1 E2].
    apply N.eqb_eq in E1, E2. subst. reflexivity.
  - destruct (cut_dcolon (y :: r)) as [[a' b']|] eqn:E'; [|discriminate]. inversion H; subst.
    rewrite (IH a' b eq_refl). reflexivity.
Qed.

Lemma cut_dcolon_skip g : forall t,
  mem_byte 58 g = false ->
  cut_dcolon (g ++ t) = match cut_dcolon t with Some (a, b) => Some (g ++ a, b) | None => None end.
Proof.
  induction g as [|x g IH]; intros t H.
  - cbn [app]. destruct (cut_dcolon t) as [[a b]|]; reflexivity.
  - cbn [mem_byte] in H. apply orb_false_iff in H as [Hx Hg]. cbn [app cut_dcolon].
    destruct (g ++ t) as [|y r] eqn:E.
    + destruct g; [|discriminate]. cbn in E. subst t. reflexivity.
    + unfold ch_colon. rewrite Hx. cbn [andb]. rewrite <- E, (IH t Hg).
      destruct (cut_dcolon t) as [[a b]|]; reflexivity.
Qed.

Lemma cut_dcolon_one_colon y r :
  y <> 58 ->
  cut_dcolon (58 :: y :: r) = match cut_dcolon (y :: r) with Some (a, b) => Some (58 :: a, b) | None => None end.
Proof.
  intro H. cbn [cut_dcolon]. apply N.eqb_neq in H. unfold ch_colon. rewrite H, andb_false_r.
  reflexivity.
Qed.

Lemma group_head g : HexGroup g -> exists y r, g = y :: r /\ y <> 58.
Proof.
  intros (Hn & _ & H). destruct g as [|y r]; [contradiction|]. exists y, r. split; [reflexivity|].
  inversion H as [|? ? Hy _]; subst. apply hexdig_plain in Hy. lia.
Qed.

(* the first double colon of pre :: post *)
Lemma cut_dcolon_join pre b :
  Forall HexGroup pre ->
  cut_dcolon (colon_join pre ++ 58 :: 58 :: b) = Some (colon_join pre, b).
Proof.
  induction pre as [|g pre IH]; intro H.
  - cbn. reflexivity.
  - inversion H as [|? ? Hg Hpre]; subst. specialize (IH Hpre).
    destruct pre as [|g' pre'].
    + cbn [colon_join]. rewrite (cut_dcolon_skip g _ (hexgroup_no_colon g Hg)).
      cbn. rewrite app_nil_r. reflexivity.
    + cbn [colon_join] in *. rewrite <- app_assoc. cbn [app].
      rewrite (cut_dcolon_skip g _ (hexgroup_no_colon g Hg)).
      inversion Hpre as [|? ? Hg' _]; subst. destruct (group_head g' Hg') as (y & r & -> & Hy).
      destruct pre' as [|g'' pre''].
      * cbn [app] in *. rewrite (cut_dcolon_one_colon y _ Hy), IH. reflexivity.
      * cbn [app] in *. rewrite (cut_dcolon_one_colon y _ Hy), IH. reflexivity.
Qed.

(* fields without colons and not empty, joined by single colons: no double colon *)
Lemma cut_dcolon_none_join fs :
  Forall (fun f => f <> [] /\ mem_byte 58 f = false) fs -> cut_dcolon (colon_join fs) = None.
Proof.
  induction fs as [|f fs IH]; intro H; [reflexivity|].
  inversion H as [|? ? [Hn Hc] Hfs]; subst. specialize (IH Hfs).
  destruct fs as [|f' fs'].
  - cbn [colon_join]. rewrite <- (app_nil_r f), (cut_dcolon_skip f [] Hc). reflexivity.
  - cbn [colon_join] in *. rewrite (cut_dcolon_skip f _ Hc).
    inversion Hfs as [|? ? [Hn' Hc'] _]; subst. destruct f' as [|y r]; [contradiction|].
    assert (Hy : y <> 58).
    { cbn [mem_byte] in Hc'. apply orb_false_iff in Hc' as [A _]. apply N.eqb_neq. exact A. }
    destruct fs'; cbn [app] in *; rewrite (cut_dcolon_one_colon y _ Hy), IH; reflexivity.
Qed.

(* ---- which special character comes first ---- *)
Lemma first_special_skip g t : Forall hexdig g -> first_special (g ++ t) = first_special t.
Proof.
  induction 1 as [|c g Hc _ IH]; [reflexivity|]. cbn [app first_special].
  apply hexdig_plain in Hc as (A & B & C). unfold ch_dot, ch_colon.
  apply N.eqb_neq in A, B, C. rewrite A, B, C. exact IH.
Qed.

Lemma first_special_group_colon g t : HexGroup g -> first_special (g ++ 58 :: t) = Some 58.
Proof. intros (_ & _ & H). rewrite (first_special_skip g _ H). reflexivity. Qed.

Lemma colon_join_two g fs : fs <> [] -> colon_join (g :: fs) = g ++ 58 :: colon_join fs.
Proof. destruct fs; [contradiction|reflexivity]. Qed.

Lemma join_nonempty fs : Forall (fun f : bytes => f <> []) fs -> fs <> [] -> colon_join fs <> [].
Proof.
  intros H Hn. destruct fs as [|f fs]; [contradiction|]. inversion H; subst.
  destruct fs; cbn [colon_join]; destruct f; try contradiction; discriminate.
Qed.

Lemma fields_clean gs :
  Forall HexGroup gs -> Forall (fun f => f <> [] /\ mem_byte 58 f = false) gs.
Proof.
  intro H. eapply Forall_impl; [|exact H]. intros g Hg. split; [apply Hg|apply hexgroup_no_colon; exact Hg].
Qed.

Lemma fields_clean_quad gs q :
  Forall HexGroup gs -> DottedQuad q -> Forall (fun f => f <> [] /\ mem_byte 58 f = false) (gs ++ [q]).
Proof.
  intros H Hq. apply Forall_app. split; [apply fields_clean; exact H|]. constructor; [|constructor].
  split; [|apply quad_no_colon; exact Hq]. intro E. subst. apply quad_has_dot in Hq. discriminate.
Qed.

Lemma split_colon_join fs :
  fs <> [] -> Forall (fun f => f <> [] /\ mem_byte 58 f = false) fs ->
  split_on ch_colon (colon_join fs) = fs.
Proof.
  intros Hn H. rewrite colon_join_is_join. apply split_join; [exact Hn|].
  eapply Forall_impl; [|exact H]. intros f [_ A]. exact A.
Qed.

Lemma is_nil_join fs :
  Forall (fun f => f <> [] /\ mem_byte 58 f = false) fs ->
  is_nil (colon_join fs) = match fs with [] => true | _ => false end.
Proof.
  intro H. destruct fs as [|f fs]; [reflexivity|]. inversion H as [|? ? [Hn _] _]; subst.
  destruct f; [contradiction|]. destruct fs; reflexivity.
Qed.

(* ---- the IPv6 reader accepts exactly IPv6Lit ---- *)
Lemma is_nil_join_cons (g : bytes) (fs : list bytes) :
  Forall (fun f => f <> [] /\ mem_byte 58 f = false) (g :: fs) -> is_nil (colon_join (g :: fs)) = false.
Proof.
  intro H. inversion H as [|? ? [Hn _] _]; subst. destruct g; [contradiction|]. destruct fs; reflexivity.
Qed.

Lemma pre_groups pre :
  Forall HexGroup pre ->
  exists p, (if is_nil (colon_join pre) then Some []
             else all_hex_groups hexgroup (split_on ch_colon (colon_join pre))) = Some p
            /\ length p = length pre.
Proof.
  intro Hp. destruct pre as [|g pre']; [exists []; auto|].
  destruct (proj2 (all_hex_groups_iff (g :: pre')) Hp) as (p & E & Lp). exists p.
  rewrite (is_nil_join_cons g pre' (fields_clean _ Hp)).
  rewrite (split_colon_join (g :: pre') ltac:(discriminate) (fields_clean _ Hp)). auto.
Qed.

Lemma post_groups_hex post :
  Forall HexGroup post ->
  exists r, (if is_nil (colon_join post) then Some []
             else body_groups (split_on ch_colon (colon_join post))) = Some r
            /\ length r = length post.
Proof.
  intro Hq. destruct post as [|g post']; [exists []; auto|].
  destruct (body_groups_hex (g :: post') Hq) as (r & E & Lr). exists r.
  rewrite (is_nil_join_cons g post' (fields_clean _ Hq)).
  rewrite (split_colon_join (g :: post') ltac:(discriminate) (fields_clean _ Hq)). auto.
Qed.

Lemma post_groups_quad post q :
  Forall HexGroup post -> DottedQuad q ->
  exists r, (if is_nil (colon_join (post ++ [q])) then Some []
             else body_groups (split_on ch_colon (colon_join (post ++ [q])))) = Some r
            /\ length r = (length post + 2)%nat.
Proof.
  intros Hpo Hq. pose proof (fields_clean_quad post q Hpo Hq) as C.
  assert (N : is_nil (colon_join (post ++ [q])) = false).
  { destruct (post ++ [q]) as [|g fs] eqn:E; [destruct post; discriminate|].
    apply is_nil_join_cons. exact C. }
  destruct (body_groups_quad post q Hpo Hq) as (r & E & Lr). exists r.
  rewrite N. rewrite (split_colon_join (post ++ [q]) ltac:(destruct post; discriminate) C). auto.
Qed.

Lemma parse_ipv6_complete s : IPv6Lit s -> exists l, parse_ipv6 s = Some l.
Proof.
  intros [(gs & Hg & L & ->)|[(gs & q & Hg & L & Hq & ->)|[(pre & post & Hp & Hq & L & ->)|(pre & post & q & Hp & Hpo & Hq & L & ->)]]];
    unfold parse_ipv6.
  - rewrite (cut_dcolon_none_join gs (fields_clean gs Hg)).
    rewrite (split_colon_join gs ltac:(destruct gs; [discriminate|discriminate]) (fields_clean gs Hg)).
    destruct (body_groups_hex gs Hg) as (r & -> & Lr). rewrite Lr, L. exists r. reflexivity.
  - rewrite (cut_dcolon_none_join _ (fields_clean_quad gs q Hg Hq)).
    rewrite (split_colon_join (gs ++ [q]) ltac:(destruct gs; discriminate) (fields_clean_quad gs q Hg Hq)).
    destruct (body_groups_quad gs q Hg Hq) as (r & -> & Lr). rewrite Lr, L. exists r. reflexivity.
  - rewrite (cut_dcolon_join pre _ Hp). cbv zeta.
    destruct (pre_groups pre Hp) as (p & -> & Lp).
    destruct (post_groups_hex post Hq) as (r & -> & Lr). rewrite Lp, Lr.
    assert (T : (length pre + length post <=? 7)%nat = true) by (apply Nat.leb_le; exact L).
    rewrite T. eauto.
  - rewrite (cut_dcolon_join pre _ Hp). cbv zeta.
    destruct (pre_groups pre Hp) as (p & -> & Lp).
    destruct (post_groups_quad post q Hpo Hq) as (r & -> & Lr). rewrite Lp, Lr.
    assert (T : (length pre + (length post + 2) <=? 7)%nat = true) by (apply Nat.leb_le; lia).
    rewrite T. eauto.
Qed.

Lemma parse_ipv6_sound s l : parse_ipv6 s = Some l -> IPv6Lit s.
Proof.
  unfold parse_ipv6. destruct (cut_dcolon s) as [[pre post]|] eqn:Ec.
  - apply cut_dcolon_some in Ec. subst s.
    destruct (if is_nil pre then Some [] else all_hex_groups hexgroup (split_on ch_colon pre)) as [p|] eqn:Ep; [|discriminate].
    destruct (if is_nil post then Some [] else body_groups (split_on ch_colon post)) as [r|] eqn:Er; [|discriminate].
    destruct (length p + length r <=? 7)%nat eqn:T; [|discriminate]. apply Nat.leb_le in T. intros _.
    (* the groups before the double colon *)
    assert (A : exists gs, Forall HexGroup gs /\ pre = colon_join gs /\ length p = length gs).
    { destruct pre as [|c pre'].
      - cbn in Ep. inversion Ep; subst. exists []. repeat split. constructor.
      - cbn [is_nil] in Ep. apply all_hex_groups_some in Ep as [A B].
        exists (split_on ch_colon (c :: pre')). repeat split; [exact A| |exact B].
        rewrite colon_join_is_join. symmetry. apply join_split. }
    destruct A as (gs & Hgs & -> & Lp).
    destruct post as [|c post'].
    + cbn in Er. inversion Er; subst. right; right; left. exists gs, []. repeat split; try assumption; [constructor|].
      cbn [length] in *. lia.
    + cbn [is_nil] in Er. pose proof (join_split ch_colon (c :: post')) as J.
      rewrite <- colon_join_is_join in J.
      destruct (body_groups_sound _ _ Er) as [[A B]|(hs & q & Eq & A & Q & B)].
      * right; right; left. exists gs, (split_on ch_colon (c :: post')).
        repeat split; try assumption; [lia|]. rewrite J. reflexivity.
      * right; right; right. exists gs, hs, q. repeat split; try assumption; [lia|].
        rewrite <- Eq, J. reflexivity.
  - destruct (body_groups (split_on ch_colon s)) as [r|] eqn:Er; [|discriminate].
    destruct (length r =? 8)%nat eqn:T; [|discriminate]. apply Nat.eqb_eq in T. intros _.
    pose proof (join_split ch_colon s) as J. rewrite <- colon_join_is_join in J.
    destruct (body_groups_sound _ _ Er) as [[A B]|(hs & q & Eq & A & Q & B)].
    + left. exists (split_on ch_colon s). repeat split; [exact A|lia|symmetry; exact J].
    + right; left. exists hs, q. repeat split; try assumption; [lia|]. rewrite <- Eq. symmetry. exact J.
Qed.

Lemma ipv6lit_first_special s : IPv6Lit s -> first_special s = Some 58.
Proof.
  assert (G : forall g fs t, HexGroup g -> first_special (colon_join (g :: fs) ++ 58 :: t) = Some 58).
  { intros g fs t Hg. destruct fs as [|f fs'].
    - cbn [colon_join]. apply first_special_group_colon. exact Hg.
    - rewrite colon_join_two by discriminate. rewrite <- app_assoc. cbn [app].
      apply first_special_group_colon. exact Hg. }
  intros [(gs & Hg & L & ->)|[(gs & q & Hg & L & Hq & ->)|[(pre & post & Hp & Hq & L & ->)|(pre & post & q & Hp & Hpo & Hq & L & ->)]]].
  - destruct gs as [|g [|g' gs']]; try discriminate. inversion Hg; subst.
    rewrite colon_join_two by discriminate. apply first_special_group_colon. assumption.
  - destruct gs as [|g gs']; [discriminate|]. inversion Hg; subst. cbn [app].
    rewrite colon_join_two by (destruct gs'; discriminate). apply first_special_group_colon. assumption.
  - destruct pre as [|g pre']; [reflexivity|]. inversion Hp; subst. apply G. assumption.
  - destruct pre as [|g pre']; [reflexivity|]. inversion Hp; subst. apply G. assumption.
Qed.

Theorem ip6_model_iff a : ip6_model a <-> IPv6Lit a.
Proof.
  unfold ip6_model, parse_ip. split.
  - intros [l H]. destruct (first_special a) as [c|]; [|discriminate].
    destruct (c =? ch_dot); [destruct (ipv4_fields a) as [[[[? ?] ?] ?]|]; discriminate|].
    destruct (c =? ch_colon); [|discriminate].
    destruct (parse_ipv6 a) as [l'|] eqn:E; [|discriminate]. eapply parse_ipv6_sound; eauto.
  - intro H. rewrite (ipv6lit_first_special a H). change (58 =? ch_dot) with false.
    change (58 =? ch_colon) with true. cbn iota.
    destruct (parse_ipv6_complete a H) as [l ->]. eauto.
Qed.

(* ---- the grammars with the RFC IPv6 literal ---- *)
Lemma server_name_g_ext (P Q : bytes -> Prop) s :
  (forall a, P a <-> Q a) -> ServerNameG P s -> ServerNameG Q s.
Proof.
  intros E (h & Hh & Hs). exists h. split; [|exact Hs].
  destruct Hh as [D|[V|(a & Ha & ->)]]; [left; exact D|right; left; exact V|].
  right; right. exists a. split; [apply E; exact Ha|reflexivity].
Qed.

Theorem sn_strict_iff_rfc s : sn_strict s = true <-> ServerNameG IPv6Lit s.
Proof.
  rewrite sn_strict_iff. split; apply server_name_g_ext; intro a;
    [apply ip6_model_iff|symmetry; apply ip6_model_iff].
Qed.

Theorem user_strict_iff_rfc hist s : user_strict hist s = true <-> UserIdG IPv6Lit hist s.
Proof.
  rewrite user_strict_iff. unfold UserIdG.
  split; intros (l & d & A & B & C & D & E & F); exists l, d; repeat split; try assumption;
    (eapply server_name_g_ext; [|exact E]); intro a; [apply ip6_model_iff|symmetry; apply ip6_model_iff].
Qed.

Theorem room_strict_iff_rfc s : room_strict s = true <-> RoomIdG IPv6Lit s.
Proof.
  rewrite room_strict_iff. unfold RoomIdG.
  split; (intros [(o & d & A & B & C & D & E)|H]; [left|right; exact H]);
    exists o, d; repeat split; try assumption;
    (eapply server_name_g_ext; [|exact D]); intro a; [apply ip6_model_iff|symmetry; apply ip6_model_iff].
Qed.
