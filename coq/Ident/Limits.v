(* C17 model: event.go checkID, eventV2.go CheckFields / lenientByteLimitRoomVersions, the room-ID
   check of the three event structs, unicode/utf8.RuneCountInString.  Executable definitions only. *)
From Verif Require Import Lib.Bytes Ident.Chars Json.Ast Json.Parse Gen.GenConsts.
Open Scope N_scope.

(* ---- utf8.RuneCountInString: every byte that does not start a well-formed sequence counts 1 ---- *)
Definition in_range (lo hi c : N) : bool := (lo <=? c) && (c <=? hi).
Definition is_cont (c : N) : bool := in_range 128 191 c.

(* what is left after the first rune of c :: r *)
Definition rune_rest (c : N) (r : bytes) : bytes :=
  if c <? 128 then r
  else if (c <? 194) || (244 <? c) then r
  else if c <? 224 then
    match r with
    | c1 :: r1 => if is_cont c1 then r1 else r
    | [] => r
    end
  else if c <? 240 then
    let lo := if c =? 224 then 160 else 128 in
    let hi := if c =? 237 then 159 else 191 in
    match r with
    | c1 :: c2 :: r2 => if in_range lo hi c1 && is_cont c2 then r2 else r
    | _ => r
    end
  else
    let lo := if c =? 240 then 144 else 128 in
    let hi := if c =? 244 then 143 else 191 in
    match r with
    | c1 :: c2 :: c3 :: r3 => if in_range lo hi c1 && is_cont c2 && is_cont c3 then r3 else r
    | _ => r
    end.

Fixpoint rune_count_fuel (fuel : nat) (s : bytes) : N :=
  match fuel, s with
  | S f, c :: r => 1 + rune_count_fuel f (rune_rest c r)
  | _, _ => 0
  end.

Definition rune_count (s : bytes) : N := rune_count_fuel (length s) s.

(* ---- verdicts ---- *)
Inductive verdict := VOk | VTooLarge (persistable : bool) | VErr.

Definition max_id_length : N := Z.to_N gen_max_id_length.       (* event.go maxIDLength *)
Definition max_event_length : N := Z.to_N gen_max_event_length. (* event.go maxEventLength *)

(* checkIDLength(id, kind): more than 255 code points is refused, more than 255 bytes only is
   too large but persistable *)
Definition check_id_length (id : bytes) : verdict :=
  if max_id_length <? rune_count id then VTooLarge false
  else if max_id_length <? len id then VTooLarge true
  else VOk.

(* checkIDFormat(id, kind, sigil): a domain part (a colon) and the sigil *)
Definition id_format (id : bytes) (sigil : N) : bool :=
  mem_byte ch_colon id && match id with c :: _ => c =? sigil | [] => false end.

(* checkID(id, kind, sigil) *)
Definition check_id (id : bytes) (sigil : N) : verdict :=
  if id_format id sigil then check_id_length id else VErr.

Definition lenient_version (v : bytes) : bool := mem_bytes v gen_lenient_byte_limit_versions.

Definition pseudo_id_version : bytes := bs "org.matrix.msc4014".

(* CheckFields, on the values its getters return ([room] is what RoomID() returns): everything
   that is not lenient comes first (reference lists, JSON size, code points of type, state key
   and sender, the sender's format - repair of F100), then the byte sizes of type, state key,
   sender and, last, of the room ID, whose code points the parsers have checked *)
Definition check_fields (v : bytes) (refs_nil : bool) (json_len : N) (type : bytes)
    (state_key : option bytes) (sender room : bytes) : verdict :=
  if refs_nil then VErr
  else if max_event_length <? json_len then VTooLarge false
  else if max_id_length <? rune_count type then VTooLarge false
  else if match state_key with Some k => max_id_length <? rune_count k | None => false end
    then VTooLarge false
  else if max_id_length <? rune_count sender then VTooLarge false
  else if negb (bytes_eqb v pseudo_id_version) && negb (id_format sender 64) then VErr
  else if max_id_length <? len type then VTooLarge (lenient_version v)
  else if match state_key with Some k => max_id_length <? len k | None => false end
    then VTooLarge (lenient_version v)
  else match check_id_length sender with
       | VOk => check_id_length room
       | e => e
       end.
