(* C17 proofs: the decision table of the event size / field-length checks. *)
From Verif Require Import Lib.Bytes Ident.Chars Ident.Limits Ident.Versions Ident.Events.
From Verif Require Import Gen.GenConsts Gen.GenVersions.
Open Scope N_scope.

Lemma max_id_length_255 : max_id_length = 255.
Proof. reflexivity. Qed.
Lemma max_event_length_65536 : max_event_length = 65536.
Proof. reflexivity. Qed.

(* ---- the library's code-point count never exceeds the byte count ---- *)
Lemma rune_rest_length c r : (length (rune_rest c r) <= length r)%nat.
Proof.
  unfold rune_rest.
  repeat match goal with
  | |- context [if ?b then _ else _] => destruct b
  | |- context [match ?l with [] => _ | _ :: _ => _ end] => destruct l
  end; simpl; lia.
Qed.

Lemma rune_count_fuel_le f : forall s, rune_count_fuel f s <= N.of_nat (length s).
Proof.
  induction f as [|f IH]; intros [|c r]; cbn [rune_count_fuel length]; try lia.
  pose proof (IH (rune_rest c r)). pose proof (rune_rest_length c r). lia.
Qed.

Lemma rune_count_le s : rune_count s <= len s.
Proof. apply rune_count_fuel_le. Qed.

(* ---- identifiers ---- *)
(* the shape checkID demands before it looks at lengths *)
Definition shaped (sigil : N) (id : bytes) : Prop :=
  mem_byte ch_colon id = true /\ exists r, id = sigil :: r.

Lemma id_format_shaped sigil id : id_format id sigil = true <-> shaped sigil id.
Proof.
  unfold id_format, shaped. rewrite andb_true_iff. split.
  - intros [Hc Hs]. split; [exact Hc|]. destruct id as [|c r]; [discriminate|].
    apply N.eqb_eq in Hs. subst. eauto.
  - intros [Hc [r ->]]. split; [exact Hc|apply N.eqb_refl].
Qed.

Lemma id_format_unshaped sigil id : ~ shaped sigil id -> id_format id sigil = false.
Proof.
  intro H. destruct (id_format id sigil) eqn:E; [|reflexivity].
  apply id_format_shaped in E. contradiction.
Qed.

Lemma check_id_shaped sigil id : shaped sigil id -> check_id id sigil = check_id_length id.
Proof. intro H. apply id_format_shaped in H. unfold check_id. rewrite H. reflexivity. Qed.

Lemma check_id_unshaped sigil id : ~ shaped sigil id -> check_id id sigil = VErr.
Proof. intro H. unfold check_id. rewrite (id_format_unshaped _ _ H). reflexivity. Qed.

Lemma id_length_refused id : 255 < rune_count id -> check_id_length id = VTooLarge false.
Proof.
  intro H. unfold check_id_length. rewrite max_id_length_255.
  apply N.ltb_lt in H. rewrite H. reflexivity.
Qed.

Lemma id_length_persistable id :
  rune_count id <= 255 -> 255 < len id -> check_id_length id = VTooLarge true.
Proof.
  intros H1 H2. unfold check_id_length. rewrite max_id_length_255.
  apply N.ltb_ge in H1. apply N.ltb_lt in H2. rewrite H1, H2. reflexivity.
Qed.

Lemma id_length_ok id : len id <= 255 -> check_id_length id = VOk.
Proof.
  intro H. unfold check_id_length. rewrite max_id_length_255.
  pose proof (rune_count_le id) as L.
  assert (H1 : rune_count id <= 255) by lia.
  apply N.ltb_ge in H1. apply N.ltb_ge in H. rewrite H1, H. reflexivity.
Qed.

Lemma id_length_cases id :
  (check_id_length id = VOk /\ len id <= 255)
  \/ (check_id_length id = VTooLarge true /\ rune_count id <= 255 /\ 255 < len id)
  \/ (check_id_length id = VTooLarge false /\ 255 < rune_count id).
Proof.
  destruct (N.le_gt_cases (len id) 255) as [H|H].
  - left. split; [apply id_length_ok|]; exact H.
  - destruct (N.le_gt_cases (rune_count id) 255) as [H'|H'].
    + right; left. split; [apply id_length_persistable|]; auto.
    + right; right. split; [apply id_length_refused|]; auto.
Qed.

(* ---- CheckFields ---- *)
Definition opt_over (f : bytes -> N) (sk : option bytes) : Prop :=
  exists k, sk = Some k /\ 255 < f k.
Definition opt_within (f : bytes -> N) (sk : option bytes) : Prop :=
  forall k, sk = Some k -> f k <= 255.

Lemma opt_over_dec f sk : opt_over f sk \/ opt_within f sk.
Proof.
  destruct sk as [k|].
  - destruct (N.le_gt_cases (f k) 255) as [H|H].
    + right. intros k' E. inversion E; subst. exact H.
    + left. exists k. auto.
  - right. intros k E. discriminate.
Qed.

Lemma opt_test_true f sk : opt_over f sk ->
  match sk with Some k => max_id_length <? f k | None => false end = true.
Proof. intros [k [-> H]]. rewrite max_id_length_255. apply N.ltb_lt. exact H. Qed.

Lemma opt_test_false f sk : opt_within f sk ->
  match sk with Some k => max_id_length <? f k | None => false end = false.
Proof.
  intro H. destruct sk as [k|]; [|reflexivity]. rewrite max_id_length_255.
  apply N.ltb_ge. apply H. reflexivity.
Qed.

Lemma opt_within_runes sk : opt_within len sk -> opt_within rune_count sk.
Proof. intros H k E. pose proof (H k E). pose proof (rune_count_le k). lia. Qed.

(* 65 536 bytes of JSON, or 255 code points of type / state key / sender: refused, whatever
   else holds *)
Lemma fields_hard_limit v json_len type sk sender room :
  65536 < json_len \/ 255 < rune_count type \/ opt_over rune_count sk \/ 255 < rune_count sender ->
  check_fields v false json_len type sk sender room = VTooLarge false.
Proof.
  intro H. unfold check_fields. rewrite max_event_length_65536.
  destruct (65536 <? json_len) eqn:E1; [reflexivity|].
  rewrite max_id_length_255.
  destruct (255 <? rune_count type) eqn:E2; [reflexivity|].
  rewrite <- max_id_length_255.
  destruct (opt_over_dec rune_count sk) as [O|W].
  - rewrite (opt_test_true _ _ O). reflexivity.
  - rewrite (opt_test_false _ _ W). rewrite max_id_length_255.
    destruct (255 <? rune_count sender) eqn:E3; [reflexivity|].
    exfalso. apply N.ltb_ge in E1, E2, E3. destruct H as [H|[H|[[k [E H]]|H]]]; try lia.
    pose proof (W k E). lia.
Qed.

(* the sender's format passes: a pseudo-ID version, or a sender of the shape checkIDFormat wants *)
Definition sender_format_passes (v sender : bytes) : Prop :=
  negb (bytes_eqb v pseudo_id_version) && negb (id_format sender 64) = false.

Lemma sender_format_shaped v sender : shaped 64 sender -> sender_format_passes v sender.
Proof.
  intro H. apply id_format_shaped in H. unfold sender_format_passes. rewrite H. apply andb_false_r.
Qed.

(* only the byte limit of type / state key exceeded: persistable in every lenient version *)
Lemma fields_byte_limit v json_len type sk sender room :
  lenient_version v = true ->
  json_len <= 65536 -> rune_count type <= 255 -> opt_within rune_count sk ->
  rune_count sender <= 255 -> sender_format_passes v sender ->
  255 < len type \/ opt_over len sk ->
  check_fields v false json_len type sk sender room = VTooLarge true.
Proof.
  intros L H1 H2 H3 H4 F H. unfold check_fields. rewrite max_event_length_65536, L.
  apply N.ltb_ge in H1. rewrite H1.
  rewrite max_id_length_255. pose proof H2 as H2'. apply N.ltb_ge in H2'. rewrite H2'.
  rewrite <- max_id_length_255. rewrite (opt_test_false _ _ H3).
  rewrite max_id_length_255. pose proof H4 as H4'. apply N.ltb_ge in H4'. rewrite H4'.
  unfold sender_format_passes in F. rewrite F.
  destruct (255 <? len type) eqn:E; [reflexivity|].
  rewrite <- max_id_length_255.
  destruct H as [H|H]; [apply N.ltb_ge in E; lia|].
  rewrite (opt_test_true _ _ H). reflexivity.
Qed.

(* type and state key within the byte limit, sender within the code-point limit and of the right
   format: the verdict is the byte size of the sender, then of the room ID *)
Lemma fields_within v json_len type sk sender room :
  json_len <= 65536 -> len type <= 255 -> opt_within len sk -> rune_count sender <= 255 ->
  sender_format_passes v sender ->
  check_fields v false json_len type sk sender room =
    match check_id_length sender with
    | VOk => check_id_length room
    | e => e
    end.
Proof.
  intros H1 H2 H3 H4 F. unfold check_fields. rewrite max_event_length_65536.
  apply N.ltb_ge in H1. rewrite H1.
  pose proof (rune_count_le type) as R. rewrite max_id_length_255.
  assert (R2 : rune_count type <= 255) by lia. apply N.ltb_ge in R2. rewrite R2.
  rewrite <- max_id_length_255. rewrite (opt_test_false _ _ (opt_within_runes _ H3)).
  rewrite max_id_length_255. apply N.ltb_ge in H4. rewrite H4.
  unfold sender_format_passes in F. rewrite F.
  apply N.ltb_ge in H2. rewrite H2.
  rewrite <- max_id_length_255. rewrite (opt_test_false _ _ H3). reflexivity.
Qed.

(* a sender without sigil or domain (outside the pseudo-ID version): refused as soon as no
   limit that is not lenient is exceeded - whatever the byte sizes (repair of F100) *)
Lemma fields_malformed_sender v json_len type sk sender room :
  bytes_eqb v pseudo_id_version = false -> ~ shaped 64 sender ->
  json_len <= 65536 -> rune_count type <= 255 -> opt_within rune_count sk ->
  rune_count sender <= 255 ->
  check_fields v false json_len type sk sender room = VErr.
Proof.
  intros P S H1 H2 H3 H4. unfold check_fields. rewrite max_event_length_65536.
  apply N.ltb_ge in H1. rewrite H1.
  rewrite max_id_length_255. apply N.ltb_ge in H2. rewrite H2.
  rewrite <- max_id_length_255. rewrite (opt_test_false _ _ H3).
  rewrite max_id_length_255. apply N.ltb_ge in H4. rewrite H4.
  rewrite P, (id_format_unshaped _ _ S). reflexivity.
Qed.

(* ... and never accepted or persistable, whatever the sizes *)
Lemma fields_malformed_sender_refused v json_len type sk sender room :
  bytes_eqb v pseudo_id_version = false -> ~ shaped 64 sender ->
  check_fields v false json_len type sk sender room = VErr
  \/ check_fields v false json_len type sk sender room = VTooLarge false.
Proof.
  intros P S. unfold check_fields.
  destruct (max_event_length <? json_len); [right; reflexivity|].
  destruct (max_id_length <? rune_count type); [right; reflexivity|].
  destruct (match sk with Some k => max_id_length <? rune_count k | None => false end);
    [right; reflexivity|].
  destruct (max_id_length <? rune_count sender); [right; reflexivity|].
  rewrite P, (id_format_unshaped _ _ S). left. reflexivity.
Qed.

Lemma fields_refs_nil v json_len type sk sender room :
  check_fields v true json_len type sk sender room = VErr.
Proof. reflexivity. Qed.

(* ---- the lenient set is exactly the set of registered versions ---- *)
Lemma lenient_all_registered :
  forallb lenient_version (ver_names gen_versions) = true
  /\ forallb (fun v => mem_bytes v (ver_names gen_versions)) gen_lenient_byte_limit_versions = true.
Proof. split; vm_compute; reflexivity. Qed.

(* ---- the whole table, for an event struct that checks its room ID with checkID ---- *)
Section Table.
  Variables (struct : N) (v : bytes) (json_len : N) (type : bytes) (sk : option bytes)
            (sender room : bytes).
  (* eventV1 / eventV2 check the room ID with checkID; eventV3 (other than the create event, whose
     room ID is derived) demands the sigil only *)
  Hypothesis Hstruct : (struct =? 3) = false /\ shaped 33 room
                       \/ (struct =? 3) = true /\ is_create_v3 type sk = false /\ exists r, room = 33 :: r.
  Hypothesis Hlenient : lenient_version v = true.
  Hypothesis Hpseudo : bytes_eqb v pseudo_id_version = false.
  (* the event is otherwise valid: its room ID is one spec.NewRoomID accepts (repair of F9) *)
  Hypothesis Hroomvalid : room_valid room = true.

  Let verdict_of := event_checks struct v false json_len type sk sender room.

  Definition hard_limit_exceeded : Prop :=
    65536 < json_len \/ 255 < rune_count type \/ opt_over rune_count sk
    \/ 255 < rune_count sender \/ 255 < rune_count room.

  Definition no_hard_limit_exceeded : Prop :=
    json_len <= 65536 /\ rune_count type <= 255 /\ opt_within rune_count sk
    /\ rune_count sender <= 255 /\ rune_count room <= 255.

  Definition byte_limit_exceeded : Prop :=
    255 < len type \/ opt_over len sk \/ 255 < len sender \/ 255 < len room.

  Definition all_within_limits : Prop :=
    json_len <= 65536 /\ len type <= 255 /\ opt_within len sk /\ len sender <= 255 /\ len room <= 255.

  Lemma verdict_unfold :
    verdict_of = match not_only_too_many_bytes (check_id_length room) with
                 | VOk => check_fields v false json_len type sk sender room
                 | e => e
                 end.
  Proof.
    unfold verdict_of, event_checks, check_room, room_id_of.
    destruct Hstruct as [[-> Hroom]|(-> & -> & r & Er)].
    - rewrite (check_id_shaped 33 room Hroom). cbn [andb].
      destruct (not_only_too_many_bytes (check_id_length room)); rewrite ?Hroomvalid; reflexivity.
    - cbn [andb]. rewrite Hroomvalid. rewrite Er at 1. rewrite N.eqb_refl. reflexivity.
  Qed.

  Lemma room_not_refused : rune_count room <= 255 -> not_only_too_many_bytes (check_id_length room) = VOk.
  Proof.
    intro H. destruct (id_length_cases room) as [[-> _]|[[-> _]|[_ Hr]]]; [reflexivity|reflexivity|lia].
  Qed.

  Lemma table_ok : shaped 64 sender -> all_within_limits -> verdict_of = VOk.
  Proof.
    intros Hsender (H1 & H2 & H3 & H4 & H5). rewrite verdict_unfold, (id_length_ok room H5). cbn [not_only_too_many_bytes].
    pose proof (rune_count_le sender) as Ls.
    rewrite (fields_within v json_len type sk sender room H1 H2 H3 ltac:(lia) (sender_format_shaped v sender Hsender)).
    rewrite (id_length_ok sender H4). apply id_length_ok. exact H5.
  Qed.

  Lemma opt_over_within_absurd f sk' : opt_over f sk' -> opt_within f sk' -> False.
  Proof. intros [k [E H]] W. pose proof (W k E). lia. Qed.

  Lemma table_persistable :
    shaped 64 sender -> no_hard_limit_exceeded -> byte_limit_exceeded -> verdict_of = VTooLarge true.
  Proof.
    intros Hsender (H1 & H2 & H3 & H4 & H5) B. rewrite verdict_unfold, (room_not_refused H5).
    pose proof (sender_format_shaped v sender Hsender) as F.
    destruct (N.le_gt_cases (len type) 255) as [Ht|Ht];
      [|apply fields_byte_limit; auto].
    destruct (opt_over_dec len sk) as [Ok|Wk];
      [apply fields_byte_limit; auto|].
    rewrite (fields_within v json_len type sk sender room H1 Ht Wk H4 F).
    destruct (N.le_gt_cases (len sender) 255) as [Hs|Hs].
    - rewrite (id_length_ok sender Hs). apply id_length_persistable; [exact H5|].
      destruct B as [B|[B|[B|B]]]; try lia. exfalso. eapply opt_over_within_absurd; eauto.
    - rewrite (id_length_persistable sender H4 Hs). reflexivity.
  Qed.

  (* a sender that is not of the form @...:... : refused, never persistable, whatever the sizes *)
  Lemma table_malformed_sender :
    ~ shaped 64 sender -> no_hard_limit_exceeded -> verdict_of = VErr.
  Proof.
    intros S (H1 & H2 & H3 & H4 & H5). rewrite verdict_unfold, (room_not_refused H5).
    apply fields_malformed_sender; assumption.
  Qed.

  Lemma table_malformed_sender_refused :
    ~ shaped 64 sender -> verdict_of = VErr \/ verdict_of = VTooLarge false.
  Proof.
    intro S. rewrite verdict_unfold.
    destruct (id_length_cases room) as [[-> _]|[[-> _]|[-> _]]]; cbn [not_only_too_many_bytes];
      try (apply fields_malformed_sender_refused; assumption).
    right. reflexivity.
  Qed.

  (* any limit that is not lenient exceeded: refused, whatever else is merely too many bytes *)
  Lemma table_refused : hard_limit_exceeded -> verdict_of = VTooLarge false.
  Proof.
    intros Hh. rewrite verdict_unfold.
    destruct (N.lt_ge_cases 255 (rune_count room)) as [Hr|Hr].
    - rewrite (id_length_refused room Hr). reflexivity.
    - rewrite (room_not_refused Hr). apply fields_hard_limit.
      destruct Hh as [H|[H|[H|[H|H]]]]; auto. lia.
  Qed.
End Table.

(* the rows of the table together (the form Props/C17.v states) *)
Lemma check_fields_table_gen struct v json_len type sk sender room :
  ((struct =? 3) = false /\ shaped 33 room
   \/ (struct =? 3) = true /\ is_create_v3 type sk = false /\ exists r, room = 33 :: r) ->
  lenient_version v = true -> bytes_eqb v pseudo_id_version = false ->
  room_valid room = true ->
  let verdict := event_checks struct v false json_len type sk sender room in
  (hard_limit_exceeded json_len type sk sender room -> verdict = VTooLarge false)
  /\ (shaped 64 sender -> no_hard_limit_exceeded json_len type sk sender room ->
      byte_limit_exceeded type sk sender room -> verdict = VTooLarge true)
  /\ (shaped 64 sender -> all_within_limits json_len type sk sender room -> verdict = VOk)
  /\ (~ shaped 64 sender -> no_hard_limit_exceeded json_len type sk sender room -> verdict = VErr)
  /\ (~ shaped 64 sender -> verdict = VErr \/ verdict = VTooLarge false).
Proof.
  intros H1 H2 H3 H5. repeat split.
  - apply table_refused; assumption.
  - intro. apply table_persistable; assumption.
  - intro. apply table_ok; assumption.
  - intro. apply table_malformed_sender; assumption.
  - intro. apply table_malformed_sender_refused; assumption.
Qed.
