(* C17 specification of the event size limits, as the property text states them:
   an event is refused when its JSON exceeds 65 536 bytes or its type, state key, sender or room ID
   exceeds 255 code points; it is too large but persistable when only the 255-byte limit is
   exceeded; otherwise the limits do not object.  Written without reference to the order of the
   checks in the code. *)
From Verif Require Import Lib.Bytes.
Open Scope N_scope.

(* code points of a well-formed UTF-8 string: the bytes that are not continuation bytes *)
Definition is_continuation (c : N) : bool := (128 <=? c) && (c <=? 191).

Fixpoint code_points (s : bytes) : N :=
  match s with
  | [] => 0
  | c :: r => (if is_continuation c then 0 else 1) + code_points r
  end.

Definition byte_length (s : bytes) : N := N.of_nat (length s).

Inductive size_class := SizeOk | SizePersistable | SizeRefused.

(* limited = type, state key (when present), sender, room ID *)
Definition size_class_of (json_len : N) (limited : list bytes) : size_class :=
  if (65536 <? json_len) || existsb (fun f => 255 <? code_points f) limited then SizeRefused
  else if existsb (fun f => 255 <? byte_length f) limited then SizePersistable
  else SizeOk.

Definition size_class_text (c : size_class) : bytes :=
  match c with
  | SizeOk => bs "ok"
  | SizePersistable => bs "toolarge-persistable"
  | SizeRefused => bs "toolarge"
  end.

(* the sender of an event (outside pseudo-ID rooms) is a user ID: the sigil, and a colon that
   separates a domain.  An event without one is refused outright - never "too large but
   persistable", whatever its sizes (F100). *)
Definition sender_well_formed (s : bytes) : bool :=
  match s with
  | c :: r => (c =? 64) && existsb (fun x => x =? 58) r
  | [] => false
  end.

(* ---- unpadded base64 as a positional numeral (independent of the group-wise codec) ---- *)
Definition b64_digit (url : bool) (c : N) : option N :=
  if (65 <=? c) && (c <=? 90) then Some (c - 65)
  else if (97 <=? c) && (c <=? 122) then Some (c - 71)
  else if (48 <=? c) && (c <=? 57) then Some (c + 4)
  else if c =? (if url then 45 else 43) then Some 62
  else if c =? (if url then 95 else 47) then Some 63
  else None.

Fixpoint b64_numeral (url : bool) (acc : N) (s : bytes) : option N :=
  match s with
  | [] => Some acc
  | c :: r => match b64_digit url c with
              | Some d => b64_numeral url (acc * 64 + d) r
              | None => None
              end
  end.

(* k base-256 digits of n, most significant first *)
Fixpoint base256 (k : nat) (n : N) (acc : bytes) : bytes :=
  match k with
  | O => acc
  | S k' => base256 k' (n / 256) ((n mod 256) :: acc)
  end.

(* the value an unpadded base64 text of n characters denotes: its 6n bits, the 6n mod 8 trailing
   bits dropped; texts of length 1 mod 4 denote nothing *)
Definition b64_value (url : bool) (s : bytes) : option bytes :=
  let n := byte_length s in
  if n mod 4 =? 1 then None else
  match b64_numeral url 0 s with
  | Some v => Some (base256 (N.to_nat (6 * n / 8)) (v / 2 ^ ((6 * n) mod 8)) [])
  | None => None
  end.
