(* C17 proofs: the size verdict of the model (the checks in the order of the code) equals the size
   class of the specification (LimitsSpec.size_class_of, written from the property text without
   reference to any order) for events whose limited fields are well-formed UTF-8.

   The library counts code points with utf8.RuneCountInString (every byte that does not start a
   well-formed sequence counts as one); the specification counts the bytes that are not
   continuation bytes.  On well-formed UTF-8 the two agree (rune_count_code_points); the strings
   of an event that passed the JSON decoder are well-formed (invalid bytes were replaced by U+FFFD). *)
From Verif Require Import Lib.Bytes Ident.Chars Ident.Limits Ident.Versions Ident.Events Ident.LimitsSpec
  Ident.LimitsProofs.
From Coq Require Import Lia.
Open Scope N_scope.

(* well-formed UTF-8, by the decoder of the model itself: every byte of 128 or more starts a
   sequence that rune_rest consumes beyond its first byte *)
Fixpoint wf_utf8_fuel (fuel : nat) (s : bytes) : bool :=
  match s with
  | [] => true
  | c :: r =>
      match fuel with
      | O => false
      | S f =>
          if c <? 128 then wf_utf8_fuel f r
          else (Nat.ltb (length (rune_rest c r)) (length r)) && wf_utf8_fuel f (rune_rest c r)
      end
  end.
Definition wf_utf8 (s : bytes) : bool := wf_utf8_fuel (length s) s.

Lemma in_range_cont lo hi c : 128 <= lo -> hi <= 191 -> in_range lo hi c = true -> is_continuation c = true.
Proof.
  unfold in_range, is_continuation. intros Hl Hh H. apply andb_true_iff in H as [H1 H2].
  apply N.leb_le in H1, H2. apply andb_true_iff; split; apply N.leb_le; lia.
Qed.

Lemma is_cont_cont c : is_cont c = true -> is_continuation c = true.
Proof. unfold is_cont. apply in_range_cont; lia. Qed.

(* a sequence that rune_rest consumes beyond its lead byte: the lead byte is not a continuation
   byte and the bytes consumed after it all are *)
Lemma rune_rest_multi c r :
  128 <= c -> (length (rune_rest c r) < length r)%nat ->
  is_continuation c = false /\ code_points r = code_points (rune_rest c r).
Proof.
  intros Hc Hlen. unfold rune_rest in *.
  destruct (c <? 128) eqn:E0; [apply N.ltb_lt in E0; lia|].
  destruct ((c <? 194) || (244 <? c)) eqn:E1; [lia|].
  apply orb_false_iff in E1 as [E1 E2]. apply N.ltb_ge in E1. apply N.ltb_ge in E2.
  assert (Hlead : is_continuation c = false).
  { unfold is_continuation. apply andb_false_iff. right. apply N.leb_gt. lia. }
  split; [exact Hlead|].
  destruct (c <? 224) eqn:E3.
  - destruct r as [|c1 r1]; [simpl in Hlen; lia|].
    destruct (is_cont c1) eqn:C1; [|lia].
    cbn [code_points]. rewrite (is_cont_cont _ C1). lia.
  - destruct (c <? 240) eqn:E4.
    + destruct r as [|c1 [|c2 r2]]; try (simpl in Hlen; lia).
      match type of Hlen with context [if ?b then _ else _] => destruct b eqn:B end; [|lia].
      apply andb_true_iff in B as [B1 B2].
      cbn [code_points].
      rewrite (in_range_cont (if c =? 224 then 160 else 128) (if c =? 237 then 159 else 191) c1
                 ltac:(destruct (c =? 224); lia) ltac:(destruct (c =? 237); lia) B1).
      rewrite (is_cont_cont _ B2). lia.
    + destruct r as [|c1 [|c2 [|c3 r3]]]; try (simpl in Hlen; lia).
      match type of Hlen with context [if ?b then _ else _] => destruct b eqn:B end; [|lia].
      apply andb_true_iff in B as [B B3]. apply andb_true_iff in B as [B1 B2].
      cbn [code_points].
      rewrite (in_range_cont (if c =? 240 then 144 else 128) (if c =? 244 then 143 else 191) c1
                 ltac:(destruct (c =? 240); lia) ltac:(destruct (c =? 244); lia) B1).
      rewrite (is_cont_cont _ B2), (is_cont_cont _ B3). lia.
Qed.

Lemma ascii_not_cont c : c < 128 -> is_continuation c = false.
Proof. intro H. unfold is_continuation. apply andb_false_iff. left. apply N.leb_gt. exact H. Qed.

Lemma rune_rest_ascii c r : c < 128 -> rune_rest c r = r.
Proof. intro H. unfold rune_rest. apply N.ltb_lt in H. rewrite H. reflexivity. Qed.

Lemma rune_count_fuel_code_points f : forall g s,
  (length s <= f)%nat -> (length s <= g)%nat -> wf_utf8_fuel g s = true ->
  rune_count_fuel f s = code_points s.
Proof.
  induction f as [|f IH]; intros g s Hf Hg Hw.
  - destruct s; [reflexivity|simpl in Hf; lia].
  - destruct s as [|c r]; [reflexivity|].
    destruct g as [|g]; [simpl in Hg; lia|].
    cbn [rune_count_fuel wf_utf8_fuel code_points] in *.
    destruct (c <? 128) eqn:E.
    + apply N.ltb_lt in E. rewrite (rune_rest_ascii c r E), (ascii_not_cont c E).
      rewrite (IH g r); [lia| simpl in Hf; lia | simpl in Hg; lia | exact Hw].
    + apply N.ltb_ge in E. apply andb_true_iff in Hw as [Hl Hw]. apply Nat.ltb_lt in Hl.
      destruct (rune_rest_multi c r E Hl) as [Hlead Hcp].
      rewrite Hlead, Hcp.
      rewrite (IH g (rune_rest c r)); [lia| simpl in Hf; lia | simpl in Hg; lia | exact Hw].
Qed.

(* on well-formed UTF-8 the library's count is the specification's *)
Lemma rune_count_code_points s : wf_utf8 s = true -> rune_count s = code_points s.
Proof.
  intro H. unfold rune_count, wf_utf8 in *.
  apply (rune_count_fuel_code_points (length s) (length s) s); [lia|lia|exact H].
Qed.

Lemma len_byte_length s : len s = byte_length s.
Proof. reflexivity. Qed.

(* ---- the verdict of the model is the size class of the specification ---- *)
Definition verdict_of_class (c : size_class) : verdict :=
  match c with SizeOk => VOk | SizePersistable => VTooLarge true | SizeRefused => VTooLarge false end.

Definition limited_fields (type : bytes) (sk : option bytes) (sender room : bytes) : list bytes :=
  type :: (match sk with Some k => [k] | None => [] end) ++ [sender; room].

Definition opt_wf (sk : option bytes) : Prop := forall k, sk = Some k -> wf_utf8 k = true.

Section Class.
  Variables (struct : N) (v : bytes) (json_len : N) (type : bytes) (sk : option bytes)
            (sender room : bytes).
  Hypothesis Hstruct : (struct =? 3) = false /\ shaped 33 room
                       \/ (struct =? 3) = true /\ is_create_v3 type sk = false /\ exists r, room = 33 :: r.
  Hypothesis Hlenient : lenient_version v = true.
  Hypothesis Hpseudo : bytes_eqb v pseudo_id_version = false.
  Hypothesis Hsender : shaped 64 sender.
  Hypothesis Hroomvalid : room_valid room = true.
  Hypothesis Wtype : wf_utf8 type = true.
  Hypothesis Wsk : opt_wf sk.
  Hypothesis Wsender : wf_utf8 sender = true.
  Hypothesis Wroom : wf_utf8 room = true.

  Let fields := limited_fields type sk sender room.

  Lemma exists_over (f : bytes -> N) :
    existsb (fun x => 255 <? f x) fields = true <->
    255 < f type \/ opt_over f sk \/ 255 < f sender \/ 255 < f room.
  Proof.
    unfold fields, limited_fields, opt_over. destruct sk as [k|]; cbn [existsb app].
    - rewrite ?orb_false_r, !orb_true_iff, !N.ltb_lt. split.
      + intros [H|[H|[H|H]]]; auto. right; left. exists k. auto.
      + intros [H|[[k' [E H]]|[H|H]]]; auto. inversion E; subst. auto.
    - rewrite ?orb_false_r, !orb_true_iff, !N.ltb_lt. split.
      + intros [H|[H|H]]; auto.
      + intros [H|[[k' [E H]]|[H|H]]]; auto. discriminate.
  Qed.

  Lemma opt_over_cp : opt_over code_points sk <-> opt_over rune_count sk.
  Proof.
    split; intros [k [E H]]; exists k; split; auto;
      [rewrite (rune_count_code_points k (Wsk k E))|rewrite <- (rune_count_code_points k (Wsk k E))]; exact H.
  Qed.

  Theorem event_checks_is_size_class :
    event_checks struct v false json_len type sk sender room
    = verdict_of_class (size_class_of json_len fields).
  Proof.
    pose proof (check_fields_table_gen struct v json_len type sk sender room
                  Hstruct Hlenient Hpseudo Hroomvalid) as (Tr & Tp & To & _ & _).
    unfold size_class_of.
    destruct ((65536 <? json_len) || existsb (fun f => 255 <? code_points f) fields) eqn:E1.
    - (* refused *)
      apply Tr. apply orb_true_iff in E1 as [E1|E1].
      + left. apply N.ltb_lt. exact E1.
      + apply exists_over in E1. unfold hard_limit_exceeded.
        rewrite (rune_count_code_points type Wtype), (rune_count_code_points sender Wsender),
                (rune_count_code_points room Wroom).
        destruct E1 as [H|[H|[H|H]]]; auto. right; right; left. apply opt_over_cp. exact H.
    - apply orb_false_iff in E1 as [E1 E2]. apply N.ltb_ge in E1.
      assert (Hnh : no_hard_limit_exceeded json_len type sk sender room).
      { unfold no_hard_limit_exceeded.
        rewrite (rune_count_code_points type Wtype), (rune_count_code_points sender Wsender),
                (rune_count_code_points room Wroom).
        assert (Hn : ~ (255 < code_points type \/ opt_over code_points sk \/ 255 < code_points sender
                        \/ 255 < code_points room)).
        { intro H. apply exists_over in H. rewrite H in E2. discriminate. }
        repeat split; try lia.
        intros k Ek. destruct (N.le_gt_cases (rune_count k) 255) as [L|G]; [exact L|].
        exfalso. apply Hn. right; left. apply opt_over_cp. exists k. auto. }
      destruct (existsb (fun f => 255 <? byte_length f) fields) eqn:E3.
      + apply Tp; [exact Hsender|exact Hnh|]. apply exists_over in E3. exact E3.
      + apply To; [exact Hsender|]. unfold all_within_limits.
        assert (Hn : ~ (255 < byte_length type \/ opt_over byte_length sk \/ 255 < byte_length sender
                        \/ 255 < byte_length room)).
        { intro H. apply exists_over in H. rewrite H in E3. discriminate. }
        repeat split; try (change len with byte_length; lia).
        intros k Ek. destruct (N.le_gt_cases (len k) 255) as [L|G]; [exact L|].
        exfalso. apply Hn. right; left. exists k. auto.
  Qed.
End Class.

(* the specification's "the sender is a user ID" is the shape the table theorem speaks of *)
Lemma existsb_colon_mem r : existsb (fun x => x =? 58) r = mem_byte 58 r.
Proof. induction r as [|x r IH]; [reflexivity|]. cbn. rewrite IH. reflexivity. Qed.

Lemma sender_well_formed_shaped s : sender_well_formed s = true <-> shaped 64 s.
Proof.
  unfold sender_well_formed, shaped. destruct s as [|c r].
  - split; [discriminate|]. intros [_ [r' E]]. discriminate.
  - rewrite andb_true_iff, existsb_colon_mem, N.eqb_eq. split.
    + intros [-> H]. split; [cbn; exact H|eauto].
    + intros [H [r' E]]. inversion E; subst. split; [reflexivity|]. cbn in H. exact H.
Qed.
