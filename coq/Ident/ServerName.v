(* C17 model: spec/servername.go (ParseAndValidateServerName, splitServerName) together with the
   part of net.ParseIP (Go 1.23: net/netip.ParseAddr, zones refused) that it relies on.
   Executable definitions only.

   What is assumed about the Go runtime (checked by the correspondence run, not proved):
   - strconv.ParseUint(p, 10, 16) = a non-empty string of ASCII digits whose value is <= 65535
     (leading zeros allowed; no sign, no underscore); splitServerName hands it at most five
     characters;
   - net.ParseIP as transcribed below (dispatch on the first of . : percent; IPv4 = four decimal
     octets without leading zeros; IPv6 = RFC 4291 text form, groups of 1-4 hex digits, at most
     one double colon standing for at least one group, optional trailing dotted quad; zones
     refused). *)
From Verif Require Import Lib.Bytes Ident.Chars.
Open Scope N_scope.

(* ---- port ---- *)
(* at most five characters (repair of F101), then strconv.ParseUint(p, 10, 16) *)
Definition parse_port (p : bytes) : option N :=
  if 5 <? len p then None else
  match parse_dec p with
  | Some n => if n <=? 65535 then Some n else None
  | None => None
  end.

Definition split_server_name (s : bytes) : bytes * option N :=
  match cut_last ch_colon s with
  | None => (s, None)
  | Some (h, p) =>
      match parse_port p with
      | Some n => (h, Some n)
      | None => (s, None)
      end
  end.

(* ---- IPv4 ---- *)
(* one octet as netip.parseIPv4Fields reads it: digits, no leading zero, value <= 255 *)
Definition ipv4_octet (f : bytes) : option N :=
  match f with
  | [] => None
  | c :: r =>
      if (c =? 48) && negb (is_nil r) then None
      else match parse_dec f with
           | Some n => if n <=? 255 then Some n else None
           | None => None
           end
  end.

Definition ipv4_fields (s : bytes) : option (N * N * N * N) :=
  match split_on ch_dot s with
  | [a; b; c; d] =>
      match ipv4_octet a, ipv4_octet b, ipv4_octet c, ipv4_octet d with
      | Some x, Some y, Some z, Some w => Some (x, y, z, w)
      | _, _, _, _ => None
      end
  | _ => None
  end.

(* ---- IPv6 ---- *)
Fixpoint hex_acc (acc : N) (s : bytes) : option N :=
  match s with
  | [] => Some acc
  | c :: r => if is_hex c then hex_acc (acc * 16 + hex_value c) r else None
  end.

(* 1 to 4 hex digits *)
Definition hexgroup (f : bytes) : option N :=
  match f with
  | [] => None
  | _ => if len f <=? 4 then hex_acc 0 f else None
  end.

(* fields after splitting on colon: all hex groups, except that the last one may be a dotted quad
   (worth two groups) *)
Fixpoint body_groups (fs : list bytes) : option (list N) :=
  match fs with
  | [] => Some []
  | [f] =>
      match hexgroup f with
      | Some v => Some [v]
      | None =>
          match ipv4_fields f with
          | Some (a, b, c, d) => Some [a * 256 + b; c * 256 + d]
          | None => None
          end
      end
  | f :: fs' =>
      match hexgroup f, body_groups fs' with
      | Some v, Some l => Some (v :: l)
      | _, _ => None
      end
  end.

(* first occurrence of two consecutive colons *)
Fixpoint cut_dcolon (s : bytes) : option (bytes * bytes) :=
  match s with
  | x :: t =>
      match t with
      | y :: r =>
          if (x =? ch_colon) && (y =? ch_colon) then Some ([], r)
          else match cut_dcolon t with
               | Some (a, b) => Some (x :: a, b)
               | None => None
               end
      | [] => None
      end
  | [] => None
  end.

Definition zeros (n : nat) : list N := repeat 0 n.

(* the eight 16-bit groups of an IPv6 text address *)
Definition parse_ipv6 (s : bytes) : option (list N) :=
  match cut_dcolon s with
  | None =>
      match body_groups (split_on ch_colon s) with
      | Some l => if (length l =? 8)%nat then Some l else None
      | None => None
      end
  | Some (pre, post) =>
      let pg := if is_nil pre then Some [] else all_hex_groups hexgroup (split_on ch_colon pre) in
      let qg := if is_nil post then Some [] else body_groups (split_on ch_colon post) in
      match pg, qg with
      | Some p, Some q =>
          if (length p + length q <=? 7)%nat
          then Some (p ++ zeros (8 - (length p + length q)) ++ q)
          else None
      | _, _ => None
      end
  end.

Inductive ipaddr := IP4 (a b c d : N) | IP6 (groups : list N).

(* which of . : percent comes first *)
Fixpoint first_special (s : bytes) : option N :=
  match s with
  | [] => None
  | c :: r => if (c =? ch_dot) || (c =? ch_colon) || (c =? 37) then Some c else first_special r
  end.

Definition parse_ip (s : bytes) : option ipaddr :=
  match first_special s with
  | Some c =>
      if c =? ch_dot then
        match ipv4_fields s with Some (a, b, c, d) => Some (IP4 a b c d) | None => None end
      else if c =? ch_colon then
        match parse_ipv6 s with Some l => Some (IP6 l) | None => None end
      else None
  | None => None
  end.

(* net.IP.To4() <> nil *)
Definition is_v4_mapped (l : list N) : bool :=
  match l with
  | [a; b; c; d; e; f; _; _] =>
      (a =? 0) && (b =? 0) && (c =? 0) && (d =? 0) && (e =? 0) && (f =? 65535)
  | _ => false
  end.

Definition to4_ok (a : ipaddr) : bool :=
  match a with IP4 _ _ _ _ => true | IP6 l => is_v4_mapped l end.

Definition is_dns_char (c : N) : bool :=
  is_upper c || is_lower c || is_digit c || (c =? 45) || (c =? ch_dot).

(* how the host part was accepted *)
Inductive host_kind := HDns | HV4 | HMapped | HBr6 | HBr4.

Definition host_kind_of (host : bytes) : option host_kind :=
  match host with
  | [] => None
  | c :: rest =>
      if c =? ch_lbr then
        match last_byte host with
        | Some l =>
            if l =? ch_rbr then
              match parse_ip (but_last rest) with
              | Some (IP4 _ _ _ _) => Some HBr4
              | Some (IP6 _) => Some HBr6
              | None => None
              end
            else None
        | None => None
        end
      else
        match parse_ip host with
        | Some (IP4 _ _ _ _) => Some HV4
        | Some (IP6 l) =>
            if is_v4_mapped l then Some HMapped
            else if forallb is_dns_char host then Some HDns else None
        | None => if forallb is_dns_char host then Some HDns else None
        end
  end.

(* ParseAndValidateServerName: Some (host, port, kind) when valid *)
Definition sn_parse (s : bytes) : option (bytes * option N * host_kind) :=
  match s with
  | [] => None
  | _ =>
      let '(host, port) := split_server_name s in
      match host_kind_of host with
      | Some k => Some (host, port, k)
      | None => None
      end
  end.

Definition sn_accept (s : bytes) : bool :=
  match sn_parse s with Some _ => true | None => false end.
