(* C17 proofs: facts about cutting and splitting byte strings. *)
From Verif Require Import Lib.Bytes Ident.Chars.
Open Scope N_scope.

Lemma mem_byte_app c a b : mem_byte c (a ++ b) = mem_byte c a || mem_byte c b.
Proof. induction a as [|x a IH]; [reflexivity|]. cbn. rewrite IH, orb_assoc. reflexivity. Qed.

Lemma mem_byte_true_In c s : mem_byte c s = true <-> In c s.
Proof.
  induction s as [|x s IH]; cbn; [split; [discriminate|tauto]|].
  rewrite orb_true_iff, IH, N.eqb_eq. tauto.
Qed.

Lemma mem_byte_false_forall c s : mem_byte c s = false <-> Forall (fun x => x <> c) s.
Proof.
  induction s as [|x s IH]; cbn.
  - split; [constructor|reflexivity].
  - rewrite orb_false_iff, IH, N.eqb_neq. split.
    + intros [A B]. constructor; assumption.
    + intro H. inversion H; subst. split; assumption.
Qed.

Lemma forall_not_mem (P : N -> Prop) c s : Forall P s -> ~ P c -> mem_byte c s = false.
Proof.
  intros H Hc. apply mem_byte_false_forall. eapply Forall_impl; [|exact H].
  intros x Hx E. subst. contradiction.
Qed.

(* ---- first occurrence ---- *)
Lemma cut_first_some c s a b :
  cut_first c s = Some (a, b) -> s = a ++ c :: b /\ mem_byte c a = false.
Proof.
  unfold cut_first. revert a b; induction s as [|x s IH]; intros a b H; cbn in H; [discriminate|].
  destruct (x =? c) eqn:E.
  - inversion H; subst. apply N.eqb_eq in E. subst. split; reflexivity.
  - destruct (split_at c s) as [[a' b']|]; [|discriminate]. inversion H; subst.
    destruct (IH a' b eq_refl) as [-> Hm]. split; [reflexivity|]. cbn. rewrite E, Hm. reflexivity.
Qed.

Lemma cut_first_none c s : cut_first c s = None -> mem_byte c s = false.
Proof.
  unfold cut_first. induction s as [|x s IH]; cbn; [reflexivity|].
  destruct (x =? c); [discriminate|]. destruct (split_at c s) as [[a b]|]; [discriminate|].
  intros _. apply IH. reflexivity.
Qed.

Lemma cut_first_app c a b : mem_byte c a = false -> cut_first c (a ++ c :: b) = Some (a, b).
Proof.
  unfold cut_first. induction a as [|x a IH]; cbn; intro H.
  - rewrite N.eqb_refl. reflexivity.
  - apply orb_false_iff in H as [H1 H2]. rewrite H1, (IH H2). reflexivity.
Qed.

(* ---- last occurrence ---- *)
Lemma cut_last_none c s : cut_last c s = None -> mem_byte c s = false.
Proof.
  induction s as [|x s IH]; cbn; [reflexivity|].
  destruct (cut_last c s) as [[a b]|]; [discriminate|].
  destruct (x =? c); [discriminate|]. intros _. apply IH. reflexivity.
Qed.

Lemma cut_last_some c s a b :
  cut_last c s = Some (a, b) -> s = a ++ c :: b /\ mem_byte c b = false.
Proof.
  revert a b; induction s as [|x s IH]; intros a b H; cbn in H; [discriminate|].
  destruct (cut_last c s) as [[a' b']|] eqn:E.
  - inversion H; subst. destruct (IH a' b eq_refl) as [-> Hm]. split; [reflexivity|exact Hm].
  - destruct (x =? c) eqn:Ex; [|discriminate]. inversion H; subst.
    apply N.eqb_eq in Ex. subst. split; [reflexivity|]. apply cut_last_none. exact E.
Qed.

Lemma cut_last_not_mem c s : mem_byte c s = false -> cut_last c s = None.
Proof.
  induction s as [|x s IH]; cbn; [reflexivity|]. intro H. apply orb_false_iff in H as [H1 H2].
  rewrite (IH H2), H1. reflexivity.
Qed.

Lemma cut_last_app c a b : mem_byte c b = false -> cut_last c (a ++ c :: b) = Some (a, b).
Proof.
  intro H. induction a as [|x a IH]; cbn.
  - rewrite (cut_last_not_mem c b H), N.eqb_refl. reflexivity.
  - rewrite IH. reflexivity.
Qed.

(* ---- last byte / all but last ---- *)
Lemma last_byte_app s x : last_byte (s ++ [x]) = Some x.
Proof.
  induction s as [|y s IH]; [reflexivity|]. cbn [app last_byte].
  destruct (s ++ [x]) eqn:E; [destruct s; discriminate|]. exact IH.
Qed.

Lemma but_last_app s x : but_last (s ++ [x]) = s.
Proof.
  induction s as [|y s IH]; [reflexivity|]. cbn [app but_last].
  destruct (s ++ [x]) eqn:E; [destruct s; discriminate|]. rewrite IH. reflexivity.
Qed.

Lemma last_byte_but_last s x : last_byte s = Some x -> s = but_last s ++ [x].
Proof.
  induction s as [|y s IH]; [discriminate|]. cbn [last_byte but_last].
  destruct s as [|z s'].
  - intro H. inversion H. reflexivity.
  - intro H. rewrite (IH H) at 1. reflexivity.
Qed.

(* ---- splitting on a separator and joining back ---- *)
Fixpoint join_on (c : N) (l : list bytes) : bytes :=
  match l with
  | [] => []
  | [x] => x
  | x :: l' => x ++ c :: join_on c l'
  end.

Lemma split_on_nonempty c s : split_on c s <> [].
Proof.
  induction s as [|x s IH]; cbn; [discriminate|].
  destruct (x =? c); [discriminate|]. destruct (split_on c s); [contradiction|discriminate].
Qed.

Lemma join_split c s : join_on c (split_on c s) = s.
Proof.
  induction s as [|x s IH]; [reflexivity|]. cbn [split_on].
  destruct (x =? c) eqn:E.
  - apply N.eqb_eq in E. subst. pose proof (split_on_nonempty c s) as Hn.
    destruct (split_on c s) as [|f fs] eqn:Es; [contradiction|].
    cbn [join_on]. cbn [join_on] in IH. cbn. f_equal. exact IH.
  - pose proof (split_on_nonempty c s) as Hn.
    destruct (split_on c s) as [|f fs] eqn:Es; [contradiction|].
    destruct fs as [|g gs]; cbn [join_on] in *; cbn; rewrite IH; reflexivity.
Qed.

Lemma split_fields_no_sep c s : Forall (fun f => mem_byte c f = false) (split_on c s).
Proof.
  induction s as [|x s IH]; cbn [split_on]; [repeat constructor|].
  destruct (x =? c) eqn:E.
  - constructor; [reflexivity|exact IH].
  - pose proof (split_on_nonempty c s) as Hn.
    destruct (split_on c s) as [|f fs]; [contradiction|].
    inversion IH; subst. constructor; [|assumption]. cbn. rewrite E. assumption.
Qed.

Lemma split_single c f : mem_byte c f = false -> split_on c f = [f].
Proof.
  induction f as [|x f IH]; [reflexivity|]. cbn. intro H. apply orb_false_iff in H as [H1 H2].
  rewrite H1, (IH H2). reflexivity.
Qed.

Lemma split_app c f s : mem_byte c f = false -> split_on c (f ++ c :: s) = f :: split_on c s.
Proof.
  induction f as [|x f IH]; cbn; intro H.
  - rewrite N.eqb_refl. reflexivity.
  - apply orb_false_iff in H as [H1 H2]. rewrite H1, (IH H2). reflexivity.
Qed.

Lemma split_join c l :
  l <> [] -> Forall (fun f => mem_byte c f = false) l -> split_on c (join_on c l) = l.
Proof.
  induction l as [|f l IH]; [contradiction|]. intros _ H. inversion H as [|? ? Hf Hl]; subst.
  destruct l as [|g l'].
  - cbn [join_on]. apply split_single. exact Hf.
  - cbn [join_on]. rewrite (split_app c f _ Hf). f_equal. apply IH; [discriminate|exact Hl].
Qed.

(* every byte of s is a byte of some field, or the separator *)
Lemma forall_of_fields (P : N -> Prop) c s :
  P c -> Forall (Forall P) (split_on c s) -> Forall P s.
Proof.
  intros Hc H. rewrite <- (join_split c s). induction (split_on c s) as [|f l IH]; [constructor|].
  inversion H; subst. destruct l as [|g l']; cbn [join_on]; [assumption|].
  apply Forall_app. split; [assumption|]. constructor; [exact Hc|]. apply IH. assumption.
Qed.

Lemma forall_fields (P : N -> Prop) c s : Forall P s -> Forall (Forall P) (split_on c s).
Proof.
  induction s as [|x s IH]; cbn [split_on]; intro H; [repeat constructor|].
  inversion H; subst. specialize (IH ltac:(assumption)).
  destruct (x =? c).
  - constructor; [constructor|exact IH].
  - pose proof (split_on_nonempty c s) as Hn.
    destruct (split_on c s) as [|f fs]; [contradiction|]. inversion IH; subst.
    constructor; [constructor; assumption|assumption].
Qed.
