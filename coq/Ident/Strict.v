(* C17: executable deciders for the identifier grammars of the property text (Ident/GrammarSpec.v).
   They are defined from the parser models by removing the named departures of the code from the
   grammar; Ident/GrammarProofs.v proves that they decide the independently written grammar
   predicates (strict_*_iff), so the specification oracles of Run/RunC17.v decide exactly those. *)
From Verif Require Import Lib.Bytes Ident.Chars Ident.ServerName Ident.Ids.
Open Scope N_scope.

(* departures of ParseAndValidateServerName from the grammar:
   - HMapped: an unbracketed IPv4-mapped IPv6 literal is accepted,
   - HBr4: a bracketed IPv4 literal is accepted,
   - a DNS name longer than 255 characters is accepted *)
Definition kind_in_grammar (k : host_kind) : bool :=
  match k with HDns | HV4 | HBr6 => true | HMapped | HBr4 => false end.

Definition sn_strict (s : bytes) : bool :=
  match sn_parse s with
  | Some (host, _, HBr6) => true
  | Some (host, _, (HDns | HV4)) => len host <=? 255
  | Some (_, _, (HMapped | HBr4)) => false
  | None => false
  end.

(* departures of NewUserID: those of the server name; with allowHistoricalIDs the localpart may be
   empty *)
Definition user_strict (historical : bool) (s : bytes) : bool :=
  match user_id_parse historical s with
  | Some (l, d) => sn_strict d && negb (is_nil l)
  | None => false
  end.

(* departures of NewRoomID: those of the server name; no length limit *)
Definition room_strict (s : bytes) : bool :=
  match room_id_parse s with
  | Some (_, Some d) => sn_strict d && (len s <=? 255)
  | Some (_, None) => true
  | None => false
  end.

(* which departure makes the code accept a string outside the grammar (empty: none applies);
   used to label the failures the oracles report *)
Definition sn_departure (s : bytes) : bytes :=
  match sn_parse s with
  | Some (host, _, HBr4) => bs "bracketed-ipv4"
  | Some (host, _, HMapped) => bs "unbracketed-ipv4-mapped-ipv6"
  | Some (host, _, (HDns | HV4)) => if 255 <? len host then bs "dns-name-longer-than-255" else []
  | Some (host, _, HBr6) => []
  | None => []
  end.

Definition user_departure (historical : bool) (s : bytes) : bytes :=
  match user_id_parse historical s with
  | Some (l, d) => if is_nil l then bs "empty-localpart" else sn_departure d
  | None => []
  end.

Definition room_departure (s : bytes) : bytes :=
  match room_id_parse s with
  | Some (_, Some d) =>
      match sn_departure d with
      | [] => if 255 <? len s then bs "room-id-longer-than-255" else []
      | r => r
      end
  | _ => []
  end.
