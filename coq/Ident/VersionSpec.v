(* C17 specification: the room-version matrix of DESIGN.md Appendix C, written as a literal table
   keyed by version string, one record per row with one field per column of the appendix, and the
   Go identifier each cell stands for in eventversion.go.  Independent of the generated table. *)
From Verif Require Import Lib.Bytes Ident.Versions.
Open Scope N_scope.

(* Columns of Appendix C.
   v_state_res : 1 = v1, 2 = v2, 3 = v2.1
   v_event_fmt : 1 | 2;  v_id_fmt : 1 (random, carried) | 2 (std base64 hash) | 3 (URL-safe hash)
   v_redact    : 1 = v1 rules, 2 = v6 (no aliases), 3 = v8 (+allow), 4 = v9 (+authorised_via), 5 = v11
   v_pl_check  : 1 = basic, 2 = + notifications, 3 = + creators must not appear
   v_create    : 1 = domain + creator, 2 = domain only (v11), 3 = v12 rules *)
Record vrow := mk_vrow {
  v_name : bytes; v_state_res : N; v_event_fmt : N; v_id_fmt : N; v_redact : N;
  v_strict_keys : bool; v_canonical : bool; v_pl_check : N; v_integer_pls : bool;
  v_knock : bool; v_restricted : bool; v_create : N; v_domainless_privileged : bool;
  v_stable : bool }.

Definition yes := true.
Definition no := false.

Definition spec_rows : list vrow :=
  (*        version                 sr ef id red strict canon pl int  knock restr create dom stable *)
  [ mk_vrow (bs "1")                   1  1  1  1   no    no    1  no   no    no    1     no  yes;
    mk_vrow (bs "2")                   2  1  1  1   no    no    1  no   no    no    1     no  yes;
    mk_vrow (bs "3")                   2  2  2  1   no    no    1  no   no    no    1     no  yes;
    mk_vrow (bs "4")                   2  2  3  1   no    no    1  no   no    no    1     no  yes;
    mk_vrow (bs "5")                   2  2  3  1   yes   no    1  no   no    no    1     no  yes;
    mk_vrow (bs "6")                   2  2  3  2   yes   yes   2  no   no    no    1     no  yes;
    mk_vrow (bs "7")                   2  2  3  2   yes   yes   2  no   yes   no    1     no  yes;
    mk_vrow (bs "8")                   2  2  3  3   yes   yes   2  no   yes   yes   1     no  yes;
    mk_vrow (bs "9")                   2  2  3  4   yes   yes   2  no   yes   yes   1     no  yes;
    mk_vrow (bs "10")                  2  2  3  4   yes   yes   2  yes  yes   yes   1     no  yes;
    mk_vrow (bs "11")                  2  2  3  5   yes   yes   2  yes  yes   yes   2     no  yes;
    mk_vrow (bs "12")                  3  2  3  5   yes   yes   3  yes  yes   yes   3     yes yes;
    (* as 10, unstable *)
    mk_vrow (bs "org.matrix.msc4014")  2  2  3  4   yes   yes   2  yes  yes   yes   1     no  no;
    (* as 7 with integer-only power levels, unstable *)
    mk_vrow (bs "org.matrix.msc3667")  2  2  3  2   yes   yes   2  yes  yes   no    1     no  no;
    (* as 9, unstable *)
    mk_vrow (bs "org.matrix.msc3787")  2  2  3  4   yes   yes   2  no   yes   yes   1     no  no;
    (* as 12, unstable *)
    mk_vrow (bs "org.matrix.hydra.11") 3  2  3  5   yes   yes   3  yes  yes   yes   3     yes no ].

Definition nth_ident (n : N) (l : list bytes) : bytes :=
  nth (N.to_nat (n - 1)) l [].

Definition b2s (b : bool) : bytes := if b then bs "true" else bs "false".

(* the event struct a version uses: format 1 -> eventV1; format 2 -> eventV2; room IDs without a
   domain (v12) -> eventV3 *)
Definition struct_suffix (r : vrow) : bytes :=
  if v_domainless_privileged r then bs "V3"
  else if v_event_fmt r =? 1 then bs "V1" else bs "V2".

(* the Go identifier each cell names *)
Definition expected_entry (r : vrow) : list (bytes * bytes) :=
  [ (bs "ver", v_name r);
    (bs "stable", b2s (v_stable r));
    (bs "stateResAlgorithm", nth_ident (v_state_res r) [bs "StateResV1"; bs "StateResV2"; bs "StateResV2_1"]);
    (bs "eventFormat", nth_ident (v_event_fmt r) [bs "EventFormatV1"; bs "EventFormatV2"]);
    (bs "eventIDFormat", nth_ident (v_id_fmt r) [bs "EventIDFormatV1"; bs "EventIDFormatV2"; bs "EventIDFormatV3"]);
    (bs "redactionAlgorithm",
       nth_ident (v_redact r) [bs "redactEventJSONV1"; bs "redactEventJSONV2"; bs "redactEventJSONV3";
                               bs "redactEventJSONV4"; bs "redactEventJSONV5"]);
    (bs "signatureValidityCheckFunc",
       if v_strict_keys r then bs "StrictValiditySignatureCheck" else bs "NoStrictValidityCheck");
    (bs "canonicalJSONCheck",
       if v_canonical r then bs "verifyEnforcedCanonicalJSON" else bs "noVerifyCanonicalJSON");
    (bs "checkPowerLevelEvent",
       nth_ident (v_pl_check r) [bs "checkPowerLevelEventV1"; bs "checkPowerLevelEventV2"; bs "checkPowerLevelEventV3"]);
    (bs "parsePowerLevelsFunc",
       if v_integer_pls r then bs "parseIntegerPowerLevels" else bs "parsePowerLevels");
    (bs "checkKnockingAllowedFunc", if v_knock r then bs "checkKnocking" else bs "disallowKnocking");
    (bs "restrictedJoinServernameFunc",
       if v_restricted r then bs "extractAuthorisedViaServerName" else bs "emptyAuthorisedViaServerName");
    (bs "checkRestrictedJoin", if v_restricted r then bs "checkRestrictedJoin" else bs "noCheckRestrictedJoin");
    (bs "checkRestrictedJoinAllowedFunc",
       if v_restricted r then bs "allowRestrictedJoins" else bs "disallowRestrictedJoins");
    (bs "checkCreateEvent",
       nth_ident (v_create r) [bs "checkCreateEventV1"; bs "checkCreateEventV2"; bs "checkCreateEventV3"]);
    (bs "newEventFromUntrustedJSONFunc", bs "newEventFromUntrustedJSON" ++ struct_suffix r);
    (bs "newEventFromTrustedJSONFunc", bs "newEventFromTrustedJSON" ++ struct_suffix r);
    (bs "newEventFromTrustedJSONWithEventIDFunc", bs "newEventFromTrustedJSONWithEventID" ++ struct_suffix r);
    (bs "domainlessRoomID", b2s (v_domainless_privileged r));
    (bs "privilegedCreators", b2s (v_domainless_privileged r)) ].

Definition spec_table : vtable := map (fun r => (v_name r, expected_entry r)) spec_rows.

(* every field the Go struct has must be covered by the comparison *)
Definition spec_field_names : list bytes := map fst (expected_entry (mk_vrow [] 1 1 1 1 no no 1 no no no 1 no no)).

Fixpoint list_eqb_names (a b : list bytes) : bool :=
  match a, b with
  | [], [] => true
  | x :: a', y :: b' => bytes_eqb x y && list_eqb_names a' b'
  | _, _ => false
  end.

(* cell-by-cell agreement of a table with the specification table, unset = zero value;
   [fields] is the list of struct fields the translator found in RoomVersionImpl *)
Definition table_matches_spec (t : vtable) (fields : list bytes) : bool :=
  list_eqb_names (sort_names (ver_names t)) (sort_names (ver_names spec_table))
  && forallb (fun f => mem_bytes f spec_field_names) fields
  && forallb (fun f => mem_bytes f fields) spec_field_names
  && forallb (fun v => forallb (fun f => bytes_eqb (field_value t v f) (field_value spec_table v f)) fields)
             (ver_names spec_table).

(* what EventBuilder.Build must produce for a row: event_id carried in the JSON only for ID format
   1; prev/auth events as (ID, hash) pairs for event format 1 and as ID strings for format 2; the
   event ID random (format 1), standard base64 (2) or URL-safe base64 (3) *)
Definition expected_builder_shape (r : vrow) : bytes :=
  (if v_id_fmt r =? 1 then bs "event_id:yes" else bs "event_id:no") ++ bs " refs:" ++
  (if v_event_fmt r =? 1 then bs "pairs" else bs "ids") ++ bs " id:" ++
  nth_ident (v_id_fmt r) [bs "random"; bs "std"; bs "url"].
