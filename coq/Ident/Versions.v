(* C17 model: eventversion.go.  Accessors over a room-version table in the shape produced by the
   translator (coq/Gen/GenVersions.v: version string, then (field, Go identifier or literal) pairs
   for the fields that are set), and the observable traits / probe outcomes of a table entry.
   Everything is parameterised by the table, so the same functions read the generated table
   (model of the code) and the specification table (Ident/VersionSpec.v).
   Executable definitions only. *)
From Verif Require Import Lib.Bytes Ident.Chars Json.Ast.
Open Scope N_scope.

Definition vtable := list (bytes * list (bytes * bytes)).

Definition ver_entry (t : vtable) (v : bytes) : option (list (bytes * bytes)) := assoc_first v t.

Definition ver_field (t : vtable) (v f : bytes) : option bytes :=
  match ver_entry t v with
  | Some e => assoc_first f e
  | None => None
  end.

Definition ver_names (t : vtable) : list bytes := map fst t.

(* the Go zero value of a field that a composite literal leaves out *)
Definition bool_fields : list bytes := [bs "stable"; bs "domainlessRoomID"; bs "privilegedCreators"].

Definition field_default (f : bytes) : bytes :=
  if mem_bytes f bool_fields then bs "false" else [].

(* the value a field has, unset = zero value (false for booleans, empty = nil / 0 otherwise) *)
Definition field_value (t : vtable) (v f : bytes) : bytes :=
  match ver_field t v f with
  | Some x => x
  | None => field_default f
  end.

(* fields holding functions: leaving one out is a nil function value *)
Definition func_fields : list bytes :=
  [ bs "redactionAlgorithm"; bs "signatureValidityCheckFunc"; bs "canonicalJSONCheck";
    bs "checkPowerLevelEvent"; bs "parsePowerLevelsFunc"; bs "checkRestrictedJoin";
    bs "restrictedJoinServernameFunc"; bs "checkRestrictedJoinAllowedFunc";
    bs "checkKnockingAllowedFunc"; bs "checkCreateEvent"; bs "newEventFromUntrustedJSONFunc";
    bs "newEventFromTrustedJSONFunc"; bs "newEventFromTrustedJSONWithEventIDFunc" ].

(* enumerated fields: unset would be the invalid value 0 *)
Definition enum_fields : list bytes :=
  [ bs "ver"; bs "stateResAlgorithm"; bs "eventFormat"; bs "eventIDFormat" ].

Definition entry_complete (t : vtable) (v : bytes) : bool :=
  forallb (fun f => negb (is_nil (field_value t v f))) (func_fields ++ enum_fields).

(* ---- constants of eventversion.go (iota + 1 blocks) ---- *)
Definition enum_value (ident : bytes) : N :=
  if bytes_eqb ident (bs "StateResV1") then 1
  else if bytes_eqb ident (bs "StateResV2") then 2
  else if bytes_eqb ident (bs "StateResV2_1") then 3
  else if bytes_eqb ident (bs "EventFormatV1") then 1
  else if bytes_eqb ident (bs "EventFormatV2") then 2
  else if bytes_eqb ident (bs "EventIDFormatV1") then 1
  else if bytes_eqb ident (bs "EventIDFormatV2") then 2
  else if bytes_eqb ident (bs "EventIDFormatV3") then 3
  else 0.

Definition event_format (t : vtable) (v : bytes) : N := enum_value (field_value t v (bs "eventFormat")).
Definition event_id_format (t : vtable) (v : bytes) : N := enum_value (field_value t v (bs "eventIDFormat")).
Definition state_res (t : vtable) (v : bytes) : N := enum_value (field_value t v (bs "stateResAlgorithm")).
Definition flag (t : vtable) (v f : bytes) : bool := bytes_eqb (field_value t v f) (bs "true").
Definition domainless (t : vtable) (v : bytes) : bool := flag t v (bs "domainlessRoomID").

(* which event struct the three constructors of a version produce: 1 = eventV1, 2 = eventV2,
   3 = eventV3, 0 = unset / unknown *)
Definition struct_of_ident (prefix ident : bytes) : N :=
  if bytes_eqb ident (prefix ++ bs "V1") then 1
  else if bytes_eqb ident (prefix ++ bs "V2") then 2
  else if bytes_eqb ident (prefix ++ bs "V3") then 3
  else 0.

Definition untrusted_struct (t : vtable) (v : bytes) : N :=
  struct_of_ident (bs "newEventFromUntrustedJSON") (field_value t v (bs "newEventFromUntrustedJSONFunc")).
Definition trusted_struct (t : vtable) (v : bytes) : N :=
  struct_of_ident (bs "newEventFromTrustedJSON") (field_value t v (bs "newEventFromTrustedJSONFunc")).
Definition trusted_with_id_struct (t : vtable) (v : bytes) : N :=
  struct_of_ident (bs "newEventFromTrustedJSONWithEventID")
    (field_value t v (bs "newEventFromTrustedJSONWithEventIDFunc")).

(* ---- what each per-version function does on the fixed probes of harness/c17.go ---- *)
Definition pick (ident : bytes) (cases : list (bytes * bytes)) : bytes :=
  match ident with
  | [] => bs "panic"          (* nil function value *)
  | _ => match assoc_first ident cases with Some r => r | None => bs "unknown:" ++ ident end
  end.

Definition probe_redact (ident : bytes) : bytes :=
  pick ident
    [ (bs "redactEventJSONV1", bs "aliases:1 join_rules:1 member:1 create:1 origin:1");
      (bs "redactEventJSONV2", bs "aliases:0 join_rules:1 member:1 create:1 origin:1");
      (bs "redactEventJSONV3", bs "aliases:0 join_rules:2 member:1 create:1 origin:1");
      (bs "redactEventJSONV4", bs "aliases:0 join_rules:2 member:2 create:1 origin:1");
      (bs "redactEventJSONV5", bs "aliases:0 join_rules:2 member:2 create:2 origin:0") ].

(* SignatureValidityCheck at (2000, 1000), (1000, 2000), (1000, 0) *)
Definition probe_sigcheck (ident : bytes) : bytes :=
  pick ident
    [ (bs "StrictValiditySignatureCheck", bs "false,true,false");
      (bs "NoStrictValidityCheck", bs "true,true,true") ].

Definition probe_canonical (ident : bytes) : bytes :=
  pick ident [ (bs "verifyEnforcedCanonicalJSON", bs "err"); (bs "noVerifyCanonicalJSON", bs "ok") ].

Definition probe_pl_event (ident : bytes) : bytes :=
  pick ident
    [ (bs "checkPowerLevelEventV1", bs "ok,ok");
      (bs "checkPowerLevelEventV2", bs "err,ok");
      (bs "checkPowerLevelEventV3", bs "err,err") ].

Definition probe_parse_pl (ident : bytes) : bytes :=
  pick ident [ (bs "parsePowerLevels", bs "ok"); (bs "parseIntegerPowerLevels", bs "err") ].

Definition probe_knock (ident : bytes) : bytes :=
  pick ident [ (bs "checkKnocking", bs "ok,err"); (bs "disallowKnocking", bs "err,err") ].

Definition probe_restricted_allowed (ident : bytes) : bytes :=
  pick ident [ (bs "allowRestrictedJoins", bs "ok"); (bs "disallowRestrictedJoins", bs "err") ].

Definition probe_restricted_servername (ident : bytes) : bytes :=
  pick ident [ (bs "extractAuthorisedViaServerName", bs "srv"); (bs "emptyAuthorisedViaServerName", []) ].

Definition probe_restricted_join (ident : bytes) : bytes :=
  pick ident [ (bs "checkRestrictedJoin", bs "err"); (bs "noCheckRestrictedJoin", bs "ok") ].

Definition probe_create (ident : bytes) : bytes :=
  pick ident
    [ (bs "checkCreateEventV1", bs "err,err,ok");
      (bs "checkCreateEventV2", bs "err,ok,ok");
      (bs "checkCreateEventV3", bs "err,err,err") ].

Definition struct_name (n : N) : bytes :=
  if n =? 1 then bs "eventV1" else if n =? 2 then bs "eventV2"
  else if n =? 3 then bs "eventV3" else bs "panic".

(* EventBuilder.Build: event_id kept in the JSON iff ID format 1; prev/auth events are reference
   pairs iff event format 1; the event ID alphabet *)
Definition builder_shape (t : vtable) (v : bytes) : bytes :=
  let idf := event_id_format t v in
  let ef := event_format t v in
  (if idf =? 1 then bs "event_id:yes" else bs "event_id:no") ++ bs " refs:" ++
  (if ef =? 1 then bs "pairs" else if ef =? 2 then bs "ids" else bs "other") ++ bs " id:" ++
  (if idf =? 1 then bs "random" else if idf =? 2 then bs "std" else if idf =? 3 then bs "url"
   else bs "none").

Definition kv (k v : bytes) : bytes := k ++ [61] ++ v.

Definition traits (t : vtable) (v : bytes) : list bytes :=
  let fv := field_value t v in
  [ kv (bs "version") (fv (bs "ver"));
    kv (bs "stable") (fv (bs "stable"));
    kv (bs "state_res") (print_dec (state_res t v));
    kv (bs "event_format") (print_dec (event_format t v));
    kv (bs "event_id_format") (print_dec (event_id_format t v));
    kv (bs "domainless") (fv (bs "domainlessRoomID"));
    kv (bs "privileged") (fv (bs "privilegedCreators"));
    kv (bs "redact") (probe_redact (fv (bs "redactionAlgorithm")));
    kv (bs "sigcheck") (probe_sigcheck (fv (bs "signatureValidityCheckFunc")));
    kv (bs "canonical") (probe_canonical (fv (bs "canonicalJSONCheck")));
    kv (bs "pl_event") (probe_pl_event (fv (bs "checkPowerLevelEvent")));
    kv (bs "parse_pl") (probe_parse_pl (fv (bs "parsePowerLevelsFunc")));
    kv (bs "knock") (probe_knock (fv (bs "checkKnockingAllowedFunc")));
    kv (bs "restricted_allowed") (probe_restricted_allowed (fv (bs "checkRestrictedJoinAllowedFunc")));
    kv (bs "restricted_servername") (probe_restricted_servername (fv (bs "restrictedJoinServernameFunc")));
    kv (bs "restricted_join") (probe_restricted_join (fv (bs "checkRestrictedJoin")));
    kv (bs "create_check") (probe_create (fv (bs "checkCreateEvent")));
    kv (bs "untrusted") (struct_name (untrusted_struct t v));
    kv (bs "trusted") (struct_name (trusted_struct t v));
    kv (bs "trusted_with_id") (struct_name (trusted_with_id_struct t v));
    kv (bs "builder") (builder_shape t v) ].

Definition traits_text (t : vtable) (v : bytes) : bytes :=
  match ver_entry t v with
  | Some _ => join_bytes [10] (traits t v)
  | None => bs "unsupported"
  end.

(* sorted insertion, for comparing version-name sets *)
Fixpoint insert_sorted (x : bytes) (l : list bytes) : list bytes :=
  match l with
  | [] => [x]
  | y :: l' => if bytes_leb x y then x :: l else y :: insert_sorted x l'
  end.
Definition sort_names (l : list bytes) : list bytes := fold_right insert_sorted [] l.

Definition stable_names (t : vtable) : list bytes :=
  filter (fun v => flag t v (bs "stable")) (ver_names t).
