(* JSON values. Strings and keys are decoded byte strings (UTF-8); a number keeps its literal
   text (so that canonicalisation can pass non-integers through unchanged), with helpers to read
   it as an integer. Objects are association lists in source order (duplicates kept). *)
From Verif Require Import Lib.Bytes.
Open Scope N_scope.

Inductive json :=
| JNull
| JBool (b : bool)
| JNum (raw : bytes)
| JStr (s : bytes)
| JArr (l : list json)
| JObj (m : list (bytes * json)).

(* ---------- number literals ---------- *)
Fixpoint all_digits (s : bytes) : bool :=
  match s with [] => true | c :: r => is_digit c && all_digits r end.

(* integer literal: -?digits (no fraction, no exponent). Value as Z ("-0" is 0). *)
Definition num_int (raw : bytes) : option Z :=
  match raw with
  | [] => None
  | c :: r => if c =? 45 then (match r with [] => None | _ => if all_digits r then parse_int raw else None end)
              else if all_digits raw then parse_int raw else None
  end.

Definition jnum_of_Z (z : Z) : json := JNum (print_int z).

(* ---------- accessors ---------- *)
Fixpoint assoc_first {A} (k : bytes) (m : list (bytes * A)) : option A :=
  match m with
  | [] => None
  | (k', v) :: m' => if bytes_eqb k k' then Some v else assoc_first k m'
  end.

Fixpoint assoc_last_acc {A} (k : bytes) (m : list (bytes * A)) (acc : option A) : option A :=
  match m with
  | [] => acc
  | (k', v) :: m' => assoc_last_acc k m' (if bytes_eqb k k' then Some v else acc)
  end.
Definition assoc_last {A} (k : bytes) (m : list (bytes * A)) : option A := assoc_last_acc k m None.

(* gjson.Get semantics: first member with that key *)
Definition jget (k : bytes) (j : json) : option json :=
  match j with JObj m => assoc_first k m | _ => None end.
(* encoding/json semantics: last member with that key wins *)
Definition jget_last (k : bytes) (j : json) : option json :=
  match j with JObj m => assoc_last k m | _ => None end.

Fixpoint jpath (ks : list bytes) (j : json) : option json :=
  match ks with
  | [] => Some j
  | k :: ks' => match jget k j with Some j' => jpath ks' j' | None => None end
  end.

Definition jstr (j : json) : option bytes := match j with JStr s => Some s | _ => None end.
Definition jint (j : json) : option Z := match j with JNum r => num_int r | _ => None end.
Definition jbool (j : json) : option bool := match j with JBool b => Some b | _ => None end.
Definition jarr (j : json) : option (list json) := match j with JArr l => Some l | _ => None end.
Definition jobj (j : json) : option (list (bytes * json)) := match j with JObj m => Some m | _ => None end.

Definition jget_str (k : bytes) (j : json) : option bytes :=
  match jget k j with Some v => jstr v | None => None end.
Definition jget_int (k : bytes) (j : json) : option Z :=
  match jget k j with Some v => jint v | None => None end.

Definition jkeys (j : json) : list bytes :=
  match j with JObj m => map fst m | _ => [] end.

(* remove every member with key k (sjson.DeleteBytes removes one; events with duplicate keys
   are outside every property's domain) *)
Definition jdel (k : bytes) (j : json) : json :=
  match j with
  | JObj m => JObj (filter (fun kv => negb (bytes_eqb k (fst kv))) m)
  | _ => j
  end.

(* set (replace first occurrence in place, else append) *)
Fixpoint assoc_set {A} (k : bytes) (v : A) (m : list (bytes * A)) : list (bytes * A) :=
  match m with
  | [] => [(k, v)]
  | (k', v') :: m' => if bytes_eqb k k' then (k, v) :: m' else (k', v') :: assoc_set k v m'
  end.
Definition jset (k : bytes) (v : json) (j : json) : json :=
  match j with JObj m => JObj (assoc_set k v m) | _ => j end.

(* structural equality *)
Fixpoint json_eqb (a b : json) {struct a} : bool :=
  match a, b with
  | JNull, JNull => true
  | JBool x, JBool y => Bool.eqb x y
  | JNum x, JNum y => bytes_eqb x y
  | JStr x, JStr y => bytes_eqb x y
  | JArr x, JArr y =>
      (fix go (x y : list json) : bool :=
         match x, y with
         | [], [] => true
         | u :: x', v :: y' => json_eqb u v && go x' y'
         | _, _ => false
         end) x y
  | JObj x, JObj y =>
      (fix go (x y : list (bytes * json)) : bool :=
         match x, y with
         | [], [] => true
         | (k, u) :: x', (k', v) :: y' => bytes_eqb k k' && json_eqb u v && go x' y'
         | _, _ => false
         end) x y
  | _, _ => false
  end.
