(* C01: value preservation, uniqueness, idempotence, the enforced variant. *)
From Verif Require Import Lib.Bytes Json.Ast Json.Parse Json.Print Json.Render Json.NumFacts
  Json.ParseComplete Json.CanonFacts Json.CanonC01 Json.CanonSpecC01.
Open Scope N_scope.

Lemma normalise_wf v : json_wf v -> json_wf (normalise v).
Proof.
  intro H. destruct renders_wf_mut as (HV & _ & _).
  exact (HV _ _ (renders_canon_print v H)).
Qed.

Lemma normalise_idem v : json_wf v -> normalise (normalise v) = normalise v.
Proof.
  intro H. apply (canon_print_injective (normalise v) v (normalise_wf v H) H).
  apply canon_print_normalise.
Qed.

Lemma renders_text_plain v t : Renders v t -> RendersText v t.
Proof.
  intro H. rewrite <- (app_nil_r t). apply (RT v t [] []); [reflexivity | reflexivity | exact H].
Qed.

(* the output is valid JSON (a rendering, hence accepted by the parser) of a value equivalent to v *)
Theorem canonical_preserves_value v t :
  RendersText v t ->
  exists c, canonical t = Some c /\ RendersText (normalise v) c /\ jequiv (normalise v) v
            /\ parse_json c = Some (normalise v).
Proof.
  intro H. exists (canon_print v). pose proof (renders_wf v t H) as Hwf.
  split; [apply canonical_of_rendering; exact H|].
  split; [apply renders_text_plain; apply renders_canon_print; exact Hwf|].
  split; [unfold jequiv; apply normalise_idem; exact Hwf|].
  apply parse_canon_print. exact Hwf.
Qed.

Theorem canonical_unique v v' t t' :
  RendersText v t -> RendersText v' t' -> jequiv v v' -> canonical t = canonical t'.
Proof.
  intros H H' E. rewrite (canonical_of_rendering v t H), (canonical_of_rendering v' t' H').
  f_equal. apply canon_print_respects. exact E.
Qed.

Theorem canonical_separates v v' t t' :
  RendersText v t -> RendersText v' t' -> canonical t = canonical t' -> jequiv v v'.
Proof.
  intros H H' E. rewrite (canonical_of_rendering v t H), (canonical_of_rendering v' t' H') in E.
  inversion E. apply canon_print_injective; [eapply renders_wf; eauto | eapply renders_wf; eauto | assumption].
Qed.

Theorem canonical_idempotent v t c :
  RendersText v t -> canonical t = Some c -> canonical c = Some c.
Proof.
  intros H E. rewrite (canonical_of_rendering v t H) in E. inversion E; subst c.
  unfold canonical. rewrite (parse_canon_print v (renders_wf v t H)). simpl.
  rewrite canon_print_normalise. reflexivity.
Qed.

(* ---------- enforced variant ---------- *)
Lemma number_ok_safe raw : number_ok raw = true -> is_safe_integer_literal raw = true.
Proof.
  unfold number_ok, is_safe_integer_literal. intro H.
  apply andb_true_iff in H as [_ H]. exact H.
Qed.

Lemma unsafe_is_bad v : has_unsafe_number v = true -> has_bad_number v = true.
Proof.
  induction v as [| b | r | s | l IH | m IH] using json_ind'; try discriminate.
  - cbn [has_unsafe_number has_bad_number]. intro H.
    destruct (number_ok r) eqn:E; [|reflexivity].
    rewrite (number_ok_safe r E) in H. discriminate.
  - cbn [has_unsafe_number has_bad_number]. induction IH as [|v l Hv _ IHl]; [auto|].
    intro H. apply orb_true_iff in H. apply orb_true_iff. destruct H; [left; auto | right; auto].
  - cbn [has_unsafe_number has_bad_number]. induction IH as [|[k v] m Hv _ IHm]; [auto|].
    intro H. apply orb_true_iff in H. apply orb_true_iff. destruct H; [left; apply Hv; assumption | right; auto].
Qed.

Theorem enforced_rejects v t ver :
  enforces ver = true -> RendersText v t -> has_unsafe_number v = true -> enforced ver t = None.
Proof.
  unfold enforces, enforced. intros He Hr Hu.
  destruct (canonical_check_of ver) as [f|]; [|discriminate].
  rewrite He. unfold enforced_with. rewrite (parse_complete v t Hr).
  rewrite (unsafe_is_bad v Hu). reflexivity.
Qed.

(* invalid texts are refused whatever the version, and valid texts without a refused number are
   canonicalised exactly as by the plain entry point *)
Theorem enforced_otherwise_canonical ver t c :
  enforced ver t = Some c -> canonical t = Some c.
Proof.
  unfold enforced, enforced_with, canonical.
  destruct (canonical_check_of ver) as [f|]; [|discriminate].
  destruct (bytes_eqb f fn_enforce).
  - destruct (parse_json t) as [v|]; [|discriminate].
    destruct (true && has_bad_number v); [discriminate|]. auto.
  - destruct (bytes_eqb f fn_noverify); [|discriminate].
    destruct (parse_json t) as [v|]; [|discriminate]. auto.
Qed.

Theorem legacy_versions_do_not_check ver t :
  canonical_check_of ver = Some fn_noverify -> enforced ver t = canonical t.
Proof.
  unfold enforced, enforced_with, canonical. intro H. rewrite H.
  change (bytes_eqb fn_noverify fn_enforce) with false. change (bytes_eqb fn_noverify fn_noverify) with true.
  cbv iota. destruct (parse_json t); reflexivity.
Qed.
