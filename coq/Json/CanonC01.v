(* C01 model (no proofs here).
   CanonicalJSON            = [canonical] of Json/Print.v (reference parser, canonical printer)
   verifyEnforcedCanonicalJSON (after the F3 repair) = [has_bad_number] on the parsed value
   EnforcedCanonicalJSON    = [enforced]: version lookup in the generated table, the per-version
                              check function, then CanonicalJSON. *)
From Verif Require Import Lib.Bytes Json.Ast Json.Parse Json.Print Gen.GenVersions.
Open Scope N_scope.

Definition has_byte (c : N) (s : bytes) : bool := existsb (N.eqb c) s.

(* the repaired test of json.go: a number literal with a fraction or an exponent (either case) *)
Definition lit_is_integer (raw : bytes) : bool :=
  negb (has_byte 46 raw || has_byte 101 raw || has_byte 69 raw).

Definition safe_max : Z := 9007199254740991.
Definition lit_minus_zero : bytes := [45; 48].

(* what verifyEnforcedCanonicalJSON lets through: an integer literal other than -0 whose value lies
   in [-(2^53-1), 2^53-1].  (The Go code compares the float64 reading; every integer literal
   beyond the bound rounds to at least 2^53 in absolute value, so the exact comparison is the same.) *)
Definition number_ok (raw : bytes) : bool :=
  lit_is_integer raw && negb (bytes_eqb raw lit_minus_zero) &&
  match num_int raw with
  | Some z => ((- safe_max <=? z) && (z <=? safe_max))%Z
  | None => false
  end.

Fixpoint has_bad_number (j : json) : bool :=
  match j with
  | JNum raw => negb (number_ok raw)
  | JArr l => (fix go (l : list json) : bool :=
                 match l with [] => false | v :: l' => has_bad_number v || go l' end) l
  | JObj m => (fix go (m : list (bytes * json)) : bool :=
                 match m with [] => false | (_, v) :: m' => has_bad_number v || go m' end) m
  | _ => false
  end.

Definition fld_canonical_check : bytes := bs "canonicalJSONCheck".
Definition fn_enforce : bytes := bs "verifyEnforcedCanonicalJSON".
Definition fn_noverify : bytes := bs "noVerifyCanonicalJSON".

(* the canonicalJSONCheck column of the generated room-version table *)
Definition canonical_check_of (ver : bytes) : option bytes :=
  match assoc_first ver gen_versions with
  | Some fields => assoc_first fld_canonical_check fields
  | None => None
  end.

Definition enforces (ver : bytes) : bool :=
  match canonical_check_of ver with Some f => bytes_eqb f fn_enforce | None => false end.

(* CanonicalJSON preceded by the enforced check (check = true) or by no check *)
Definition enforced_with (check : bool) (t : bytes) : option bytes :=
  match parse_json t with
  | None => None
  | Some v => if check && has_bad_number v then None else Some (canon_print v)
  end.

(* EnforcedCanonicalJSON(t, ver); None = an error is returned *)
Definition enforced (ver t : bytes) : option bytes :=
  match canonical_check_of ver with
  | None => None
  | Some f =>
      if bytes_eqb f fn_enforce then enforced_with true t
      else if bytes_eqb f fn_noverify then enforced_with false t
      else None
  end.

(* gjson.Valid *)
Definition json_valid (t : bytes) : bool :=
  match parse_json t with Some _ => true | None => false end.

(* ---------- bounded-exhaustive listing: every text over [alpha] of length <= n that extends
   [prefix] and is valid, with its canonical form and the enforced verdict ---------- *)
Definition listing_line (t : bytes) : bytes :=
  match parse_json t with
  | None => []
  | Some v => t ++ [62] ++ canon_print v ++ (if has_bad_number v then [33] else []) ++ [10]
  end.

Fixpoint enum_texts (n : nat) (alpha : bytes) (revp : bytes) : bytes :=
  listing_line (rev revp) ++
  match n with
  | O => []
  | S n' => flat_map (fun c => enum_texts n' alpha (c :: revp)) alpha
  end.
