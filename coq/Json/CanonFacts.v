(* Facts about the canonical printer that other properties reuse:
     parse_canon_print      : parse_json (canon_print v) = Some (normalise v)
     canon_print_injective  : canon_print v = canon_print v' -> jequiv v v'     (json_wf values)
     canon_print_respects   : jequiv v v' -> canon_print v = canon_print v'
     canon_print_normalise  : canon_print (normalise v) = canon_print v
   where normalise / jequiv / json_wf are defined in Json/Render.v. *)
From Verif Require Import Lib.Bytes Json.Ast Json.Parse Json.Print Json.Render Json.NumFacts Json.ParseComplete.
Open Scope N_scope.

(* ---------- sorting of members ---------- *)
Lemma insert_member_map {A B} (f : A -> B) kv (l : list (bytes * A)) :
  insert_member (on_snd f kv) (map (on_snd f) l) = map (on_snd f) (insert_member kv l).
Proof.
  induction l as [|kv' l IH]; simpl; [reflexivity|].
  destruct (bytes_leb (fst kv) (fst kv')); simpl; [reflexivity|]. rewrite IH. reflexivity.
Qed.

Lemma sort_members_map {A B} (f : A -> B) (l : list (bytes * A)) :
  sort_members (map (on_snd f) l) = map (on_snd f) (sort_members l).
Proof.
  unfold sort_members. induction l as [|kv l IH]; simpl; [reflexivity|].
  rewrite IH. apply insert_member_map.
Qed.

Fixpoint sorted_keys {A} (l : list (bytes * A)) : Prop :=
  match l with
  | [] => True
  | kv :: l' => match l' with [] => True | kv' :: _ => bytes_leb (fst kv) (fst kv') = true end
                /\ sorted_keys l'
  end.

Lemma bytes_leb_total a b : bytes_leb a b = false -> bytes_leb b a = true.
Proof.
  unfold bytes_leb. rewrite (bytes_cmp_antisym a b). destruct (bytes_cmp a b); simpl; congruence.
Qed.

Lemma insert_member_sorted {A} kv (l : list (bytes * A)) :
  sorted_keys l -> sorted_keys (insert_member kv l).
Proof.
  induction l as [|kv' l IH]; intro Hs; simpl; [auto|].
  destruct (bytes_leb (fst kv) (fst kv')) eqn:E.
  - simpl. split; [exact E | exact Hs].
  - destruct Hs as [Hh Ht]. specialize (IH Ht).
    simpl. split; [|exact IH].
    destruct l as [|kv'' l]; simpl.
    + apply bytes_leb_total. exact E.
    + destruct (bytes_leb (fst kv) (fst kv'')); [apply bytes_leb_total; exact E | exact Hh].
Qed.

Lemma sort_members_sorted {A} (l : list (bytes * A)) : sorted_keys (sort_members l).
Proof.
  unfold sort_members. induction l as [|kv l IH]; simpl; [exact I|].
  apply insert_member_sorted. exact IH.
Qed.

Lemma sort_members_of_sorted {A} (l : list (bytes * A)) : sorted_keys l -> sort_members l = l.
Proof.
  unfold sort_members. induction l as [|kv l IH]; intro Hs; simpl; [reflexivity|].
  destruct Hs as [Hh Ht]. rewrite (IH Ht).
  destruct l as [|kv' l]; simpl; [reflexivity|]. rewrite Hh. reflexivity.
Qed.

Lemma sort_members_idem {A} (l : list (bytes * A)) : sort_members (sort_members l) = sort_members l.
Proof. apply sort_members_of_sorted. apply sort_members_sorted. Qed.

Lemma insert_member_In {A} (kv x : bytes * A) l : In x (insert_member kv l) <-> x = kv \/ In x l.
Proof.
  induction l as [|kv' l IH]; simpl.
  - split; intros [H|H]; auto.
  - destruct (bytes_leb (fst kv) (fst kv')); simpl.
    + split; intros [H|H]; auto.
    + rewrite IH. split; intros [H|[H|H]]; auto.
Qed.

Lemma sort_members_In {A} (x : bytes * A) l : In x (sort_members l) <-> In x l.
Proof.
  unfold sort_members. induction l as [|kv l IH]; simpl; [tauto|].
  rewrite insert_member_In, IH. split; intros [H|H]; auto.
Qed.

(* ---------- shape of the printer's output ---------- *)
Fixpoint join_comma (l : list bytes) : bytes :=
  match l with
  | [] => []
  | x :: l' => match l' with [] => x | _ => x ++ 44 :: join_comma l' end
  end.

Definition print_member (kp : bytes * bytes) : bytes := print_string (fst kp) ++ 58 :: snd kp.

Lemma canon_print_arr l : canon_print (JArr l) = 91 :: join_comma (map canon_print l) ++ [93].
Proof.
  cbn [canon_print]. f_equal. f_equal.
  assert (H : forall l, (fix go (l : list json) (first : bool) : bytes :=
               match l with
               | [] => []
               | v :: l' => (if first then [] else [44]) ++ canon_print v ++ go l' false
               end) l false = match l with [] => [] | _ => 44 :: join_comma (map canon_print l) end).
  { clear l. induction l as [|v l IH]; [reflexivity|]. rewrite IH.
    destruct l as [|v' l]; simpl; [rewrite app_nil_r; reflexivity | reflexivity]. }
  destruct l as [|v l]; [reflexivity|]. rewrite H.
  destruct l as [|v' l]; simpl; [rewrite app_nil_r; reflexivity | reflexivity].
Qed.

Lemma canon_print_obj m :
  canon_print (JObj m) =
    123 :: join_comma (map print_member (sort_members (map (on_snd canon_print) m))) ++ [125].
Proof.
  cbn [canon_print]. f_equal. f_equal.
  assert (Hp : (fix go (m : list (bytes * json)) : list (bytes * bytes) :=
                  match m with [] => [] | (k, v) :: m' => (k, canon_print v) :: go m' end) m
               = map (on_snd canon_print) m).
  { induction m as [|[k v] m IH]; [reflexivity|]. rewrite IH. reflexivity. }
  rewrite Hp. generalize (sort_members (map (on_snd canon_print) m)). intro sm.
  assert (H : forall l, (fix emit (m : list (bytes * bytes)) (first : bool) : bytes :=
                match m with
                | [] => []
                | (k, pv) :: m' => (if first then [] else [44]) ++ print_string k ++ [58] ++ pv ++ emit m' false
                end) l false = match l with [] => [] | _ => 44 :: join_comma (map print_member l) end).
  { induction l as [|[k pv] l IH]; [reflexivity|]. rewrite IH.
    destruct l as [|kp l].
    - cbn [map join_comma print_member fst snd]. rewrite app_nil_r. reflexivity.
    - change (join_comma (map print_member ((k, pv) :: kp :: l)))
        with ((print_string k ++ 58 :: pv) ++ 44 :: join_comma (map print_member (kp :: l))).
      rewrite <- app_assoc. reflexivity. }
  destruct sm as [|[k pv] sm]; [reflexivity|]. rewrite H.
  destruct sm as [|kp sm].
  - cbn [map join_comma print_member fst snd]. rewrite app_nil_r. reflexivity.
  - change (join_comma (map print_member ((k, pv) :: kp :: sm)))
      with ((print_string k ++ 58 :: pv) ++ 44 :: join_comma (map print_member (kp :: sm))).
    rewrite <- app_assoc. reflexivity.
Qed.

(* ---------- json_wf in Forall form ---------- *)
Lemma json_wf_arr l : json_wf (JArr l) <-> Forall json_wf l.
Proof.
  cbn [json_wf]. induction l as [|v l IH]; [split; constructor|].
  split.
  - intros [H1 H2]. constructor; [exact H1 | apply IH; exact H2].
  - intro H. inversion H; subst. split; [assumption | apply IH; assumption].
Qed.

Lemma json_wf_obj m : json_wf (JObj m) <-> Forall (fun kv => json_wf (snd kv)) m.
Proof.
  cbn [json_wf]. induction m as [|kv m IH]; [split; constructor|].
  split.
  - intros [H1 H2]. constructor; [exact H1 | apply IH; exact H2].
  - intro H. inversion H; subst. split; [assumption | apply IH; assumption].
Qed.

(* ---------- canon_print only depends on the normal form ---------- *)
Lemma map_on_snd_compose {A B C} (f : A -> B) (g : B -> C) (l : list (bytes * A)) :
  map (on_snd g) (map (on_snd f) l) = map (on_snd (fun x => g (f x))) l.
Proof. rewrite map_map. reflexivity. Qed.

Theorem canon_print_normalise v : canon_print (normalise v) = canon_print v.
Proof.
  induction v as [| b | r | s | l IH | m IH] using json_ind'; try reflexivity.
  - cbn [normalise canon_print]. apply print_number_idem.
  - cbn [normalise]. rewrite !canon_print_arr. f_equal. f_equal. f_equal.
    rewrite map_map. apply map_ext_Forall. exact IH.
  - cbn [normalise]. rewrite !canon_print_obj. f_equal. f_equal. f_equal.
    rewrite sort_members_map, sort_members_idem, <- sort_members_map.
    rewrite map_on_snd_compose. f_equal. f_equal. apply map_ext_Forall.
    eapply Forall_impl; [|exact IH]. intros [k v] H. unfold on_snd. simpl in *. rewrite H. reflexivity.
Qed.

Theorem canon_print_respects v v' : jequiv v v' -> canon_print v = canon_print v'.
Proof.
  unfold jequiv. intro H. rewrite <- (canon_print_normalise v), <- (canon_print_normalise v'), H. reflexivity.
Qed.

(* ---------- the printer's output is a rendering of the normal form ---------- *)
Lemma sweep_lt (n : nat) (P : N -> bool) :
  forallb P (map N.of_nat (seq 0 n)) = true -> forall c, c < N.of_nat n -> P c = true.
Proof.
  intros H c Hc. rewrite forallb_forall in H. apply H.
  apply in_map_iff. exists (N.to_nat c). split; [apply N2Nat.id|].
  apply in_seq. lia.
Qed.

Lemma esc_control_hex c : c < 32 ->
  read_hex4 [48; 48; hex_digit (c / 16); hex_digit (c mod 16)] = Some (c, []).
Proof.
  intro H.
  pose (P := fun c => match read_hex4 [48; 48; hex_digit (c / 16); hex_digit (c mod 16)] with
                      | Some (x, []) => x =? c | _ => false end).
  assert (HP : P c = true) by (apply (sweep_lt 32 P); [vm_compute; reflexivity | exact H]).
  unfold P in HP. destruct (read_hex4 _) as [[x [|? ?]]|]; try discriminate.
  apply N.eqb_eq in HP. subst. reflexivity.
Qed.

Lemma esc_byte_chunk c : StrChunk [c] (esc_byte c).
Proof.
  unfold esc_byte.
  destruct (c =? 34) eqn:E1; [apply N.eqb_eq in E1; subst; apply (SC_two 34 34); reflexivity|].
  destruct (c =? 92) eqn:E2; [apply N.eqb_eq in E2; subst; apply (SC_two 92 92); reflexivity|].
  destruct (c =? 8) eqn:E3; [apply N.eqb_eq in E3; subst; apply (SC_two 98 8); reflexivity|].
  destruct (c =? 9) eqn:E4; [apply N.eqb_eq in E4; subst; apply (SC_two 116 9); reflexivity|].
  destruct (c =? 10) eqn:E5; [apply N.eqb_eq in E5; subst; apply (SC_two 110 10); reflexivity|].
  destruct (c =? 12) eqn:E6; [apply N.eqb_eq in E6; subst; apply (SC_two 102 12); reflexivity|].
  destruct (c =? 13) eqn:E7; [apply N.eqb_eq in E7; subst; apply (SC_two 114 13); reflexivity|].
  destruct (c <? 32) eqn:E8.
  - apply N.ltb_lt in E8.
    assert (Hu : utf8_encode c = [c]).
    { unfold utf8_encode. assert (X : (c <? 128) = true) by (apply N.ltb_lt; lia). rewrite X. reflexivity. }
    rewrite <- Hu at 1. apply SC_u.
    + apply esc_control_hex. exact E8.
    + unfold is_high_surrogate. assert (X : (55296 <=? c) = false) by (apply N.leb_gt; lia). rewrite X. reflexivity.
    + unfold is_low_surrogate. assert (X : (56320 <=? c) = false) by (apply N.leb_gt; lia). rewrite X. reflexivity.
  - apply N.ltb_ge in E8. apply N.eqb_neq in E1. apply N.eqb_neq in E2. apply SC_raw; assumption.
Qed.

Lemma print_string_body s : StrBody s (flat_map esc_byte s).
Proof.
  induction s as [|c s IH]; [constructor|].
  change (c :: s) with ([c] ++ s). simpl flat_map. apply SB_cons; [apply esc_byte_chunk | exact IH].
Qed.

Lemma renders_elems_canon (l : list json) :
  l <> [] -> Forall (fun v => Renders (normalise v) (canon_print v)) l ->
  RendersElems (map normalise l) (join_comma (map canon_print l)).
Proof.
  induction l as [|v l IH]; intros Hne HF; [contradiction|].
  inversion HF as [|? ? Hv Hl]; subst.
  destruct l as [|v' l].
  - simpl. rewrite <- (app_nil_r (canon_print v)). apply (RE_one _ _ [] []); [reflexivity | reflexivity | exact Hv].
  - change (join_comma (map canon_print (v :: v' :: l)))
      with ([] ++ canon_print v ++ [] ++ 44 :: join_comma (map canon_print (v' :: l))).
    change (map normalise (v :: v' :: l)) with (normalise v :: map normalise (v' :: l)).
    apply RE_cons; [reflexivity | reflexivity | exact Hv | apply IH; [discriminate | exact Hl]].
Qed.

Lemma member_text_more k pv J :
  (print_string k ++ 58 :: pv) ++ 44 :: J
  = [] ++ 34 :: flat_map esc_byte k ++ 34 :: [] ++ 58 :: [] ++ pv ++ [] ++ 44 :: J.
Proof. unfold print_string. cbn [app]. rewrite <- !app_assoc. cbn [app]. reflexivity. Qed.

Lemma member_text_last k pv :
  print_string k ++ 58 :: pv = [] ++ 34 :: flat_map esc_byte k ++ 34 :: [] ++ 58 :: [] ++ pv ++ [].
Proof. unfold print_string. cbn [app]. rewrite <- !app_assoc. cbn [app]. rewrite app_nil_r. reflexivity. Qed.

Lemma renders_members_canon (l : list (bytes * json)) :
  l <> [] -> Forall (fun kv => Renders (normalise (snd kv)) (canon_print (snd kv))) l ->
  RendersMembers (map (on_snd normalise) l) (join_comma (map print_member (map (on_snd canon_print) l))).
Proof.
  induction l as [|[k v] l IH]; intros Hne HF; [contradiction|].
  inversion HF as [|? ? Hv Hl]; subst. cbn [snd] in Hv.
  destruct l as [|kv' l].
  - change (join_comma (map print_member (map (on_snd canon_print) [(k, v)])))
      with (print_string k ++ 58 :: canon_print v).
    change (map (on_snd normalise) [(k, v)]) with [(k, normalise v)].
    rewrite member_text_last.
    apply RM_one; try reflexivity; [apply print_string_body | exact Hv].
  - change (map (on_snd normalise) ((k, v) :: kv' :: l))
      with ((k, normalise v) :: map (on_snd normalise) (kv' :: l)).
    change (join_comma (map print_member (map (on_snd canon_print) ((k, v) :: kv' :: l))))
      with ((print_string k ++ 58 :: canon_print v) ++
            44 :: join_comma (map print_member (map (on_snd canon_print) (kv' :: l)))).
    rewrite member_text_more.
    apply RM_cons; try reflexivity; [apply print_string_body | exact Hv | apply IH; [discriminate | exact Hl]].
Qed.

Theorem renders_canon_print v : json_wf v -> Renders (normalise v) (canon_print v).
Proof.
  induction v as [| b | r | s | l IH | m IH] using json_ind'; intro Hwf.
  - apply R_null.
  - destruct b; [apply R_true | apply R_false].
  - cbn [normalise canon_print]. apply R_num. apply print_number_wf. exact Hwf.
  - cbn [normalise canon_print]. unfold print_string. apply R_str. apply print_string_body.
  - rewrite canon_print_arr. cbn [normalise].
    destruct l as [|v l]; [apply (R_arr_empty []); reflexivity|].
    apply R_arr. apply renders_elems_canon; [discriminate|].
    apply json_wf_arr in Hwf.
    rewrite Forall_forall in *. intros x Hx. apply IH; [exact Hx | apply Hwf; exact Hx].
  - rewrite canon_print_obj. cbn [normalise].
    rewrite !sort_members_map.
    destruct (sort_members m) as [|kv sm] eqn:E; [apply (R_obj_empty []); reflexivity|].
    apply R_obj. apply renders_members_canon; [discriminate|].
    apply json_wf_obj in Hwf.
    rewrite Forall_forall in *. intros x Hx.
    assert (Hin : In x m) by (apply sort_members_In; rewrite E; exact Hx).
    apply IH; [exact Hin | apply Hwf; exact Hin].
Qed.

Theorem parse_canon_print v : json_wf v -> parse_json (canon_print v) = Some (normalise v).
Proof.
  intro Hwf. apply parse_complete.
  rewrite <- (app_nil_r (canon_print v)). apply (RT _ _ [] []); [reflexivity | reflexivity |].
  apply renders_canon_print. exact Hwf.
Qed.

(* different values (up to member order and integer spelling) never print to the same bytes *)
Theorem canon_print_injective v v' :
  json_wf v -> json_wf v' -> canon_print v = canon_print v' -> jequiv v v'.
Proof.
  intros H H' E. unfold jequiv.
  pose proof (parse_canon_print v H) as P. pose proof (parse_canon_print v' H') as P'.
  rewrite E in P. rewrite P in P'. inversion P'. reflexivity.
Qed.

(* ---------- rendered values are well-formed ---------- *)
Lemma renders_wf_mut :
  (forall v t, Renders v t -> json_wf v) /\
  (forall vs parts, RendersElems vs parts -> Forall json_wf vs) /\
  (forall kvs parts, RendersMembers kvs parts -> Forall (fun kv => json_wf (snd kv)) kvs).
Proof.
  apply Renders_mutind; intros; try exact I; auto.
  - apply json_wf_arr. assumption.
  - apply json_wf_obj. assumption.
Qed.

Lemma renders_wf v t : RendersText v t -> json_wf v.
Proof. intros [v0 t0 w1 w2 _ _ H]. destruct renders_wf_mut as (HV & _ & _). exact (HV _ _ H). Qed.

(* ---------- canonicalisation of a rendering ---------- *)
Theorem canonical_of_rendering v t : RendersText v t -> canonical t = Some (canon_print v).
Proof. intro H. unfold canonical. rewrite (parse_complete v t H). reflexivity. Qed.
