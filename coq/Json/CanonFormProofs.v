(* C01: the output of the canonical printer is in the canonical form (syntactic predicate
   is_canonical_text of Json/CanonSpecC01.v). *)
From Coq Require Import Permutation.
From Verif Require Import Lib.Bytes Json.Ast Json.Parse Json.Print Json.Render Json.NumFacts
  Json.ParseComplete Json.CanonFacts Json.CanonSpecC01.
Open Scope N_scope.

(* ---------- byte scan ---------- *)
Definition Bal (a : bytes) : Prop :=
  forall rest, scan_canonical false (a ++ rest) = scan_canonical false rest.

Lemma Bal_nil : Bal []. Proof. intro rest. reflexivity. Qed.

Lemma Bal_app a b : Bal a -> Bal b -> Bal (a ++ b).
Proof. intros Ha Hb rest. rewrite <- app_assoc, Ha, Hb. reflexivity. Qed.

Definition plain_byte (c : N) : Prop := (c <=? 32) = false /\ (c =? 34) = false.

Lemma Bal_byte c : plain_byte c -> Bal [c].
Proof. intros [H1 H2] rest. cbn [app scan_canonical negb]. rewrite H1, H2. reflexivity. Qed.

Lemma Bal_plain a : Forall plain_byte a -> Bal a.
Proof.
  induction 1 as [|c a Hc _ IH]; [apply Bal_nil|].
  change (c :: a) with ([c] ++ a). apply Bal_app; [apply Bal_byte; exact Hc | exact IH].
Qed.

Lemma Bal_cons c a : plain_byte c -> Bal a -> Bal (c :: a).
Proof. intros Hc Ha. change (c :: a) with ([c] ++ a). apply Bal_app; [apply Bal_byte; exact Hc | exact Ha]. Qed.

(* inside a string: an escaped byte leaves the scanner inside the string *)
Lemma scan_esc_control c : c < 32 ->
  forall X, scan_canonical true (esc_byte c ++ X) = scan_canonical true X.
Proof.
  intros H X.
  pose (P := fun c => match esc_byte c with
                      | [a; b] => (a =? 92) && ((b =? 34) || (b =? 92) || (b =? 98) || (b =? 102) || (b =? 110) || (b =? 114) || (b =? 116))
                      | [a; b; z1; z2; h1; h2] =>
                          (a =? 92) && (b =? 117) && (z1 =? 48) && (z2 =? 48) && ((h1 =? 48) || (h1 =? 49)) && is_lower_hex h2 &&
                          negb ((h1 =? 48) && ((h2 =? 56) || (h2 =? 57) || (h2 =? 97) || (h2 =? 99) || (h2 =? 100)))
                      | _ => false
                      end).
  assert (HP : P c = true) by (apply (sweep_lt 32 P); [vm_compute; reflexivity | exact H]).
  unfold P in HP. destruct (esc_byte c) as [|a [|b [|z1 [|z2 [|h1 [|h2 [|? ?]]]]]]]; try discriminate.
  - apply andb_true_iff in HP as [Ha Hb]. apply N.eqb_eq in Ha. subst a.
    cbn [app scan_canonical negb]. change (92 <? 32) with false. change (92 =? 34) with false. change (92 =? 92) with true.
    cbv iota. rewrite Hb. reflexivity.
  - repeat (apply andb_true_iff in HP as [HP ?]).
    apply N.eqb_eq in HP. subst a.
    repeat match goal with H : (_ =? _) = true |- _ => apply N.eqb_eq in H; subst end.
    cbn [app scan_canonical negb]. change (92 <? 32) with false. change (92 =? 34) with false. change (92 =? 92) with true.
    cbv iota.
    change ((117 =? 34) || (117 =? 92) || (117 =? 98) || (117 =? 102) || (117 =? 110) || (117 =? 114) || (117 =? 116)) with false.
    change (117 =? 117) with true. cbv iota.
    rewrite !N.eqb_refl.
    match goal with H : (_ || _) = true |- _ => rewrite H end.
    match goal with H : is_lower_hex _ = true |- _ => rewrite H end.
    match goal with H : negb _ = true |- _ => rewrite H end.
    reflexivity.
Qed.

Lemma scan_esc_byte c X : scan_canonical true (esc_byte c ++ X) = scan_canonical true X.
Proof.
  destruct (c <? 32) eqn:E; [apply scan_esc_control; apply N.ltb_lt; exact E|].
  unfold esc_byte.
  destruct (c =? 34) eqn:E1; [reflexivity|].
  destruct (c =? 92) eqn:E2; [reflexivity|].
  destruct (c =? 8) eqn:E3; [reflexivity|].
  destruct (c =? 9) eqn:E4; [reflexivity|].
  destruct (c =? 10) eqn:E5; [reflexivity|].
  destruct (c =? 12) eqn:E6; [reflexivity|].
  destruct (c =? 13) eqn:E7; [reflexivity|].
  rewrite E. cbn [app scan_canonical negb]. rewrite E, E1, E2. reflexivity.
Qed.

Lemma Bal_print_string s : Bal (print_string s).
Proof.
  intro rest. unfold print_string. cbn [app scan_canonical negb].
  change (34 <=? 32) with false. change (34 =? 34) with true. cbv iota.
  rewrite <- app_assoc.
  induction s as [|c s IH].
  - reflexivity.
  - cbn [flat_map]. rewrite <- app_assoc. rewrite scan_esc_byte. exact IH.
Qed.

(* number literals *)
Lemma digit_plain c : is_digit c = true -> plain_byte c.
Proof.
  intro H. apply is_digit_range in H. split; [apply N.leb_gt; lia | apply N.eqb_neq; lia].
Qed.

Lemma digits_plain ds : all_digits ds = true -> Forall plain_byte ds.
Proof.
  induction ds as [|c ds IH]; intro H; [constructor|].
  simpl in H. apply andb_true_iff in H as [Hc Hd]. constructor; [apply digit_plain; exact Hc | apply IH; exact Hd].
Qed.

Lemma num_wf_plain l : num_wf l -> Forall plain_byte l.
Proof.
  intros (sign & ip & fp & ep & -> & Hsign & Hip & Hfp & Hep).
  assert (P45 : plain_byte 45) by (split; reflexivity).
  assert (P43 : plain_byte 43) by (split; reflexivity).
  apply Forall_app; split; [|apply Forall_app; split; [|apply Forall_app; split]].
  - destruct Hsign as [-> | ->]; repeat constructor; assumption.
  - destruct Hip as [-> | (d & ds & -> & Hd & _ & Hds)].
    + repeat constructor.
    + constructor; [apply digit_plain; exact Hd | apply digits_plain; exact Hds].
  - destruct Hfp as [-> | (fd & (Hfd & _) & ->)]; [constructor|].
    constructor; [split; reflexivity | apply digits_plain; exact Hfd].
  - destruct Hep as [-> | (e & sg & ed & He & Hsg & (Hed & _) & ->)]; [constructor|].
    constructor; [destruct He; subst; split; reflexivity|].
    apply Forall_app; split; [|apply digits_plain; exact Hed].
    destruct Hsg as [-> | [-> | ->]]; repeat constructor; assumption.
Qed.

Lemma Bal_join (l : list bytes) : Forall Bal l -> Bal (join_comma l).
Proof.
  induction 1 as [|x l Hx Hl IH]; [apply Bal_nil|].
  destruct l as [|y l]; [exact Hx|].
  change (join_comma (x :: y :: l)) with (x ++ 44 :: join_comma (y :: l)).
  apply Bal_app; [exact Hx|]. apply Bal_cons; [split; reflexivity | exact IH].
Qed.

Lemma Bal_canon_print v : json_wf v -> Bal (canon_print v).
Proof.
  induction v as [| b | r | s | l IH | m IH] using json_ind'; intro Hwf.
  - apply Bal_plain. repeat constructor.
  - destruct b; apply Bal_plain; repeat constructor.
  - cbn [canon_print]. apply Bal_plain. apply num_wf_plain. apply print_number_wf. exact Hwf.
  - apply Bal_print_string.
  - rewrite canon_print_arr. apply Bal_cons; [split; reflexivity|].
    apply Bal_app; [|apply Bal_byte; split; reflexivity].
    apply Bal_join. apply json_wf_arr in Hwf.
    apply Forall_map. rewrite Forall_forall in *. intros x Hx. apply IH; [exact Hx | apply Hwf; exact Hx].
  - rewrite canon_print_obj. apply Bal_cons; [split; reflexivity|].
    apply Bal_app; [|apply Bal_byte; split; reflexivity].
    apply Bal_join. apply json_wf_obj in Hwf.
    rewrite sort_members_map. rewrite map_map.
    apply Forall_map. rewrite Forall_forall in *. intros [k v] Hx.
    apply (proj1 (sort_members_In _ _)) in Hx.
    unfold print_member, on_snd. cbn [fst snd].
    apply Bal_app; [apply Bal_print_string|].
    apply Bal_cons; [split; reflexivity|]. apply (IH (k, v) Hx). apply (Hwf (k, v) Hx).
Qed.

Lemma scan_canon_print v : json_wf v -> scan_canonical false (canon_print v) = true.
Proof.
  intro H. rewrite <- (app_nil_r (canon_print v)). rewrite (Bal_canon_print v H []). reflexivity.
Qed.

(* ---------- the parsed value: strictly sorted keys, no -0 ---------- *)
Lemma value_canonical_arr l : value_canonical (JArr l) = forallb value_canonical l.
Proof. cbn [value_canonical]. induction l as [|v l IH]; [reflexivity|]. simpl. rewrite IH. reflexivity. Qed.

Lemma value_canonical_obj m :
  value_canonical (JObj m) = keys_strictly_sorted (map fst m) && forallb (fun kv => value_canonical (snd kv)) m.
Proof.
  cbn [value_canonical]. f_equal. induction m as [|[k v] m IH]; [reflexivity|]. simpl. rewrite IH. reflexivity.
Qed.

Lemma json_nodup_arr l : json_nodup (JArr l) = forallb json_nodup l.
Proof. cbn [json_nodup]. induction l as [|v l IH]; [reflexivity|]. simpl. rewrite IH. reflexivity. Qed.

Lemma json_nodup_obj m :
  json_nodup (JObj m) = keys_nodup (map fst m) && forallb (fun kv => json_nodup (snd kv)) m.
Proof.
  cbn [json_nodup]. f_equal. induction m as [|[k v] m IH]; [reflexivity|]. simpl. rewrite IH. reflexivity.
Qed.

Lemma keys_nodup_NoDup l : keys_nodup l = true -> NoDup l.
Proof.
  induction l as [|k l IH]; intro H; [constructor|].
  simpl in H. apply andb_true_iff in H as [H1 H2]. constructor; [|apply IH; exact H2].
  intro Hin. apply mem_bytes_In in Hin. rewrite Hin in H1. discriminate.
Qed.

Lemma insert_member_perm {A} (kv : bytes * A) l : Permutation (kv :: l) (insert_member kv l).
Proof.
  induction l as [|kv' l IH]; simpl; [apply Permutation_refl|].
  destruct (bytes_leb (fst kv) (fst kv')); [apply Permutation_refl|].
  eapply Permutation_trans; [apply perm_swap|]. apply perm_skip. exact IH.
Qed.

Lemma sort_members_perm {A} (l : list (bytes * A)) : Permutation l (sort_members l).
Proof.
  unfold sort_members. induction l as [|kv l IH]; simpl; [constructor|].
  eapply Permutation_trans; [apply perm_skip; exact IH | apply insert_member_perm].
Qed.

Lemma bytes_leb_ltb a b : bytes_leb a b = true -> a <> b -> bytes_ltb a b = true.
Proof.
  unfold bytes_leb, bytes_ltb. destruct (bytes_cmp a b) eqn:E; intros H Hne; try reflexivity; try discriminate.
  apply bytes_cmp_eq in E. contradiction.
Qed.

Lemma sorted_nodup_strict {A} (l : list (bytes * A)) :
  sorted_keys l -> NoDup (map fst l) -> keys_strictly_sorted (map fst l) = true.
Proof.
  induction l as [|kv l IH]; intros Hs Hn; [reflexivity|].
  destruct Hs as [Hh Ht]. inversion Hn as [|? ? Hnin Hn']; subst.
  cbn [map keys_strictly_sorted]. rewrite (IH Ht Hn'). rewrite andb_true_r.
  destruct l as [|kv' l]; [reflexivity|]. cbn [map].
  apply bytes_leb_ltb; [exact Hh|]. intro E. apply Hnin. left. symmetry. exact E.
Qed.

Lemma map_fst_on_snd {A B} (f : A -> B) (l : list (bytes * A)) : map fst (map (on_snd f) l) = map fst l.
Proof. rewrite map_map. reflexivity. Qed.

Lemma value_canonical_normalise v : json_nodup v = true -> value_canonical (normalise v) = true.
Proof.
  induction v as [| b | r | s | l IH | m IH] using json_ind'; intro Hn; try reflexivity.
  - cbn [normalise value_canonical].
    destruct (bytes_eqb (print_number r) lit_neg_zero) eqn:E; [|reflexivity].
    apply bytes_eqb_eq in E. exfalso. exact (print_number_not_neg_zero r E).
  - cbn [normalise]. rewrite value_canonical_arr. rewrite json_nodup_arr in Hn.
    rewrite forallb_forall in *. intros x Hx. apply in_map_iff in Hx as (y & <- & Hy).
    rewrite Forall_forall in IH. apply IH; [exact Hy | apply Hn; exact Hy].
  - cbn [normalise]. rewrite value_canonical_obj. rewrite json_nodup_obj in Hn.
    apply andb_true_iff in Hn as [Hk Hv]. apply andb_true_iff. split.
    + apply sorted_nodup_strict; [apply sort_members_sorted|].
      rewrite sort_members_map, map_fst_on_snd.
      apply (Permutation_NoDup (l := map fst m)); [apply Permutation_map; apply sort_members_perm|].
      apply keys_nodup_NoDup. exact Hk.
    + rewrite forallb_forall in *. intros x Hx. apply (proj1 (sort_members_In _ _)) in Hx.
      apply in_map_iff in Hx as ([k v] & <- & Hy). unfold on_snd. cbn [fst snd].
      rewrite Forall_forall in IH. apply (IH (k, v) Hy). apply (Hv (k, v) Hy).
Qed.

Theorem canon_print_is_canonical v :
  json_wf v -> json_nodup v = true -> is_canonical_text (canon_print v) = true.
Proof.
  intros Hwf Hn. unfold is_canonical_text.
  rewrite (scan_canon_print v Hwf), (parse_canon_print v Hwf). simpl.
  apply value_canonical_normalise. exact Hn.
Qed.

Theorem canonical_is_canonical_form v t c :
  RendersText v t -> json_nodup v = true -> canonical t = Some c -> is_canonical_text c = true.
Proof.
  intros Hr Hn E. rewrite (canonical_of_rendering v t Hr) in E. inversion E; subst c.
  apply canon_print_is_canonical; [eapply renders_wf; eauto | exact Hn].
Qed.
