(* C01 specification side (executable, independent of the canonical printer): what it means for two
   values to be the same value, and what the Matrix canonical form looks like syntactically. *)
From Verif Require Import Lib.Bytes Json.Ast Json.Parse.
Open Scope N_scope.

(* ---------- exact decimal value of a number literal: (mantissa, power of ten), normalised ---------- *)
Fixpoint norm_dec (fuel : nat) (m e : Z) : Z * Z :=
  match fuel with
  | O => (m, e)
  | S f => if (m =? 0)%Z then (0%Z, 0%Z)
           else if (m mod 10 =? 0)%Z then norm_dec f (m / 10)%Z (e + 1)%Z
           else (m, e)
  end.

Definition num_decimal (raw : bytes) : option (Z * Z) :=
  let (neg, s1) := match raw with
                   | c :: r => if c =? 45 then (true, r) else (false, raw)
                   | [] => (false, [])
                   end in
  let (ip, s2) := take_digits s1 in
  let (fp, s3) := match s2 with
                  | c :: r => if c =? 46 then take_digits r else ([], s2)
                  | [] => ([], [])
                  end in
  let ex := match s3 with
            | [] => Some 0%Z
            | c :: r => if (c =? 101) || (c =? 69) then parse_int r else None
            end in
  match parse_dec (ip ++ fp), ex with
  | Some m, Some e =>
      Some (norm_dec (S (length (ip ++ fp)))
              (if neg then (- Z.of_N m)%Z else Z.of_N m) (e - Z.of_nat (length fp))%Z)
  | _, _ => None
  end.

Definition num_same_value (a b : bytes) : bool :=
  match num_decimal a, num_decimal b with
  | Some (m, e), Some (m', e') => (m =? m')%Z && (e =? e')%Z
  | _, _ => false
  end.

(* integers by value, other literals by their text: the part of "same value" for which Matrix
   canonical JSON fixes one spelling *)
Definition num_same_matrix (a b : bytes) : bool :=
  match num_int a, num_int b with
  | Some x, Some y => (x =? y)%Z
  | None, None => bytes_eqb a b
  | _, _ => false
  end.

(* ---------- same value: member order ignored; numbers compared by [numeq] ---------- *)
Fixpoint json_same_with (numeq : bytes -> bytes -> bool) (a b : json) {struct a} : bool :=
  match a, b with
  | JNull, JNull => true
  | JBool x, JBool y => Bool.eqb x y
  | JNum x, JNum y => numeq x y
  | JStr x, JStr y => bytes_eqb x y
  | JArr x, JArr y =>
      (fix go (x y : list json) : bool :=
         match x, y with
         | [], [] => true
         | u :: x', v :: y' => json_same_with numeq u v && go x' y'
         | _, _ => false
         end) x y
  | JObj x, JObj y =>
      Nat.eqb (length x) (length y) &&
      (fix go (x : list (bytes * json)) : bool :=
         match x with
         | [] => true
         | (k, u) :: x' =>
             match assoc_first k y with
             | Some v => json_same_with numeq u v
             | None => false
             end && go x'
         end) x
  | _, _ => false
  end.

(* numbers by exact decimal value *)
Definition json_same : json -> json -> bool := json_same_with num_same_value.
(* integers by value, non-integer literals by text *)
Definition json_same_matrix : json -> json -> bool := json_same_with num_same_matrix.

Fixpoint keys_nodup (l : list bytes) : bool :=
  match l with [] => true | k :: l' => negb (mem_bytes k l') && keys_nodup l' end.

(* no object anywhere has two members with the same key *)
Fixpoint json_nodup (j : json) : bool :=
  match j with
  | JArr l => (fix go (l : list json) : bool :=
                 match l with [] => true | v :: l' => json_nodup v && go l' end) l
  | JObj m => keys_nodup (map fst m) &&
              (fix go (m : list (bytes * json)) : bool :=
                 match m with [] => true | (_, v) :: m' => json_nodup v && go m' end) m
  | _ => true
  end.

(* ---------- the canonical form, syntactically ---------- *)
Definition is_lower_hex (c : N) : bool := is_digit c || ((97 <=? c) && (c <=? 102)).

(* byte scan: nothing but structure outside strings (no byte <= space); inside strings the only
   escapes are the two-character ones for quote, backslash, b f n r t, and \u00XX (lower-case hex)
   for the other control characters; no raw control character *)
Fixpoint scan_canonical (in_str : bool) (s : bytes) {struct s} : bool :=
  match s with
  | [] => negb in_str
  | c :: r =>
      if negb in_str then
        if c <=? 32 then false
        else if c =? 34 then scan_canonical true r
        else scan_canonical false r
      else
        if c <? 32 then false
        else if c =? 34 then scan_canonical false r
        else if c =? 92 then
          match r with
          | [] => false
          | e :: r1 =>
              if (e =? 34) || (e =? 92) || (e =? 98) || (e =? 102) || (e =? 110) || (e =? 114) || (e =? 116)
              then scan_canonical true r1
              else if e =? 117 then
                match r1 with
                | a :: b :: h1 :: h2 :: r2 =>
                    (a =? 48) && (b =? 48) && ((h1 =? 48) || (h1 =? 49)) && is_lower_hex h2 &&
                    (* not one of the characters that have a two-character escape *)
                    negb ((h1 =? 48) && ((h2 =? 56) || (h2 =? 57) || (h2 =? 97) || (h2 =? 99) || (h2 =? 100))) &&
                    scan_canonical true r2
                | _ => false
                end
              else false
          end
        else scan_canonical true r
  end.

Fixpoint keys_strictly_sorted (l : list bytes) : bool :=
  match l with
  | [] => true
  | k :: l' => match l' with [] => true | k' :: _ => bytes_ltb k k' end && keys_strictly_sorted l'
  end.

Definition lit_neg_zero : bytes := [45; 48].

(* on the parsed value: keys strictly increasing in every object, no literal -0 *)
Fixpoint value_canonical (j : json) : bool :=
  match j with
  | JNum raw => negb (bytes_eqb raw lit_neg_zero)
  | JArr l => (fix go (l : list json) : bool :=
                 match l with [] => true | v :: l' => value_canonical v && go l' end) l
  | JObj m => keys_strictly_sorted (map fst m) &&
              (fix go (m : list (bytes * json)) : bool :=
                 match m with [] => true | (_, v) :: m' => value_canonical v && go m' end) m
  | _ => true
  end.

Definition is_canonical_text (t : bytes) : bool :=
  scan_canonical false t &&
  match parse_json t with Some v => value_canonical v | None => false end.

(* ---------- the enforced variant: which numbers room versions 6+ must refuse ---------- *)
Definition two53m1 : Z := 9007199254740991.

(* an integer literal (no fraction, no exponent) with |value| <= 2^53-1 *)
Definition is_safe_integer_literal (raw : bytes) : bool :=
  match num_int raw with
  | Some z => ((- two53m1 <=? z) && (z <=? two53m1))%Z
  | None => false
  end.

Fixpoint has_unsafe_number (j : json) : bool :=
  match j with
  | JNum raw => negb (is_safe_integer_literal raw)
  | JArr l => (fix go (l : list json) : bool :=
                 match l with [] => false | v :: l' => has_unsafe_number v || go l' end) l
  | JObj m => (fix go (m : list (bytes * json)) : bool :=
                 match m with [] => false | (_, v) :: m' => has_unsafe_number v || go m' end) m
  | _ => false
  end.

(* the literal -0 somewhere: the enforced variant is allowed (not required) to refuse it *)
Fixpoint has_neg_zero (j : json) : bool :=
  match j with
  | JNum raw => bytes_eqb raw lit_neg_zero
  | JArr l => (fix go (l : list json) : bool :=
                 match l with [] => false | v :: l' => has_neg_zero v || go l' end) l
  | JObj m => (fix go (m : list (bytes * json)) : bool :=
                 match m with [] => false | (_, v) :: m' => has_neg_zero v || go m' end) m
  | _ => false
  end.

(* ---------- the nesting limit ---------- *)
(* how deep a value nests: scalars 0, an array or object one more than its deepest member *)
Fixpoint value_depth (j : json) : Z :=
  match j with
  | JArr l => 1 + (fix go (l : list json) : Z :=
                     match l with [] => 0 | v :: l' => Z.max (value_depth v) (go l') end) l
  | JObj m => 1 + (fix go (m : list (bytes * json)) : Z :=
                     match m with [] => 0 | kv :: m' => Z.max (value_depth (snd kv)) (go m') end) m
  | _ => 0
  end%Z.

(* documents nested deeper than this are refused (json.go maxJSONDepth; encoding/json has the same limit) *)
Definition spec_max_nesting : Z := 10000.
Definition too_deep (j : json) : bool := (spec_max_nesting <? value_depth j)%Z.

(* room versions 6 and later, as the Matrix specification and the library's version list name them *)
Definition spec_enforcing_versions : list bytes :=
  [bs "6"; bs "7"; bs "8"; bs "9"; bs "10"; bs "11"; bs "12";
   bs "org.matrix.msc3667"; bs "org.matrix.msc3787"; bs "org.matrix.msc4014"; bs "org.matrix.hydra.11"].
Definition spec_legacy_versions : list bytes := [bs "1"; bs "2"; bs "3"; bs "4"; bs "5"].
