(* Byte-level model of json.go: CompactJSON, isNegativeZero, compactUnicodeEscape, readHexDigits,
   with every index read written as a partial operation (Crash = Go run-time panic).
   - indices are nat, bytes are N (< 256); input is never modified
   - the output slice is kept reversed ([racc]) and reversed once at the end
   - the two nested for-loops of CompactJSON are one loop with a mode flag [in_str]: the inner
     loop runs while in_str = true; `break` is in_str := false; when the input is exhausted inside
     the inner loop the outer loop ends as well (same condition i < len(input))
   - every iteration consumes at least one byte, so fuel = S (length input) never runs out
   No proofs here. *)
From Verif Require Import Lib.Bytes Json.Parse Crash.Outcome.
Open Scope N_scope.

(* ---------- readHexDigits: uint32 arithmetic with the wrap-around written out ---------- *)
Definition two32 : N := 4294967296.
Definition sub32 (a b : N) : N := (a + two32 - b mod two32) mod two32.
Definition add32 (a b : N) : N := (a + b) mod two32.

Definition read_hex_digits (s : bytes) : N :=
  match s with
  | [b0; b1; b2; b3] =>
      let hex := b0 * 16777216 + b1 * 65536 + b2 * 256 + b3 in   (* binary.BigEndian.Uint32 *)
      let hex := sub32 hex 808464432 in                          (* hex -= 0x30303030 *)
      let hex := N.land hex 522133279 in                         (* hex &= 0x1F1F1F1F *)
      let mask := N.land hex 269488144 in                        (* mask := hex & 0x10101010 *)
      let hex := sub32 hex (N.shiftr mask 1) in                  (* hex -= mask >> 1 *)
      let hex := add32 hex (N.shiftr mask 4) in                  (* hex += mask >> 4 *)
      let hex := N.lor hex (N.shiftr hex 4) in                   (* hex |= hex >> 4 *)
      let hex := N.land hex 16711935 in                          (* hex &= 0xFF00FF *)
      let hex := N.lor hex (N.shiftr hex 8) in                   (* hex |= hex >> 8 *)
      N.land hex 65535                                           (* rune(hex & 0xFFFF) *)
  | _ => 0
  end.

(* ---------- runes ---------- *)
Definition is_surrogate (c : N) : bool := (55296 <=? c) && (c <? 57344).   (* utf16.IsSurrogate *)

(* utf16.DecodeRune *)
Definition decode_rune (r1 r2 : N) : N :=
  if (55296 <=? r1) && (r1 <? 56320) && (56320 <=? r2) && (r2 <? 57344)
  then (r1 - 55296) * 1024 + (r2 - 56320) + 65536
  else 65533.

(* utf8.EncodeRune (appendUTF8): surrogates and out-of-range runes become U+FFFD *)
Definition encode_rune (r : N) : bytes :=
  if is_surrogate r || (1114111 <? r) then replacement_char else utf8_encode r.

Definition escapes_table : bytes := bs "uuuuuuuubtnufruuuuuuuuuuuuuuuuuu".
Definition hex_table : bytes := bs "0123456789abcdef".

(* ---------- compactUnicodeEscape(input, output, index) -> (output, index) ---------- *)
Definition compact_unicode_escape (input racc : bytes) (index : nat) : outcome (bytes * nat) :=
  if (length input - index <? 4)%nat then Ret (racc, length input) else
  do h <- slice input index (index + 4);
  let c := read_hex_digits h in
  let index := (index + 4)%nat in
  if c <? 32 then
    do esc <- idx escapes_table (N.to_nat c);
    let racc := esc :: 92 :: racc in
    if esc =? 117 then
      do hx <- idx hex_table (N.to_nat (N.land c 15));
      Ret (hx :: (48 + N.shiftr c 4) :: 48 :: 48 :: racc, index)
    else Ret (racc, index)
  else if (c =? 92) || (c =? 34) then Ret (c :: 92 :: racc, index)
  else if is_surrogate c then
    do x <- idx input index;
    (* input[index] != '\\' || input[index+1] != 'u' : the second read only if the first test fails *)
    do stop <- (if negb (x =? 92) then Ret true
                else do y <- idx input (index + 1); Ret (negb (y =? 117)));
    if stop then Ret (racc, index) else
    let index := (index + 2)%nat in
    if (length input - index <? 4)%nat then Ret (racc, index) else
    do h2 <- slice input index (index + 4);
    let c2 := read_hex_digits h2 in
    Ret (rev (encode_rune (decode_rune c c2)) ++ racc, (index + 4)%nat)
  else Ret (rev (encode_rune c) ++ racc, index).

(* ---------- isNegativeZero(input, index) ---------- *)
Definition is_negative_zero (input : bytes) (index : nat) : outcome bool :=
  do e <- (if (2 <=? index)%nat
           then do p <- idx input (index - 2); Ret ((p =? 101) || (p =? 69))
           else Ret false);
  if e then Ret false else
  if (index + 1 <? length input)%nat then
    do nx <- idx input (index + 1);
    Ret (negb ((nx =? 46) || (nx =? 101) || (nx =? 69) || is_digit nx))
  else Ret true.

(* ---------- CompactJSON ---------- *)
Fixpoint compact_loop (fuel : nat) (input : bytes) (i : nat) (in_str : bool) (racc : bytes)
  : outcome bytes :=
  match fuel with
  | O => Ret (rev racc)
  | S f =>
      if (length input <=? i)%nat then Ret (rev racc) else
      do c <- idx input i;
      let i := S i in
      if negb in_str then
        if c <=? 32 then compact_loop f input i false racc
        else
          (* c == '-' && input[i] == '0' && isNegativeZero(input, i) *)
          do drop <- (if c =? 45
                      then do n <- idx input i;
                           if n =? 48 then is_negative_zero input i else Ret false
                      else Ret false);
          if drop then compact_loop f input i false racc
          else compact_loop f input i (c =? 34) (c :: racc)
      else
        if c =? 92 then
          do e <- idx input i;
          let i := S i in
          if e =? 117 then
            do r <- compact_unicode_escape input racc i;
            compact_loop f input (snd r) true (fst r)
          else if e =? 47 then compact_loop f input i true (e :: racc)
          else compact_loop f input i true (e :: 92 :: racc)
        else compact_loop f input i (negb (c =? 34)) (c :: racc)
  end.

(* CompactJSON(input, nil) *)
Definition compact_model (input : bytes) : outcome bytes :=
  compact_loop (S (length input)) input 0 false [].

(* ---------- the crash-relevant control flow as a scanner over the remaining input ----------
   [compact_safe_from in_str rest]: running the loop on the suffix [rest] in the given mode never
   reads past the end.  (What is appended to the output has no influence on the index reads.) *)
Fixpoint compact_safe_from (in_str : bool) (rest : bytes) {struct rest} : bool :=
  match rest with
  | [] => true
  | c :: r =>
      if negb in_str then
        if c <=? 32 then compact_safe_from false r
        else if c =? 45 then match r with [] => false | _ => compact_safe_from false r end
        else compact_safe_from (c =? 34) r
      else
        if c =? 92 then
          match r with
          | [] => false
          | e :: r2 =>
              if e =? 117 then
                match r2 with
                | a :: b :: c1 :: d :: r3 =>
                    let cp := read_hex_digits [a; b; c1; d] in
                    if cp <? 32 then compact_safe_from true r3
                    else if (cp =? 92) || (cp =? 34) then compact_safe_from true r3
                    else if is_surrogate cp then
                      match r3 with
                      | [] => false
                      | x :: r3' =>
                          if negb (x =? 92) then compact_safe_from true r3
                          else match r3' with
                               | [] => false
                               | y :: r4 =>
                                   if negb (y =? 117) then compact_safe_from true r3
                                   else match r4 with
                                        | _ :: _ :: _ :: _ :: r5 => compact_safe_from true r5
                                        | _ => compact_safe_from true r4
                                        end
                               end
                      end
                    else compact_safe_from true r3
                | _ => true   (* fewer than four bytes left: returns len(input), both loops end *)
                end
              else compact_safe_from true r2
          end
        else compact_safe_from (negb (c =? 34)) r
  end.

Definition compact_safe (t : bytes) : bool := compact_safe_from false t.
