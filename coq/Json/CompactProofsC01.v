(* Index safety of CompactJSON (model: Json/CompactModelC01.v).
     read_hex_digits_spec     : on four hex digits the bit trick is plain hex decoding
     compact_safe_no_crash    : compact_safe t = true -> compact_model t <> Crash      (all t)
     compact_crash_iff        : compact_model t = Crash <-> compact_safe t = false      (all t)
     accepted_compact_safe    : parse_json t = Some v -> compact_safe t = true          (all t)
     accepted_compact_no_panic: parse_json t = Some v -> compact_model t <> Crash       (all t)
     (Json/CompactValidC01.v: valid_compact_safe / compact_no_panic, phrased with json_valid)
     compact_no_panic_renders : RendersText v t -> compact_model t <> Crash
   json_valid (= parse_json accepts, the model of gjson.Valid) includes texts with lone surrogate
   escapes, so the statement covers everything the validity gate of CanonicalJSON lets through. *)
From Verif Require Import Lib.Bytes Json.Ast Json.Parse Json.Print Json.Render Json.NumFacts
  Json.ParseComplete Json.CanonFacts Json.CanonFormProofs Json.ParseSound
  Crash.Outcome Json.CompactModelC01.
Open Scope N_scope.

(* ====================== (2) readHexDigits ====================== *)
Definition hexchars : bytes := bs "0123456789abcdefABCDEF".

Lemma hex_val_in a v : hex_val a = Some v -> In a hexchars.
Proof.
  intro H.
  assert (Hlt : a < 128).
  { unfold hex_val in H.
    destruct ((48 <=? a) && (a <=? 57)) eqn:E1.
    - apply andb_true_iff in E1 as [_ E]. apply N.leb_le in E. lia.
    - destruct ((97 <=? a) && (a <=? 102)) eqn:E2.
      + apply andb_true_iff in E2 as [_ E]. apply N.leb_le in E. lia.
      + destruct ((65 <=? a) && (a <=? 70)) eqn:E3; [|discriminate].
        apply andb_true_iff in E3 as [_ E]. apply N.leb_le in E. lia. }
  pose (P := fun a => match hex_val a with Some _ => mem_bytes [a] (map (fun c => [c]) hexchars) | None => true end).
  assert (HP : P a = true) by (apply (sweep_lt 128 P); [vm_compute; reflexivity | exact Hlt]).
  unfold P in HP. rewrite H in HP. apply mem_bytes_In in HP.
  apply in_map_iff in HP as (c & Hc & Hin). inversion Hc; subst. exact Hin.
Qed.

Definition hex_check (a b c d : N) : bool :=
  match read_hex4 [a; b; c; d] with
  | Some (cp, _) => read_hex_digits [a; b; c; d] =? cp
  | None => true
  end.

Lemma hex_sweep :
  forallb (fun a => forallb (fun b => forallb (fun c => forallb (fun d => hex_check a b c d)
    hexchars) hexchars) hexchars) hexchars = true.
Proof. vm_compute. reflexivity. Qed.

Theorem read_hex_digits_spec a b c d cp :
  read_hex4 [a; b; c; d] = Some (cp, []) -> read_hex_digits [a; b; c; d] = cp.
Proof.
  intro H.
  assert (Hin : In a hexchars /\ In b hexchars /\ In c hexchars /\ In d hexchars).
  { unfold read_hex4 in H.
    destruct (hex_val a) eqn:Ea; [|discriminate]. destruct (hex_val b) eqn:Eb; [|discriminate].
    destruct (hex_val c) eqn:Ec; [|discriminate]. destruct (hex_val d) eqn:Ed; [|discriminate].
    repeat split; eapply hex_val_in; eauto. }
  destruct Hin as (Ha & Hb & Hc & Hd).
  pose proof hex_sweep as S.
  rewrite forallb_forall in S. specialize (S a Ha).
  rewrite forallb_forall in S. specialize (S b Hb).
  rewrite forallb_forall in S. specialize (S c Hc).
  rewrite forallb_forall in S. specialize (S d Hd).
  unfold hex_check in S. rewrite H in S. apply N.eqb_eq in S. exact S.
Qed.

(* ====================== (1a) the scanner decides the index reads ====================== *)
Lemma skipn_cons_idx {A} (t : list A) : forall i c r,
  skipn i t = c :: r -> idx t i = Ret c /\ skipn (S i) t = r /\ (i < length t)%nat.
Proof.
  induction t as [|x t IH]; intros i c r H.
  - destruct i; discriminate.
  - destruct i as [|i].
    + simpl in H. inversion H; subst. repeat split; simpl; lia.
    + simpl in H. destruct (IH i c r H) as (H1 & H2 & H3). repeat split; [exact H1 | exact H2 | simpl; lia].
Qed.

Lemma skipn_nil_len {A} (t : list A) i : skipn i t = [] -> (length t <= i)%nat.
Proof.
  intro H. pose proof (skipn_length i t) as L. rewrite H in L. simpl in L. lia.
Qed.

Lemma skipn_add {A} (t : list A) : forall j k, skipn (j + k) t = skipn k (skipn j t).
Proof.
  induction t as [|x t IH]; intros j k.
  - destruct j, k; reflexivity.
  - destruct j; [reflexivity|]. simpl. apply IH.
Qed.

Lemma slice4 (t : bytes) j a b c d r3 :
  skipn j t = a :: b :: c :: d :: r3 ->
  (length t - j <? 4)%nat = false /\ slice t j (j + 4) = Ret [a; b; c; d] /\ skipn (j + 4) t = r3.
Proof.
  intro H. pose proof (skipn_length j t) as L. rewrite H in L. simpl in L.
  split; [apply Nat.ltb_ge; lia|]. split.
  - rewrite slice_ok by lia. replace (j + 4 - j)%nat with 4%nat by lia. rewrite H. reflexivity.
  - rewrite skipn_add, H. reflexivity.
Qed.

Lemma short4 (t : bytes) j : (length (skipn j t) < 4)%nat -> (length t - j <? 4)%nat = true.
Proof. rewrite skipn_length. intro H. apply Nat.ltb_lt. exact H. Qed.

(* where compactUnicodeEscape leaves the input, as a function of what follows the \u;
   None = an index read leaves the input *)
Definition escape_next (r2 : bytes) : option bytes :=
  match r2 with
  | a :: b :: c1 :: d :: r3 =>
      let cp := read_hex_digits [a; b; c1; d] in
      if cp <? 32 then Some r3
      else if (cp =? 92) || (cp =? 34) then Some r3
      else if is_surrogate cp then
        match r3 with
        | [] => None
        | x :: r3' =>
            if negb (x =? 92) then Some r3
            else match r3' with
                 | [] => None
                 | y :: r4 =>
                     if negb (y =? 117) then Some r3
                     else match r4 with
                          | _ :: _ :: _ :: _ :: r5 => Some r5
                          | _ => Some r4
                          end
                 end
        end
      else Some r3
  | _ => Some []
  end.

Lemma safe_unicode_unfold r2 :
  compact_safe_from true (92 :: 117 :: r2) =
  match escape_next r2 with None => false | Some r' => compact_safe_from true r' end.
Proof.
  unfold escape_next. cbn [compact_safe_from negb].
  change (92 =? 92) with true. change (117 =? 117) with true. cbv iota.
  destruct r2 as [|a [|b [|c1 [|d r3]]]]; try reflexivity.
  destruct (read_hex_digits [a; b; c1; d] <? 32); [reflexivity|].
  destruct ((read_hex_digits [a; b; c1; d] =? 92) || (read_hex_digits [a; b; c1; d] =? 34)); [reflexivity|].
  destruct (is_surrogate (read_hex_digits [a; b; c1; d])); [|reflexivity].
  destruct r3 as [|x r3']; [reflexivity|].
  destruct (negb (x =? 92)); [reflexivity|].
  destruct r3' as [|y r4]; [reflexivity|].
  destruct (negb (y =? 117)); [reflexivity|].
  destruct r4 as [|a' [|b' [|c' [|d' r5]]]]; reflexivity.
Qed.

Lemma tables_total cp : cp < 32 ->
  exists esc, idx escapes_table (N.to_nat cp) = Ret esc /\
              ((esc =? 117) = true -> exists hx, idx hex_table (N.to_nat (N.land cp 15)) = Ret hx).
Proof.
  intro H.
  pose (P := fun cp => match idx escapes_table (N.to_nat cp) with
                       | Ret esc => if esc =? 117
                                    then match idx hex_table (N.to_nat (N.land cp 15)) with Ret _ => true | Crash => false end
                                    else true
                       | Crash => false
                       end).
  assert (HP : P cp = true) by (apply (sweep_lt 32 P); [vm_compute; reflexivity | exact H]).
  unfold P in HP. destruct (idx escapes_table (N.to_nat cp)) as [esc|]; [|discriminate].
  exists esc. split; [reflexivity|]. intro E. rewrite E in HP.
  destruct (idx hex_table (N.to_nat (N.land cp 15))) as [hx|]; [eauto | discriminate].
Qed.

Lemma skipn_nil_idx {A} (t : list A) i : skipn i t = [] -> idx t i = Crash.
Proof.
  intro H. apply skipn_nil_len in H. unfold idx.
  destruct (nth_error t i) eqn:E; [|reflexivity].
  assert (nth_error t i <> None) by congruence. apply nth_error_Some in H0. lia.
Qed.

Lemma cue_next (t racc : bytes) j :
  match escape_next (skipn j t) with
  | None => compact_unicode_escape t racc j = Crash
  | Some r' => exists racc' j', compact_unicode_escape t racc j = Ret (racc', j') /\ skipn j' t = r'
                                /\ (length t - j' <= length t - j)%nat
  end.
Proof.
  unfold escape_next, compact_unicode_escape.
  destruct (skipn j t) as [|a [|b [|c1 [|d r3]]]] eqn:E;
    try (rewrite (short4 t j) by (rewrite E; simpl; lia);
         exists racc, (length t); split; [reflexivity | split; [apply skipn_all | lia]]).
  destruct (slice4 t j a b c1 d r3 E) as (Hs & Hsl & Hsk). rewrite Hs, Hsl. cbn [bind].
  set (cp := read_hex_digits [a; b; c1; d]).
  destruct (cp <? 32) eqn:E32.
  { apply N.ltb_lt in E32. destruct (tables_total cp E32) as (esc & He & Hh). rewrite He. cbn [bind].
    destruct (esc =? 117) eqn:Eu.
    - destruct (Hh eq_refl) as (hx & Hx). rewrite Hx. cbn [bind].
      eexists _, _. split; [reflexivity|]. split; [exact Hsk | lia].
    - eexists _, _. split; [reflexivity|]. split; [exact Hsk | lia]. }
  destruct ((cp =? 92) || (cp =? 34)); [eexists _, _; split; [reflexivity|]; split; [exact Hsk | lia]|].
  destruct (is_surrogate cp); [|eexists _, _; split; [reflexivity|]; split; [exact Hsk | lia]].
  destruct r3 as [|x r3']; [rewrite (skipn_nil_idx t (j + 4) Hsk); reflexivity|].
  destruct (skipn_cons_idx t (j + 4) x r3' Hsk) as (Hx & Hsk1 & _). rewrite Hx. cbn [bind].
  destruct (negb (x =? 92)); [cbn [bind]; eexists _, _; split; [reflexivity|]; split; [exact Hsk | lia]|].
  replace (S (j + 4)) with (j + 4 + 1)%nat in Hsk1 by lia.
  destruct r3' as [|y r4]; [rewrite (skipn_nil_idx t (j + 4 + 1) Hsk1); reflexivity|].
  destruct (skipn_cons_idx t (j + 4 + 1) y r4 Hsk1) as (Hy & Hsk2 & _). rewrite Hy. cbn [bind].
  destruct (negb (y =? 117)); [eexists _, _; split; [reflexivity|]; split; [exact Hsk | lia]|].
  replace (S (j + 4 + 1)) with (j + 4 + 2)%nat in Hsk2 by lia.
  destruct r4 as [|a' [|b' [|c' [|d' r5]]]] eqn:E4;
    try (rewrite (short4 t (j + 4 + 2)) by (rewrite Hsk2; simpl; lia);
         eexists _, _; split; [reflexivity|]; split; [exact Hsk2 | lia]).
  destruct (slice4 t (j + 4 + 2) a' b' c' d' r5 Hsk2) as (Hs' & Hsl' & Hsk').
  rewrite Hs', Hsl'. cbn [bind]. eexists _, _. split; [reflexivity|]. split; [exact Hsk' | lia].
Qed.

Lemma inz_total (t : bytes) index : (index < length t)%nat -> exists b, is_negative_zero t index = Ret b.
Proof.
  intro H. unfold is_negative_zero.
  assert (H1 : exists e, (if (2 <=? index)%nat
                          then do p <- idx t (index - 2); Ret ((p =? 101) || (p =? 69))
                          else Ret false) = Ret e).
  { destruct (2 <=? index)%nat; [|eauto].
    destruct (idx_lt t (index - 2)) as (p & Hp); [lia|]. rewrite Hp. cbn [bind]. eauto. }
  destruct H1 as (e & ->). cbn [bind]. destruct e; [eauto|].
  destruct (index + 1 <? length t)%nat eqn:E; [|eauto].
  apply Nat.ltb_lt in E. destruct (idx_lt t (index + 1) E) as (nx & Hn). rewrite Hn. cbn [bind]. eauto.
Qed.

Lemma loop_safe (t : bytes) fuel : forall i m racc,
  compact_safe_from m (skipn i t) = true -> compact_loop fuel t i m racc <> Crash.
Proof.
  induction fuel as [|f IH]; intros i m racc Hs; [discriminate|].
  cbn [compact_loop].
  destruct (length t <=? i)%nat eqn:El; [discriminate|].
  apply Nat.leb_gt in El.
  destruct (skipn i t) as [|c r] eqn:E; [apply skipn_nil_len in E; lia|].
  destruct (skipn_cons_idx t i c r E) as (Hc & Hr & _). rewrite Hc. cbn [bind].
  destruct m; cbn [negb].
  - (* inside a string *)
    cbn [compact_safe_from negb] in Hs.
    destruct (c =? 92) eqn:E92.
    + destruct r as [|e r2]; [discriminate|].
      destruct (skipn_cons_idx t (S i) e r2 Hr) as (He & Hr2 & _). rewrite He. cbn [bind].
      destruct (e =? 117) eqn:Eu.
      * apply N.eqb_eq in E92. apply N.eqb_eq in Eu. subst c e.
        assert (Hs' : compact_safe_from true (92 :: 117 :: r2) = true).
        { cbn [compact_safe_from negb]. exact Hs. }
        rewrite safe_unicode_unfold in Hs'.
        pose proof (cue_next t racc (S (S i))) as Hn. rewrite Hr2 in Hn.
        destruct (escape_next r2) as [r'|]; [|discriminate].
        destruct Hn as (racc' & j' & Hcue & Hsk & _). rewrite Hcue. cbn [bind fst snd].
        apply IH. rewrite Hsk. exact Hs'.
      * destruct (e =? 47); apply IH; rewrite Hr2; exact Hs.
    + apply IH. rewrite Hr. exact Hs.
  - (* outside strings *)
    cbn [compact_safe_from negb] in Hs.
    destruct (c <=? 32) eqn:Ews; [apply IH; rewrite Hr; exact Hs|].
    destruct (c =? 45) eqn:Em.
    + destruct r as [|n r']; [discriminate|].
      destruct (skipn_cons_idx t (S i) n r' Hr) as (Hn & _ & Hlt). rewrite Hn. cbn [bind].
      assert (E34 : (c =? 34) = false) by (apply N.eqb_eq in Em; subst c; reflexivity).
      destruct (n =? 48).
      * destruct (inz_total t (S i) Hlt) as (b & Hb). rewrite Hb. cbn [bind].
        destruct b; [apply IH; rewrite Hr; exact Hs | rewrite E34; apply IH; rewrite Hr; exact Hs].
      * cbn [bind]. rewrite E34. apply IH. rewrite Hr. exact Hs.
    + cbn [bind]. apply IH. rewrite Hr. exact Hs.
Qed.

Theorem compact_safe_no_crash t : compact_safe t = true -> compact_model t <> Crash.
Proof. intro H. unfold compact_model. apply loop_safe. exact H. Qed.

(* the converse: the scanner is exact *)
Lemma loop_unsafe (t : bytes) fuel : forall i m racc,
  (length t - i < fuel)%nat ->
  compact_safe_from m (skipn i t) = false -> compact_loop fuel t i m racc = Crash.
Proof.
  induction fuel as [|f IH]; intros i m racc Hf Hs; [lia|].
  cbn [compact_loop].
  destruct (length t <=? i)%nat eqn:El.
  { apply Nat.leb_le in El. rewrite (skipn_all2 t El) in Hs. destruct m; discriminate. }
  apply Nat.leb_gt in El.
  destruct (skipn i t) as [|c r] eqn:E; [apply skipn_nil_len in E; lia|].
  destruct (skipn_cons_idx t i c r E) as (Hc & Hr & _). rewrite Hc. cbn [bind].
  destruct m; cbn [negb].
  - cbn [compact_safe_from negb] in Hs.
    destruct (c =? 92) eqn:E92.
    + destruct r as [|e r2]; [rewrite (skipn_nil_idx t (S i) Hr); reflexivity|].
      destruct (skipn_cons_idx t (S i) e r2 Hr) as (He & Hr2 & Hlt). rewrite He. cbn [bind].
      destruct (e =? 117) eqn:Eu.
      * apply N.eqb_eq in E92. apply N.eqb_eq in Eu. subst c e.
        assert (Hs' : compact_safe_from true (92 :: 117 :: r2) = false).
        { cbn [compact_safe_from negb]. exact Hs. }
        rewrite safe_unicode_unfold in Hs'.
        pose proof (cue_next t racc (S (S i))) as Hn. rewrite Hr2 in Hn.
        destruct (escape_next r2) as [r'|]; [|rewrite Hn; reflexivity].
        destruct Hn as (racc' & j' & Hcue & Hsk & Hle). rewrite Hcue. cbn [bind fst snd].
        apply IH; [lia | rewrite Hsk; exact Hs'].
      * destruct (e =? 47); (apply IH; [lia | rewrite Hr2; exact Hs]).
    + apply IH; [lia | rewrite Hr; exact Hs].
  - cbn [compact_safe_from negb] in Hs.
    destruct (c <=? 32) eqn:Ews; [apply IH; [lia | rewrite Hr; exact Hs]|].
    destruct (c =? 45) eqn:Em.
    + destruct r as [|n r']; [rewrite (skipn_nil_idx t (S i) Hr); reflexivity|].
      destruct (skipn_cons_idx t (S i) n r' Hr) as (Hn & _ & Hlt). rewrite Hn. cbn [bind].
      assert (E34 : (c =? 34) = false) by (apply N.eqb_eq in Em; subst c; reflexivity).
      destruct (n =? 48).
      * destruct (inz_total t (S i) Hlt) as (b & Hb). rewrite Hb. cbn [bind].
        destruct b; [apply IH; [lia | rewrite Hr; exact Hs] | rewrite E34; apply IH; [lia | rewrite Hr; exact Hs]].
      * cbn [bind]. rewrite E34. apply IH; [lia | rewrite Hr; exact Hs].
    + cbn [bind]. apply IH; [lia | rewrite Hr; exact Hs].
Qed.

Theorem compact_crash_iff t : compact_model t = Crash <-> compact_safe t = false.
Proof.
  split.
  - intro H. destruct (compact_safe t) eqn:E; [|reflexivity].
    exfalso. exact (compact_safe_no_crash t E H).
  - intro H. unfold compact_model. apply loop_unsafe; [lia | exact H].
Qed.

(* ====================== (1b) valid JSON is safe ====================== *)
(* a piece of text that leaves the scanner where it was, outside strings *)
Definition Safe (a : bytes) : Prop :=
  forall rest, compact_safe_from false (a ++ rest) = compact_safe_from false rest.

Lemma Safe_nil : Safe []. Proof. intro; reflexivity. Qed.
Lemma Safe_app a b : Safe a -> Safe b -> Safe (a ++ b).
Proof. intros Ha Hb rest. rewrite <- app_assoc, Ha, Hb. reflexivity. Qed.

Lemma Safe_ws w : ws w -> Safe w.
Proof.
  unfold ws. induction w as [|c w IH]; intro H; [apply Safe_nil|].
  simpl in H. apply andb_true_iff in H as [Hc Hw]. intro rest.
  cbn [app compact_safe_from negb].
  assert (E : (c <=? 32) = true).
  { unfold is_ws in Hc. repeat (apply orb_true_iff in Hc; destruct Hc as [Hc|Hc]); apply N.eqb_eq in Hc; subst; reflexivity. }
  rewrite E. apply IH. exact Hw.
Qed.

(* every minus sign has a successor inside the piece *)
Fixpoint minus_followed (a : bytes) : Prop :=
  match a with
  | [] => True
  | c :: r => (c = 45 -> r <> []) /\ minus_followed r
  end.

Lemma Safe_plain a : Forall plain_byte a -> minus_followed a -> Safe a.
Proof.
  induction a as [|c a IH]; intros Hp Hm; [apply Safe_nil|].
  inversion Hp as [|? ? [H32 H34] Hp']; subst. destruct Hm as [Hm1 Hm2].
  intro rest. cbn [app compact_safe_from negb]. rewrite H32, H34.
  destruct (c =? 45) eqn:E.
  - apply N.eqb_eq in E. destruct a as [|x a]; [exfalso; apply (Hm1 E); reflexivity|].
    cbn [app]. apply (IH Hp' Hm2).
  - apply (IH Hp' Hm2).
Qed.

Lemma minus_followed_app a b :
  Forall (fun c => c <> 45) a -> minus_followed b -> minus_followed (a ++ b).
Proof.
  induction 1 as [|c a Hc _ IH]; intro Hb; [exact Hb|].
  cbn [app minus_followed]. split; [intro E; contradiction | apply IH; exact Hb].
Qed.

Lemma digits_no_minus ds : all_digits ds = true -> Forall (fun c => c <> 45) ds.
Proof.
  induction ds as [|c ds IH]; intro H; [constructor|].
  simpl in H. apply andb_true_iff in H as [Hc Hd]. constructor; [|apply IH; exact Hd].
  apply is_digit_range in Hc. lia.
Qed.

Lemma no_minus_followed a : Forall (fun c => c <> 45) a -> minus_followed a.
Proof. intro H. rewrite <- (app_nil_r a). apply minus_followed_app; [exact H | exact I]. Qed.

Lemma num_wf_minus l : num_wf l -> minus_followed l.
Proof.
  intros (sign & ip & fp & ep & -> & Hsign & Hip & Hfp & Hep).
  assert (Hipd : Forall (fun c => c <> 45) ip /\ ip <> []).
  { destruct Hip as [-> | (d & ds & -> & Hd & _ & Hds)].
    - split; [repeat constructor; discriminate | discriminate].
    - split; [|discriminate]. constructor; [apply is_digit_range in Hd; lia | apply digits_no_minus; exact Hds]. }
  destruct Hipd as [Hipm Hipne].
  assert (Hfpm : Forall (fun c => c <> 45) fp).
  { destruct Hfp as [-> | (fd & (Hfd & _) & ->)]; [constructor|].
    constructor; [discriminate | apply digits_no_minus; exact Hfd]. }
  assert (Hepm : minus_followed ep).
  { destruct Hep as [-> | (e & sg & ed & He & Hsg & (Hed & Hne) & ->)]; [exact I|].
    cbn [minus_followed]. split; [intro E; destruct He; subst; discriminate|].
    destruct Hsg as [-> | [-> | ->]].
    - apply no_minus_followed. apply digits_no_minus. exact Hed.
    - cbn [app minus_followed]. split; [discriminate | apply no_minus_followed; apply digits_no_minus; exact Hed].
    - cbn [app minus_followed]. split; [intros _; exact Hne | apply no_minus_followed; apply digits_no_minus; exact Hed]. }
  assert (Hbody : minus_followed (ip ++ fp ++ ep)).
  { apply minus_followed_app; [exact Hipm|]. apply minus_followed_app; [exact Hfpm | exact Hepm]. }
  destruct Hsign as [-> | ->]; [exact Hbody|].
  cbn [app minus_followed]. split; [|exact Hbody].
  intros _ E. destruct ip; [contradiction | discriminate].
Qed.

Lemma Safe_number l : num_wf l -> Safe l.
Proof. intro H. apply Safe_plain; [apply num_wf_plain; exact H | apply num_wf_minus; exact H]. Qed.

Lemma Safe_byte c : plain_byte c -> c <> 45 -> Safe [c].
Proof. intros Hp Hm. apply Safe_plain; [constructor; [exact Hp | constructor] | split; [intro; contradiction | exact I]]. Qed.

Lemma Safe_cons c a : plain_byte c -> c <> 45 -> Safe a -> Safe (c :: a).
Proof. intros Hp Hm Ha. change (c :: a) with ([c] ++ a). apply Safe_app; [apply Safe_byte; assumption | exact Ha]. Qed.

(* string bodies, at the level of bytes: raw bytes, two-byte escapes other than \u, and \u followed
   by four more bytes (whatever they decode to: pairs and lone surrogates alike) *)
Inductive Items : bytes -> Prop :=
| It_nil : Items []
| It_raw : forall c body, (c =? 92) = false -> (c =? 34) = false -> Items body -> Items (c :: body)
| It_two : forall e body, (e =? 117) = false -> Items body -> Items (92 :: e :: body)
| It_u : forall a b c d body, Items body -> Items (92 :: 117 :: a :: b :: c :: d :: body).

Lemma Items_app a b : Items a -> Items b -> Items (a ++ b).
Proof.
  induction 1 as [| c body H1 H2 _ IH | e body H1 _ IH | x y z w body _ IH]; intro Hb; cbn [app].
  - exact Hb.
  - apply It_raw; auto.
  - apply It_two; auto.
  - apply It_u; auto.
Qed.

Lemma chunk_items s t : LChunk s t -> Items t.
Proof.
  intros [s0 t0 Hc | a b c d cp _ _].
  - destruct Hc as [c H32 H34 H92 | e d Htwo | a b c d cp _ _ _ | a b c d a' b' c' d' hi lo _ _ _ _].
    + apply It_raw; [apply N.eqb_neq; exact H92 | apply N.eqb_neq; exact H34 | constructor].
    + apply It_two; [|constructor]. unfold two_char in Htwo.
      destruct (e =? 117) eqn:E; [|reflexivity]. apply N.eqb_eq in E. subst e. discriminate.
    + apply It_u. constructor.
    + apply It_u. apply It_u. constructor.
  - apply It_u. constructor.
Qed.

Lemma body_items s body : LBody s body -> Items body.
Proof. induction 1; [constructor | apply Items_app; [eapply chunk_items; eauto | assumption]]. Qed.

(* from inside a string the scanner reaches the closing quote and leaves the string *)
Lemma items_safe n : forall body, (length body <= n)%nat -> Items body ->
  forall rest, compact_safe_from true (body ++ 34 :: rest) = compact_safe_from false rest.
Proof.
  induction n as [|n IH]; intros body Hlen Hi rest.
  - destruct body; [reflexivity | simpl in Hlen; lia].
  - destruct Hi as [| c body H92 H34 Hb | e body Hu Hb | a b c d body Hb].
    + reflexivity.
    + cbn [app compact_safe_from negb]. rewrite H92, H34. cbn [negb].
      apply IH; [simpl in Hlen; lia | exact Hb].
    + cbn [app compact_safe_from negb]. change (92 =? 92) with true. cbv iota. rewrite Hu.
      apply IH; [simpl in Hlen; lia | exact Hb].
    + change ((92 :: 117 :: a :: b :: c :: d :: body) ++ 34 :: rest)
        with (92 :: 117 :: (a :: b :: c :: d :: (body ++ 34 :: rest))).
      rewrite safe_unicode_unfold. unfold escape_next.
      assert (IHb : compact_safe_from true (body ++ 34 :: rest) = compact_safe_from false rest)
        by (apply IH; [simpl in Hlen; lia | exact Hb]).
      destruct (read_hex_digits [a; b; c; d] <? 32); [exact IHb|].
      destruct ((read_hex_digits [a; b; c; d] =? 92) || (read_hex_digits [a; b; c; d] =? 34)); [exact IHb|].
      destruct (is_surrogate (read_hex_digits [a; b; c; d])); [|exact IHb].
      (* what follows a surrogate escape *)
      destruct Hb as [| c0 body0 H92 H34 Hb0 | e0 body0 Hu0 Hb0 | a' b' c' d' body0 Hb0].
      * exact IHb.
      * cbn [app]. rewrite H92. cbn [negb]. exact IHb.
      * cbn [app]. change (92 =? 92) with true. cbn [negb]. rewrite Hu0. cbn [negb]. exact IHb.
      * cbn [app]. change (92 =? 92) with true. change (117 =? 117) with true. cbn [negb].
        apply IH; [simpl in Hlen; lia | exact Hb0].
Qed.

Lemma Safe_string s body : LBody s body -> Safe (34 :: body ++ [34]).
Proof.
  intros Hb rest. cbn [app compact_safe_from negb].
  change (34 <=? 32) with false. change (34 =? 45) with false. change (34 =? 34) with true. cbv iota.
  rewrite <- app_assoc. cbn [app].
  apply (items_safe (length body) body (le_n _) (body_items s body Hb)).
Qed.

Lemma plain_struct c : (c = 91 \/ c = 93 \/ c = 123 \/ c = 125 \/ c = 44 \/ c = 58) -> plain_byte c /\ c <> 45.
Proof. intros [->|[->|[->|[->|[->| ->]]]]]; (split; [split; reflexivity | discriminate]). Qed.

Ltac struct_byte := apply plain_struct; tauto.

Lemma Safe_struct c a : (c = 91 \/ c = 93 \/ c = 123 \/ c = 125 \/ c = 44 \/ c = 58) -> Safe a -> Safe (c :: a).
Proof. intros Hc Ha. destruct (plain_struct c Hc) as [Hp Hm]. apply Safe_cons; assumption. Qed.

Lemma Safe_lit l : (l = lit_null \/ l = lit_true \/ l = lit_false) -> Safe l.
Proof.
  intros [->|[->| ->]]; (apply Safe_plain;
    [repeat constructor | cbn; repeat split; intro; discriminate]).
Qed.

Lemma lrenders_safe_mut :
  (forall v t, LRenders v t -> Safe t) /\
  (forall vs parts, LRendersElems vs parts -> Safe parts) /\
  (forall kvs parts, LRendersMembers kvs parts -> Safe parts).
Proof.
  apply LRenders_mutind.
  - apply Safe_lit; auto.
  - apply Safe_lit; auto.
  - apply Safe_lit; auto.
  - intros l H. apply Safe_number. exact H.
  - intros s body H. eapply Safe_string. exact H.
  - intros w Hw. apply Safe_struct; [tauto|]. apply Safe_app; [apply Safe_ws; exact Hw|].
    apply Safe_struct; [tauto | apply Safe_nil].
  - intros vs parts _ IH. apply Safe_struct; [tauto|]. apply Safe_app; [exact IH|].
    apply Safe_struct; [tauto | apply Safe_nil].
  - intros w Hw. apply Safe_struct; [tauto|]. apply Safe_app; [apply Safe_ws; exact Hw|].
    apply Safe_struct; [tauto | apply Safe_nil].
  - intros kvs parts _ IH. apply Safe_struct; [tauto|]. apply Safe_app; [exact IH|].
    apply Safe_struct; [tauto | apply Safe_nil].
  - intros v t w1 w2 H1 H2 _ IH. apply Safe_app; [apply Safe_ws; exact H1|].
    apply Safe_app; [exact IH | apply Safe_ws; exact H2].
  - intros v t w1 w2 vs parts H1 H2 _ IH _ IHs. apply Safe_app; [apply Safe_ws; exact H1|].
    apply Safe_app; [exact IH|]. apply Safe_app; [apply Safe_ws; exact H2|].
    apply Safe_struct; [tauto | exact IHs].
  - intros k kb v t w1 w2 w3 w4 H1 H2 H3 H4 Hk _ IH.
    apply Safe_app; [apply Safe_ws; exact H1|].
    change (34 :: kb ++ 34 :: w2 ++ 58 :: w3 ++ t ++ w4) with ((34 :: kb ++ [34]) ++ w2 ++ 58 :: w3 ++ t ++ w4)
      || replace (34 :: kb ++ 34 :: w2 ++ 58 :: w3 ++ t ++ w4) with ((34 :: kb ++ [34]) ++ w2 ++ 58 :: w3 ++ t ++ w4)
           by (cbn [app]; rewrite <- app_assoc; reflexivity).
    apply Safe_app; [eapply Safe_string; exact Hk|].
    apply Safe_app; [apply Safe_ws; exact H2|]. apply Safe_struct; [tauto|].
    apply Safe_app; [apply Safe_ws; exact H3|]. apply Safe_app; [exact IH | apply Safe_ws; exact H4].
  - intros k kb v t w1 w2 w3 w4 kvs parts H1 H2 H3 H4 Hk _ IH _ IHs.
    apply Safe_app; [apply Safe_ws; exact H1|].
    replace (34 :: kb ++ 34 :: w2 ++ 58 :: w3 ++ t ++ w4 ++ 44 :: parts)
      with ((34 :: kb ++ [34]) ++ w2 ++ 58 :: w3 ++ t ++ w4 ++ 44 :: parts)
      by (cbn [app]; rewrite <- app_assoc; reflexivity).
    apply Safe_app; [eapply Safe_string; exact Hk|].
    apply Safe_app; [apply Safe_ws; exact H2|]. apply Safe_struct; [tauto|].
    apply Safe_app; [apply Safe_ws; exact H3|]. apply Safe_app; [exact IH|].
    apply Safe_app; [apply Safe_ws; exact H4|]. apply Safe_struct; [tauto | exact IHs].
Qed.

Theorem lrenders_compact_safe v t : LRendersText v t -> compact_safe t = true.
Proof.
  intros [v0 t0 w1 w2 H1 H2 H]. destruct lrenders_safe_mut as (HV & _ & _).
  unfold compact_safe.
  assert (S : Safe (w1 ++ t0 ++ w2)).
  { apply Safe_app; [apply Safe_ws; exact H1|]. apply Safe_app; [exact (HV _ _ H) | apply Safe_ws; exact H2]. }
  rewrite <- (app_nil_r (w1 ++ t0 ++ w2)). rewrite S. reflexivity.
Qed.

(* everything the validity gate lets through (json_valid t = true is, by definition, parse_json t
   accepting; the wrappers phrased with json_valid are in Json/CompactValidC01.v so that this file
   does not depend on the generated tables) *)
Theorem accepted_compact_safe t v : parse_json t = Some v -> compact_safe t = true.
Proof. intro E. exact (lrenders_compact_safe v t (parse_sound t v E)). Qed.

Theorem accepted_compact_no_panic t v : parse_json t = Some v -> compact_model t <> Crash.
Proof. intro H. apply compact_safe_no_crash. eapply accepted_compact_safe. exact H. Qed.

Theorem compact_no_panic_renders v t : RendersText v t -> compact_model t <> Crash.
Proof.
  intro H. apply compact_safe_no_crash. eapply lrenders_compact_safe. apply renders_text_loose. exact H.
Qed.
