(* Index safety of CompactJSON phrased with the model of the validity gate (json_valid = the
   reference parser accepts = gjson.Valid, compared on every run):
   CanonicalJSON = gate + CompactJSON + SortJSON never leaves the input in CompactJSON. *)
From Verif Require Import Lib.Bytes Json.Ast Json.Parse Json.CanonC01 Crash.Outcome
  Json.CompactModelC01 Json.CompactProofsC01.
Open Scope N_scope.

Theorem valid_compact_safe t : json_valid t = true -> compact_safe t = true.
Proof.
  unfold json_valid. destruct (parse_json t) as [v|] eqn:E; [|discriminate]. intros _.
  exact (accepted_compact_safe t v E).
Qed.

Theorem compact_no_panic t : json_valid t = true -> compact_model t <> Crash.
Proof. intro H. apply compact_safe_no_crash. apply valid_compact_safe. exact H. Qed.

(* the premise is satisfiable and the conclusion is not trivial: texts that crash exist, and they
   are exactly of the kinds the scanner names *)
Example ex_crashes :
  compact_model (bs "-") = Crash /\ compact_model [34; 92] = Crash
  /\ compact_model (bs """\ud800") = Crash /\ compact_model (bs """\ud800\") = Crash
  /\ compact_model (bs """\ud800\u") <> Crash /\ compact_model (bs """\u12") <> Crash.
Proof. vm_compute. repeat split; discriminate. Qed.

Example ex_valid_runs :
  compact_model (bs " { ""a\ud83d\ude00\/"" : [ -0 , -0.5, 1e-05, ""\ud800"" ] } ")
  = Ret (bs "{""a" ++ [240; 159; 152; 128] ++ bs "/"":[0,-0.5,1e-05,""""]}").
Proof. vm_compute. reflexivity. Qed.
