(* The nesting limit of json.go (maxJSONDepth, jsonNestingExceeds) and the entry points that apply
   it.  No proofs here.
   jsonNestingExceeds is an iterative scan over the bytes that does not validate: outside strings
   it counts '{' '[' up (answering true as soon as the count passes the limit) and '}' ']' down
   (the count may become negative); inside a string it skips the byte after a backslash and leaves
   the string at a quote.  The skip is the mode [InEsc] here. *)
From Verif Require Import Lib.Bytes Json.Ast Json.Parse Json.Print Gen.GenC01 Gen.GenVersions Json.CanonC01.
Open Scope N_scope.

Inductive scan_mode := Out | InStr | InEsc.

(* jsonNestingExceeds(input, limit), from byte position onwards with the current depth *)
Fixpoint nesting_exceeds_from (s : bytes) (mode : scan_mode) (depth limit : Z) : bool :=
  match s with
  | [] => false
  | c :: r =>
      match mode with
      | InEsc => nesting_exceeds_from r InStr depth limit
      | InStr =>
          if c =? 92 then nesting_exceeds_from r InEsc depth limit
          else if c =? 34 then nesting_exceeds_from r Out depth limit
          else nesting_exceeds_from r InStr depth limit
      | Out =>
          if c =? 34 then nesting_exceeds_from r InStr depth limit
          else if (c =? 123) || (c =? 91) then
            (if (depth + 1 >? limit)%Z then true else nesting_exceeds_from r Out (depth + 1)%Z limit)
          else if (c =? 125) || (c =? 93) then nesting_exceeds_from r Out (depth - 1)%Z limit
          else nesting_exceeds_from r Out depth limit
      end
  end.

Definition nesting_exceeds (t : bytes) (limit : Z) : bool := nesting_exceeds_from t Out 0%Z limit.

(* the same scan without the early exit: the greatest depth it reaches ([m] = greatest so far) *)
Fixpoint nest_scan (s : bytes) (mode : scan_mode) (depth m : Z) : Z :=
  match s with
  | [] => m
  | c :: r =>
      match mode with
      | InEsc => nest_scan r InStr depth m
      | InStr =>
          if c =? 92 then nest_scan r InEsc depth m
          else if c =? 34 then nest_scan r Out depth m
          else nest_scan r InStr depth m
      | Out =>
          if c =? 34 then nest_scan r InStr depth m
          else if (c =? 123) || (c =? 91) then nest_scan r Out (depth + 1)%Z (Z.max m (depth + 1))
          else if (c =? 125) || (c =? 93) then nest_scan r Out (depth - 1)%Z m
          else nest_scan r Out depth m
      end
  end.

(* how deep the text nests, as the scan sees it *)
Definition text_nesting (t : bytes) : Z := nest_scan t Out 0%Z 0%Z.

(* how deep a value nests: scalars 0, an array or object one more than its deepest member *)
Fixpoint json_depth (j : json) : Z :=
  match j with
  | JArr l => 1 + (fix go (l : list json) : Z :=
                     match l with [] => 0 | v :: l' => Z.max (json_depth v) (go l') end) l
  | JObj m => 1 + (fix go (m : list (bytes * json)) : Z :=
                     match m with [] => 0 | kv :: m' => Z.max (json_depth (snd kv)) (go m') end) m
  | _ => 0
  end%Z.

(* ---------- the entry points, parameterised by the limit ---------- *)
(* CanonicalJSON: nesting test, then the validity gate and canonicalisation *)
Definition canonical_json_with (guard : bool) (limit : Z) (t : bytes) : option bytes :=
  if guard && nesting_exceeds t limit then None else canonical t.

(* EnforcedCanonicalJSON: version lookup; for enforcing versions verifyEnforcedCanonicalJSON
   (nesting test first, then the number check) and then CanonicalJSON; for the others CanonicalJSON *)
Definition enforced_json_with (gc ge : bool) (limit : Z) (ver t : bytes) : option bytes :=
  match canonical_check_of ver with
  | None => None
  | Some f =>
      if bytes_eqb f fn_enforce then
        if ge && nesting_exceeds t limit then None
        else match enforced_with true t with   (* the number check passed ... *)
             | None => None
             | Some c => if gc && nesting_exceeds t limit then None else Some c   (* ... then CanonicalJSON *)
             end
      else if bytes_eqb f fn_noverify then canonical_json_with gc limit t
      else None
  end.

(* with the limit and the placement of the tests as the source has them *)
Definition max_json_depth : Z := gen_max_json_depth.
Definition canonical_json (t : bytes) : option bytes :=
  canonical_json_with gen_canonical_json_guards_depth max_json_depth t.
Definition enforced_json (ver t : bytes) : option bytes :=
  enforced_json_with gen_canonical_json_guards_depth gen_enforced_check_guards_depth max_json_depth ver t.

(* the verdicts alone (accepted or refused), computed without printing: what the run table uses on
   very deep texts, where the canonical printer of Json/Print.v is quadratic *)
Definition canonical_json_accepts (t : bytes) : bool :=
  negb (gen_canonical_json_guards_depth && nesting_exceeds t max_json_depth) && json_valid t.

Definition enforced_json_accepts (ver t : bytes) : bool :=
  match canonical_check_of ver with
  | None => false
  | Some f =>
      if bytes_eqb f fn_enforce then
        negb (gen_enforced_check_guards_depth && nesting_exceeds t max_json_depth) &&
        match parse_json t with Some v => negb (has_bad_number v) | None => false end &&
        negb (gen_canonical_json_guards_depth && nesting_exceeds t max_json_depth)
      else if bytes_eqb f fn_noverify then canonical_json_accepts t
      else false
  end.

(* nested arrays / objects, for boundary examples and the run table: n levels around [inner] *)
Fixpoint nest_arrays (n : nat) (inner : bytes) : bytes :=
  match n with O => inner | S k => 91 :: nest_arrays k inner ++ [93] end.
