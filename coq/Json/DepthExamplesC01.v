(* C01, nesting limit: the boundary evaluated on generated texts (kept out of Props/C01.v, which is
   recompiled on every run: the evaluation of a 10000-level text takes about ten seconds). *)
From Verif Require Import Lib.Bytes Json.Ast Json.Parse Gen.GenC01 Json.DepthC01.
Open Scope N_scope.

Lemma boundary_by_evaluation :
  nesting_exceeds (nest_arrays (N.to_nat 9999) [91; 93]) max_json_depth = false
  /\ nesting_exceeds (nest_arrays (N.to_nat 10000) [91; 93]) max_json_depth = true
  /\ canonical_json_accepts (nest_arrays (N.to_nat 9999) [91; 93]) = true
  /\ canonical_json_accepts (nest_arrays (N.to_nat 10000) [91; 93]) = false.
Proof. vm_compute. auto. Qed.
