(* C01, nesting limit: the scan of jsonNestingExceeds measures the depth of the value (every JSON text
   of a value of depth d nests exactly d deep), and what the guarded entry points canonical_json /
   enforced_json (Json/DepthC01.v) do on both sides of the limit. *)
From Verif Require Import Lib.Bytes Json.Ast Json.Parse Json.Print Json.Render Json.NumFacts
  Json.ParseComplete Json.CanonFacts Json.ParseSound Json.CanonC01 Json.CanonSpecC01 Json.C01Proofs
  Json.CanonFormProofs
  Gen.GenC01 Json.DepthC01.
Open Scope N_scope.

(* ---------- early exit = comparing the greatest depth with the limit ---------- *)
Lemma nest_scan_ge s : forall mode d m, (m <= nest_scan s mode d m)%Z.
Proof.
  induction s as [|c s IH]; intros mode d m; cbn [nest_scan]; [lia|].
  destruct mode; try apply IH.
  - destruct (c =? 34); [apply IH|].
    destruct ((c =? 123) || (c =? 91)); [specialize (IH Out (d + 1)%Z (Z.max m (d + 1))); lia|].
    destruct ((c =? 125) || (c =? 93)); apply IH.
  - destruct (c =? 92); [apply IH|]. destruct (c =? 34); apply IH.
Qed.

Lemma exceeds_from_spec s : forall mode d m limit, (m <= limit)%Z ->
  nesting_exceeds_from s mode d limit = (limit <? nest_scan s mode d m)%Z.
Proof.
  induction s as [|c s IH]; intros mode d m limit Hm; cbn [nesting_exceeds_from nest_scan].
  - symmetry. apply Z.ltb_ge. exact Hm.
  - destruct mode; try (apply IH; exact Hm).
    + destruct (c =? 34); [apply IH; exact Hm|].
      destruct ((c =? 123) || (c =? 91)).
      * destruct (d + 1 >? limit)%Z eqn:E.
        -- symmetry. apply Z.ltb_lt. pose proof (nest_scan_ge s Out (d + 1)%Z (Z.max m (d + 1))). lia.
        -- apply IH. lia.
      * destruct ((c =? 125) || (c =? 93)); apply IH; exact Hm.
    + destruct (c =? 92); [apply IH; exact Hm|]. destruct (c =? 34); apply IH; exact Hm.
Qed.

Theorem nesting_exceeds_spec t limit : (0 <= limit)%Z ->
  nesting_exceeds t limit = (limit <? text_nesting t)%Z.
Proof. intro H. apply exceeds_from_spec. exact H. Qed.

(* ---------- pieces of text ---------- *)
(* bytes the scan passes over outside strings *)
Definition inert (c : N) : Prop :=
  (c =? 34) = false /\ (c =? 123) = false /\ (c =? 91) = false /\ (c =? 125) = false /\ (c =? 93) = false.

Lemma scan_inert a : Forall inert a ->
  forall rest d m, nest_scan (a ++ rest) Out d m = nest_scan rest Out d m.
Proof.
  induction 1 as [|c a (H1 & H2 & H3 & H4 & H5) _ IH]; intros rest d m; [reflexivity|].
  cbn [app nest_scan]. rewrite H1, H2, H3, H4, H5. cbn [orb]. apply IH.
Qed.

Lemma inert_of_range c : (c < 34 \/ (34 < c /\ c < 91) \/ c = 92 \/ (93 < c /\ c < 123) \/ c = 124 \/ 125 < c) -> inert c.
Proof. intro H. repeat split; apply N.eqb_neq; lia. Qed.

Lemma ws_inert w : ws w -> Forall inert w.
Proof.
  unfold ws. induction w as [|c w IH]; intro H; [constructor|].
  simpl in H. apply andb_true_iff in H as [Hc Hw]. constructor; [|apply IH; exact Hw].
  unfold is_ws in Hc. apply inert_of_range.
  repeat (apply orb_true_iff in Hc; destruct Hc as [Hc|Hc]); apply N.eqb_eq in Hc; lia.
Qed.

Lemma digits_inert ds : all_digits ds = true -> Forall inert ds.
Proof.
  induction ds as [|c ds IH]; intro H; [constructor|].
  simpl in H. apply andb_true_iff in H as [Hc Hd]. constructor; [|apply IH; exact Hd].
  apply is_digit_range in Hc. apply inert_of_range. lia.
Qed.

Lemma num_wf_inert l : num_wf l -> Forall inert l.
Proof.
  intros (sign & ip & fp & ep & -> & Hsign & Hip & Hfp & Hep).
  assert (I45 : inert 45) by (apply inert_of_range; lia).
  assert (I43 : inert 43) by (apply inert_of_range; lia).
  apply Forall_app; split; [|apply Forall_app; split; [|apply Forall_app; split]].
  - destruct Hsign as [-> | ->]; repeat constructor; assumption.
  - destruct Hip as [-> | (d & ds & -> & Hd & _ & Hds)].
    + constructor; [apply inert_of_range; lia | constructor].
    + constructor; [apply is_digit_range in Hd; apply inert_of_range; lia | apply digits_inert; exact Hds].
  - destruct Hfp as [-> | (fd & (Hfd & _) & ->)]; [constructor|].
    constructor; [apply inert_of_range; lia | apply digits_inert; exact Hfd].
  - destruct Hep as [-> | (e & sg & ed & He & Hsg & (Hed & _) & ->)]; [constructor|].
    constructor; [destruct He; subst; apply inert_of_range; lia|].
    apply Forall_app; split; [|apply digits_inert; exact Hed].
    destruct Hsg as [-> | [-> | ->]]; repeat constructor; assumption.
Qed.

(* strings *)
Lemma hex_not_special a v : hex_val a = Some v -> (a =? 92) = false /\ (a =? 34) = false.
Proof.
  unfold hex_val. intro H.
  destruct ((48 <=? a) && (a <=? 57)) eqn:E1.
  - apply andb_true_iff in E1 as [X Y]. apply N.leb_le in X. apply N.leb_le in Y. split; apply N.eqb_neq; lia.
  - destruct ((97 <=? a) && (a <=? 102)) eqn:E2.
    + apply andb_true_iff in E2 as [X Y]. apply N.leb_le in X. apply N.leb_le in Y. split; apply N.eqb_neq; lia.
    + destruct ((65 <=? a) && (a <=? 70)) eqn:E3; [|discriminate].
      apply andb_true_iff in E3 as [X Y]. apply N.leb_le in X. apply N.leb_le in Y. split; apply N.eqb_neq; lia.
Qed.

Lemma scan_hex4 a b c d cp : read_hex4 [a; b; c; d] = Some (cp, []) ->
  forall X dp m, nest_scan (a :: b :: c :: d :: X) InStr dp m = nest_scan X InStr dp m.
Proof.
  unfold read_hex4.
  destruct (hex_val a) eqn:Ea; [|discriminate]. destruct (hex_val b) eqn:Eb; [|discriminate].
  destruct (hex_val c) eqn:Ec; [|discriminate]. destruct (hex_val d) eqn:Ed; [|discriminate].
  intros _ X dp m.
  destruct (hex_not_special _ _ Ea) as [A1 A2]. destruct (hex_not_special _ _ Eb) as [B1 B2].
  destruct (hex_not_special _ _ Ec) as [C1 C2]. destruct (hex_not_special _ _ Ed) as [D1 D2].
  cbn [nest_scan]. rewrite A1, A2, B1, B2, C1, C2, D1, D2. reflexivity.
Qed.

Lemma scan_u a b c d cp : read_hex4 [a; b; c; d] = Some (cp, []) ->
  forall X dp m, nest_scan (92 :: 117 :: a :: b :: c :: d :: X) InStr dp m = nest_scan X InStr dp m.
Proof.
  intros H X dp m. cbn [nest_scan]. change (92 =? 92) with true. cbv iota.
  apply (scan_hex4 a b c d cp H).
Qed.

Lemma scan_chunk s1 t1 : LChunk s1 t1 ->
  forall X dp m, nest_scan (t1 ++ X) InStr dp m = nest_scan X InStr dp m.
Proof.
  intros [s0 t0 Hc | a b c d cp Hh _] X dp m.
  - destruct Hc as [c H32 H34 H92 | e d Htwo | a b c d cp Hh _ _ | a b c d a' b' c' d' hi lo Hh1 Hh2 _ _].
    + cbn [app nest_scan]. rewrite (eqb_false_of _ _ H92), (eqb_false_of _ _ H34). reflexivity.
    + reflexivity.
    + cbn [app]. apply (scan_u a b c d cp Hh).
    + cbn [app]. rewrite (scan_u a b c d hi Hh1). apply (scan_u a' b' c' d' lo Hh2).
  - cbn [app]. apply (scan_u a b c d cp Hh).
Qed.

Lemma scan_body s body : LBody s body ->
  forall rest dp m, nest_scan (body ++ 34 :: rest) InStr dp m = nest_scan rest Out dp m.
Proof.
  induction 1 as [|s1 t1 s t Hc _ IH]; intros rest dp m; [reflexivity|].
  rewrite <- app_assoc. rewrite (scan_chunk s1 t1 Hc). apply IH.
Qed.

Lemma scan_string s body : LBody s body ->
  forall rest dp m, nest_scan ((34 :: body ++ [34]) ++ rest) Out dp m = nest_scan rest Out dp m.
Proof.
  intros H rest dp m. cbn [app nest_scan]. change (34 =? 34) with true. cbv iota.
  rewrite <- app_assoc. cbn [app]. apply (scan_body s body H).
Qed.

(* ---------- values ---------- *)
Definition depth_elems : list json -> Z :=
  fix go (l : list json) : Z := match l with [] => 0%Z | v :: l' => Z.max (json_depth v) (go l') end.
Definition depth_members : list (bytes * json) -> Z :=
  fix go (m : list (bytes * json)) : Z :=
    match m with [] => 0%Z | kv :: m' => Z.max (json_depth (snd kv)) (go m') end.

Lemma json_depth_arr l : json_depth (JArr l) = (1 + depth_elems l)%Z. Proof. reflexivity. Qed.
Lemma json_depth_obj m : json_depth (JObj m) = (1 + depth_members m)%Z. Proof. reflexivity. Qed.

Lemma depth_elems_nonneg l : (0 <= depth_elems l)%Z.
Proof. induction l as [|v l IH]; simpl; lia. Qed.
Lemma depth_members_nonneg m : (0 <= depth_members m)%Z.
Proof. induction m as [|kv m IH]; simpl; lia. Qed.
Lemma json_depth_nonneg v : (0 <= json_depth v)%Z.
Proof.
  destruct v; try (simpl; lia).
  - rewrite json_depth_arr. pose proof (depth_elems_nonneg l). lia.
  - rewrite json_depth_obj. pose proof (depth_members_nonneg m). lia.
Qed.

(* the scan over the piece [a] at depth d raises the greatest depth to at least d + k and comes
   back to depth d *)
Definition NV (a : bytes) (k : Z) : Prop :=
  forall rest d m, (d <= m)%Z -> nest_scan (a ++ rest) Out d m = nest_scan rest Out d (Z.max m (d + k)).

Lemma NV_inert a : Forall inert a -> NV a 0.
Proof. intros H rest d m Hd. rewrite (scan_inert a H). f_equal. lia. Qed.

Lemma NV_app a b k1 k2 : NV a k1 -> NV b k2 -> NV (a ++ b) (Z.max k1 k2).
Proof.
  intros Ha Hb rest d m Hd. rewrite <- app_assoc. rewrite Ha by exact Hd. rewrite Hb by lia. f_equal. lia.
Qed.

Lemma NV_eq a k k' : k = k' -> NV a k -> NV a k'. Proof. intros ->. auto. Qed.

Lemma NV_open_close o c parts k : (o = 91 /\ c = 93) \/ (o = 123 /\ c = 125) -> (0 <= k)%Z ->
  NV parts k -> NV (o :: parts ++ [c]) (1 + k).
Proof.
  intros Hoc Hk Hp rest d m Hd.
  assert (Eo : (o =? 34) = false /\ ((o =? 123) || (o =? 91)) = true) by (destruct Hoc as [[-> _]|[-> _]]; split; reflexivity).
  assert (Ec : (c =? 34) = false /\ ((c =? 123) || (c =? 91)) = false /\ ((c =? 125) || (c =? 93)) = true)
    by (destruct Hoc as [[_ ->]|[_ ->]]; repeat split; reflexivity).
  destruct Eo as [Eo1 Eo2]. destruct Ec as (Ec1 & Ec2 & Ec3).
  cbn [app nest_scan]. rewrite Eo1, Eo2. rewrite <- app_assoc. rewrite Hp by lia.
  cbn [app nest_scan]. rewrite Ec1, Ec2, Ec3.
  replace (d + 1 - 1)%Z with d by lia. f_equal. lia.
Qed.

Lemma lrenders_depth_mut :
  (forall v t, LRenders v t -> NV t (json_depth v)) /\
  (forall vs parts, LRendersElems vs parts -> NV parts (depth_elems vs)) /\
  (forall kvs parts, LRendersMembers kvs parts -> NV parts (depth_members kvs)).
Proof.
  assert (Ilit : forall l, (l = lit_null \/ l = lit_true \/ l = lit_false) -> Forall inert l).
  { intros l [->|[->| ->]]; repeat constructor; apply N.eqb_neq; discriminate. }
  assert (Isep : forall c, (c = 44 \/ c = 58) -> inert c) by (intros c [->| ->]; apply inert_of_range; lia).
  apply LRenders_mutind.
  - apply NV_inert. apply Ilit. auto.
  - apply NV_inert. apply Ilit. auto.
  - apply NV_inert. apply Ilit. auto.
  - intros l H. apply NV_inert. apply num_wf_inert. exact H.
  - intros s body H rest d m Hd. rewrite (scan_string s body H). f_equal. simpl. lia.
  - intros w Hw. rewrite json_depth_arr. apply NV_open_close; [auto | simpl; lia | apply NV_inert; apply ws_inert; exact Hw].
  - intros vs parts _ IH. rewrite json_depth_arr. apply NV_open_close; [auto | apply depth_elems_nonneg | exact IH].
  - intros w Hw. rewrite json_depth_obj. apply NV_open_close; [auto | simpl; lia | apply NV_inert; apply ws_inert; exact Hw].
  - intros kvs parts _ IH. rewrite json_depth_obj. apply NV_open_close; [auto | apply depth_members_nonneg | exact IH].
  - intros v t w1 w2 H1 H2 _ IH.
    eapply NV_eq; [|apply NV_app; [apply NV_inert; apply ws_inert; exact H1 |
                     apply NV_app; [exact IH | apply NV_inert; apply ws_inert; exact H2]]].
    pose proof (json_depth_nonneg v) as Hn. change (depth_elems [v]) with (Z.max (json_depth v) 0). clear - Hn. lia.
  - intros v t w1 w2 vs parts H1 H2 _ IH _ IHs.
    eapply NV_eq; [|apply NV_app; [apply NV_inert; apply ws_inert; exact H1 |
                     apply NV_app; [exact IH | apply NV_app; [apply NV_inert; apply ws_inert; exact H2|]]]].
    2:{ change (44 :: parts) with ([44] ++ parts). apply NV_app; [apply NV_inert; repeat constructor; apply Isep; auto | exact IHs]. }
    pose proof (json_depth_nonneg v) as Hn. pose proof (depth_elems_nonneg vs) as Hn2.
    change (depth_elems (v :: vs)) with (Z.max (json_depth v) (depth_elems vs)). clear - Hn Hn2. lia.
  - intros k kb v t w1 w2 w3 w4 H1 H2 H3 H4 Hk _ IH.
    replace (w1 ++ 34 :: kb ++ 34 :: w2 ++ 58 :: w3 ++ t ++ w4)
      with (w1 ++ (34 :: kb ++ [34]) ++ w2 ++ [58] ++ w3 ++ t ++ w4)
      by (cbn [app]; rewrite <- app_assoc; reflexivity).
    eapply NV_eq; [|apply NV_app; [apply NV_inert; apply ws_inert; exact H1 |
      apply NV_app; [intros rest d m Hd; rewrite (scan_string k kb Hk); f_equal; instantiate (1 := 0%Z); lia |
      apply NV_app; [apply NV_inert; apply ws_inert; exact H2 |
      apply NV_app; [apply NV_inert; repeat constructor; apply Isep; auto |
      apply NV_app; [apply NV_inert; apply ws_inert; exact H3 |
      apply NV_app; [exact IH | apply NV_inert; apply ws_inert; exact H4]]]]]]].
    pose proof (json_depth_nonneg v) as Hn. change (depth_members [(k, v)]) with (Z.max (json_depth v) 0). clear - Hn. lia.
  - intros k kb v t w1 w2 w3 w4 kvs parts H1 H2 H3 H4 Hk _ IH _ IHs.
    replace (w1 ++ 34 :: kb ++ 34 :: w2 ++ 58 :: w3 ++ t ++ w4 ++ 44 :: parts)
      with (w1 ++ (34 :: kb ++ [34]) ++ w2 ++ [58] ++ w3 ++ t ++ w4 ++ [44] ++ parts)
      by (cbn [app]; rewrite <- app_assoc; reflexivity).
    eapply NV_eq; [|apply NV_app; [apply NV_inert; apply ws_inert; exact H1 |
      apply NV_app; [intros rest d m Hd; rewrite (scan_string k kb Hk); f_equal; instantiate (1 := 0%Z); lia |
      apply NV_app; [apply NV_inert; apply ws_inert; exact H2 |
      apply NV_app; [apply NV_inert; repeat constructor; apply Isep; auto |
      apply NV_app; [apply NV_inert; apply ws_inert; exact H3 |
      apply NV_app; [exact IH |
      apply NV_app; [apply NV_inert; apply ws_inert; exact H4 |
      apply NV_app; [apply NV_inert; repeat constructor; apply Isep; auto | exact IHs]]]]]]]]].
    pose proof (json_depth_nonneg v) as Hn. pose proof (depth_members_nonneg kvs) as Hn2.
    change (depth_members ((k, v) :: kvs)) with (Z.max (json_depth v) (depth_members kvs)). clear - Hn Hn2. lia.
Qed.

(* every JSON text of a value nests exactly as deep as the value *)
Theorem text_nesting_loose v t : LRendersText v t -> text_nesting t = json_depth v.
Proof.
  intros [v0 t0 w1 w2 H1 H2 H]. destruct lrenders_depth_mut as (HV & _ & _).
  unfold text_nesting.
  assert (S : NV (w1 ++ t0 ++ w2) (Z.max 0 (Z.max (json_depth v0) 0))).
  { apply NV_app; [apply NV_inert; apply ws_inert; exact H1|].
    apply NV_app; [exact (HV _ _ H) | apply NV_inert; apply ws_inert; exact H2]. }
  rewrite <- (app_nil_r (w1 ++ t0 ++ w2)). rewrite S by lia. cbn [nest_scan].
  pose proof (json_depth_nonneg v0). lia.
Qed.

Theorem text_nesting_of_rendering v t : RendersText v t -> text_nesting t = json_depth v.
Proof. intro H. apply text_nesting_loose. apply renders_text_loose. exact H. Qed.

Theorem text_nesting_of_parsed t v : parse_json t = Some v -> text_nesting t = json_depth v.
Proof. intro H. apply text_nesting_loose. apply parse_sound. exact H. Qed.

(* ---------- the normal form is as deep as the value ---------- *)
Lemma depth_members_insert kv l :
  depth_members (insert_member kv l) = Z.max (json_depth (snd kv)) (depth_members l).
Proof.
  induction l as [|kv' l IH]; [reflexivity|]. cbn [insert_member].
  destruct (bytes_leb (fst kv) (fst kv')); [reflexivity|].
  change (depth_members (kv' :: insert_member kv l)) with (Z.max (json_depth (snd kv')) (depth_members (insert_member kv l))).
  rewrite IH. change (depth_members (kv' :: l)) with (Z.max (json_depth (snd kv')) (depth_members l)). lia.
Qed.

Lemma depth_members_sort l : depth_members (sort_members l) = depth_members l.
Proof.
  unfold sort_members. induction l as [|kv l IH]; [reflexivity|].
  cbn [fold_right]. rewrite depth_members_insert, IH. reflexivity.
Qed.

Theorem json_depth_normalise v : json_depth (normalise v) = json_depth v.
Proof.
  induction v as [| b | r | s | l IH | m IH] using json_ind'; try reflexivity.
  - cbn [normalise]. rewrite !json_depth_arr. f_equal.
    induction IH as [|v l Hv _ IHl]; [reflexivity|]. simpl. rewrite Hv, IHl. reflexivity.
  - cbn [normalise]. rewrite !json_depth_obj. f_equal. rewrite depth_members_sort.
    induction IH as [|kv m Hv _ IHm]; [reflexivity|]. simpl. rewrite Hv, IHm. reflexivity.
Qed.

(* ---------- the guarded entry points (any limit >= 0) ---------- *)
Section Limit.
  Variable limit : Z.
  Hypothesis limit_nonneg : (0 <= limit)%Z.

  Lemma cj_some g t c : canonical_json_with g limit t = Some c -> canonical t = Some c.
  Proof. unfold canonical_json_with. destruct (g && nesting_exceeds t limit); [discriminate | auto]. Qed.

  Lemma cj_shallow g v t : RendersText v t -> (json_depth v <= limit)%Z ->
    canonical_json_with g limit t = Some (canon_print v).
  Proof.
    intros H Hd. unfold canonical_json_with.
    rewrite nesting_exceeds_spec by exact limit_nonneg. rewrite (text_nesting_of_rendering v t H).
    assert (E : (limit <? json_depth v)%Z = false) by (apply Z.ltb_ge; exact Hd).
    rewrite E, andb_false_r. apply canonical_of_rendering. exact H.
  Qed.

  Lemma cj_deep v t : RendersText v t -> (limit < json_depth v)%Z -> canonical_json_with true limit t = None.
  Proof.
    intros H Hd. unfold canonical_json_with.
    rewrite nesting_exceeds_spec by exact limit_nonneg. rewrite (text_nesting_of_rendering v t H).
    assert (E : (limit <? json_depth v)%Z = true) by (apply Z.ltb_lt; exact Hd).
    rewrite E. reflexivity.
  Qed.

  (* accepted texts nest at most [limit] deep, whatever they are *)
  Lemma cj_accepts_shallow t c : canonical_json_with true limit t = Some c ->
    exists v, parse_json t = Some v /\ c = canon_print v /\ (json_depth v <= limit)%Z.
  Proof.
    unfold canonical_json_with, canonical. cbn [andb].
    destruct (nesting_exceeds t limit) eqn:E; [discriminate|].
    destruct (parse_json t) as [v|] eqn:P; [|discriminate]. intro H. inversion H.
    exists v. repeat split.
    rewrite nesting_exceeds_spec in E by exact limit_nonneg. rewrite (text_nesting_of_parsed t v P) in E.
    apply Z.ltb_ge. exact E.
  Qed.

  Lemma cj_idempotent g t c : canonical_json_with g limit t = Some c -> canonical_json_with g limit c = Some c.
  Proof.
    unfold canonical_json_with. destruct g; cbn [andb].
    - destruct (nesting_exceeds t limit) eqn:E; [discriminate|]. intro H.
      unfold canonical in H. destruct (parse_json t) as [v|] eqn:P; [|discriminate].
      simpl in H. inversion H; subst c.
      pose proof (parse_wf t v P) as Hwf.
      assert (En : nesting_exceeds (canon_print v) limit = false).
      { rewrite nesting_exceeds_spec in * by exact limit_nonneg.
        rewrite (text_nesting_of_parsed _ _ (parse_canon_print v Hwf)), json_depth_normalise.
        rewrite (text_nesting_of_parsed t v P) in E. exact E. }
      rewrite En. apply (canonical_idempotent_all t). unfold canonical. rewrite P. reflexivity.
    - apply canonical_idempotent_all.
  Qed.

  (* texts of the same value are accepted or refused together, and accepted with the same bytes *)
  Lemma cj_unique g v v' t t' : RendersText v t -> RendersText v' t' -> jequiv v v' ->
    canonical_json_with g limit t = canonical_json_with g limit t'.
  Proof.
    intros H H' E. unfold canonical_json_with.
    rewrite !nesting_exceeds_spec by exact limit_nonneg.
    rewrite (text_nesting_of_rendering v t H), (text_nesting_of_rendering v' t' H').
    assert (D : json_depth v = json_depth v').
    { rewrite <- (json_depth_normalise v), <- (json_depth_normalise v'). unfold jequiv in E. rewrite E. reflexivity. }
    rewrite D. rewrite (canonical_unique v v' t t' H H' E). reflexivity.
  Qed.

  (* the enforced variant *)
  Lemma ej_some gc ge ver t c : enforced_json_with gc ge limit ver t = Some c -> canonical_json_with gc limit t = Some c.
  Proof.
    unfold enforced_json_with. destruct (canonical_check_of ver) as [f|]; [|discriminate].
    destruct (bytes_eqb f fn_enforce).
    - destruct (ge && nesting_exceeds t limit); [discriminate|].
      unfold enforced_with, canonical_json_with, canonical.
      destruct (parse_json t) as [v|]; [|discriminate].
      destruct (true && has_bad_number v); [discriminate|].
      destruct (gc && nesting_exceeds t limit); [discriminate | auto].
    - destruct (bytes_eqb f fn_noverify); [auto | discriminate].
  Qed.

  Lemma ej_rejects gc ge v t ver : enforces ver = true -> RendersText v t -> has_unsafe_number v = true ->
    enforced_json_with gc ge limit ver t = None.
  Proof.
    unfold enforces, enforced_json_with. intros He Hr Hu.
    destruct (canonical_check_of ver) as [f|]; [|discriminate]. rewrite He.
    destruct (ge && nesting_exceeds t limit); [reflexivity|].
    unfold enforced_with. rewrite (parse_complete v t Hr), (unsafe_is_bad v Hu). reflexivity.
  Qed.

  Lemma ej_accepts gc ge v t ver : enforces ver = true -> RendersText v t -> has_bad_number v = false ->
    (json_depth v <= limit)%Z -> enforced_json_with gc ge limit ver t = Some (canon_print v).
  Proof.
    unfold enforces, enforced_json_with. intros He Hr Hb Hd.
    destruct (canonical_check_of ver) as [f|]; [|discriminate]. rewrite He.
    assert (En : nesting_exceeds t limit = false).
    { rewrite nesting_exceeds_spec by exact limit_nonneg. rewrite (text_nesting_of_rendering v t Hr).
      apply Z.ltb_ge. exact Hd. }
    rewrite En, !andb_false_r. unfold enforced_with. rewrite (parse_complete v t Hr), Hb. reflexivity.
  Qed.

  Lemma ej_deep gc v t ver : canonical_check_of ver <> None -> RendersText v t -> (limit < json_depth v)%Z ->
    enforced_json_with true true limit ver t = None /\ (gc = true -> enforced_json_with gc false limit ver t = None).
  Proof.
    intros Hv Hr Hd.
    assert (En : nesting_exceeds t limit = true).
    { rewrite nesting_exceeds_spec by exact limit_nonneg. rewrite (text_nesting_of_rendering v t Hr).
      apply Z.ltb_lt. exact Hd. }
    unfold enforced_json_with, canonical_json_with. destruct (canonical_check_of ver) as [f|]; [|contradiction].
    rewrite En. split.
    - destruct (bytes_eqb f fn_enforce); [reflexivity|]. destruct (bytes_eqb f fn_noverify); reflexivity.
    - intros ->. cbn [andb]. destruct (bytes_eqb f fn_enforce).
      + destruct (enforced_with true t); reflexivity.
      + destruct (bytes_eqb f fn_noverify); reflexivity.
  Qed.
  (* the same facts with the premise on the text (what jsonNestingExceeds computes) *)
  Lemma nesting_of_rendering v t : RendersText v t -> nesting_exceeds t limit = (limit <? json_depth v)%Z.
  Proof.
    intro H. rewrite nesting_exceeds_spec by exact limit_nonneg. rewrite (text_nesting_of_rendering v t H). reflexivity.
  Qed.

  Lemma cj_within g v t : RendersText v t -> nesting_exceeds t limit = false ->
    canonical_json_with g limit t = Some (canon_print v).
  Proof.
    intros H E. unfold canonical_json_with. rewrite E, andb_false_r. apply canonical_of_rendering. exact H.
  Qed.

  Lemma cj_beyond t : nesting_exceeds t limit = true -> canonical_json_with true limit t = None.
  Proof. intro E. unfold canonical_json_with. rewrite E. reflexivity. Qed.

  Lemma cj_none g t : canonical t = None -> canonical_json_with g limit t = None.
  Proof. intro E. unfold canonical_json_with. rewrite E. destruct (g && nesting_exceeds t limit); reflexivity. Qed.

  Lemma cj_preserves g v t : RendersText v t -> nesting_exceeds t limit = false ->
    exists c, canonical_json_with g limit t = Some c /\ RendersText (normalise v) c /\ jequiv (normalise v) v
              /\ parse_json c = Some (normalise v) /\ nesting_exceeds c limit = false.
  Proof.
    intros H E. destruct (canonical_preserves_value v t H) as (c & Hc & Hr & Hj & Hp).
    exists c. split; [unfold canonical_json_with; rewrite E, andb_false_r; exact Hc|].
    repeat split; try assumption.
    rewrite (nesting_of_rendering _ _ Hr), json_depth_normalise, <- (nesting_of_rendering v t H). exact E.
  Qed.

  Lemma cj_separates g v v' t t' c : RendersText v t -> RendersText v' t' ->
    canonical_json_with g limit t = Some c -> canonical_json_with g limit t' = Some c -> jequiv v v'.
  Proof.
    intros H H' E E'. apply (canonical_separates v v' t t' H H').
    rewrite (cj_some g t c E), (cj_some g t' c E'). reflexivity.
  Qed.

  Lemma cj_form g v t c : RendersText v t -> json_nodup v = true ->
    canonical_json_with g limit t = Some c -> is_canonical_text c = true.
  Proof. intros H Hn E. exact (canonical_is_canonical_form v t c H Hn (cj_some g t c E)). Qed.

  Lemma ej_within gc ge v t ver : enforces ver = true -> RendersText v t -> has_bad_number v = false ->
    nesting_exceeds t limit = false -> enforced_json_with gc ge limit ver t = Some (canon_print v).
  Proof.
    intros He Hr Hb E. apply ej_accepts; try assumption.
    rewrite (nesting_of_rendering v t Hr) in E. apply Z.ltb_ge. exact E.
  Qed.

  Lemma ej_beyond ver t : nesting_exceeds t limit = true -> enforced_json_with true true limit ver t = None.
  Proof.
    intro E. unfold enforced_json_with, canonical_json_with. destruct (canonical_check_of ver) as [f|]; [|reflexivity].
    rewrite E. destruct (bytes_eqb f fn_enforce); [reflexivity|]. destruct (bytes_eqb f fn_noverify); reflexivity.
  Qed.
End Limit.

Lemma value_depth_is_json_depth v : value_depth v = json_depth v.
Proof. reflexivity. Qed.

(* ---------- nested arrays: a value and its text on either side of any limit ---------- *)
Fixpoint nest_val (n : nat) : json :=
  match n with O => JArr [] | S k => JArr [nest_val k] end.

Lemma nest_val_depth n : json_depth (nest_val n) = (Z.of_nat n + 1)%Z.
Proof.
  induction n as [|n IH]; [reflexivity|].
  cbn [nest_val]. rewrite json_depth_arr. cbn [depth_elems]. rewrite IH. lia.
Qed.

Lemma nest_val_renders n : Renders (nest_val n) (nest_arrays n [91; 93]).
Proof.
  induction n as [|n IH].
  - apply (R_arr_empty []). reflexivity.
  - cbn [nest_val nest_arrays]. apply R_arr.
    rewrite <- (app_nil_r (nest_arrays n [91; 93])). apply (RE_one _ _ [] []); [reflexivity | reflexivity | exact IH].
Qed.

Lemma nest_val_print n : canon_print (nest_val n) = nest_arrays n [91; 93].
Proof.
  induction n as [|n IH]; [reflexivity|].
  cbn [nest_val nest_arrays]. rewrite canon_print_arr. cbn [map join_comma]. rewrite IH. reflexivity.
Qed.

Theorem nested_arrays_boundary limit n : (0 <= limit)%Z ->
  canonical_json_with true limit (nest_arrays n [91; 93]) =
    if (Z.of_nat n + 1 <=? limit)%Z then Some (nest_arrays n [91; 93]) else None.
Proof.
  intro Hl. pose proof (renders_text_plain _ _ (nest_val_renders n)) as Hr.
  destruct (Z.of_nat n + 1 <=? limit)%Z eqn:E.
  - apply Z.leb_le in E. rewrite (cj_shallow limit Hl true _ _ Hr) by (rewrite nest_val_depth; exact E).
    rewrite nest_val_print. reflexivity.
  - apply Z.leb_gt in E. apply (cj_deep limit Hl _ _ Hr). rewrite nest_val_depth. exact E.
Qed.

(* ---------- the verdict functions of the run table say what the entry points do ---------- *)
Lemma canonical_json_accepts_spec t :
  canonical_json_accepts t = match canonical_json t with Some _ => true | None => false end.
Proof.
  unfold canonical_json_accepts, canonical_json, canonical_json_with, json_valid, canonical.
  destruct (gen_canonical_json_guards_depth && nesting_exceeds t max_json_depth); [reflexivity|].
  destruct (parse_json t); reflexivity.
Qed.

Lemma enforced_json_accepts_spec ver t :
  enforced_json_accepts ver t = match enforced_json ver t with Some _ => true | None => false end.
Proof.
  unfold enforced_json_accepts, enforced_json, enforced_json_with.
  destruct (canonical_check_of ver) as [f|]; [|reflexivity].
  destruct (bytes_eqb f fn_enforce).
  - destruct (gen_enforced_check_guards_depth && nesting_exceeds t max_json_depth); [reflexivity|].
    unfold enforced_with. destruct (parse_json t) as [v|]; [|reflexivity].
    cbn [andb negb]. destruct (has_bad_number v); [reflexivity|]. cbn [negb andb].
    destruct (gen_canonical_json_guards_depth && nesting_exceeds t max_json_depth); reflexivity.
  - destruct (bytes_eqb f fn_noverify); [apply canonical_json_accepts_spec | reflexivity].
Qed.

Lemma max_depth_nonneg : (0 <= max_json_depth)%Z.
Proof. vm_compute. discriminate. Qed.
