(* Facts about number literals: the reference parser accepts every grammatical literal; the decimal
   printer produces grammatical integer literals; print_number is idempotent. *)
From Verif Require Import Lib.Bytes Lib.BytesFacts Json.Ast Json.Parse Json.Print Json.Render.
Open Scope N_scope.

Definition nondigit_head (rest : bytes) : Prop :=
  match rest with [] => True | c :: _ => is_digit c = false end.

Lemma take_digits_app ds rest :
  all_digits ds = true -> nondigit_head rest -> take_digits (ds ++ rest) = (ds, rest).
Proof.
  induction ds as [|c ds IH]; intros Hd Hr; simpl.
  - destruct rest as [|c r]; [reflexivity|]. simpl in Hr. simpl. rewrite Hr. reflexivity.
  - simpl in Hd. apply andb_true_iff in Hd as [Hc Hd]. rewrite Hc, (IH Hd Hr). reflexivity.
Qed.

Lemma is_digit_range c : is_digit c = true -> 48 <= c <= 57.
Proof.
  unfold is_digit. intro H. apply andb_true_iff in H as [H1 H2].
  apply N.leb_le in H1. apply N.leb_le in H2. lia.
Qed.

Lemma is_digit_false_of c : (c < 48 \/ 57 < c) -> is_digit c = false.
Proof.
  intro H. unfold is_digit. destruct (48 <=? c) eqn:E1; [|reflexivity].
  destruct (c <=? 57) eqn:E2; [|reflexivity].
  apply N.leb_le in E1. apply N.leb_le in E2. lia.
Qed.

Lemma num_stop_nondigit rest : num_stop rest -> nondigit_head rest.
Proof. destruct rest; simpl; tauto. Qed.

Lemma eqb_false_of (a b : N) : a <> b -> (a =? b) = false.
Proof. intro H. apply N.eqb_neq. exact H. Qed.

Ltac digit_neq H :=
  apply eqb_false_of; let E := fresh in intro E; subst; apply is_digit_range in H; lia.

(* parse_number in stages (definitionally the same function) *)
Definition pn_sign (s : bytes) : bytes * bytes :=
  match eat 45 s with Some r => ([45], r) | None => ([], s) end.
Definition pn_frac (s2 : bytes) : option bytes * bytes :=
  match eat 46 s2 with
  | Some r => let (fd, r') := take_digits r in
              (match fd with [] => None | _ => Some (46 :: fd) end, r')
  | None => (Some [], s2)
  end.
Definition pn_exp (s3 : bytes) : option bytes * bytes :=
  match s3 with
  | e :: r =>
      if (e =? 101) || (e =? 69) then
        let (sg, r1) := match r with
                        | c :: r' => if (c =? 43) || (c =? 45) then ([c], r') else ([], r)
                        | [] => ([], r)
                        end in
        let (ed, r2) := take_digits r1 in
        (match ed with [] => None | _ => Some (e :: sg ++ ed) end, r2)
      else (Some [], s3)
  | [] => (Some [], s3)
  end.
Definition parse_number_staged (s : bytes) : option (bytes * bytes) :=
  let (sign, s1) := pn_sign s in
  let (ip, s2) := take_digits s1 in
  match ip with
  | [] => None
  | d0 :: ip' =>
      if (d0 =? 48) && negb (match ip' with [] => true | _ => false end) then None else
      let '(fp, s3) := pn_frac s2 in
      match fp with
      | None => None
      | Some fp =>
          let '(ep, s4) := pn_exp s3 in
          match ep with
          | None => None
          | Some ep => Some (sign ++ ip ++ fp ++ ep, s4)
          end
      end
  end.

Lemma parse_number_staged_eq s : parse_number s = parse_number_staged s.
Proof. reflexivity. Qed.

(* the literal followed by a stop is read back exactly *)
Lemma parse_number_complete l rest :
  num_wf l -> num_stop rest -> parse_number (l ++ rest) = Some (l, rest).
Proof.
  intros (sign & ip & fp & ep & -> & Hsign & Hip & Hfp & Hep) Hstop.
  (* shape of the integer part *)
  assert (Hipd : exists d0 ip', ip = d0 :: ip' /\ is_digit d0 = true /\ all_digits ip' = true
                                /\ ((d0 =? 48) && negb (match ip' with [] => true | _ => false end) = false)).
  { destruct Hip as [-> | (d & ds & -> & Hd & Hnz & Hds)].
    - exists 48, []. repeat split; reflexivity.
    - exists d, ds. repeat split; auto. rewrite (eqb_false_of d 48 Hnz). reflexivity. }
  destruct Hipd as (d0 & ip' & -> & Hd0 & Hip' & Hzero).
  (* what follows the exponent / the fraction / the integer part cannot continue a digit run *)
  assert (Hnd_rest : nondigit_head rest) by (apply num_stop_nondigit; exact Hstop).
  assert (Hnd_ep : nondigit_head (ep ++ rest)).
  { destruct Hep as [-> | (e & sg & ed & He & _ & _ & ->)]; [exact Hnd_rest|].
    simpl. apply is_digit_false_of. destruct He; subst; lia. }
  assert (Hnd_fp : nondigit_head (fp ++ ep ++ rest)).
  { destruct Hfp as [-> | (fd & _ & ->)]; [exact Hnd_ep|]. simpl. reflexivity. }
  rewrite parse_number_staged_eq. unfold parse_number_staged.
  (* sign *)
  assert (Hs : pn_sign ((sign ++ (d0 :: ip') ++ fp ++ ep) ++ rest)
               = (sign, (d0 :: ip') ++ fp ++ ep ++ rest)).
  { unfold pn_sign. destruct Hsign as [-> | ->].
    - simpl. assert (E : (d0 =? 45) = false) by (digit_neq Hd0). rewrite E.
      rewrite <- !app_assoc. reflexivity.
    - simpl. rewrite <- !app_assoc. reflexivity. }
  rewrite Hs. clear Hs.
  (* integer part *)
  assert (Hall : all_digits (d0 :: ip') = true) by (simpl; rewrite Hd0, Hip'; reflexivity).
  rewrite (take_digits_app (d0 :: ip') (fp ++ ep ++ rest) Hall Hnd_fp).
  rewrite Hzero.
  (* fraction *)
  assert (Hf : pn_frac (fp ++ ep ++ rest) = (Some fp, ep ++ rest)).
  { unfold pn_frac. destruct Hfp as [-> | (fd & (Hfd & Hne) & ->)].
    - simpl. destruct (ep ++ rest) as [|c r] eqn:E; [reflexivity|].
      simpl.
      assert (Hc : (c =? 46) = false).
      { destruct Hep as [-> | (e & sg & ed & He & _ & _ & ->)].
        - simpl in E. subst rest. simpl in Hstop. apply eqb_false_of. tauto.
        - simpl in E. inversion E; subst. apply eqb_false_of. destruct He; subst; lia. }
      rewrite Hc. reflexivity.
    - simpl. rewrite (take_digits_app fd (ep ++ rest) Hfd Hnd_ep).
      destruct fd; [contradiction|]. reflexivity. }
  rewrite Hf. clear Hf.
  (* exponent *)
  assert (He : pn_exp (ep ++ rest) = (Some ep, rest)).
  { unfold pn_exp. destruct Hep as [-> | (e & sg & ed & Hee & Hsg & (Hed & Hne) & ->)].
    - simpl. destruct rest as [|c r]; [reflexivity|].
      simpl in Hstop. destruct Hstop as (_ & _ & H1 & H2).
      rewrite (eqb_false_of _ _ H1), (eqb_false_of _ _ H2). reflexivity.
    - simpl.
      assert (E1 : (e =? 101) || (e =? 69) = true) by (destruct Hee; subst; reflexivity).
      rewrite E1.
      destruct ed as [|e0 ed]; [contradiction|].
      assert (Hed' := Hed). simpl in Hed'. apply andb_true_iff in Hed' as [He0 Hed2].
      assert (X1 : (e0 =? 43) = false) by (digit_neq He0).
      assert (X2 : (e0 =? 45) = false) by (digit_neq He0).
      destruct Hsg as [-> | [-> | ->]]; simpl; rewrite ?X1, ?X2; simpl;
        rewrite He0, (take_digits_app ed rest Hed2 Hnd_rest); reflexivity. }
  rewrite He. reflexivity.
Qed.

Lemma num_wf_head l : num_wf l -> exists c l', l = c :: l' /\ (c = 45 \/ is_digit c = true).
Proof.
  intros (sign & ip & fp & ep & -> & Hsign & Hip & _ & _).
  destruct Hsign as [-> | ->].
  - destruct Hip as [-> | (d & ds & -> & Hd & _ & _)]; simpl; eauto.
  - simpl. eauto.
Qed.

(* ---------- the decimal printer ---------- *)
Lemma print_dec_fuel_digits f : forall n acc,
  all_digits acc = true -> all_digits (print_dec_fuel f n acc) = true.
Proof.
  induction f as [|f IH]; intros n acc Hacc; cbn [print_dec_fuel]; [exact Hacc|].
  assert (Hm : n mod 10 < 10) by (apply N.mod_lt; lia).
  assert (Hacc' : all_digits ((48 + n mod 10) :: acc) = true).
  { cbn [all_digits]. rewrite (is_digit_add _ Hm). exact Hacc. }
  destruct (n <? 10); [exact Hacc'|]. apply IH. exact Hacc'.
Qed.

Lemma print_dec_digits n : all_digits (print_dec n) = true.
Proof. apply print_dec_fuel_digits. reflexivity. Qed.

(* with enough fuel the first digit of a non-zero number is not 0 *)
Lemma print_dec_fuel_lead f : forall n acc, n <> 0 -> n < 2 ^ N.of_nat f ->
  exists d r, print_dec_fuel f n acc = d :: r /\ d <> 48.
Proof.
  induction f as [|f IH]; intros n acc Hn Hlt.
  - simpl in Hlt. lia.
  - cbn [print_dec_fuel]. destruct (n <? 10) eqn:E.
    + apply N.ltb_lt in E. rewrite (N.mod_small n 10 E). exists (48 + n), acc. split; [reflexivity|lia].
    + apply N.ltb_ge in E. apply IH.
      * intro H0. assert (n < 10); [|lia].
        pose proof (N.div_mod n 10 ltac:(lia)) as Hdm. rewrite H0 in Hdm.
        pose proof (N.mod_lt n 10 ltac:(lia)). lia.
      * rewrite Nat2N.inj_succ, N.pow_succ_r' in Hlt. apply N.div_lt_upper_bound; lia.
Qed.

Lemma print_dec_pos p : exists d r, print_dec (Npos p) = d :: r /\ d <> 48 /\ is_digit d = true /\ all_digits r = true.
Proof.
  destruct (print_dec_fuel_lead (S (N.to_nat (N.log2 (Npos p)))) (Npos p) [] ltac:(discriminate) (log2_fuel _))
    as (d & r & E & Hd).
  exists d, r. split; [exact E|]. split; [exact Hd|].
  pose proof (print_dec_digits (Npos p)) as H. unfold print_dec in H. rewrite E in H. simpl in H.
  apply andb_true_iff in H. tauto.
Qed.

Lemma num_wf_int_shape sign ip :
  (sign = [] \/ sign = [45]) -> int_part ip -> num_wf (sign ++ ip).
Proof.
  intros Hs Hi. exists sign, ip, [], []. rewrite !app_nil_r. repeat split; auto; left; reflexivity.
Qed.

Lemma print_int_wf z : num_wf (print_int z).
Proof.
  destruct z as [|p|p]; unfold print_int.
  - apply (num_wf_int_shape [] [48]); [left; reflexivity | left; reflexivity].
  - destruct (print_dec_pos p) as (d & r & E & Hd & Hdd & Hr).
    change (Z.to_N (Z.pos p)) with (Npos p). rewrite E.
    apply (num_wf_int_shape [] (d :: r)); [left; reflexivity|]. right. exists d, r. auto.
  - destruct (print_dec_pos p) as (d & r & E & Hd & Hdd & Hr). rewrite E.
    apply (num_wf_int_shape [45] (d :: r)); [right; reflexivity|]. right. exists d, r. auto.
Qed.

Lemma num_int_print_int z : num_int (print_int z) = Some z.
Proof.
  unfold num_int.
  destruct z as [|p|p].
  - reflexivity.
  - unfold print_int. change (Z.to_N (Z.pos p)) with (Npos p).
    destruct (print_dec_pos p) as (d & r & E & Hd & Hdd & Hr).
    pose proof (parse_print_int (Z.pos p)) as HP. unfold print_int in HP.
    change (Z.to_N (Z.pos p)) with (Npos p) in HP. rewrite E in *.
    assert (X : (d =? 45) = false) by (digit_neq Hdd). rewrite X.
    cbn [all_digits]. rewrite Hdd, Hr. cbn [andb]. exact HP.
  - unfold print_int.
    destruct (print_dec_pos p) as (d & r & E & Hd & Hdd & Hr).
    pose proof (parse_print_int (Z.neg p)) as HP. unfold print_int in HP. rewrite E in *.
    rewrite N.eqb_refl. cbn [all_digits]. rewrite Hdd, Hr. cbn [andb]. exact HP.
Qed.

Lemma print_number_idem raw : print_number (print_number raw) = print_number raw.
Proof.
  unfold print_number. destruct (num_int raw) as [z|] eqn:E.
  - rewrite num_int_print_int. reflexivity.
  - rewrite E. reflexivity.
Qed.

Lemma print_number_wf raw : num_wf raw -> num_wf (print_number raw).
Proof.
  intro H. unfold print_number. destruct (num_int raw); [apply print_int_wf | exact H].
Qed.

(* the canonical printer never writes -0 *)
Lemma print_number_not_neg_zero raw : print_number raw <> [45; 48].
Proof.
  unfold print_number. destruct (num_int raw) as [z|] eqn:E.
  - intro H. pose proof (num_int_print_int z) as HP. rewrite H in HP.
    vm_compute in HP. inversion HP; subst z. vm_compute in H. discriminate.
  - intro H. subst raw. vm_compute in E. discriminate.
Qed.
