(* Reference JSON parser (RFC 8259), executable, fuel-based.
   - insignificant whitespace: 9, 10, 13, 32
   - strings: raw bytes >= 0x20 other than the quote and the backslash are taken as they are (no UTF-8
     validation, like gjson.Valid); escapes are decoded to UTF-8; a lone surrogate escape
     decodes to U+FFFD (encoding/json behaviour)
   - numbers keep their literal text
   - objects keep members in source order, duplicates included *)
From Verif Require Import Lib.Bytes Json.Ast.
Open Scope N_scope.

Definition is_ws (c : N) : bool := (c =? 32) || (c =? 10) || (c =? 13) || (c =? 9).

Fixpoint skip_ws (s : bytes) : bytes :=
  match s with
  | c :: r => if is_ws c then skip_ws r else s
  | [] => []
  end.

(* consume byte c if it is next *)
Definition eat (c : N) (s : bytes) : option bytes :=
  match s with x :: r => if x =? c then Some r else None | [] => None end.

Definition hex_val (c : N) : option N :=
  if (48 <=? c) && (c <=? 57) then Some (c - 48)
  else if (97 <=? c) && (c <=? 102) then Some (c - 87)
  else if (65 <=? c) && (c <=? 70) then Some (c - 55)
  else None.

(* four hex digits *)
Definition read_hex4 (s : bytes) : option (N * bytes) :=
  match s with
  | a :: b :: c :: d :: r =>
      match hex_val a, hex_val b, hex_val c, hex_val d with
      | Some a, Some b, Some c, Some d => Some (a * 4096 + b * 256 + c * 16 + d, r)
      | _, _, _, _ => None
      end
  | _ => None
  end.

Definition utf8_encode (cp : N) : bytes :=
  if cp <? 128 then [cp]
  else if cp <? 2048 then [192 + cp / 64; 128 + cp mod 64]
  else if cp <? 65536 then [224 + cp / 4096; 128 + (cp / 64) mod 64; 128 + cp mod 64]
  else [240 + cp / 262144; 128 + (cp / 4096) mod 64; 128 + (cp / 64) mod 64; 128 + cp mod 64].

Definition is_high_surrogate (c : N) : bool := (55296 <=? c) && (c <=? 56319).
Definition is_low_surrogate (c : N) : bool := (56320 <=? c) && (c <=? 57343).
Definition replacement_char : bytes := [239; 191; 189].

(* body of a string after the opening quote; acc is reversed (rev_append acc [] = rev acc,
   List.rev_alt: the tail-recursive reversal is linear after extraction, List.rev is quadratic) *)
Fixpoint parse_str (fuel : nat) (s : bytes) (acc : bytes) : option (bytes * bytes) :=
  match fuel with
  | O => None
  | S f =>
      match s with
      | [] => None
      | c :: r =>
          if c =? 34 then Some (rev_append acc [], r)
          else if c <? 32 then None
          else if c =? 92 then
            match r with
            | [] => None
            | e :: r2 =>
                if e =? 34 then parse_str f r2 (34 :: acc)
                else if e =? 92 then parse_str f r2 (92 :: acc)
                else if e =? 47 then parse_str f r2 (47 :: acc)
                else if e =? 98 then parse_str f r2 (8 :: acc)
                else if e =? 102 then parse_str f r2 (12 :: acc)
                else if e =? 110 then parse_str f r2 (10 :: acc)
                else if e =? 114 then parse_str f r2 (13 :: acc)
                else if e =? 116 then parse_str f r2 (9 :: acc)
                else if e =? 117 then
                  match read_hex4 r2 with
                  | None => None
                  | Some (cp, r3) =>
                      if is_high_surrogate cp then
                        match (match eat 92 r3 with Some x => eat 117 x | None => None end) with
                        | Some r4 =>
                            match read_hex4 r4 with
                            | Some (lo, r5) =>
                                if is_low_surrogate lo then
                                  parse_str f r5 (rev (utf8_encode (65536 + (cp - 55296) * 1024 + (lo - 56320))) ++ acc)
                                else parse_str f r3 (rev replacement_char ++ acc)
                            | None => parse_str f r3 (rev replacement_char ++ acc)
                            end
                        | None => parse_str f r3 (rev replacement_char ++ acc)
                        end
                      else if is_low_surrogate cp then parse_str f r3 (rev replacement_char ++ acc)
                      else parse_str f r3 (rev (utf8_encode cp) ++ acc)
                  end
                else None
            end
          else parse_str f r (c :: acc)
      end
  end.

(* number literal: returns the literal text and the rest *)
Fixpoint take_digits (s : bytes) : bytes * bytes :=
  match s with
  | c :: r => if is_digit c then let (d, r') := take_digits r in (c :: d, r') else ([], s)
  | [] => ([], [])
  end.

Definition parse_number (s : bytes) : option (bytes * bytes) :=
  let (sign, s1) := match eat 45 s with Some r => ([45], r) | None => ([], s) end in
  let (ip, s2) := take_digits s1 in
  match ip with
  | [] => None
  | d0 :: ip' =>
      if (d0 =? 48) && negb (match ip' with [] => true | _ => false end) then None else
      let '(fp, s3) :=
        match eat 46 s2 with
        | Some r => let (fd, r') := take_digits r in
                    (match fd with [] => None | _ => Some (46 :: fd) end, r')
        | None => (Some [], s2)
        end in
      match fp with
      | None => None
      | Some fp =>
          let '(ep, s4) :=
            match s3 with
            | e :: r =>
                if (e =? 101) || (e =? 69) then
                  let (sg, r1) := match r with
                                  | c :: r' => if (c =? 43) || (c =? 45) then ([c], r') else ([], r)
                                  | [] => ([], r)
                                  end in
                  let (ed, r2) := take_digits r1 in
                  (match ed with [] => None | _ => Some (e :: sg ++ ed) end, r2)
                else (Some [], s3)
            | [] => (Some [], s3)
            end in
          match ep with
          | None => None
          | Some ep => Some (sign ++ ip ++ fp ++ ep, s4)
          end
      end
  end.

Definition lit_true : bytes := bs "true".
Definition lit_false : bytes := bs "false".
Definition lit_null : bytes := bs "null".

Fixpoint parse_value (fuel : nat) (s : bytes) {struct fuel} : option (json * bytes) :=
  match fuel with
  | O => None
  | S f =>
      match skip_ws s with
      | [] => None
      | c :: r =>
          if c =? 123 then
            match eat 125 (skip_ws r) with
            | Some r' => Some (JObj [], r')
            | None => match parse_members f r [] with
                   | Some (m, r') => Some (JObj m, r')
                   | None => None
                   end
            end
          else if c =? 91 then
            match eat 93 (skip_ws r) with
            | Some r' => Some (JArr [], r')
            | None => match parse_elems f r [] with
                   | Some (l, r') => Some (JArr l, r')
                   | None => None
                   end
            end
          else if c =? 34 then
            match parse_str (S (length r)) r [] with
            | Some (str, r') => Some (JStr str, r')
            | None => None
            end
          else if is_prefix lit_true (c :: r) then Some (JBool true, drop 4 (c :: r))
          else if is_prefix lit_false (c :: r) then Some (JBool false, drop 5 (c :: r))
          else if is_prefix lit_null (c :: r) then Some (JNull, drop 4 (c :: r))
          else match parse_number (c :: r) with
               | Some (lit, r') => Some (JNum lit, r')
               | None => None
               end
      end
  end
with parse_elems (fuel : nat) (s : bytes) (acc : list json) {struct fuel} : option (list json * bytes) :=
  match fuel with
  | O => None
  | S f =>
      match parse_value f s with
      | None => None
      | Some (v, r) =>
          match eat 44 (skip_ws r) with
          | Some r' => parse_elems f r' (v :: acc)
          | None => match eat 93 (skip_ws r) with
                    | Some r' => Some (rev_append (v :: acc) [], r')
                    | None => None
                    end
          end
      end
  end
with parse_members (fuel : nat) (s : bytes) (acc : list (bytes * json)) {struct fuel}
  : option (list (bytes * json) * bytes) :=
  match fuel with
  | O => None
  | S f =>
      match eat 34 (skip_ws s) with
      | Some r =>
          match parse_str (S (length r)) r [] with
          | None => None
          | Some (k, r1) =>
              match eat 58 (skip_ws r1) with
              | Some r2 =>
                  match parse_value f r2 with
                  | None => None
                  | Some (v, r3) =>
                      match eat 44 (skip_ws r3) with
                      | Some r4 => parse_members f r4 ((k, v) :: acc)
                      | None => match eat 125 (skip_ws r3) with
                                | Some r4 => Some (rev_append ((k, v) :: acc) [], r4)
                                | None => None
                                end
                      end
                  end
              | None => None
              end
          end
      | None => None
      end
  end.

Definition parse_json (s : bytes) : option json :=
  match parse_value (S (length s)) s with
  | Some (v, r) => match skip_ws r with [] => Some v | _ => None end
  | None => None
  end.
