(* Completeness of the reference parser: every rendering of a value parses back to that value. *)
From Verif Require Import Lib.Bytes Json.Ast Json.Parse Json.Print Json.Render Json.NumFacts.
Open Scope N_scope.

(* ---------- whitespace ---------- *)
Lemma skip_ws_app w x : ws w -> skip_ws (w ++ x) = skip_ws x.
Proof.
  unfold ws. induction w as [|c w IH]; intro H; simpl; [reflexivity|].
  simpl in H. apply andb_true_iff in H as [Hc Hw]. rewrite Hc. apply IH. exact Hw.
Qed.

Lemma skip_ws_all w : ws w -> skip_ws w = [].
Proof. intro H. rewrite <- (app_nil_r w). rewrite skip_ws_app by exact H. reflexivity. Qed.

Lemma skip_ws_nonws c r : is_ws c = false -> skip_ws (c :: r) = c :: r.
Proof. intro H. simpl. rewrite H. reflexivity. Qed.

Lemma eat_same c r : eat c (c :: r) = Some r.
Proof. simpl. rewrite N.eqb_refl. reflexivity. Qed.

Lemma eat_other c x r : x <> c -> eat c (x :: r) = None.
Proof. intro H. simpl. rewrite (eqb_false_of x c H). reflexivity. Qed.

Lemma ws_nil : ws []. Proof. reflexivity. Qed.

Lemma num_stop_ws w x : ws w -> num_stop x -> (x <> [] \/ w = w) -> num_stop (w ++ x).
Proof.
  intros Hw Hx _. destruct w as [|c w]; [exact Hx|].
  unfold ws in Hw. simpl in Hw. apply andb_true_iff in Hw as [Hc _].
  simpl. unfold is_ws in Hc.
  repeat (apply orb_true_iff in Hc; destruct Hc as [Hc|Hc]); apply N.eqb_eq in Hc; subst c;
    (split; [reflexivity|]); repeat split; discriminate.
Qed.

Lemma num_stop_sep c r : (c = 44 \/ c = 93 \/ c = 125) -> num_stop (c :: r).
Proof. intros [-> | [-> | ->]]; simpl; (split; [reflexivity|]); repeat split; discriminate. Qed.

(* ---------- strings ---------- *)
Lemma read_hex4_app a b c d cp rest :
  read_hex4 [a; b; c; d] = Some (cp, []) -> read_hex4 (a :: b :: c :: d :: rest) = Some (cp, rest).
Proof.
  unfold read_hex4.
  destruct (hex_val a), (hex_val b), (hex_val c), (hex_val d); intro H; try discriminate.
  inversion H. reflexivity.
Qed.

Lemma parse_str_end f rest acc : parse_str (S f) (34 :: rest) acc = Some (rev acc, rest).
Proof. rewrite rev_alt. reflexivity. Qed.

Lemma parse_str_raw f c r acc :
  (c =? 34) = false -> (c <? 32) = false -> (c =? 92) = false ->
  parse_str (S f) (c :: r) acc = parse_str f r (c :: acc).
Proof. intros H1 H2 H3. cbn [parse_str]. rewrite H1, H2, H3. reflexivity. Qed.

Lemma parse_str_esc f e r2 acc :
  parse_str (S f) (92 :: e :: r2) acc =
    if e =? 34 then parse_str f r2 (34 :: acc)
    else if e =? 92 then parse_str f r2 (92 :: acc)
    else if e =? 47 then parse_str f r2 (47 :: acc)
    else if e =? 98 then parse_str f r2 (8 :: acc)
    else if e =? 102 then parse_str f r2 (12 :: acc)
    else if e =? 110 then parse_str f r2 (10 :: acc)
    else if e =? 114 then parse_str f r2 (13 :: acc)
    else if e =? 116 then parse_str f r2 (9 :: acc)
    else if e =? 117 then
      match read_hex4 r2 with
      | None => None
      | Some (cp, r3) =>
          if is_high_surrogate cp then
            match (match eat 92 r3 with Some x => eat 117 x | None => None end) with
            | Some r4 =>
                match read_hex4 r4 with
                | Some (lo, r5) =>
                    if is_low_surrogate lo then
                      parse_str f r5 (rev (utf8_encode (65536 + (cp - 55296) * 1024 + (lo - 56320))) ++ acc)
                    else parse_str f r3 (rev replacement_char ++ acc)
                | None => parse_str f r3 (rev replacement_char ++ acc)
                end
            | None => parse_str f r3 (rev replacement_char ++ acc)
            end
          else if is_low_surrogate cp then parse_str f r3 (rev replacement_char ++ acc)
          else parse_str f r3 (rev (utf8_encode cp) ++ acc)
      end
    else None.
Proof. reflexivity. Qed.

Lemma parse_str_u f r2 acc :
  parse_str (S f) (92 :: 117 :: r2) acc =
      match read_hex4 r2 with
      | None => None
      | Some (cp, r3) =>
          if is_high_surrogate cp then
            match (match eat 92 r3 with Some x => eat 117 x | None => None end) with
            | Some r4 =>
                match read_hex4 r4 with
                | Some (lo, r5) =>
                    if is_low_surrogate lo then
                      parse_str f r5 (rev (utf8_encode (65536 + (cp - 55296) * 1024 + (lo - 56320))) ++ acc)
                    else parse_str f r3 (rev replacement_char ++ acc)
                | None => parse_str f r3 (rev replacement_char ++ acc)
                end
            | None => parse_str f r3 (rev replacement_char ++ acc)
            end
          else if is_low_surrogate cp then parse_str f r3 (rev replacement_char ++ acc)
          else parse_str f r3 (rev (utf8_encode cp) ++ acc)
      end.
Proof. reflexivity. Qed.

Definition esc_step (f : nat) (e : N) (r2 acc : bytes) : option (bytes * bytes) :=
    if e =? 34 then parse_str f r2 (34 :: acc)
    else if e =? 92 then parse_str f r2 (92 :: acc)
    else if e =? 47 then parse_str f r2 (47 :: acc)
    else if e =? 98 then parse_str f r2 (8 :: acc)
    else if e =? 102 then parse_str f r2 (12 :: acc)
    else if e =? 110 then parse_str f r2 (10 :: acc)
    else if e =? 114 then parse_str f r2 (13 :: acc)
    else if e =? 116 then parse_str f r2 (9 :: acc)
    else if e =? 117 then
      match read_hex4 r2 with
      | None => None
      | Some (cp, r3) =>
          if is_high_surrogate cp then
            match (match eat 92 r3 with Some x => eat 117 x | None => None end) with
            | Some r4 =>
                match read_hex4 r4 with
                | Some (lo, r5) =>
                    if is_low_surrogate lo then
                      parse_str f r5 (rev (utf8_encode (65536 + (cp - 55296) * 1024 + (lo - 56320))) ++ acc)
                    else parse_str f r3 (rev replacement_char ++ acc)
                | None => parse_str f r3 (rev replacement_char ++ acc)
                end
            | None => parse_str f r3 (rev replacement_char ++ acc)
            end
          else if is_low_surrogate cp then parse_str f r3 (rev replacement_char ++ acc)
          else parse_str f r3 (rev (utf8_encode cp) ++ acc)
      end
    else None.

Lemma parse_str_unfold f c r acc :
  parse_str (S f) (c :: r) acc =
    if c =? 34 then Some (rev acc, r)
    else if c <? 32 then None
    else if c =? 92 then match r with [] => None | e :: r2 => esc_step f e r2 acc end
    else parse_str f r (c :: acc).
Proof. rewrite rev_alt. reflexivity. Qed.

(* the escape step, case by case, with the big case analysis kept inside [esc_step] (small proof
   terms: Print Assumptions walks through them for every theorem that depends on the parser) *)
Lemma parse_str_bs f e r2 acc : parse_str (S f) (92 :: e :: r2) acc = esc_step f e r2 acc.
Proof. reflexivity. Qed.

Lemma esc_step_two f e d r2 acc : two_char e = Some d -> esc_step f e r2 acc = parse_str f r2 (d :: acc).
Proof.
  unfold two_char, esc_step. intro H.
  repeat match type of H with
         | (if ?b then _ else _) = Some _ => destruct b; [inversion H; reflexivity|]
         end.
  discriminate.
Qed.

Lemma esc_step_plain f a b c d cp rest acc :
  read_hex4 [a; b; c; d] = Some (cp, []) -> is_high_surrogate cp = false -> is_low_surrogate cp = false ->
  esc_step f 117 (a :: b :: c :: d :: rest) acc = parse_str f rest (rev (utf8_encode cp) ++ acc).
Proof.
  intros Hh Hhi Hlo. unfold esc_step. change (117 =? 34) with false. change (117 =? 92) with false.
  change (117 =? 47) with false. change (117 =? 98) with false. change (117 =? 102) with false.
  change (117 =? 110) with false. change (117 =? 114) with false. change (117 =? 116) with false.
  change (117 =? 117) with true. cbv iota.
  rewrite (read_hex4_app _ _ _ _ _ _ Hh), Hhi, Hlo. reflexivity.
Qed.

Lemma esc_step_pair f a b c d a' b' c' d' hi lo rest acc :
  read_hex4 [a; b; c; d] = Some (hi, []) -> read_hex4 [a'; b'; c'; d'] = Some (lo, []) ->
  is_high_surrogate hi = true -> is_low_surrogate lo = true ->
  esc_step f 117 (a :: b :: c :: d :: 92 :: 117 :: a' :: b' :: c' :: d' :: rest) acc =
  parse_str f rest (rev (utf8_encode (65536 + (hi - 55296) * 1024 + (lo - 56320))) ++ acc).
Proof.
  intros Hh1 Hh2 Hhi Hlo. unfold esc_step. change (117 =? 34) with false. change (117 =? 92) with false.
  change (117 =? 47) with false. change (117 =? 98) with false. change (117 =? 102) with false.
  change (117 =? 110) with false. change (117 =? 114) with false. change (117 =? 116) with false.
  change (117 =? 117) with true. cbv iota.
  rewrite (read_hex4_app _ _ _ _ _ _ Hh1), Hhi. rewrite (eat_same 92), (eat_same 117).
  rewrite (read_hex4_app _ _ _ _ _ _ Hh2), Hlo. reflexivity.
Qed.

Lemma len_step (t1 t : bytes) f : (length t1 + length t < S f)%nat -> t1 <> [] -> (length t < f)%nat.
Proof. destruct t1 as [|x t1]; [contradiction|]. simpl. lia. Qed.

(* one chunk = one step of the string parser *)
Lemma chunk_step s1 t1 : StrChunk s1 t1 ->
  forall f X acc, parse_str (S f) (t1 ++ X) acc = parse_str f X (rev s1 ++ acc).
Proof.
  intros Hc f X acc.
  destruct Hc as [c H32 H34 H92 | e d Htwo | a b c d cp Hhex Hhi Hlo | a b c d a' b' c' d' hi lo Hh1 Hh2 Hhi Hlo].
  - apply parse_str_raw; [apply eqb_false_of; exact H34 | apply N.ltb_ge; exact H32 | apply eqb_false_of; exact H92].
  - exact (esc_step_two f e d X acc Htwo).
  - exact (esc_step_plain f a b c d cp X acc Hhex Hhi Hlo).
  - exact (esc_step_pair f a b c d a' b' c' d' hi lo X acc Hh1 Hh2 Hhi Hlo).
Qed.

Lemma chunk_nonempty s1 t1 : StrChunk s1 t1 -> t1 <> [].
Proof. intros [ | | | ]; discriminate. Qed.

Lemma parse_str_complete s body :
  StrBody s body -> forall fuel acc rest, (length body < fuel)%nat ->
  parse_str fuel (body ++ 34 :: rest) acc = Some (rev acc ++ s, rest).
Proof.
  induction 1 as [|s1 t1 s t Hc Hb IH]; intros fuel acc rest Hlen.
  - destruct fuel as [|f]; [simpl in Hlen; lia|]. simpl app. rewrite parse_str_end, app_nil_r. reflexivity.
  - destruct fuel as [|f]; [simpl in Hlen; lia|].
    rewrite app_length in Hlen. rewrite <- app_assoc. rewrite (chunk_step s1 t1 Hc).
    rewrite IH by (apply (len_step _ _ _ Hlen); exact (chunk_nonempty s1 t1 Hc)).
    rewrite rev_app_distr, rev_involutive, <- app_assoc. reflexivity.
Qed.

(* ---------- values: unfolding lemmas ---------- *)
Lemma parse_value_skip f w x : ws w -> parse_value f (w ++ x) = parse_value f x.
Proof. intro H. destruct f; [reflexivity|]. cbn [parse_value]. rewrite (skip_ws_app w x H). reflexivity. Qed.

Lemma pv_null f rest : parse_value (S f) (lit_null ++ rest) = Some (JNull, rest).
Proof. reflexivity. Qed.
Lemma pv_true f rest : parse_value (S f) (lit_true ++ rest) = Some (JBool true, rest).
Proof. reflexivity. Qed.
Lemma pv_false f rest : parse_value (S f) (lit_false ++ rest) = Some (JBool false, rest).
Proof. reflexivity. Qed.

Lemma pv_str f r : parse_value (S f) (34 :: r) =
  match parse_str (S (length r)) r [] with Some (str, r') => Some (JStr str, r') | None => None end.
Proof. reflexivity. Qed.

Lemma pv_arr f r : parse_value (S f) (91 :: r) =
  match eat 93 (skip_ws r) with
  | Some r' => Some (JArr [], r')
  | None => match parse_elems f r [] with Some (l, r') => Some (JArr l, r') | None => None end
  end.
Proof. reflexivity. Qed.

Lemma pv_obj f r : parse_value (S f) (123 :: r) =
  match eat 125 (skip_ws r) with
  | Some r' => Some (JObj [], r')
  | None => match parse_members f r [] with Some (m, r') => Some (JObj m, r') | None => None end
  end.
Proof. reflexivity. Qed.

Lemma pv_num f c r : (c = 45 \/ is_digit c = true) ->
  parse_value (S f) (c :: r) =
  match parse_number (c :: r) with Some (lit, r') => Some (JNum lit, r') | None => None end.
Proof.
  intro Hc.
  assert (Hr : c = 45 \/ 48 <= c <= 57) by (destruct Hc as [->|Hd]; [left; reflexivity | right; apply is_digit_range; exact Hd]).
  assert (Hne : forall k, k <> 45 -> (k < 48 \/ 57 < k) -> (c =? k) = false).
  { intros k H1 H2. apply eqb_false_of. destruct Hr; subst; lia. }
  assert (Hws : is_ws c = false).
  { unfold is_ws. rewrite !Hne by lia. reflexivity. }
  cbn [parse_value]. rewrite (skip_ws_nonws c r Hws).
  rewrite (Hne 123), (Hne 91), (Hne 34) by lia.
  assert (P1 : is_prefix lit_true (c :: r) = false).
  { change lit_true with (116 :: tl lit_true). cbn [is_prefix].
    rewrite N.eqb_sym, (Hne 116) by lia. reflexivity. }
  assert (P2 : is_prefix lit_false (c :: r) = false).
  { change lit_false with (102 :: tl lit_false). cbn [is_prefix].
    rewrite N.eqb_sym, (Hne 102) by lia. reflexivity. }
  assert (P3 : is_prefix lit_null (c :: r) = false).
  { change lit_null with (110 :: tl lit_null). cbn [is_prefix].
    rewrite N.eqb_sym, (Hne 110) by lia. reflexivity. }
  rewrite P1, P2, P3. reflexivity.
Qed.

Lemma pe_unfold f s acc : parse_elems (S f) s acc =
  match parse_value f s with
  | None => None
  | Some (v, r) =>
      match eat 44 (skip_ws r) with
      | Some r' => parse_elems f r' (v :: acc)
      | None => match eat 93 (skip_ws r) with
                | Some r' => Some (rev (v :: acc), r')
                | None => None
                end
      end
  end.
Proof.
  cbn [parse_elems]. destruct (parse_value f s) as [[v r]|]; [|reflexivity].
  destruct (eat 44 _); [reflexivity|]. destruct (eat 93 _); [|reflexivity].
  rewrite <- rev_alt. reflexivity.
Qed.

Lemma pm_unfold f s acc : parse_members (S f) s acc =
  match eat 34 (skip_ws s) with
  | Some r =>
      match parse_str (S (length r)) r [] with
      | None => None
      | Some (k, r1) =>
          match eat 58 (skip_ws r1) with
          | Some r2 =>
              match parse_value f r2 with
              | None => None
              | Some (v, r3) =>
                  match eat 44 (skip_ws r3) with
                  | Some r4 => parse_members f r4 ((k, v) :: acc)
                  | None => match eat 125 (skip_ws r3) with
                            | Some r4 => Some (rev ((k, v) :: acc), r4)
                            | None => None
                            end
                  end
              end
          | None => None
          end
      end
  | None => None
  end.
Proof.
  cbn [parse_members]. destruct (eat 34 _) as [r|]; [|reflexivity].
  destruct (parse_str _ r []) as [[k r1]|]; [|reflexivity].
  destruct (eat 58 _) as [r2|]; [|reflexivity].
  destruct (parse_value f r2) as [[v r3]|]; [|reflexivity].
  destruct (eat 44 _); [reflexivity|]. destruct (eat 125 _); [|reflexivity].
  rewrite <- rev_alt. reflexivity.
Qed.

(* the first byte of a rendered value *)
Lemma renders_head v t : Renders v t ->
  exists c t', t = c :: t' /\ is_ws c = false /\ c <> 93 /\ c <> 125.
Proof.
  intro H. destruct H.
  - exists 110, (tl lit_null). repeat split; discriminate.
  - exists 116, (tl lit_true). repeat split; discriminate.
  - exists 102, (tl lit_false). repeat split; discriminate.
  - destruct (num_wf_head l H) as (c & l' & -> & Hc). exists c, l'. split; [reflexivity|].
    destruct Hc as [->|Hd]; [repeat split; discriminate|].
    apply is_digit_range in Hd.
    assert (Hne : forall k, (k < 48 \/ 57 < k) -> (c =? k) = false) by (intros k Hk; apply eqb_false_of; lia).
    split; [unfold is_ws; rewrite !Hne by lia; reflexivity|]. split; lia.
  - exists 34, (body ++ [34]). repeat split; discriminate.
  - exists 91, (w ++ [93]). repeat split; discriminate.
  - exists 91, (parts ++ [93]). repeat split; discriminate.
  - exists 123, (w ++ [125]). repeat split; discriminate.
  - exists 123, (parts ++ [125]). repeat split; discriminate.
Qed.

Definition PV (v : json) (t : bytes) : Prop :=
  forall fuel rest, (length t < fuel)%nat -> num_stop rest -> parse_value fuel (t ++ rest) = Some (v, rest).
Definition PE (vs : list json) (parts : bytes) : Prop :=
  forall fuel rest acc, (S (length parts) < fuel)%nat ->
    parse_elems fuel (parts ++ 93 :: rest) acc = Some (rev acc ++ vs, rest).
Definition PM (kvs : list (bytes * json)) (parts : bytes) : Prop :=
  forall fuel rest acc, (S (length parts) < fuel)%nat ->
    parse_members fuel (parts ++ 125 :: rest) acc = Some (rev acc ++ kvs, rest).

Lemma elems_head vs parts : RendersElems vs parts ->
  exists c r, skip_ws parts = c :: r /\ c <> 93.
Proof.
  intro H. destruct H as [v t w1 w2 H1 H2 Hr | v t w1 w2 vs parts H1 H2 Hr _];
    destruct (renders_head v t Hr) as (c & t' & -> & Hws & H93 & _);
    rewrite skip_ws_app by exact H1; simpl app; rewrite skip_ws_nonws by exact Hws; eauto.
Qed.

Lemma members_head kvs parts : RendersMembers kvs parts ->
  exists r, skip_ws parts = 34 :: r.
Proof.
  intro H. destruct H; rewrite skip_ws_app by assumption; rewrite skip_ws_nonws by reflexivity; eauto.
Qed.

Lemma skip_ws_app_nonempty a b c r : skip_ws a = c :: r -> skip_ws (a ++ b) = c :: r ++ b.
Proof.
  induction a as [|x a IH]; simpl; [discriminate|].
  destruct (is_ws x); [exact IH|]. intro H. inversion H; subst. reflexivity.
Qed.

Ltac assoc_norm := repeat (first [rewrite <- app_assoc | rewrite <- app_comm_cons]); reflexivity.
Ltac lens H := repeat (first [rewrite app_length in H | progress cbn [length] in H]); lia.

Theorem parse_complete_mut :
  (forall v t, Renders v t -> PV v t) /\
  (forall vs parts, RendersElems vs parts -> PE vs parts) /\
  (forall kvs parts, RendersMembers kvs parts -> PM kvs parts).
Proof.
  apply Renders_mutind; unfold PV, PE, PM.
  - (* null *) intros [|f] rest Hl _; [simpl in Hl; lia|]. apply pv_null.
  - intros [|f] rest Hl _; [simpl in Hl; lia|]. apply pv_true.
  - intros [|f] rest Hl _; [simpl in Hl; lia|]. apply pv_false.
  - (* number *) intros l Hwf [|f] rest Hl Hstop; [lia|].
    destruct (num_wf_head l Hwf) as (c & l' & E & Hc).
    assert (E2 : l ++ rest = c :: (l' ++ rest)) by (rewrite E; reflexivity).
    rewrite E2, (pv_num f c (l' ++ rest) Hc), <- E2.
    rewrite (parse_number_complete l rest Hwf Hstop). reflexivity.
  - (* string *) intros s body Hb [|f] rest Hl _; [lia|].
    simpl app. rewrite pv_str. rewrite <- app_assoc. simpl app.
    rewrite (parse_str_complete s body Hb) by (try lens Hl; rewrite app_length; simpl; lia). reflexivity.
  - (* empty array *) intros w Hw [|f] rest Hl _; [lia|].
    simpl app. rewrite pv_arr. rewrite <- app_assoc. rewrite (skip_ws_app w _ Hw).
    simpl app. rewrite skip_ws_nonws by reflexivity. rewrite eat_same. reflexivity.
  - (* array *) intros vs parts Hr IH [|f] rest Hl _; [lia|].
    simpl app. rewrite pv_arr. rewrite <- app_assoc. simpl app.
    destruct (elems_head vs parts Hr) as (c & r & E & Hc).
    rewrite (skip_ws_app_nonempty _ _ _ _ E). rewrite (eat_other 93 c _ Hc).
    rewrite (IH f rest []) by (lens Hl). reflexivity.
  - (* empty object *) intros w Hw [|f] rest Hl _; [lia|].
    simpl app. rewrite pv_obj. rewrite <- app_assoc. rewrite (skip_ws_app w _ Hw).
    simpl app. rewrite skip_ws_nonws by reflexivity. rewrite eat_same. reflexivity.
  - (* object *) intros kvs parts Hr IH [|f] rest Hl _; [lia|].
    simpl app. rewrite pv_obj. rewrite <- app_assoc. simpl app.
    destruct (members_head kvs parts Hr) as (r & E).
    rewrite (skip_ws_app_nonempty _ _ _ _ E). rewrite (eat_other 125 34) by discriminate.
    rewrite (IH f rest []) by (lens Hl). reflexivity.
  - (* last element *) intros v t w1 w2 H1 H2 Hr IH [|f] rest acc Hl; [lia|].
    rewrite pe_unfold.
    replace ((w1 ++ t ++ w2) ++ 93 :: rest) with (w1 ++ t ++ (w2 ++ 93 :: rest)) by assoc_norm.
    rewrite (parse_value_skip f w1 _ H1).
    rewrite IH.
    + rewrite (skip_ws_app w2 _ H2). rewrite skip_ws_nonws by reflexivity.
      rewrite (eat_other 44 93) by discriminate. rewrite eat_same. simpl. reflexivity.
    + lens Hl.
    + apply num_stop_ws; [exact H2 | apply num_stop_sep; auto | right; reflexivity].
  - (* element, more follow *) intros v t w1 w2 vs parts H1 H2 Hr IH Hrs IHs [|f] rest acc Hl; [lia|].
    rewrite pe_unfold.
    replace ((w1 ++ t ++ w2 ++ 44 :: parts) ++ 93 :: rest)
      with (w1 ++ t ++ (w2 ++ 44 :: (parts ++ 93 :: rest))) by assoc_norm.
    rewrite (parse_value_skip f w1 _ H1).
    rewrite IH.
    + rewrite (skip_ws_app w2 _ H2). rewrite skip_ws_nonws by reflexivity. rewrite eat_same.
      rewrite IHs.
      * simpl. rewrite <- app_assoc. reflexivity.
      * lens Hl.
    + lens Hl.
    + apply num_stop_ws; [exact H2 | apply num_stop_sep; auto | right; reflexivity].
  - (* last member *) intros k kb v t w1 w2 w3 w4 H1 H2 H3 H4 Hk Hr IH [|f] rest acc Hl; [lia|].
    rewrite pm_unfold.
    replace ((w1 ++ 34 :: kb ++ 34 :: w2 ++ 58 :: w3 ++ t ++ w4) ++ 125 :: rest)
      with (w1 ++ 34 :: (kb ++ 34 :: (w2 ++ 58 :: (w3 ++ t ++ (w4 ++ 125 :: rest)))))
      by assoc_norm.
    rewrite (skip_ws_app w1 _ H1). rewrite skip_ws_nonws by reflexivity. rewrite eat_same.
    rewrite (parse_str_complete k kb Hk) by (try lens Hl; rewrite app_length; simpl; lia).
    simpl app. rewrite (skip_ws_app w2 _ H2). rewrite skip_ws_nonws by reflexivity. rewrite eat_same.
    rewrite (parse_value_skip f w3 _ H3).
    rewrite IH.
    + rewrite (skip_ws_app w4 _ H4). rewrite skip_ws_nonws by reflexivity.
      rewrite (eat_other 44 125) by discriminate. rewrite eat_same. simpl. reflexivity.
    + lens Hl.
    + apply num_stop_ws; [exact H4 | apply num_stop_sep; auto | right; reflexivity].
  - (* member, more follow *)
    intros k kb v t w1 w2 w3 w4 kvs parts H1 H2 H3 H4 Hk Hr IH Hrs IHs [|f] rest acc Hl; [lia|].
    rewrite pm_unfold.
    replace ((w1 ++ 34 :: kb ++ 34 :: w2 ++ 58 :: w3 ++ t ++ w4 ++ 44 :: parts) ++ 125 :: rest)
      with (w1 ++ 34 :: (kb ++ 34 :: (w2 ++ 58 :: (w3 ++ t ++ (w4 ++ 44 :: (parts ++ 125 :: rest))))))
      by assoc_norm.
    rewrite (skip_ws_app w1 _ H1). rewrite skip_ws_nonws by reflexivity. rewrite eat_same.
    rewrite (parse_str_complete k kb Hk) by (try lens Hl; rewrite app_length; simpl; lia).
    simpl app. rewrite (skip_ws_app w2 _ H2). rewrite skip_ws_nonws by reflexivity. rewrite eat_same.
    rewrite (parse_value_skip f w3 _ H3).
    rewrite IH.
    + rewrite (skip_ws_app w4 _ H4). rewrite skip_ws_nonws by reflexivity. rewrite eat_same.
      rewrite IHs.
      * simpl. rewrite <- app_assoc. reflexivity.
      * lens Hl.
    + lens Hl.
    + apply num_stop_ws; [exact H4 | apply num_stop_sep; auto | right; reflexivity].
Qed.

Theorem parse_complete v t : RendersText v t -> parse_json t = Some v.
Proof.
  intros [v0 t0 w1 w2 H1 H2 Hr]. unfold parse_json.
  destruct parse_complete_mut as (HV & _ & _).
  rewrite (parse_value_skip _ w1 _ H1).
  rewrite (HV v0 t0 Hr).
  - rewrite (skip_ws_all w2 H2). reflexivity.
  - rewrite !app_length. lia.
  - rewrite <- (app_nil_r w2). apply num_stop_ws; [exact H2 | exact I | right; reflexivity].
Qed.
