(* Soundness of the reference parser: whatever it accepts is a JSON text.  The grammar used here
   ([LRenders], loose) is [Renders] plus one more string chunk: a lone surrogate escape, read as
   U+FFFD.  Such texts are grammatical JSON (RFC 8259) but ill-formed Unicode; they are outside
   the domain of the value-preservation claims and inside the domain of the validity claim. *)
From Verif Require Import Lib.Bytes Json.Ast Json.Parse Json.Print Json.Render Json.NumFacts
  Json.ParseComplete Json.CanonFacts.
Open Scope N_scope.

Inductive LChunk : bytes -> bytes -> Prop :=
| LC_strict : forall s t, StrChunk s t -> LChunk s t
| LC_lone : forall a b c d cp,
    read_hex4 [a; b; c; d] = Some (cp, []) ->
    (is_high_surrogate cp = true \/ is_low_surrogate cp = true) ->
    LChunk replacement_char [92; 117; a; b; c; d].

Inductive LBody : bytes -> bytes -> Prop :=
| LB_nil : LBody [] []
| LB_cons : forall s1 t1 s t, LChunk s1 t1 -> LBody s t -> LBody (s1 ++ s) (t1 ++ t).

Inductive LRenders : json -> bytes -> Prop :=
| LR_null : LRenders JNull lit_null
| LR_true : LRenders (JBool true) lit_true
| LR_false : LRenders (JBool false) lit_false
| LR_num : forall l, num_wf l -> LRenders (JNum l) l
| LR_str : forall s body, LBody s body -> LRenders (JStr s) (34 :: body ++ [34])
| LR_arr_empty : forall w, ws w -> LRenders (JArr []) (91 :: w ++ [93])
| LR_arr : forall vs parts, LRendersElems vs parts -> LRenders (JArr vs) (91 :: parts ++ [93])
| LR_obj_empty : forall w, ws w -> LRenders (JObj []) (123 :: w ++ [125])
| LR_obj : forall kvs parts, LRendersMembers kvs parts -> LRenders (JObj kvs) (123 :: parts ++ [125])
with LRendersElems : list json -> bytes -> Prop :=
| LRE_one : forall v t w1 w2, ws w1 -> ws w2 -> LRenders v t -> LRendersElems [v] (w1 ++ t ++ w2)
| LRE_cons : forall v t w1 w2 vs parts,
    ws w1 -> ws w2 -> LRenders v t -> LRendersElems vs parts ->
    LRendersElems (v :: vs) (w1 ++ t ++ w2 ++ 44 :: parts)
with LRendersMembers : list (bytes * json) -> bytes -> Prop :=
| LRM_one : forall k kb v t w1 w2 w3 w4,
    ws w1 -> ws w2 -> ws w3 -> ws w4 -> LBody k kb -> LRenders v t ->
    LRendersMembers [(k, v)] (w1 ++ 34 :: kb ++ 34 :: w2 ++ 58 :: w3 ++ t ++ w4)
| LRM_cons : forall k kb v t w1 w2 w3 w4 kvs parts,
    ws w1 -> ws w2 -> ws w3 -> ws w4 -> LBody k kb -> LRenders v t -> LRendersMembers kvs parts ->
    LRendersMembers ((k, v) :: kvs) (w1 ++ 34 :: kb ++ 34 :: w2 ++ 58 :: w3 ++ t ++ w4 ++ 44 :: parts).

Scheme LRenders_mind := Minimality for LRenders Sort Prop
  with LRendersElems_mind := Minimality for LRendersElems Sort Prop
  with LRendersMembers_mind := Minimality for LRendersMembers Sort Prop.
Combined Scheme LRenders_mutind from LRenders_mind, LRendersElems_mind, LRendersMembers_mind.

Inductive LRendersText : json -> bytes -> Prop :=
| LRT : forall v t w1 w2, ws w1 -> ws w2 -> LRenders v t -> LRendersText v (w1 ++ t ++ w2).

(* ---------- the strict grammar is part of the loose one ---------- *)
Lemma strbody_loose s t : StrBody s t -> LBody s t.
Proof. induction 1; constructor; [apply LC_strict; assumption | assumption]. Qed.

Lemma renders_loose_mut :
  (forall v t, Renders v t -> LRenders v t) /\
  (forall vs parts, RendersElems vs parts -> LRendersElems vs parts) /\
  (forall kvs parts, RendersMembers kvs parts -> LRendersMembers kvs parts).
Proof.
  apply Renders_mutind; intros; try (constructor; auto using strbody_loose; fail).
Qed.

Lemma renders_text_loose v t : RendersText v t -> LRendersText v t.
Proof.
  intros [v0 t0 w1 w2 H1 H2 H]. apply LRT; auto. destruct renders_loose_mut as (HV & _ & _). auto.
Qed.

Ltac assoc_norm := repeat (first [rewrite <- app_assoc | rewrite <- app_comm_cons]); reflexivity.

(* ---------- numbers ---------- *)
Lemma take_digits_spec s : s = fst (take_digits s) ++ snd (take_digits s) /\ all_digits (fst (take_digits s)) = true.
Proof.
  induction s as [|c s IH]; [split; reflexivity|].
  simpl. destruct (is_digit c) eqn:E.
  - destruct (take_digits s) as [d r]. simpl in *. destruct IH as [IH1 IH2].
    split; [f_equal; exact IH1 | rewrite E, IH2; reflexivity].
  - split; reflexivity.
Qed.

Lemma take_digits_eq s d r : take_digits s = (d, r) -> s = d ++ r /\ all_digits d = true.
Proof. intro H. pose proof (take_digits_spec s) as P. rewrite H in P. exact P. Qed.

Lemma pn_sign_spec s sg s1 : pn_sign s = (sg, s1) -> s = sg ++ s1 /\ (sg = [] \/ sg = [45]).
Proof.
  unfold pn_sign, eat. destruct s as [|x r].
  - intro H. inversion H. auto.
  - destruct (x =? 45) eqn:E; intro H; inversion H; subst.
    + apply N.eqb_eq in E. subst. auto.
    + auto.
Qed.

Lemma pn_frac_spec s2 fp s3 : pn_frac s2 = (Some fp, s3) -> s2 = fp ++ s3 /\ frac_part fp.
Proof.
  unfold pn_frac, eat. destruct s2 as [|x r].
  - intro H. inversion H. split; [reflexivity | left; reflexivity].
  - destruct (x =? 46) eqn:E.
    + apply N.eqb_eq in E. subst x.
      destruct (take_digits r) as [fd r'] eqn:T. apply take_digits_eq in T as [T1 T2].
      destruct fd as [|f0 fd]; [discriminate|]. intro H. inversion H; subst.
      split; [reflexivity|]. right. exists (f0 :: fd). split; [split; [exact T2 | discriminate] | reflexivity].
    + intro H. inversion H. split; [reflexivity | left; reflexivity].
Qed.

Lemma pn_exp_spec s3 ep s4 : pn_exp s3 = (Some ep, s4) -> s3 = ep ++ s4 /\ exp_part ep.
Proof.
  unfold pn_exp. destruct s3 as [|e r].
  - intro H. inversion H. split; [reflexivity | left; reflexivity].
  - destruct ((e =? 101) || (e =? 69)) eqn:E.
    + assert (He : e = 101 \/ e = 69).
      { apply orb_true_iff in E. destruct E as [E|E]; apply N.eqb_eq in E; auto. }
      assert (Hsg : exists sg r1, (match r with
                                   | c :: r' => if (c =? 43) || (c =? 45) then ([c], r') else ([], r)
                                   | [] => ([], r)
                                   end) = (sg, r1) /\ r = sg ++ r1 /\ (sg = [] \/ sg = [43] \/ sg = [45])).
      { destruct r as [|c r']; [exists [], []; auto|].
        destruct ((c =? 43) || (c =? 45)) eqn:Ec.
        - exists [c], r'. split; [reflexivity|]. split; [reflexivity|].
          apply orb_true_iff in Ec. destruct Ec as [Ec|Ec]; apply N.eqb_eq in Ec; subst; auto.
        - exists [], (c :: r'). auto. }
      destruct Hsg as (sg & r1 & Hm & Hr & Hs). rewrite Hm.
      destruct (take_digits r1) as [ed r2] eqn:T. apply take_digits_eq in T as [T1 T2].
      destruct ed as [|e0 ed]; [discriminate|]. intro H. inversion H; subst.
      split; [simpl; rewrite <- app_assoc; reflexivity|].
      right. exists e, sg, (e0 :: ed). repeat split; auto. discriminate.
    + intro H. inversion H. split; [reflexivity | left; reflexivity].
Qed.

Lemma parse_number_sound s lit r : parse_number s = Some (lit, r) -> num_wf lit /\ s = lit ++ r.
Proof.
  rewrite parse_number_staged_eq. unfold parse_number_staged.
  destruct (pn_sign s) as [sg s1] eqn:E1. apply pn_sign_spec in E1 as [E1 Hsg].
  destruct (take_digits s1) as [ip s2] eqn:E2. apply take_digits_eq in E2 as [E2 Hip].
  destruct ip as [|d0 ip']; [discriminate|].
  destruct ((d0 =? 48) && negb (match ip' with [] => true | _ => false end)) eqn:Ez; [discriminate|].
  destruct (pn_frac s2) as [[fp|] s3] eqn:E3; [|discriminate]. apply pn_frac_spec in E3 as [E3 Hfp].
  destruct (pn_exp s3) as [[ep|] s4] eqn:E4; [|discriminate]. apply pn_exp_spec in E4 as [E4 Hep].
  intro H. inversion H; subst. split.
  - exists sg, (d0 :: ip'), fp, ep. repeat split; auto.
    simpl in Hip. apply andb_true_iff in Hip as [Hd Hds].
    destruct (d0 =? 48) eqn:E0.
    + destruct ip'; [|discriminate]. apply N.eqb_eq in E0. subst. left. reflexivity.
    + right. exists d0, ip'. repeat split; auto. apply N.eqb_neq. exact E0.
  - assoc_norm.
Qed.

(* ---------- strings ---------- *)
Lemma read_hex4_inv s cp r : read_hex4 s = Some (cp, r) ->
  exists a b c d, s = a :: b :: c :: d :: r /\ read_hex4 [a; b; c; d] = Some (cp, []).
Proof.
  unfold read_hex4. destruct s as [|a [|b [|c [|d r']]]]; try discriminate.
  destruct (hex_val a) eqn:Ea; [|discriminate]. destruct (hex_val b) eqn:Eb; [|discriminate].
  destruct (hex_val c) eqn:Ec; [|discriminate]. destruct (hex_val d) eqn:Ed; [|discriminate].
  intro H. inversion H; subst. exists a, b, c, d. split; [reflexivity|].
  rewrite Ea, Eb, Ec, Ed. reflexivity.
Qed.

Definition StrSound (f : nat) : Prop :=
  forall s acc str r, parse_str f s acc = Some (str, r) ->
    exists d body, str = rev acc ++ d /\ s = body ++ 34 :: r /\ LBody d body.

Lemma str_sound_step_chunk f (IH : StrSound f) s' acc str r X t1 :
  LChunk X t1 ->
  parse_str f s' (rev X ++ acc) = Some (str, r) ->
  exists d body, str = rev acc ++ d /\ t1 ++ s' = body ++ 34 :: r /\ LBody d body.
Proof.
  intros Hc H. apply IH in H as (d & body & -> & -> & Hb).
  exists (X ++ d), (t1 ++ body). split; [|split].
  - rewrite rev_app_distr, rev_involutive, <- app_assoc. reflexivity.
  - rewrite <- app_assoc. reflexivity.
  - apply LB_cons; assumption.
Qed.

Lemma str_sound f : StrSound f.
Proof.
  induction f as [|f IH]; intros s acc str r H; [discriminate|].
  destruct s as [|c s']; [discriminate|].
  rewrite parse_str_unfold in H.
  destruct (c =? 34) eqn:E34.
  { apply N.eqb_eq in E34. subst c. inversion H; subst. exists [], []. rewrite app_nil_r. repeat split. constructor. }
  destruct (c <? 32) eqn:E32; [discriminate|].
  destruct (c =? 92) eqn:E92.
  2:{ (* raw byte *)
    apply (str_sound_step_chunk f IH s' acc str r [c] [c]); [|exact H].
    apply LC_strict. apply SC_raw; [apply N.ltb_ge; exact E32 | apply N.eqb_neq; exact E34 | apply N.eqb_neq; exact E92]. }
  apply N.eqb_eq in E92. subst c.
  destruct s' as [|e r2]; [discriminate|].
  unfold esc_step in H.
  assert (Two : forall d, two_char e = Some d -> parse_str f r2 (d :: acc) = Some (str, r) ->
                exists d0 body, str = rev acc ++ d0 /\ 92 :: e :: r2 = body ++ 34 :: r /\ LBody d0 body).
  { intros d Hd Hp. apply (str_sound_step_chunk f IH r2 acc str r [d] [92; e]); [|exact Hp].
    apply LC_strict. apply SC_two. exact Hd. }
  destruct (e =? 34) eqn:T1; [apply N.eqb_eq in T1; subst e; apply (Two 34); [reflexivity | exact H]|].
  destruct (e =? 92) eqn:T2; [apply N.eqb_eq in T2; subst e; apply (Two 92); [reflexivity | exact H]|].
  destruct (e =? 47) eqn:T3; [apply N.eqb_eq in T3; subst e; apply (Two 47); [reflexivity | exact H]|].
  destruct (e =? 98) eqn:T4; [apply N.eqb_eq in T4; subst e; apply (Two 8); [reflexivity | exact H]|].
  destruct (e =? 102) eqn:T5; [apply N.eqb_eq in T5; subst e; apply (Two 12); [reflexivity | exact H]|].
  destruct (e =? 110) eqn:T6; [apply N.eqb_eq in T6; subst e; apply (Two 10); [reflexivity | exact H]|].
  destruct (e =? 114) eqn:T7; [apply N.eqb_eq in T7; subst e; apply (Two 13); [reflexivity | exact H]|].
  destruct (e =? 116) eqn:T8; [apply N.eqb_eq in T8; subst e; apply (Two 9); [reflexivity | exact H]|].
  destruct (e =? 117) eqn:T9; [|discriminate]. apply N.eqb_eq in T9. subst e. clear Two.
  destruct (read_hex4 r2) as [[cp r3]|] eqn:Hh; [|discriminate].
  apply read_hex4_inv in Hh as (a & b & c & d & -> & Hh).
  (* the lone-surrogate outcome, used by several branches *)
  assert (Lone : (is_high_surrogate cp = true \/ is_low_surrogate cp = true) ->
                 parse_str f r3 (rev replacement_char ++ acc) = Some (str, r) ->
                 exists d0 body, str = rev acc ++ d0 /\ 92 :: 117 :: a :: b :: c :: d :: r3 = body ++ 34 :: r /\ LBody d0 body).
  { intros Hs Hp.
    apply (str_sound_step_chunk f IH r3 acc str r replacement_char [92; 117; a; b; c; d]); [|exact Hp].
    eapply LC_lone; eauto. }
  destruct (is_high_surrogate cp) eqn:Ehi.
  - destruct (match eat 92 r3 with Some x => eat 117 x | None => None end) as [r4|] eqn:Eeat.
    + destruct (read_hex4 r4) as [[lo r5]|] eqn:Hl.
      * destruct (is_low_surrogate lo) eqn:Elo.
        -- (* a surrogate pair *)
           assert (Er3 : r3 = 92 :: 117 :: r4).
           { unfold eat in Eeat. destruct r3 as [|x r3']; [discriminate|].
             destruct (x =? 92) eqn:X1; [|discriminate]. apply N.eqb_eq in X1. subst x.
             destruct r3' as [|y r3'']; [discriminate|].
             destruct (y =? 117) eqn:X2; [|discriminate]. apply N.eqb_eq in X2. subst y.
             inversion Eeat. reflexivity. }
           apply read_hex4_inv in Hl as (a' & b' & c' & d' & -> & Hl). subst r3.
           apply (str_sound_step_chunk f IH r5 acc str r
                    (utf8_encode (65536 + (cp - 55296) * 1024 + (lo - 56320)))
                    [92; 117; a; b; c; d; 92; 117; a'; b'; c'; d']); [|exact H].
           apply LC_strict. apply SC_pair; assumption.
        -- apply Lone; [left; reflexivity | exact H].
      * apply Lone; [left; reflexivity | exact H].
    + apply Lone; [left; reflexivity | exact H].
  - destruct (is_low_surrogate cp) eqn:Elo.
    + apply Lone; [right; reflexivity | exact H].
    + apply (str_sound_step_chunk f IH r3 acc str r (utf8_encode cp) [92; 117; a; b; c; d]); [|exact H].
      apply LC_strict. apply SC_u; assumption.
Qed.

(* ---------- values ---------- *)
Lemma skip_ws_spec s : exists w, ws w /\ s = w ++ skip_ws s.
Proof.
  induction s as [|c s IH]; [exists []; split; reflexivity|].
  simpl. destruct (is_ws c) eqn:E.
  - destruct IH as (w & Hw & Hs). exists (c :: w). split.
    + unfold ws in *. simpl. rewrite E, Hw. reflexivity.
    + simpl. f_equal. exact Hs.
  - exists []. split; reflexivity.
Qed.

Lemma eat_skip_spec c s r : eat c (skip_ws s) = Some r -> exists w, ws w /\ s = w ++ c :: r.
Proof.
  intro H. destruct (skip_ws_spec s) as (w & Hw & Hs). exists w. split; [exact Hw|].
  unfold eat in H. destruct (skip_ws s) as [|x r']; [discriminate|].
  destruct (x =? c) eqn:E; [|discriminate]. apply N.eqb_eq in E. subst x. inversion H as [Hr]. rewrite <- Hr. exact Hs.
Qed.

Lemma skip_ws_nil_ws s : skip_ws s = [] -> ws s.
Proof.
  intro H. destruct (skip_ws_spec s) as (w & Hw & Hs). rewrite H, app_nil_r in Hs. subst. exact Hw.
Qed.

Lemma pv_unfold f s : parse_value (S f) s =
      match skip_ws s with
      | [] => None
      | c :: r =>
          if c =? 123 then
            match eat 125 (skip_ws r) with
            | Some r' => Some (JObj [], r')
            | None => match parse_members f r [] with
                   | Some (m, r') => Some (JObj m, r')
                   | None => None
                   end
            end
          else if c =? 91 then
            match eat 93 (skip_ws r) with
            | Some r' => Some (JArr [], r')
            | None => match parse_elems f r [] with
                   | Some (l, r') => Some (JArr l, r')
                   | None => None
                   end
            end
          else if c =? 34 then
            match parse_str (S (length r)) r [] with
            | Some (str, r') => Some (JStr str, r')
            | None => None
            end
          else if is_prefix lit_true (c :: r) then Some (JBool true, drop 4 (c :: r))
          else if is_prefix lit_false (c :: r) then Some (JBool false, drop 5 (c :: r))
          else if is_prefix lit_null (c :: r) then Some (JNull, drop 4 (c :: r))
          else match parse_number (c :: r) with
               | Some (lit, r') => Some (JNum lit, r')
               | None => None
               end
      end.
Proof. reflexivity. Qed.

Definition VS (f : nat) : Prop :=
  forall s v r, parse_value f s = Some (v, r) -> exists w t, ws w /\ s = w ++ t ++ r /\ LRenders v t.
Definition ES (f : nat) : Prop :=
  forall s acc l r, parse_elems f s acc = Some (l, r) ->
    exists vs parts, l = rev acc ++ vs /\ s = parts ++ 93 :: r /\ LRendersElems vs parts.
Definition MS (f : nat) : Prop :=
  forall s acc m r, parse_members f s acc = Some (m, r) ->
    exists kvs parts, m = rev acc ++ kvs /\ s = parts ++ 125 :: r /\ LRendersMembers kvs parts.

Lemma value_sound_step f : VS f -> ES f -> MS f -> VS (S f).
Proof.
  intros HV HE HM s v r H. rewrite pv_unfold in H.
  destruct (skip_ws_spec s) as (w & Hw & Hs). exists w.
  destruct (skip_ws s) as [|c r0]; [discriminate|].
  rewrite Hs. clear Hs s.
  destruct (c =? 123) eqn:E1.
  { apply N.eqb_eq in E1. subst c.
    destruct (eat 125 (skip_ws r0)) as [r'|] eqn:Ee.
    - inversion H; subst. apply eat_skip_spec in Ee as (w' & Hw' & ->).
      exists (123 :: w' ++ [125]). split; [exact Hw|]. split; [assoc_norm | apply LR_obj_empty; exact Hw'].
    - destruct (parse_members f r0 []) as [[m r']|] eqn:Em; [|discriminate]. inversion H; subst.
      apply HM in Em as (kvs & parts & -> & -> & Hr).
      exists (123 :: parts ++ [125]). split; [exact Hw|]. split; [assoc_norm | apply LR_obj; exact Hr]. }
  destruct (c =? 91) eqn:E2.
  { apply N.eqb_eq in E2. subst c.
    destruct (eat 93 (skip_ws r0)) as [r'|] eqn:Ee.
    - inversion H; subst. apply eat_skip_spec in Ee as (w' & Hw' & ->).
      exists (91 :: w' ++ [93]). split; [exact Hw|]. split; [assoc_norm | apply LR_arr_empty; exact Hw'].
    - destruct (parse_elems f r0 []) as [[l r']|] eqn:Em; [|discriminate]. inversion H; subst.
      apply HE in Em as (vs & parts & -> & -> & Hr).
      exists (91 :: parts ++ [93]). split; [exact Hw|]. split; [assoc_norm | apply LR_arr; exact Hr]. }
  destruct (c =? 34) eqn:E3.
  { apply N.eqb_eq in E3. subst c.
    destruct (parse_str (S (length r0)) r0 []) as [[str r']|] eqn:Es; [|discriminate]. inversion H; subst.
    apply str_sound in Es as (d & body & -> & -> & Hb).
    exists (34 :: body ++ [34]). split; [exact Hw|]. split; [assoc_norm | apply LR_str; exact Hb]. }
  destruct (is_prefix lit_true (c :: r0)) eqn:P1.
  { inversion H; subst. apply is_prefix_app in P1. exists lit_true. split; [exact Hw|].
    split; [rewrite P1 at 1; reflexivity | apply LR_true]. }
  destruct (is_prefix lit_false (c :: r0)) eqn:P2.
  { inversion H; subst. apply is_prefix_app in P2. exists lit_false. split; [exact Hw|].
    split; [rewrite P2 at 1; reflexivity | apply LR_false]. }
  destruct (is_prefix lit_null (c :: r0)) eqn:P3.
  { inversion H; subst. apply is_prefix_app in P3. exists lit_null. split; [exact Hw|].
    split; [rewrite P3 at 1; reflexivity | apply LR_null]. }
  destruct (parse_number (c :: r0)) as [[lit r']|] eqn:En; [|discriminate]. inversion H; subst.
  apply parse_number_sound in En as [Hwf En]. exists lit. split; [exact Hw|].
  split; [rewrite En; reflexivity | apply LR_num; exact Hwf].
Qed.

Lemma elems_sound_step f : VS f -> ES f -> ES (S f).
Proof.
  intros HV HE s acc l r H. rewrite pe_unfold in H.
  destruct (parse_value f s) as [[v r1]|] eqn:Ev; [|discriminate].
  apply HV in Ev as (w & t & Hw & -> & Hr).
  destruct (eat 44 (skip_ws r1)) as [r'|] eqn:E44.
  - apply eat_skip_spec in E44 as (w2 & Hw2 & ->).
    apply HE in H as (vs & parts & -> & -> & Hrs).
    exists (v :: vs), (w ++ t ++ w2 ++ 44 :: parts). split; [|split].
    + simpl. rewrite <- app_assoc. reflexivity.
    + assoc_norm.
    + apply LRE_cons; assumption.
  - destruct (eat 93 (skip_ws r1)) as [r'|] eqn:E93; [|discriminate]. inversion H; subst.
    apply eat_skip_spec in E93 as (w2 & Hw2 & ->).
    exists [v], (w ++ t ++ w2). split; [|split].
    + reflexivity.
    + assoc_norm.
    + apply LRE_one; assumption.
Qed.

Lemma members_sound_step f : VS f -> MS f -> MS (S f).
Proof.
  intros HV HM s acc m r H. rewrite pm_unfold in H.
  destruct (eat 34 (skip_ws s)) as [r0|] eqn:E34; [|discriminate].
  apply eat_skip_spec in E34 as (w1 & Hw1 & ->).
  destruct (parse_str (S (length r0)) r0 []) as [[k r1]|] eqn:Es; [|discriminate].
  apply str_sound in Es as (d & kb & -> & -> & Hkb).
  destruct (eat 58 (skip_ws r1)) as [r2|] eqn:E58; [|discriminate].
  apply eat_skip_spec in E58 as (w2 & Hw2 & ->).
  destruct (parse_value f r2) as [[v r3]|] eqn:Ev; [|discriminate].
  apply HV in Ev as (w3 & t & Hw3 & -> & Hr).
  destruct (eat 44 (skip_ws r3)) as [r4|] eqn:E44.
  - apply eat_skip_spec in E44 as (w4 & Hw4 & ->).
    apply HM in H as (kvs & parts & -> & -> & Hrs).
    exists ((d, v) :: kvs), (w1 ++ 34 :: kb ++ 34 :: w2 ++ 58 :: w3 ++ t ++ w4 ++ 44 :: parts). split; [|split].
    + simpl. rewrite <- app_assoc. reflexivity.
    + assoc_norm.
    + apply LRM_cons; assumption.
  - destruct (eat 125 (skip_ws r3)) as [r4|] eqn:E125; [|discriminate]. inversion H; subst.
    apply eat_skip_spec in E125 as (w4 & Hw4 & ->).
    exists [(d, v)], (w1 ++ 34 :: kb ++ 34 :: w2 ++ 58 :: w3 ++ t ++ w4). split; [|split].
    + reflexivity.
    + assoc_norm.
    + apply LRM_one; assumption.
Qed.

Lemma all_sound f : VS f /\ ES f /\ MS f.
Proof.
  induction f as [|f (HV & HE & HM)].
  - repeat split; intros ? ? ? ?; discriminate.
  - split; [apply value_sound_step; assumption|].
    split; [apply elems_sound_step; assumption | apply members_sound_step; assumption].
Qed.

Theorem parse_sound t v : parse_json t = Some v -> LRendersText v t.
Proof.
  unfold parse_json. intro H.
  destruct (parse_value (S (length t)) t) as [[v0 r]|] eqn:E; [|discriminate].
  destruct (skip_ws r) eqn:Er; [|discriminate]. inversion H; subst.
  destruct (all_sound (S (length t))) as (HV & _ & _).
  apply HV in E as (w & t0 & Hw & -> & Hr).
  apply LRT; [exact Hw | apply skip_ws_nil_ws; exact Er | exact Hr].
Qed.

(* ---------- consequences ---------- *)
Lemma lrenders_wf_mut :
  (forall v t, LRenders v t -> json_wf v) /\
  (forall vs parts, LRendersElems vs parts -> Forall json_wf vs) /\
  (forall kvs parts, LRendersMembers kvs parts -> Forall (fun kv => json_wf (snd kv)) kvs).
Proof.
  apply LRenders_mutind; intros; try exact I; auto.
  - apply json_wf_arr. assumption.
  - apply json_wf_obj. assumption.
Qed.

Theorem parse_wf t v : parse_json t = Some v -> json_wf v.
Proof.
  intro H. apply parse_sound in H. destruct H as [v0 t0 w1 w2 _ _ H].
  destruct lrenders_wf_mut as (HV & _ & _). exact (HV _ _ H).
Qed.

(* a text that is not JSON (no value has it as one of its texts, lone surrogates allowed) is refused *)
Theorem canonical_rejects_invalid t : (forall v, ~ LRendersText v t) -> canonical t = None.
Proof.
  intro H. unfold canonical. destruct (parse_json t) as [v|] eqn:E; [|reflexivity].
  exfalso. exact (H v (parse_sound t v E)).
Qed.

(* idempotence for every accepted input, whatever it is *)
Theorem canonical_idempotent_all t c : canonical t = Some c -> canonical c = Some c.
Proof.
  unfold canonical. destruct (parse_json t) as [v|] eqn:E; [|discriminate].
  intro H. inversion H; subst c. rewrite (parse_canon_print v (parse_wf t v E)). simpl.
  rewrite canon_print_normalise. reflexivity.
Qed.

(* the output is always a JSON text of the strict grammar *)
Theorem canonical_output_valid t c : canonical t = Some c -> exists v, RendersText v c.
Proof.
  unfold canonical. destruct (parse_json t) as [v|] eqn:E; [|discriminate].
  intro H. inversion H; subst c. exists (normalise v).
  rewrite <- (app_nil_r (canon_print v)). apply (RT _ _ [] []); [reflexivity | reflexivity |].
  apply renders_canon_print. exact (parse_wf t v E).
Qed.
