(* Values equal up to the order of object members (keys without duplicates) and the spelling of
   integers have the same normal form: sorting a permutation of a duplicate-free member list
   gives one result. *)
From Coq Require Import Permutation.
From Verif Require Import Lib.Bytes Json.Ast Json.Parse Json.Print Json.Render Json.NumFacts Json.CanonFacts.
Open Scope N_scope.

Inductive json_perm : json -> json -> Prop :=
| JP_null : json_perm JNull JNull
| JP_bool : forall b, json_perm (JBool b) (JBool b)
| JP_num : forall r r', print_number r = print_number r' -> json_perm (JNum r) (JNum r')
| JP_str : forall s, json_perm (JStr s) (JStr s)
| JP_arr : forall l l', Forall2 json_perm l l' -> json_perm (JArr l) (JArr l')
| JP_obj : forall m m2 m',
    NoDup (map fst m) -> Permutation m m2 ->
    Forall2 (fun a b => fst a = fst b /\ json_perm (snd a) (snd b)) m2 m' ->
    json_perm (JObj m) (JObj m').

(* ---------- the key order ---------- *)
Lemma bytes_leb_antisym a b : bytes_leb a b = true -> bytes_leb b a = true -> a = b.
Proof.
  unfold bytes_leb. rewrite (bytes_cmp_antisym a b).
  destruct (bytes_cmp a b) eqn:E; simpl; intros H1 H2; try discriminate.
  apply bytes_cmp_eq. exact E.
Qed.

Lemma bytes_leb_trans a b c : bytes_leb a b = true -> bytes_leb b c = true -> bytes_leb a c = true.
Proof.
  unfold bytes_leb.
  destruct (bytes_cmp a b) eqn:E1; intro H1; try discriminate;
  destruct (bytes_cmp b c) eqn:E2; intro H2; try discriminate.
  - apply bytes_cmp_eq in E1. subst. rewrite E2. reflexivity.
  - apply bytes_cmp_eq in E1. subst. rewrite E2. reflexivity.
  - apply bytes_cmp_eq in E2. subst. rewrite E1. reflexivity.
  - rewrite (bytes_cmp_trans_lt a b c E1 E2). reflexivity.
Qed.

Lemma insert_member_comm {A} (a b : bytes * A) s :
  fst a <> fst b -> insert_member a (insert_member b s) = insert_member b (insert_member a s).
Proof.
  intro Hne. induction s as [|c s IH].
  - simpl. destruct (bytes_leb (fst a) (fst b)) eqn:Eab.
    + destruct (bytes_leb (fst b) (fst a)) eqn:Eba; [|reflexivity].
      exfalso. apply Hne. apply bytes_leb_antisym; assumption.
    + rewrite (bytes_leb_total _ _ Eab). reflexivity.
  - cbn [insert_member].
    destruct (bytes_leb (fst b) (fst c)) eqn:Ebc; destruct (bytes_leb (fst a) (fst c)) eqn:Eac; cbn [insert_member].
    + (* both before c *)
      destruct (bytes_leb (fst a) (fst b)) eqn:Eab.
      * assert (Eba : bytes_leb (fst b) (fst a) = false).
        { destruct (bytes_leb (fst b) (fst a)) eqn:X; [|reflexivity].
          exfalso. apply Hne. apply bytes_leb_antisym; assumption. }
        rewrite Eba, Ebc. reflexivity.
      * rewrite (bytes_leb_total _ _ Eab), Eac. reflexivity.
    + (* b before c, a after *)
      assert (Eab : bytes_leb (fst a) (fst b) = false).
      { destruct (bytes_leb (fst a) (fst b)) eqn:X; [|reflexivity].
        rewrite (bytes_leb_trans _ _ _ X Ebc) in Eac. discriminate. }
      rewrite Eab, Eac, Ebc. reflexivity.
    + (* a before c, b after *)
      assert (Eba : bytes_leb (fst b) (fst a) = false).
      { destruct (bytes_leb (fst b) (fst a)) eqn:X; [|reflexivity].
        rewrite (bytes_leb_trans _ _ _ X Eac) in Ebc. discriminate. }
      rewrite Eac, Eba, Ebc. reflexivity.
    + rewrite Eac, Ebc, IH. reflexivity.
Qed.

Lemma sort_members_perm_unique {A} (l l' : list (bytes * A)) :
  Permutation l l' -> NoDup (map fst l) -> sort_members l = sort_members l'.
Proof.
  unfold sort_members. induction 1 as [| x l l' HP IH | x y l | l l' l'' HP1 IH1 HP2 IH2]; intro Hn.
  - reflexivity.
  - simpl. simpl in Hn. inversion Hn; subst. rewrite IH by assumption. reflexivity.
  - simpl. simpl in Hn. inversion Hn as [|? ? Hy Hn']; subst.
    apply insert_member_comm. intro E. apply Hy. left. symmetry. exact E.
  - rewrite IH1 by exact Hn. apply IH2.
    apply (Permutation_NoDup (l := map fst l)); [apply Permutation_map; exact HP1 | exact Hn].
Qed.

(* ---------- equal up to member order => equal normal forms ---------- *)
Lemma map_normalise_elems (l l' : list json) :
  Forall2 json_perm l l' ->
  Forall (fun v => forall v', json_perm v v' -> normalise v = normalise v') l ->
  map normalise l = map normalise l'.
Proof.
  induction 1 as [|x y l1 l2 Hxy HF IHF]; intro IH; [reflexivity|].
  inversion IH as [|? ? Hx Hl]; subst. simpl. rewrite (Hx y Hxy), (IHF Hl). reflexivity.
Qed.

Lemma map_normalise_members (m2 m' : list (bytes * json)) :
  Forall2 (fun a b => fst a = fst b /\ json_perm (snd a) (snd b)) m2 m' ->
  Forall (fun kv => forall v', json_perm (snd kv) v' -> normalise (snd kv) = normalise v') m2 ->
  map (on_snd normalise) m2 = map (on_snd normalise) m'.
Proof.
  induction 1 as [|x y l1 l2 [Hk Hxy] HF IHF]; intro IH; [reflexivity|].
  inversion IH as [|? ? Hx Hl]; subst. simpl. rewrite (IHF Hl). f_equal.
  unfold on_snd. rewrite Hk, (Hx _ Hxy). reflexivity.
Qed.

Theorem json_perm_equiv v : forall v', json_perm v v' -> jequiv v v'.
Proof.
  unfold jequiv.
  induction v as [| b | r | s | l IH | m IH] using json_ind'; intros v' H; inversion H; subst; try reflexivity.
  - cbn [normalise]. f_equal. assumption.
  - cbn [normalise]. f_equal. apply map_normalise_elems; assumption.
  - cbn [normalise]. f_equal.
    match goal with HP : Permutation m ?m2, HF : Forall2 _ ?m2 ?m' |- _ =>
      assert (Hmap : map (on_snd normalise) m2 = map (on_snd normalise) m');
      [apply map_normalise_members; [exact HF|] |]
    end.
    { rewrite Forall_forall in *. intros x Hx. apply IH.
      eapply Permutation_in; [apply Permutation_sym; eassumption | exact Hx]. }
    rewrite <- Hmap. apply sort_members_perm_unique.
    + apply Permutation_map. assumption.
    + rewrite map_map. simpl. assumption.
Qed.
