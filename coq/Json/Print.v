(* Canonical printer: the one Matrix canonical form of a JSON value.
   - members sorted by key bytes (UTF-8 byte order = code point order), stable
   - no insignificant whitespace
   - shortest escapes: two-character escapes for quote, backslash, b f n r t; other controls as \u00xx (lower-case hex), all
     other bytes raw
   - integer literals printed from their value (so -0 becomes 0); other number literals are
     passed through unchanged (Matrix canonical JSON defines integers only) *)
From Verif Require Import Lib.Bytes Json.Ast.
Open Scope N_scope.

Definition esc_byte (c : N) : bytes :=
  if c =? 34 then [92; 34]
  else if c =? 92 then [92; 92]
  else if c =? 8 then [92; 98]
  else if c =? 9 then [92; 116]
  else if c =? 10 then [92; 110]
  else if c =? 12 then [92; 102]
  else if c =? 13 then [92; 114]
  else if c <? 32 then [92; 117; 48; 48; hex_digit (c / 16); hex_digit (c mod 16)]
  else [c].

Definition print_string (s : bytes) : bytes := 34 :: flat_map esc_byte s ++ [34].

Definition print_number (raw : bytes) : bytes :=
  match num_int raw with
  | Some z => print_int z
  | None => raw
  end.

(* stable insertion sort of members by key *)
Fixpoint insert_member {A} (kv : bytes * A) (l : list (bytes * A)) : list (bytes * A) :=
  match l with
  | [] => [kv]
  | kv' :: l' => if bytes_leb (fst kv) (fst kv') then kv :: l else kv' :: insert_member kv l'
  end.

(* foldr so that equal keys keep their source order *)
Definition sort_members {A} (l : list (bytes * A)) : list (bytes * A) :=
  fold_right insert_member [] l.

Fixpoint canon_print (j : json) : bytes :=
  match j with
  | JNull => bs "null"
  | JBool true => bs "true"
  | JBool false => bs "false"
  | JNum raw => print_number raw
  | JStr s => print_string s
  | JArr l =>
      91 :: (fix go (l : list json) (first : bool) : bytes :=
               match l with
               | [] => []
               | v :: l' => (if first then [] else [44]) ++ canon_print v ++ go l' false
               end) l true ++ [93]
  | JObj m =>
      let printed := (fix go (m : list (bytes * json)) : list (bytes * bytes) :=
                        match m with
                        | [] => []
                        | (k, v) :: m' => (k, canon_print v) :: go m'
                        end) m in
      123 :: (fix emit (m : list (bytes * bytes)) (first : bool) : bytes :=
                match m with
                | [] => []
                | (k, pv) :: m' => (if first then [] else [44]) ++ print_string k ++ [58] ++ pv ++ emit m' false
                end) (sort_members printed) true ++ [125]
  end.

(* canonicalisation as a function on texts *)
From Verif Require Import Json.Parse.
Definition canonical (t : bytes) : option bytes := option_map canon_print (parse_json t).
