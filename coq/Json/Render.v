(* The JSON grammar, generatively: [Renders v t] says that the byte string t is one of the textual
   presentations of the value v (RFC 8259: any insignificant whitespace, any spelling of every
   string character, members in the order of the association list).  Texts with a lone surrogate
   escape are not renderings (ill-formed Unicode is outside the property's domain).
   Also: grammatical number literals, well-formed values, the normal form of a value. *)
From Verif Require Import Lib.Bytes Json.Ast Json.Parse Json.Print.
Open Scope N_scope.

(* ---------- induction principle for the nested type ---------- *)
Section JsonInd.
  Variable P : json -> Prop.
  Hypothesis Hnull : P JNull.
  Hypothesis Hbool : forall b, P (JBool b).
  Hypothesis Hnum : forall r, P (JNum r).
  Hypothesis Hstr : forall s, P (JStr s).
  Hypothesis Harr : forall l, Forall P l -> P (JArr l).
  Hypothesis Hobj : forall m, Forall (fun kv => P (snd kv)) m -> P (JObj m).

  Fixpoint json_ind' (j : json) : P j :=
    match j with
    | JNull => Hnull
    | JBool b => Hbool b
    | JNum r => Hnum r
    | JStr s => Hstr s
    | JArr l => Harr l ((fix go (l : list json) : Forall P l :=
                           match l with
                           | [] => Forall_nil _
                           | v :: l' => Forall_cons _ (json_ind' v) (go l')
                           end) l)
    | JObj m => Hobj m ((fix go (m : list (bytes * json)) : Forall (fun kv => P (snd kv)) m :=
                           match m with
                           | [] => Forall_nil _
                           | kv :: m' => Forall_cons _ (json_ind' (snd kv)) (go m')
                           end) m)
    end.
End JsonInd.

(* ---------- number literals (RFC 8259 section 6) ---------- *)
Definition digits (ds : bytes) : Prop := all_digits ds = true /\ ds <> [].

Definition int_part (ip : bytes) : Prop :=
  ip = [48] \/ exists d ds, ip = d :: ds /\ is_digit d = true /\ d <> 48 /\ all_digits ds = true.

Definition frac_part (fp : bytes) : Prop := fp = [] \/ exists fd, digits fd /\ fp = 46 :: fd.

Definition exp_part (ep : bytes) : Prop :=
  ep = [] \/ exists e sg ed, (e = 101 \/ e = 69) /\ (sg = [] \/ sg = [43] \/ sg = [45]) /\ digits ed
                            /\ ep = e :: sg ++ ed.

Definition num_wf (l : bytes) : Prop :=
  exists sign ip fp ep, l = sign ++ ip ++ fp ++ ep /\ (sign = [] \/ sign = [45])
                        /\ int_part ip /\ frac_part fp /\ exp_part ep.

(* what may follow a number literal: the end, or a byte that cannot continue it *)
Definition num_stop (rest : bytes) : Prop :=
  match rest with
  | [] => True
  | c :: _ => is_digit c = false /\ c <> 46 /\ c <> 101 /\ c <> 69
  end.

(* ---------- strings ---------- *)
Definition two_char (e : N) : option N :=
  if e =? 34 then Some 34 else if e =? 92 then Some 92 else if e =? 47 then Some 47
  else if e =? 98 then Some 8 else if e =? 102 then Some 12 else if e =? 110 then Some 10
  else if e =? 114 then Some 13 else if e =? 116 then Some 9 else None.

(* one spelling of one piece of the decoded string *)
Inductive StrChunk : bytes -> bytes -> Prop :=
| SC_raw : forall c, 32 <= c -> c <> 34 -> c <> 92 -> StrChunk [c] [c]
| SC_two : forall e d, two_char e = Some d -> StrChunk [d] [92; e]
| SC_u : forall a b c d cp,
    read_hex4 [a; b; c; d] = Some (cp, []) ->
    is_high_surrogate cp = false -> is_low_surrogate cp = false ->
    StrChunk (utf8_encode cp) [92; 117; a; b; c; d]
| SC_pair : forall a b c d a' b' c' d' hi lo,
    read_hex4 [a; b; c; d] = Some (hi, []) -> read_hex4 [a'; b'; c'; d'] = Some (lo, []) ->
    is_high_surrogate hi = true -> is_low_surrogate lo = true ->
    StrChunk (utf8_encode (65536 + (hi - 55296) * 1024 + (lo - 56320)))
             [92; 117; a; b; c; d; 92; 117; a'; b'; c'; d'].

Inductive StrBody : bytes -> bytes -> Prop :=
| SB_nil : StrBody [] []
| SB_cons : forall s1 t1 s t, StrChunk s1 t1 -> StrBody s t -> StrBody (s1 ++ s) (t1 ++ t).

(* ---------- values ---------- *)
Definition ws (w : bytes) : Prop := forallb is_ws w = true.

Inductive Renders : json -> bytes -> Prop :=
| R_null : Renders JNull lit_null
| R_true : Renders (JBool true) lit_true
| R_false : Renders (JBool false) lit_false
| R_num : forall l, num_wf l -> Renders (JNum l) l
| R_str : forall s body, StrBody s body -> Renders (JStr s) (34 :: body ++ [34])
| R_arr_empty : forall w, ws w -> Renders (JArr []) (91 :: w ++ [93])
| R_arr : forall vs parts, RendersElems vs parts -> Renders (JArr vs) (91 :: parts ++ [93])
| R_obj_empty : forall w, ws w -> Renders (JObj []) (123 :: w ++ [125])
| R_obj : forall kvs parts, RendersMembers kvs parts -> Renders (JObj kvs) (123 :: parts ++ [125])
with RendersElems : list json -> bytes -> Prop :=
| RE_one : forall v t w1 w2, ws w1 -> ws w2 -> Renders v t -> RendersElems [v] (w1 ++ t ++ w2)
| RE_cons : forall v t w1 w2 vs parts,
    ws w1 -> ws w2 -> Renders v t -> RendersElems vs parts ->
    RendersElems (v :: vs) (w1 ++ t ++ w2 ++ 44 :: parts)
with RendersMembers : list (bytes * json) -> bytes -> Prop :=
| RM_one : forall k kb v t w1 w2 w3 w4,
    ws w1 -> ws w2 -> ws w3 -> ws w4 -> StrBody k kb -> Renders v t ->
    RendersMembers [(k, v)] (w1 ++ 34 :: kb ++ 34 :: w2 ++ 58 :: w3 ++ t ++ w4)
| RM_cons : forall k kb v t w1 w2 w3 w4 kvs parts,
    ws w1 -> ws w2 -> ws w3 -> ws w4 -> StrBody k kb -> Renders v t -> RendersMembers kvs parts ->
    RendersMembers ((k, v) :: kvs) (w1 ++ 34 :: kb ++ 34 :: w2 ++ 58 :: w3 ++ t ++ w4 ++ 44 :: parts).

Scheme Renders_mind := Minimality for Renders Sort Prop
  with RendersElems_mind := Minimality for RendersElems Sort Prop
  with RendersMembers_mind := Minimality for RendersMembers Sort Prop.
Combined Scheme Renders_mutind from Renders_mind, RendersElems_mind, RendersMembers_mind.

(* a whole JSON text: a value with whitespace around it *)
Inductive RendersText : json -> bytes -> Prop :=
| RT : forall v t w1 w2, ws w1 -> ws w2 -> Renders v t -> RendersText v (w1 ++ t ++ w2).

(* ---------- well-formed values, normal form, equivalence ---------- *)
(* every number literal is grammatical *)
Fixpoint json_wf (j : json) : Prop :=
  match j with
  | JNum raw => num_wf raw
  | JArr l => (fix go (l : list json) : Prop :=
                 match l with [] => True | v :: l' => json_wf v /\ go l' end) l
  | JObj m => (fix go (m : list (bytes * json)) : Prop :=
                 match m with [] => True | kv :: m' => json_wf (snd kv) /\ go m' end) m
  | _ => True
  end.

Definition on_snd {A B} (f : A -> B) (kv : bytes * A) : bytes * B := (fst kv, f (snd kv)).

(* integer literals by value (so -0 is 0), members sorted by key (stably) at every level *)
Fixpoint normalise (j : json) : json :=
  match j with
  | JNum raw => JNum (print_number raw)
  | JArr l => JArr (map normalise l)
  | JObj m => JObj (sort_members (map (on_snd normalise) m))
  | _ => j
  end.

(* the same value: equal normal forms *)
Definition jequiv (v v' : json) : Prop := normalise v = normalise v'.
