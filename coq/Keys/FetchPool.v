(* C19: keyring.go DirectKeyFetcher.FetchKeys as a transition system.  Jobs (one per remote
   server name: the keys of the byServer map, hence distinct) wait in a closed channel; up to
   numWorkers goroutines each take a job, fetch that server's keys WITHOUT holding the lock
   (fetchKeysForServer, then fetchNotaryKeysForServer on failure; both failing = the job is
   skipped), then copy the per-server result into the shared results map under resultsMutex.
   The wait group makes FetchKeys return after every worker has left.
   A key of the result map is (server name, key id); values are opaque.
   Which goroutine runs a job does not matter for the result, so a state holds the jobs in
   flight, not worker identities.  No proofs in this file. *)
From Verif Require Import Lib.Bytes.
Open Scope N_scope.

Definition key := (bytes * bytes)%type.
Definition key_eqb (a b : key) : bool := bytes_eqb (fst a) (fst b) && bytes_eqb (snd a) (snd b).
Definition kmap := list (key * bytes).          (* newest binding first *)

Fixpoint mget (k : key) (m : kmap) : option bytes :=
  match m with
  | [] => None
  | (k', v) :: r => if key_eqb k k' then Some v else mget k r
  end.

(* for req, keys := range serverResults { results[req] = keys } *)
Definition merge (r : kmap) (m : kmap) : kmap := rev r ++ m.

Definition merge_all (init : kmap) (rs : list kmap) : kmap := fold_left (fun m r => merge r m) rs init.

Definition has (k : key) (r : kmap) : bool := match mget k r with Some _ => true | None => false end.

(* what one server's result map holds for k (a Go map: the last write for k) *)
Definition value_in (k : key) (r : kmap) : option bytes := mget k (rev r).

Section Pool.
  (* the outcome of the unlocked fetch for a server: None = both attempts failed *)
  Variable fetch : bytes -> option kmap.

  Record pstate := {
    queue : list bytes;               (* pending channel *)
    inflight : list bytes;            (* taken, not yet merged or skipped *)
    results : kmap;
    merged : list bytes               (* ghost: servers whose job is finished, in order *)
  }.

  Definition outcome_maps (servers : list bytes) : list kmap :=
    flat_map (fun s => match fetch s with Some r => [r] | None => [] end) servers.

  Inductive pstep : pstate -> pstate -> Prop :=
  | P_take : forall s q fl res mg,
      pstep {| queue := s :: q; inflight := fl; results := res; merged := mg |}
            {| queue := q; inflight := fl ++ [s]; results := res; merged := mg |}
  | P_merge : forall q fl1 s fl2 res mg r,
      fetch s = Some r ->
      pstep {| queue := q; inflight := fl1 ++ s :: fl2; results := res; merged := mg |}
            {| queue := q; inflight := fl1 ++ fl2; results := merge r res; merged := mg ++ [s] |}
  | P_skip : forall q fl1 s fl2 res mg,
      fetch s = None ->
      pstep {| queue := q; inflight := fl1 ++ s :: fl2; results := res; merged := mg |}
            {| queue := q; inflight := fl1 ++ fl2; results := res; merged := mg ++ [s] |}.

  Definition pinit (jobs : list bytes) (local : kmap) : pstate :=
    {| queue := jobs; inflight := []; results := local; merged := [] |}.

  Inductive preachable (jobs : list bytes) (local : kmap) : pstate -> Prop :=
  | PR_init : preachable jobs local (pinit jobs local)
  | PR_step : forall s s', preachable jobs local s -> pstep s s' -> preachable jobs local s'.

  (* wait.Wait() returns: nothing pending, nothing in flight *)
  Definition pfinal (s : pstate) : Prop := queue s = [] /\ inflight s = [].
End Pool.

(* sequential evaluation: one server after the other, in job order *)
Definition fetch_sequential (fetch : bytes -> option kmap) (jobs : list bytes) (local : kmap) : kmap :=
  merge_all local (outcome_maps fetch jobs).
