(* C19: the worker pool returns the union of the per-server successes, whatever the schedule. *)
From Coq Require Import Permutation.
From Verif Require Import Lib.Bytes Keys.FetchPool.
Open Scope N_scope.

Lemma mget_app k a b : mget k (a ++ b) = match mget k a with Some v => Some v | None => mget k b end.
Proof.
  induction a as [|[k' v] a IH]; simpl; [reflexivity|]. destruct (key_eqb k k'); [reflexivity|exact IH].
Qed.

Lemma mget_in k m v : mget k m = Some v -> exists k', In (k', v) m /\ key_eqb k k' = true.
Proof.
  induction m as [|[k' v'] m IH]; simpl; [discriminate|].
  destruct (key_eqb k k') eqn:E.
  - intro H; inversion H; subst. exists k'. auto.
  - intro H. destruct (IH H) as (k2 & Hin & Hk). exists k2. auto.
Qed.

Lemma mget_none_iff k m : mget k m = None <-> forall k' v, In (k', v) m -> key_eqb k k' = false.
Proof.
  induction m as [|[k' v'] m IH]; simpl.
  - split; [intros _ k' v []|reflexivity].
  - destruct (key_eqb k k') eqn:E.
    + split; [discriminate|]. intro H. specialize (H k' v' (or_introl eq_refl)). congruence.
    + rewrite IH. split.
      * intros H k2 v2 [Heq|Hin]; [inversion Heq; subst; exact E|eauto].
      * intros H k2 v2 Hin. eauto.
Qed.

(* membership of a key does not depend on the order inside one result *)
Lemma has_rev k r : has k (rev r) = has k r.
Proof.
  unfold has.
  destruct (mget k r) eqn:E1; destruct (mget k (rev r)) eqn:E2; try reflexivity; exfalso.
  - apply mget_in in E1 as (k' & Hin & Hk). rewrite mget_none_iff in E2.
    apply in_rev in Hin. rewrite (E2 _ _ Hin) in Hk. discriminate.
  - apply mget_in in E2 as (k' & Hin & Hk). rewrite mget_none_iff in E1.
    apply in_rev in Hin. rewrite (E1 _ _ Hin) in Hk. discriminate.
Qed.

Lemma value_in_has k r : has k r = true <-> exists v, value_in k r = Some v.
Proof.
  unfold value_in. rewrite <- has_rev. unfold has.
  destruct (mget k (rev r)); split; try discriminate; eauto. intros [v H]; discriminate.
Qed.

(* results of different servers never share a key *)
Inductive pairwise_disjoint : list kmap -> Prop :=
| PD_nil : pairwise_disjoint []
| PD_cons : forall r rs,
    (forall r' k, In r' rs -> has k r = true -> has k r' = false) ->
    pairwise_disjoint rs -> pairwise_disjoint (r :: rs).

(* the union: the value from the one result that has the key, else the initial map's *)
Definition union_at (k : key) (rs : list kmap) (init : kmap) (v : option bytes) : Prop :=
  (exists r, In r rs /\ has k r = true /\ v = value_in k r) \/
  ((forall r, In r rs -> has k r = false) /\ v = mget k init).

Lemma merge_all_union k : forall rs init,
  pairwise_disjoint rs -> union_at k rs init (mget k (merge_all init rs)).
Proof.
  induction rs as [|r rs IH]; intros init Hd.
  - right. split; [intros r []|reflexivity].
  - inversion Hd as [|? ? Hr Hd']; subst. simpl.
    destruct (IH (merge r init) Hd') as [(r' & Hin & Hh & Hv)|[Hnone Hv]].
    + left. exists r'. split; [right; exact Hin|auto].
    + unfold merge in Hv. rewrite mget_app in Hv. fold (value_in k r) in Hv.
      destruct (has k r) eqn:Eh.
      * left. exists r. split; [left; reflexivity|]. split; [exact Eh|].
        apply value_in_has in Eh as [v Ev]. rewrite Ev in Hv. rewrite Ev. exact Hv.
      * right. split.
        -- intros r' [E|Hin]; [subst; exact Eh|auto].
        -- destruct (value_in k r) eqn:Ev; [|exact Hv].
           assert (has k r = true) by (apply value_in_has; eauto). congruence.
Qed.

Lemma pairwise_disjoint_perm rs rs' :
  Permutation rs rs' -> pairwise_disjoint rs -> pairwise_disjoint rs'.
Proof.
  induction 1 as [|x l l' Hp IH|x y l|l l' l'' Hp1 IH1 Hp2 IH2]; intro Hd.
  - constructor.
  - inversion Hd as [|? ? Hx Hl]; subst. constructor; [|auto].
    intros r' k Hin. apply Hx. eapply Permutation_in; [apply Permutation_sym; exact Hp|exact Hin].
  - inversion Hd as [|? ? Hy Hl]; subst. inversion Hl as [|? ? Hx Hl']; subst.
    constructor.
    + intros r' k [E|Hin] Hh; [subst r'|eauto].
      destruct (has k y) eqn:Ey; [|reflexivity].
      rewrite (Hy x k (or_introl eq_refl) Ey) in Hh. discriminate.
    + constructor; [|exact Hl']. intros r' k Hin. apply Hy. right. exact Hin.
  - auto.
Qed.

Lemma union_at_perm k rs rs' init v :
  Permutation rs rs' -> union_at k rs' init v -> union_at k rs init v.
Proof.
  intros Hp [(r & Hin & H)|[Hn Hv]].
  - left. exists r. split; [eapply Permutation_in; [apply Permutation_sym; exact Hp|exact Hin]|exact H].
  - right. split; [|exact Hv]. intros r Hin. apply Hn. eapply Permutation_in; eauto.
Qed.

(* any merge order gives the union *)
Theorem any_merge_order_gives_union rs rs' init k :
  pairwise_disjoint rs -> Permutation rs rs' ->
  union_at k rs init (mget k (merge_all init rs')).
Proof.
  intros Hd Hp. eapply union_at_perm; [exact Hp|].
  apply merge_all_union. eapply pairwise_disjoint_perm; eauto.
Qed.

(* the union is a function of the set of results: two maps that are both unions agree *)
Lemma union_at_functional k rs init v v' :
  pairwise_disjoint rs -> union_at k rs init v -> union_at k rs init v' -> v = v'.
Proof.
  induction rs as [|r rs IH]; intros Hd H H'.
  - destruct H as [(r & [] & _)|[_ ->]]. destruct H' as [(r & [] & _)|[_ ->]]. reflexivity.
  - inversion Hd as [|? ? Hr Hd']; subst.
    destruct H as [(a & Ha & Hha & ->)|[Hn ->]]; destruct H' as [(b & Hb & Hhb & ->)|[Hn' ->]].
    + destruct Ha as [<-|Ha]; destruct Hb as [<-|Hb]; try reflexivity.
      * rewrite (Hr b k Hb Hha) in Hhb. discriminate.
      * rewrite (Hr a k Ha Hhb) in Hha. discriminate.
      * apply IH; [exact Hd'| |]; left; eauto.
    + rewrite (Hn' a Ha) in Hha. discriminate.
    + rewrite (Hn b Hb) in Hhb. discriminate.
    + reflexivity.
Qed.

(* ---------- why the per-server results are disjoint ---------- *)
(* CheckKeys pins ServerName: every key of the result for server s has s as its first part *)
Definition pinned (fetch : bytes -> option kmap) : Prop :=
  forall s r k v, fetch s = Some r -> In (k, v) r -> fst k = s.

Lemma has_pinned fetch s r k : pinned fetch -> fetch s = Some r -> has k r = true -> fst k = s.
Proof.
  intros Hp Hf Hh. unfold has in Hh. destruct (mget k r) eqn:E; [|discriminate].
  apply mget_in in E as (k' & Hin & Hk). unfold key_eqb in Hk.
  apply andb_true_iff in Hk as [Hk _]. apply bytes_eqb_eq in Hk. rewrite Hk. eapply Hp; eauto.
Qed.

Lemma outcome_maps_in fetch servers r :
  In r (outcome_maps fetch servers) -> exists s, In s servers /\ fetch s = Some r.
Proof.
  unfold outcome_maps. intro H. apply in_flat_map in H as (s & Hs & Hr).
  destruct (fetch s) eqn:E; [|contradiction]. destruct Hr as [<-|[]]. eauto.
Qed.

Lemma pinned_disjoint fetch servers :
  pinned fetch -> NoDup servers -> pairwise_disjoint (outcome_maps fetch servers).
Proof.
  intros Hp. induction servers as [|s l IH]; intro Hn; [constructor|].
  inversion Hn as [|? ? Hni Hnd]; subst. unfold outcome_maps. simpl.
  destruct (fetch s) as [r|] eqn:Ef; simpl; [|apply IH; exact Hnd].
  constructor; [|apply IH; exact Hnd].
  intros r' k Hin Hh. apply outcome_maps_in in Hin as (s' & Hs' & Hf').
  destruct (has k r') eqn:E; [|reflexivity]. exfalso.
  pose proof (has_pinned _ _ _ _ Hp Ef Hh). pose proof (has_pinned _ _ _ _ Hp Hf' E).
  apply Hni. congruence.
Qed.

Lemma outcome_maps_app fetch a b : outcome_maps fetch (a ++ b) = outcome_maps fetch a ++ outcome_maps fetch b.
Proof. unfold outcome_maps. apply flat_map_app. Qed.

Lemma outcome_maps_perm fetch a b : Permutation a b -> Permutation (outcome_maps fetch a) (outcome_maps fetch b).
Proof.
  unfold outcome_maps. induction 1; simpl.
  - constructor.
  - apply Permutation_app_head. assumption.
  - apply Permutation_app_swap_app.
  - eapply Permutation_trans; eauto.
Qed.

(* ---------- the transition system ---------- *)
Section PoolInv.
  Variable fetch : bytes -> option kmap.
  Variable jobs : list bytes.
  Variable local : kmap.

  Definition pinv (s : pstate) : Prop :=
    Permutation (merged s ++ inflight s ++ queue s) jobs /\
    results s = merge_all local (outcome_maps fetch (merged s)).

  Lemma merge_all_snoc init rs r : merge_all init (rs ++ [r]) = merge r (merge_all init rs).
  Proof. unfold merge_all. rewrite fold_left_app. reflexivity. Qed.

  Lemma pinv_step s s' : pinv s -> pstep fetch s s' -> pinv s'.
  Proof.
    intros [Hp Hr] H. inversion H; subst; split; cbn [merged inflight queue results] in *.
    - rewrite <- Hp. rewrite <- !app_assoc. simpl. reflexivity.
    - exact Hr.
    - rewrite <- Hp. rewrite <- !app_assoc. simpl.
      apply Permutation_app_head. apply Permutation_middle.
    - rewrite outcome_maps_app. unfold outcome_maps at 2. simpl.
      match goal with Hf : fetch _ = Some _ |- _ => rewrite Hf end. simpl.
      rewrite merge_all_snoc, Hr. reflexivity.
    - rewrite <- Hp. rewrite <- !app_assoc. simpl.
      apply Permutation_app_head. apply Permutation_middle.
    - rewrite outcome_maps_app. unfold outcome_maps at 2. simpl.
      match goal with Hf : fetch _ = None |- _ => rewrite Hf end. simpl.
      rewrite app_nil_r. exact Hr.
  Qed.

  Lemma pinv_reachable s : preachable fetch jobs local s -> pinv s.
  Proof.
    induction 1; [|eapply pinv_step; eauto].
    split; simpl; [reflexivity|reflexivity].
  Qed.

  (* every complete run, whatever its schedule, returns the union of the per-server successes
     over the initial (local-server) entries: the map sequential evaluation returns *)
  Theorem pool_result_is_union s k :
    pinned fetch -> NoDup jobs -> preachable fetch jobs local s -> pfinal s ->
    union_at k (outcome_maps fetch jobs) local (mget k (results s)) /\
    mget k (results s) = mget k (fetch_sequential fetch jobs local).
  Proof.
    intros Hpin Hnd Hr [Hq Hf]. destruct (pinv_reachable s Hr) as [Hp Hres].
    rewrite Hq, Hf, !app_nil_r in Hp.
    assert (Hd : pairwise_disjoint (outcome_maps fetch jobs)) by (apply pinned_disjoint; assumption).
    assert (Hu : union_at k (outcome_maps fetch jobs) local (mget k (results s))).
    { rewrite Hres. apply any_merge_order_gives_union; [exact Hd|].
      apply outcome_maps_perm. apply Permutation_sym. exact Hp. }
    split; [exact Hu|].
    eapply union_at_functional; [exact Hd|exact Hu|].
    unfold fetch_sequential. apply merge_all_union. exact Hd.
  Qed.

  (* progress: a state that is not final can move; the number of unfinished jobs decreases
     with every merge / skip and never increases, so every run ends (no deadlock: one lock,
     taken for the merge only, never while waiting for anything) *)
  Theorem pool_progress s : ~ pfinal s -> exists s', pstep fetch s s'.
  Proof.
    destruct s as [q fl res mg]. unfold pfinal. simpl. intro H.
    destruct fl as [|x fl].
    - destruct q as [|y q]; [exfalso; apply H; auto|].
      eexists. apply P_take.
    - destruct (fetch x) as [r|] eqn:E.
      + eexists. apply (P_merge fetch q [] x fl res mg r E).
      + eexists. apply (P_skip fetch q [] x fl res mg E).
  Qed.

  Definition unfinished (s : pstate) : nat := 2 * length (queue s) + length (inflight s).

  Theorem pool_terminates s s' : pstep fetch s s' -> (unfinished s' < unfinished s)%nat.
  Proof.
    intro H. inversion H; subst; unfold unfinished; simpl; rewrite ?app_length; simpl; lia.
  Qed.
End PoolInv.
