(* Model of keys.go: ServerKeys.UnmarshalJSON (as repaired, finding F64): the four members of a key
   document are taken by their EXACT names from the top-level object (the last one of repeated
   members, as a Go map of raw members keeps it) and decoded on their own; members with any other
   name - case variants and names that only fold to these, like the long-s spelling of server_name -
   play no part.  A decoding error of one of the four members is an error of the document.

   Class modelled: JSON texts the reference parser and encoding/json agree on; inside verify_keys
   and old_verify_keys the inner members key and expired_ts by their exact names (encoding/json still
   folds those; they are under the control of the server that signs the document). *)
From Verif Require Import Lib.Bytes Json.Ast Json.Parse Ident.Base64 Keys.Model Keys.ServerKeys.
Open Scope Z_scope.

Definition m_server_name : bytes := bs "server_name".
Definition m_verify_keys : bytes := bs "verify_keys".
Definition m_valid_until_ts : bytes := bs "valid_until_ts".
Definition m_old_verify_keys : bytes := bs "old_verify_keys".
Definition doc_members : list bytes := [m_server_name; m_verify_keys; m_valid_until_ts; m_old_verify_keys].

(* uint64 target: absent or null leaves 0; otherwise a plain non-negative integer literal below 2^64 *)
Definition dec_uint64 (j : option json) : option Z :=
  match j with
  | None => Some 0
  | Some JNull => Some 0
  | Some (JNum raw) =>
      match raw with
      | [] => None
      | _ => if all_digits raw then
               match parse_dec raw with
               | Some n => if Z.of_N n <? two64 then Some (Z.of_N n) else None
               | None => None
               end
             else None
      end
  | Some _ => None
  end.

Definition dec_name (j : option json) : option bytes :=
  match j with
  | None => Some []
  | Some JNull => Some []
  | Some (JStr s) => Some s
  | Some _ => None
  end.

(* spec.Base64Bytes target *)
Definition dec_key (j : option json) : option bytes :=
  match j with
  | None => Some []
  | Some JNull => Some []
  | Some (JStr s) => base64bytes_decode s
  | Some _ => None
  end.

Definition dec_verify_key (v : json) : option bytes :=
  match v with
  | JNull => Some []
  | JObj m => dec_key (assoc_last (bs "key") m)
  | _ => None
  end.

Definition dec_old_key (v : json) : option (bytes * Z) :=
  match v with
  | JNull => Some ([], 0)
  | JObj m =>
      match dec_key (assoc_last (bs "key") m), dec_uint64 (assoc_last (bs "expired_ts") m) with
      | Some k, Some e => Some (k, e)
      | _, _ => None
      end
  | _ => None
  end.

(* a Go map built member by member: a repeated key id keeps the last value; kept sorted by key id *)
Fixpoint binsert {A} (k : bytes) (v : A) (m : list (bytes * A)) : list (bytes * A) :=
  match m with
  | [] => [(k, v)]
  | (k', v') :: r =>
      match bytes_cmp k k' with
      | Eq => (k, v) :: r
      | Lt => (k, v) :: m
      | Gt => (k', v') :: binsert k v r
      end
  end.

Fixpoint dec_entries {A} (f : json -> option A) (m : list (bytes * json)) (acc : list (bytes * A))
  : option (list (bytes * A)) :=
  match m with
  | [] => Some acc
  | (k, v) :: r => match f v with Some a => dec_entries f r (binsert k a acc) | None => None end
  end.

Definition dec_map {A} (f : json -> option A) (j : option json) : option (list (bytes * A)) :=
  match j with
  | None => Some []
  | Some JNull => Some []
  | Some (JObj m) => dec_entries f m []
  | Some _ => None
  end.

Record key_doc := {
  kd_server : bytes; kd_verify : list (bytes * bytes); kd_valid_until : Z;
  kd_old : list (bytes * (bytes * Z))
}.

(* the document as a function of its top-level members *)
Definition doc_of_members (top : list (bytes * json)) : option key_doc :=
  match dec_name (assoc_last m_server_name top),
        dec_map dec_verify_key (assoc_last m_verify_keys top),
        dec_uint64 (assoc_last m_valid_until_ts top),
        dec_map dec_old_key (assoc_last m_old_verify_keys top) with
  | Some s, Some v, Some t, Some o =>
      Some {| kd_server := s; kd_verify := v; kd_valid_until := t; kd_old := o |}
  | _, _, _, _ => None
  end.

(* the top-level members of a document: an object, or null (which decodes to nothing) *)
Definition doc_top (raw : bytes) : option (list (bytes * json)) :=
  match parse_json raw with
  | Some (JObj top) => Some top
  | Some JNull => Some []
  | _ => None
  end.

Definition parse_key_doc (raw : bytes) : option key_doc :=
  match doc_top raw with Some top => doc_of_members top | None => None end.

(* ServerKeys = the decoded fields + the raw text *)
Definition server_keys_of (raw : bytes) : option (server_keys bytes) :=
  match parse_key_doc raw with
  | Some d => Some {| sk_server := kd_server d; sk_verify := kd_verify d;
                      sk_valid_until := kd_valid_until d; sk_old := kd_old d; sk_raw := raw |}
  | None => None
  end.

(* a KeyClient decodes what it receives: one undecodable document fails the whole answer *)
Fixpoint all_server_keys (raws : list bytes) : option (list (server_keys bytes)) :=
  match raws with
  | [] => Some []
  | r :: rest =>
      match server_keys_of r, all_server_keys rest with
      | Some d, Some ds => Some (d :: ds)
      | _, _ => None
      end
  end.
