(* Proofs about Keys/KeyDoc.v (exact member names of key documents) and their consequences for
   the two library fetchers when the KeyClient hands over decoded raw documents. *)
From Verif Require Import Lib.Bytes Json.Ast Json.Parse Keys.Model Keys.Spec Keys.MapFacts
     Keys.ServerKeys Keys.ServerKeysProofs Keys.KeyDoc.
Open Scope Z_scope.

(* ---------- only the four exact names matter ---------- *)
Lemma doc_of_members_ext top top' :
  (forall n, In n doc_members -> assoc_last n top = assoc_last n top') ->
  doc_of_members top = doc_of_members top'.
Proof.
  intro H. unfold doc_of_members.
  rewrite (H m_server_name), (H m_verify_keys), (H m_valid_until_ts), (H m_old_verify_keys);
    [reflexivity| | | |]; unfold doc_members; simpl; auto.
Qed.

Lemma assoc_last_acc_skip {A} (n k : bytes) (v : A) top1 : forall top2 acc,
  k <> n -> assoc_last_acc n (top1 ++ (k, v) :: top2) acc = assoc_last_acc n (top1 ++ top2) acc.
Proof.
  induction top1 as [|[k1 v1] top1 IH]; intros top2 acc N; simpl.
  - destruct (bytes_eqb n k) eqn:E; [apply bytes_eqb_eq in E; congruence|reflexivity].
  - apply IH. exact N.
Qed.

(* a member under any other name - a case variant, a name that merely folds to one of the four -
   can be added or removed anywhere without changing what the document decodes to *)
Lemma other_member_ignored top1 k v top2 :
  ~ In k doc_members -> doc_of_members (top1 ++ (k, v) :: top2) = doc_of_members (top1 ++ top2).
Proof.
  intro N. apply doc_of_members_ext. intros n Hn. unfold assoc_last.
  apply assoc_last_acc_skip. intro E; subst. contradiction.
Qed.

Lemma doc_server_exact top d :
  doc_of_members top = Some d -> dec_name (assoc_last m_server_name top) = Some (kd_server d).
Proof.
  unfold doc_of_members.
  destruct (dec_name (assoc_last m_server_name top)) as [s|]; [|discriminate].
  destruct (dec_map dec_verify_key (assoc_last m_verify_keys top)); [|discriminate].
  destruct (dec_uint64 (assoc_last m_valid_until_ts top)); [|discriminate].
  destruct (dec_map dec_old_key (assoc_last m_old_verify_keys top)); [|discriminate].
  intro H; inversion H; reflexivity.
Qed.

(* the server a decoded document names is the value of its member spelled exactly server_name *)
Definition names_server_exactly (raw server : bytes) : Prop :=
  exists top, doc_top raw = Some top /\ dec_name (assoc_last m_server_name top) = Some server.

Lemma server_keys_of_spec raw d :
  server_keys_of raw = Some d -> sk_raw d = raw /\ names_server_exactly raw (sk_server d).
Proof.
  unfold server_keys_of, parse_key_doc.
  destruct (doc_top raw) as [top|] eqn:ET; [|discriminate].
  destruct (doc_of_members top) as [kd|] eqn:ED; [|discriminate].
  intro H; inversion H; subst; simpl. split; [reflexivity|].
  exists top. split; [exact ET|]. apply doc_server_exact. exact ED.
Qed.

Lemma all_server_keys_In raws : forall ds d,
  all_server_keys raws = Some ds -> In d ds -> exists raw, In raw raws /\ server_keys_of raw = Some d.
Proof.
  induction raws as [|r rest IH]; intros ds d H Hin; simpl in H.
  - inversion H; subst. destruct Hin.
  - destruct (server_keys_of r) as [d0|] eqn:E0; [|discriminate].
    destruct (all_server_keys rest) as [ds0|] eqn:E1; [|discriminate].
    inversion H; subst. destruct Hin as [<-|Hin].
    + exists r. split; [left; reflexivity|exact E0].
    + destruct (IH ds0 d eq_refl Hin) as [raw [Hr Hs]]. exists raw. split; [right; exact Hr|exact Hs].
Qed.

Section RawClient.
  Variable kids_of : bytes -> bytes -> option (list bytes).
  Variable vj : bytes -> bytes -> bytes -> bytes -> bool.
  Variable get_raw : bytes -> option bytes.                      (* GET /_matrix/key/v2/server *)
  Variable lookup_raw : bytes -> kmap Z -> option (list bytes).  (* POST /_matrix/key/v2/query *)

  Definition get_decoded (server : bytes) : option (server_keys bytes) :=
    match get_raw server with Some raw => server_keys_of raw | None => None end.
  Definition lookup_decoded (server : bytes) (asked : kmap Z) : option (list (server_keys bytes)) :=
    match lookup_raw server asked with Some raws => all_server_keys raws | None => None end.

  (* a key the perspective fetcher returns for a server comes from a raw document the notary sent
     that names that server by the member spelled exactly server_name, that the notary signed under
     a key id we hold its key for, that is about a requested server, and that passes CheckKeys *)
  Lemma perspective_fetched_key pname pkeys asked res k r :
    perspective_fetch bytes kids_of vj lookup_decoded pname pkeys asked = Some res -> In (k, r) res ->
    exists raws raw d,
      lookup_raw pname asked = Some raws /\ In raw raws /\ server_keys_of raw = Some d /\
      names_server_exactly raw (fst k) /\
      (exists kid t, In ((fst k, kid), t) asked) /\
      (exists kids kid key, kids_of pname raw = Some kids /\ In kid kids /\
                            assoc_first kid pkeys = Some key /\ vj pname kid key raw = true) /\
      ck_all (check_keys bytes vj (fst k) fetcher_check_now d) = true /\
      entry_from bytes d k r.
  Proof.
    intros H Hin.
    destruct (perspective_fetch_requested bytes kids_of vj lookup_decoded pname pkeys asked res k r H Hin) as [kid0 [t0 Hreq]].
    apply perspective_fetch_spec in H. destruct H as [docs [HL [_ H]]].
    apply H in Hin. destruct Hin as [d [Hd [[HN [HR HC]] He]]].
    unfold lookup_decoded in HL. destruct (lookup_raw pname asked) as [raws|] eqn:ER; [|discriminate].
    destruct (all_server_keys_In raws docs d HL Hd) as [raw [Hraw Hs]].
    destruct (server_keys_of_spec raw d Hs) as [Eraw Hname].
    assert (Ek : fst k = sk_server d) by (destruct He as [E _]; exact E).
    exists raws, raw, d. split; [reflexivity|]. split; [exact Hraw|]. split; [exact Hs|].
    rewrite Ek. split; [exact Hname|]. split; [rewrite <- Ek; eauto|].
    split; [rewrite <- Eraw; exact HN|]. split; [exact HC|exact He].
  Qed.

  (* the same for the direct fetcher: the local key, or a raw document fetched from that server (or
     from it as its own notary) that names that server exactly and passes CheckKeys for it *)
  Lemma direct_fetched_key is_local local_key now_ts asked k r :
    In (k, r) (direct_fetch bytes vj get_decoded lookup_decoded is_local local_key now_ts asked) ->
    (is_local (fst k) = true /\ mhas k asked = true /\
     r = {| pk_key := local_key; pk_expired := 0; pk_valid_until := local_key_valid_until |})
    \/ (exists raw d,
          is_local (fst k) = false /\
          (get_raw (fst k) = Some raw \/
           exists raws, lookup_raw (fst k) [((fst k, []), now_ts)] = Some raws /\ In raw raws) /\
          server_keys_of raw = Some d /\ names_server_exactly raw (fst k) /\
          ck_all (check_keys bytes vj (fst k) fetcher_check_now d) = true /\ entry_from bytes d k r).
  Proof.
    intro Hin. apply direct_fetch_spec in Hin. destruct Hin as [H|[d [Hl [[Hsrc HC] He]]]]; [left; exact H|].
    right.
    assert (Ek : fst k = sk_server d) by (destruct He as [E _]; exact E).
    destruct Hsrc as [Hg|[all [HL [Hd _]]]].
    - unfold get_decoded in Hg. destruct (get_raw (fst k)) as [raw|] eqn:EG; [|discriminate].
      destruct (server_keys_of_spec raw d Hg) as [_ Hname].
      exists raw, d. split; [exact Hl|]. split; [left; reflexivity|]. split; [exact Hg|].
      split; [rewrite Ek; exact Hname|]. split; assumption.
    - unfold lookup_decoded in HL.
      destruct (lookup_raw (fst k) [((fst k, []), now_ts)]) as [raws|] eqn:ER; [|discriminate].
      destruct (all_server_keys_In raws all d HL Hd) as [raw [Hraw Hs]].
      destruct (server_keys_of_spec raw d Hs) as [_ Hname].
      exists raw, d. split; [exact Hl|]. split; [right; exists raws; auto|]. split; [exact Hs|].
      split; [rewrite Ek; exact Hname|]. split; assumption.
  Qed.
End RawClient.
