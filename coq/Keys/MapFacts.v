(* Facts about the (server, key id)-keyed association lists of Keys/Model.v and about the
   timestamp conversions. *)
From Verif Require Import Lib.Bytes Keys.Model Keys.Spec.
Open Scope Z_scope.

Lemma skey_cmp_eq a b : skey_cmp a b = Eq <-> a = b.
Proof.
  destruct a as [a1 a2], b as [b1 b2]. unfold skey_cmp; simpl. split.
  - destruct (bytes_cmp a1 b1) eqn:E1; try discriminate. intro E2.
    apply bytes_cmp_eq in E1, E2. subst; reflexivity.
  - intro H; inversion H; subst.
    rewrite (proj2 (bytes_cmp_eq b1 b1) eq_refl). apply bytes_cmp_eq; reflexivity.
Qed.

Lemma skey_eqb_eq a b : skey_eqb a b = true <-> a = b.
Proof.
  unfold skey_eqb. rewrite <- skey_cmp_eq. destruct (skey_cmp a b); split; congruence.
Qed.

Lemma skey_eqb_refl a : skey_eqb a a = true.
Proof. apply skey_eqb_eq; reflexivity. Qed.

Lemma skey_eqb_neq a b : skey_eqb a b = false <-> a <> b.
Proof.
  split.
  - intros H E. apply skey_eqb_eq in E. congruence.
  - intro H. destruct (skey_eqb a b) eqn:E; [|reflexivity]. apply skey_eqb_eq in E. contradiction.
Qed.

Lemma skey_eq_dec (a b : skey) : {a = b} + {a <> b}.
Proof.
  destruct (skey_eqb a b) eqn:E.
  - left; apply skey_eqb_eq; exact E.
  - right; apply skey_eqb_neq; exact E.
Qed.

Section Maps.
  Context {V : Type}.
  Implicit Types (m : kmap V) (k : skey) (v : V).

  Lemma mfind_minsert_same k v m : mfind k (minsert k v m) = Some v.
  Proof.
    induction m as [|[k' v'] m IH]; simpl.
    - rewrite skey_eqb_refl; reflexivity.
    - destruct (skey_cmp k k') eqn:E; simpl.
      + rewrite skey_eqb_refl; reflexivity.
      + rewrite skey_eqb_refl; reflexivity.
      + unfold skey_eqb at 1. rewrite E. exact IH.
  Qed.

  Lemma mfind_minsert_other k k2 v m : k2 <> k -> mfind k2 (minsert k v m) = mfind k2 m.
  Proof.
    intro N. induction m as [|[k' v'] m IH]; simpl.
    - apply skey_eqb_neq in N. rewrite N; reflexivity.
    - destruct (skey_cmp k k') eqn:E; simpl.
      + apply skey_cmp_eq in E; subst k'. apply skey_eqb_neq in N. rewrite N; reflexivity.
      + apply skey_eqb_neq in N. rewrite N; reflexivity.
      + rewrite IH; reflexivity.
  Qed.

  Lemma mfind_mremove_same k m : mfind k (mremove k m) = None.
  Proof.
    induction m as [|[k' v'] m IH]; simpl; [reflexivity|].
    destruct (skey_eqb k k') eqn:E; simpl; [exact IH|]. rewrite E. exact IH.
  Qed.

  Lemma mfind_mremove_other k k2 m : k2 <> k -> mfind k2 (mremove k m) = mfind k2 m.
  Proof.
    intro N. induction m as [|[k' v'] m IH]; simpl; [reflexivity|].
    destruct (skey_eqb k k') eqn:E; simpl.
    - apply skey_eqb_eq in E; subst k'. apply skey_eqb_neq in N. rewrite N. exact IH.
    - rewrite IH; reflexivity.
  Qed.

  Lemma mfind_In k v m : mfind k m = Some v -> In (k, v) m.
  Proof.
    induction m as [|[k' v'] m IH]; simpl; [discriminate|].
    destruct (skey_eqb k k') eqn:E.
    - intro H; inversion H; subst. apply skey_eqb_eq in E; subst. left; reflexivity.
    - intro H; right; auto.
  Qed.

  Lemma In_mfind_nodup k v m : NoDup (map fst m) -> In (k, v) m -> mfind k m = Some v.
  Proof.
    induction m as [|[k' v'] m IH]; simpl; [tauto|].
    intros ND [H|H].
    - inversion H; subst. rewrite skey_eqb_refl; reflexivity.
    - inversion ND; subst. destruct (skey_eqb k k') eqn:E.
      + apply skey_eqb_eq in E; subst k'. exfalso. apply H2. apply (in_map fst) in H. exact H.
      + auto.
  Qed.

  Lemma mhas_minsert_same k v m : mhas k (minsert k v m) = true.
  Proof. unfold mhas. rewrite mfind_minsert_same; reflexivity. Qed.
  Lemma mhas_minsert_other k k2 v m : k2 <> k -> mhas k2 (minsert k v m) = mhas k2 m.
  Proof. intro N. unfold mhas. rewrite mfind_minsert_other by exact N; reflexivity. Qed.
  Lemma mhas_mremove_same k m : mhas k (mremove k m) = false.
  Proof. unfold mhas. rewrite mfind_mremove_same; reflexivity. Qed.
  Lemma mhas_mremove_other k k2 m : k2 <> k -> mhas k2 (mremove k m) = mhas k2 m.
  Proof. intro N. unfold mhas. rewrite mfind_mremove_other by exact N; reflexivity. Qed.

  (* removing never adds *)
  Lemma mhas_mremove_le k k2 m : mhas k2 (mremove k m) = true -> mhas k2 m = true.
  Proof.
    destruct (skey_eq_dec k2 k) as [->|N].
    - rewrite mhas_mremove_same; discriminate.
    - rewrite mhas_mremove_other by exact N; tauto.
  Qed.

  Lemma mhas_true k m : mhas k m = true <-> exists v, mfind k m = Some v.
  Proof.
    unfold mhas. destruct (mfind k m); split; try eauto; try discriminate.
    intros [v H]; discriminate.
  Qed.

  Lemma mhas_nil k : mhas k (@nil (skey * V)) = false.
  Proof. reflexivity. Qed.
End Maps.

(* ---------- timestamps ---------- *)
Lemma ts_time_ms ts : ts_time ts = to_int64 ts * 1000000.
Proof.
  unfold ts_time. set (s := to_int64 ts).
  pose proof (Z.quot_rem' s 1000) as H. lia.
Qed.

Lemma pow_literals : p63 = 2 ^ 63 /\ p64 = 2 ^ 64.
Proof. split; vm_compute; reflexivity. Qed.

Lemma ts_time_signed ts : ts_time ts = signed_ms ts * 1000000.
Proof.
  rewrite ts_time_ms. unfold to_int64, signed_ms. unfold two63, two64, p63, p64. reflexivity.
Qed.

Lemma seven_days_ns_ms : seven_days_ns = seven_days_ms * 1000000.
Proof. reflexivity. Qed.

Lemma strict_check_spec now atts vu :
  strict_check now atts vu =
  negb (vu =? 0) && (signed_ms atts <=? signed_ms vu)
  && (signed_ms atts * 1000000 <=? now + seven_days_ms * 1000000).
Proof.
  unfold strict_check, public_key_not_valid. destruct (vu =? 0) eqn:E; [reflexivity|].
  rewrite (ts_time_signed vu), (ts_time_signed atts), seven_days_ns_ms.
  set (a := signed_ms atts). set (v := signed_ms vu). set (c := seven_days_ms * 1000000).
  destruct (Z.gtb_spec (v * 1000000) (now + c));
    match goal with |- context [?x >? ?y] => destruct (Z.gtb_spec x y) end;
    destruct (Z.leb_spec a v); destruct (Z.leb_spec (a * 1000000) (now + c));
    cbn [negb andb]; try reflexivity; lia.
Qed.

Definition rule_strict (rl : rule) : bool := match rl with Strict => true | Lenient => false end.

Lemma was_valid_at_eq_spec now r atts rl :
  was_valid_at now r atts rl = valid_at_spec (rule_strict rl) now (pk_expired r) (pk_valid_until r) atts.
Proof.
  unfold was_valid_at, valid_at_spec, public_key_not_expired.
  destruct (negb (pk_expired r =? 0)); [reflexivity|].
  destruct rl; simpl; [|reflexivity]. apply strict_check_spec.
Qed.
