(* Facts about the (server, key id)-keyed association lists of Keys/Model.v and about the
   timestamp conversions. *)
From Verif Require Import Lib.Bytes Keys.Model Keys.Spec.
Open Scope Z_scope.

Lemma skey_cmp_eq a b : skey_cmp a b = Eq <-> a = b.
Proof.
  destruct a as [a1 a2], b as [b1 b2]. unfold skey_cmp; simpl. split.
  - destruct (bytes_cmp a1 b1) eqn:E1; try discriminate. intro E2.
    apply bytes_cmp_eq in E1, E2. subst; reflexivity.
  - intro H; inversion H; subst.
    rewrite (proj2 (bytes_cmp_eq b1 b1) eq_refl). apply bytes_cmp_eq; reflexivity.
Qed.

Lemma skey_eqb_eq a b : skey_eqb a b = true <-> a = b.
Proof.
  unfold skey_eqb. rewrite <- skey_cmp_eq. destruct (skey_cmp a b); split; congruence.
Qed.

Lemma skey_eqb_refl a : skey_eqb a a = true.
Proof. apply skey_eqb_eq; reflexivity. Qed.

Lemma skey_eqb_neq a b : skey_eqb a b = false <-> a <> b.
Proof.
  split.
  - intros H E. apply skey_eqb_eq in E. congruence.
  - intro H. destruct (skey_eqb a b) eqn:E; [|reflexivity]. apply skey_eqb_eq in E. contradiction.
Qed.

Lemma skey_eq_dec (a b : skey) : {a = b} + {a <> b}.
Proof.
  destruct (skey_eqb a b) eqn:E.
  - left; apply skey_eqb_eq; exact E.
  - right; apply skey_eqb_neq; exact E.
Qed.

Section Maps.
  Context {V : Type}.
  Implicit Types (m : kmap V) (k : skey) (v : V).

  Lemma mfind_minsert_same k v m : mfind k (minsert k v m) = Some v.
  Proof.
    induction m as [|[k' v'] m IH]; simpl.
    - rewrite skey_eqb_refl; reflexivity.
    - destruct (skey_cmp k k') eqn:E; simpl.
      + rewrite skey_eqb_refl; reflexivity.
      + rewrite skey_eqb_refl; reflexivity.
      + unfold skey_eqb at 1. rewrite E. exact IH.
  Qed.

  Lemma mfind_minsert_other k k2 v m : k2 <> k -> mfind k2 (minsert k v m) = mfind k2 m.
  Proof.
    intro N. induction m as [|[k' v'] m IH]; simpl.
    - apply skey_eqb_neq in N. rewrite N; reflexivity.
    - destruct (skey_cmp k k') eqn:E; simpl.
      + apply skey_cmp_eq in E; subst k'. apply skey_eqb_neq in N. rewrite N; reflexivity.
      + apply skey_eqb_neq in N. rewrite N; reflexivity.
      + rewrite IH; reflexivity.
  Qed.

  Lemma mfind_mremove_same k m : mfind k (mremove k m) = None.
  Proof.
    induction m as [|[k' v'] m IH]; simpl; [reflexivity|].
    destruct (skey_eqb k k') eqn:E; simpl; [exact IH|]. rewrite E. exact IH.
  Qed.

  Lemma mfind_mremove_other k k2 m : k2 <> k -> mfind k2 (mremove k m) = mfind k2 m.
  Proof.
    intro N. induction m as [|[k' v'] m IH]; simpl; [reflexivity|].
    destruct (skey_eqb k k') eqn:E; simpl.
    - apply skey_eqb_eq in E; subst k'. apply skey_eqb_neq in N. rewrite N. exact IH.
    - rewrite IH; reflexivity.
  Qed.

  Lemma mfind_In k v m : mfind k m = Some v -> In (k, v) m.
  Proof.
    induction m as [|[k' v'] m IH]; simpl; [discriminate|].
    destruct (skey_eqb k k') eqn:E.
    - intro H; inversion H; subst. apply skey_eqb_eq in E; subst. left; reflexivity.
    - intro H; right; auto.
  Qed.

  Lemma In_mfind_nodup k v m : NoDup (map fst m) -> In (k, v) m -> mfind k m = Some v.
  Proof.
    induction m as [|[k' v'] m IH]; simpl; [tauto|].
    intros ND [H|H].
    - inversion H; subst. rewrite skey_eqb_refl; reflexivity.
    - inversion ND; subst. destruct (skey_eqb k k') eqn:E.
      + apply skey_eqb_eq in E; subst k'. exfalso. apply H2. apply (in_map fst) in H. exact H.
      + auto.
  Qed.

  Lemma mhas_minsert_same k v m : mhas k (minsert k v m) = true.
  Proof. unfold mhas. rewrite mfind_minsert_same; reflexivity. Qed.
  Lemma mhas_minsert_other k k2 v m : k2 <> k -> mhas k2 (minsert k v m) = mhas k2 m.
  Proof. intro N. unfold mhas. rewrite mfind_minsert_other by exact N; reflexivity. Qed.
  Lemma mhas_mremove_same k m : mhas k (mremove k m) = false.
  Proof. unfold mhas. rewrite mfind_mremove_same; reflexivity. Qed.
  Lemma mhas_mremove_other k k2 m : k2 <> k -> mhas k2 (mremove k m) = mhas k2 m.
  Proof. intro N. unfold mhas. rewrite mfind_mremove_other by exact N; reflexivity. Qed.

  (* removing never adds *)
  Lemma mhas_mremove_le k k2 m : mhas k2 (mremove k m) = true -> mhas k2 m = true.
  Proof.
    destruct (skey_eq_dec k2 k) as [->|N].
    - rewrite mhas_mremove_same; discriminate.
    - rewrite mhas_mremove_other by exact N; tauto.
  Qed.

  Lemma mhas_true k m : mhas k m = true <-> exists v, mfind k m = Some v.
  Proof.
    unfold mhas. destruct (mfind k m); split; try eauto; try discriminate.
    intros [v H]; discriminate.
  Qed.

  Lemma mhas_nil k : mhas k (@nil (skey * V)) = false.
  Proof. reflexivity. Qed.
End Maps.

(* ---------- timestamps ---------- *)
Lemma ts_time_ms ts : ts_time ts = to_int64 ts * 1000000.
Proof.
  unfold ts_time. set (s := to_int64 ts).
  pose proof (Z.quot_rem' s 1000) as H. lia.
Qed.

Lemma pow_literals : p63 = 2 ^ 63 /\ p64 = 2 ^ 64.
Proof. split; vm_compute; reflexivity. Qed.

Lemma ts_time_signed ts : ts_time ts = signed_ms ts * 1000000.
Proof.
  rewrite ts_time_ms. unfold to_int64, signed_ms. unfold two63, two64, p63, p64. reflexivity.
Qed.

Lemma seven_days_ns_ms : seven_days_ns = seven_days_ms * 1000000.
Proof. reflexivity. Qed.

Lemma strict_check_spec now atts vu :
  strict_check now atts vu =
  negb (vu =? 0) && (signed_ms atts <=? signed_ms vu)
  && (signed_ms atts * 1000000 <=? now + seven_days_ms * 1000000).
Proof.
  unfold strict_check, public_key_not_valid. destruct (vu =? 0) eqn:E; [reflexivity|].
  rewrite (ts_time_signed vu), (ts_time_signed atts), seven_days_ns_ms.
  set (a := signed_ms atts). set (v := signed_ms vu). set (c := seven_days_ms * 1000000).
  destruct (Z.gtb_spec (v * 1000000) (now + c));
    match goal with |- context [?x >? ?y] => destruct (Z.gtb_spec x y) end;
    destruct (Z.leb_spec a v); destruct (Z.leb_spec (a * 1000000) (now + c));
    cbn [negb andb]; try reflexivity; lia.
Qed.

Definition rule_strict (rl : rule) : bool := match rl with Strict => true | Lenient => false end.

(* the rule the library applies: valid_at_spec (through int64) or, once F62 is repaired,
   valid_at_unsigned *)
Definition lib_rule (strict : bool) (now_ns expired valid_until atts : Z) : bool :=
  if strict_unsigned then valid_at_unsigned strict now_ns expired valid_until atts
  else valid_at_spec strict now_ns expired valid_until atts.

Lemma as_timestamp_cap now : 0 <= now < 2 ^ 63 ->
  as_timestamp (now + seven_days_ns) = now / 1000000 + seven_days_ms.
Proof.
  intro H. unfold as_timestamp, to_uint64. rewrite seven_days_ns_ms, Z.div_add by lia.
  assert (S : seven_days_ms = 604800000) by reflexivity.
  assert (T : two64 = 2 ^ 64) by (vm_compute; reflexivity).
  pose proof (Z.div_pos now 1000000 ltac:(lia) ltac:(lia)).
  assert (now / 1000000 <= now) by (apply Z.div_le_upper_bound; lia).
  apply Z.mod_small. rewrite T, S. lia.
Qed.

Lemma strict_check_unsigned_spec now atts vu : 0 <= now < 2 ^ 63 ->
  strict_check_unsigned now atts vu =
  negb (vu =? 0) && (atts <=? vu) && (atts <=? now / 1000000 + seven_days_ms).
Proof.
  intro H. unfold strict_check_unsigned, public_key_not_valid. rewrite (as_timestamp_cap now H).
  destruct (vu =? 0); [reflexivity|]. cbn [negb andb].
  set (c := now / 1000000 + seven_days_ms).
  destruct (Z.ltb_spec vu c); destruct (Z.leb_spec atts vu); destruct (Z.leb_spec atts c);
    cbn [andb]; try reflexivity; exfalso; lia.
Qed.

Lemma was_valid_at_eq_lib now r atts rl : 0 <= now < 2 ^ 63 ->
  was_valid_at now r atts rl = lib_rule (rule_strict rl) now (pk_expired r) (pk_valid_until r) atts.
Proof.
  intro H. unfold was_valid_at, lib_rule, validity_check, valid_at_spec, valid_at_unsigned, public_key_not_expired.
  destruct strict_unsigned; destruct (negb (pk_expired r =? 0)); try reflexivity;
    destruct rl; cbn [rule_strict negb]; try reflexivity.
  - apply strict_check_unsigned_spec. exact H.
  - apply strict_check_spec.
Qed.

Lemma was_valid_at_eq_spec now r atts rl : strict_unsigned = false ->
  was_valid_at now r atts rl = valid_at_spec (rule_strict rl) now (pk_expired r) (pk_valid_until r) atts.
Proof.
  intro F. unfold was_valid_at, validity_check, valid_at_spec, public_key_not_expired. rewrite F.
  destruct (negb (pk_expired r =? 0)); [reflexivity|].
  destruct rl; cbn [rule_strict negb]; [|reflexivity]. apply strict_check_spec.
Qed.

Lemma was_valid_at_eq_unsigned now r atts rl : strict_unsigned = true -> 0 <= now < 2 ^ 63 ->
  was_valid_at now r atts rl = valid_at_unsigned (rule_strict rl) now (pk_expired r) (pk_valid_until r) atts.
Proof.
  intros F H. rewrite (was_valid_at_eq_lib now r atts rl H). unfold lib_rule. rewrite F. reflexivity.
Qed.

(* ---------- the validity rule in the words of the property text ---------- *)
Lemma ns_le_ms a now c : a * 1000000 <= now + c * 1000000 <-> a <= now / 1000000 + c.
Proof.
  pose proof (Z.div_mod now 1000000 ltac:(lia)) as D.
  pose proof (Z.mod_pos_bound now 1000000 ltac:(lia)) as B. lia.
Qed.

Lemma signed_ms_small u : 0 <= u < 2 ^ 63 -> signed_ms u = u.
Proof.
  intro H. unfold signed_ms. destruct (Z.ltb_spec u p63) as [L|L]; [reflexivity|].
  destruct pow_literals as [E _]. rewrite E in L. lia.
Qed.

Lemma signed_ms_big u : 2 ^ 63 <= u < 2 ^ 64 -> signed_ms u = u - 2 ^ 64.
Proof.
  intro H. unfold signed_ms. destruct pow_literals as [E1 E2].
  destruct (Z.ltb_spec u p63) as [L|L]; [rewrite E1 in L; lia|]. rewrite E2. reflexivity.
Qed.

(* timestamps of 2^63 and above are read as negative instants, hence before everything *)
Lemma strict_check_wraps now atts vu :
  2 ^ 63 <= atts < 2 ^ 64 -> 0 < vu < 2 ^ 63 -> 0 <= now -> strict_check now atts vu = true.
Proof.
  intros Ha Hv Hn. rewrite strict_check_spec.
  rewrite (signed_ms_big atts Ha), (signed_ms_small vu ltac:(lia)).
  rewrite !andb_true_iff, negb_true_iff, Z.eqb_neq, !Z.leb_le.
  assert (seven_days_ms = 604800000) by reflexivity. lia.
Qed.

(* below 2^63 the library's rule is the rule on the unsigned millisecond values, whichever of
   the two computations the source has *)
Lemma valid_at_spec_unsigned_small strict now e vu atts :
  0 <= atts < 2 ^ 63 -> 0 <= vu < 2 ^ 63 ->
  valid_at_spec strict now e vu atts = valid_at_unsigned strict now e vu atts.
Proof.
  intros Ha Hv. unfold valid_at_spec, valid_at_unsigned.
  rewrite (signed_ms_small atts Ha), (signed_ms_small _ Hv).
  destruct (negb (e =? 0)); [reflexivity|].
  destruct (negb strict); [reflexivity|].
  f_equal.
  destruct (Z.leb_spec (atts * 1000000) (now + seven_days_ms * 1000000)) as [L|L];
    destruct (Z.leb_spec atts (now / 1000000 + seven_days_ms)) as [L2|L2]; try reflexivity.
  - apply ns_le_ms in L. lia.
  - exfalso. assert (atts * 1000000 <= now + seven_days_ms * 1000000) by (apply ns_le_ms; lia). lia.
Qed.

Lemma was_valid_at_unsigned_small now r atts rl :
  0 <= now < 2 ^ 63 -> 0 <= atts < 2 ^ 63 -> 0 <= pk_valid_until r < 2 ^ 63 ->
  was_valid_at now r atts rl = valid_at_unsigned (rule_strict rl) now (pk_expired r) (pk_valid_until r) atts.
Proof.
  intros Hn Ha Hv. rewrite (was_valid_at_eq_lib now r atts rl Hn). unfold lib_rule.
  destruct strict_unsigned; [reflexivity|]. apply valid_at_spec_unsigned_small; assumption.
Qed.

Lemma was_valid_at_text now r atts rl :
  0 <= now < 2 ^ 63 -> 0 <= atts < 2 ^ 63 -> 0 <= pk_valid_until r < 2 ^ 63 ->
  (was_valid_at now r atts rl = true <->
   (pk_expired r <> 0 /\ atts < pk_expired r) \/
   (pk_expired r = 0 /\
    (rl = Lenient \/
     (pk_valid_until r <> 0 /\ atts <= Z.min (pk_valid_until r) (now / 1000000 + seven_days_ms))))).
Proof.
  intros Hn Ha Hv. rewrite (was_valid_at_unsigned_small now r atts rl Hn Ha Hv). unfold valid_at_unsigned.
  destruct (Z.eqb_spec (pk_expired r) 0) as [E|E]; cbn [negb].
  - destruct rl; cbn [rule_strict negb].
    + rewrite !andb_true_iff, negb_true_iff, Z.eqb_neq, !Z.leb_le.
      split.
      * intros [[H1 H2] H3]. right. split; [exact E|]. right. split; [exact H1|lia].
      * intros [[H _]|[_ [H|[H1 H2]]]]; [contradiction|discriminate|]. split; [split|]; [exact H1|lia|lia].
    + split; [|reflexivity]. intros _. right. split; [exact E|]. left; reflexivity.
  - rewrite Z.ltb_lt. split.
    + intro H. left. split; assumption.
    + intros [[_ H]|[H _]]; [exact H|contradiction].
Qed.

(* F62: at 2^63 the two computations part ways - through int64 a timestamp 292 million years
   after valid_until_ts passes the strict rule *)
Lemma strict_rule_wrap_witness :
  let now := 1700000000000 * 1000000 in
  strict_check now (2 ^ 63) 1700003600000 = true /\
  strict_check_unsigned now (2 ^ 63) 1700003600000 = false /\
  valid_at_unsigned true now 0 1700003600000 (2 ^ 63) = false.
Proof. vm_compute. repeat split; reflexivity. Qed.
