(* Model of keyring.go: KeyRing.VerifyJSONs with publicKeyRequests, checkUsingKeys,
   PublicKeyLookupResult.WasValidAt, StrictValiditySignatureCheck, NoStrictValidityCheck,
   and of signing.go: ListKeyIDs.

   What is a parameter of the model (Section variables, no assumptions on them):
     - the message type M, ListKeyIDs on it (kids_of) and VerifyJSON as a boolean function
       vj server key_id public_key message (true = returned nil);
     - the key database and every fetcher, each an ARBITRARY function from the request map it is
       handed to an error (None) or a result map.  VerifyJSONs calls each of them at most once,
       so a function of the argument is as general as a stateful Go implementation.
   Time: time.Time values are nanoseconds since the Unix epoch (Z); spec.Timestamp values are
   the uint64 they are in Go, kept in Z (0 <= ts < 2^64); the conversions int64(ts), ts.Time(),
   AsTimestamp are written out.  The library reads the clock once in VerifyJSONs and once per
   strict validity check; the model uses one instant for all of them (the harness keeps
   boundaries away from the clock, see harness/c12.go).
   Go maps are association lists kept sorted by (server, key id); the observable results do not
   depend on Go's map iteration order (every loop over a map only inserts/deletes by key), the
   order of ListKeyIDs only selects which error text is kept, not Ok/Err. *)
From Verif Require Import Lib.Bytes Json.Ast Json.Parse.
Open Scope Z_scope.

(* ---------- constants (tied to the source by Gen/GenC12.v, see Props/C12.v) ---------- *)
Definition seven_days_ns : Z := 604800000000000.          (* time.Hour * 24 * 7 *)
Definition supported_prefix : bytes := bs "ed25519:".     (* isAlgorithmSupported *)
Definition public_key_not_expired : Z := 0.
Definition public_key_not_valid : Z := 0.

(* ---------- timestamps ---------- *)
Definition two63 : Z := 9223372036854775808.
Definition two64 : Z := 18446744073709551616.
Definition to_int64 (u : Z) : Z := if u <? two63 then u else u - two64.   (* int64(uint64 u) *)
Definition to_uint64 (i : Z) : Z := i mod two64.                          (* uint64(int64 i) *)
(* spec.Timestamp.Time: time.Unix(int64(t)/1000, (int64(t)%1000)*1000000); Go / and % truncate *)
Definition ts_time (ts : Z) : Z :=
  let s := to_int64 ts in Z.quot s 1000 * 1000000000 + Z.rem s 1000 * 1000000.
(* spec.AsTimestamp: Timestamp(t.UnixMilli()); UnixMilli floors *)
Definition as_timestamp (t : Z) : Z := to_uint64 (t / 1000000).

Inductive rule := Strict | Lenient.

(* StrictValiditySignatureCheck with the clock reading [now] *)
Definition strict_check (now atts valid_until : Z) : bool :=
  if valid_until =? public_key_not_valid then false
  else
    let seven := now + seven_days_ns in
    let vu := ts_time valid_until in
    let vu' := if vu >? seven then seven else vu in
    negb (ts_time atts >? vu').

(* StrictValiditySignatureCheck as repaired for finding F62: the uint64 millisecond values are
   compared as they are, the cap being AsTimestamp(now + 7 days) *)
Definition strict_check_unsigned (now atts valid_until : Z) : bool :=
  if valid_until =? public_key_not_valid then false
  else
    let limit := as_timestamp (now + seven_days_ns) in
    let limit' := if valid_until <? limit then valid_until else limit in
    atts <=? limit'.

(* which of the two the source tree has: false = through Timestamp.Time() (int64), true = unsigned.
   Tied to the source by Gen/GenC12.v (C12_constants_match_source): when the repair of F62 is merged
   that proof breaks and this constant is to be flipped; every theorem is stated for both values. *)
Definition strict_unsigned : bool := true.

Definition validity_check (rl : rule) (now atts valid_until : Z) : bool :=
  match rl with
  | Strict => if strict_unsigned then strict_check_unsigned now atts valid_until
              else strict_check now atts valid_until
  | Lenient => true
  end.

Record pkres := { pk_key : bytes; pk_expired : Z; pk_valid_until : Z }.

(* PublicKeyLookupResult.WasValidAt (uint64 comparison on the expired branch) *)
Definition was_valid_at (now : Z) (r : pkres) (atts : Z) (rl : rule) : bool :=
  if negb (pk_expired r =? public_key_not_expired) then atts <? pk_expired r
  else validity_check rl now atts (pk_valid_until r).

(* ---------- maps keyed by (server name, key id) ---------- *)
Definition skey := (bytes * bytes)%type.
Definition skey_cmp (a b : skey) : comparison :=
  match bytes_cmp (fst a) (fst b) with Eq => bytes_cmp (snd a) (snd b) | c => c end.
Definition skey_eqb (a b : skey) : bool :=
  match skey_cmp a b with Eq => true | _ => false end.

Definition kmap (V : Type) := list (skey * V).

Fixpoint minsert {V} (k : skey) (v : V) (m : kmap V) : kmap V :=
  match m with
  | [] => [(k, v)]
  | (k', v') :: m' =>
      match skey_cmp k k' with
      | Eq => (k, v) :: m'
      | Lt => (k, v) :: m
      | Gt => (k', v') :: minsert k v m'
      end
  end.
Fixpoint mfind {V} (k : skey) (m : kmap V) : option V :=
  match m with
  | [] => None
  | (k', v) :: m' => if skey_eqb k k' then Some v else mfind k m'
  end.
Definition mremove {V} (k : skey) (m : kmap V) : kmap V :=
  filter (fun kv => negb (skey_eqb k (fst kv))) m.
Definition mhas {V} (k : skey) (m : kmap V) : bool :=
  match mfind k m with Some _ => true | None => false end.
(* the value a Go loop  for k, v := range l { m[k] = v }  leaves for k: the last one *)
Fixpoint alast {V} (k : skey) (l : kmap V) : option V :=
  match l with
  | [] => None
  | (k', v) :: l' => match alast k l' with Some w => Some w | None => if skey_eqb k k' then Some v else None end
  end.

(* ---------- signing.go: ListKeyIDs on message bytes ----------
   json.Unmarshal into struct{Signatures map[string]map[KeyID]json.RawMessage}: the text must be
   JSON; null is accepted as an empty value; any other non-object is a type error; signatures
   must be an object or null, each of its values an object or null.  Member-name matching of
   encoding/json is case-insensitive and the last duplicate wins; the model looks up the exact
   name, last duplicate (inputs with case variants of that name are outside the modelled
   class, see props/C12.json). *)
Definition obj_or_null (j : json) : bool :=
  match j with JObj _ => true | JNull => true | _ => false end.

(* which decoding the source tree has: false = the whole signatures object is decoded (every entry
   must be an object or null), true = only the entry of the named entity is (repair made for C06);
   tied to the source by Gen/GenC12.v (C12_constants_match_source) *)
Definition signatures_per_entry : bool := true.

Definition list_key_ids (server msg : bytes) : option (list bytes) :=
  match parse_json msg with
  | None => None
  | Some JNull => Some []
  | Some (JObj top) =>
      match assoc_last (bs "signatures") top with
      | None => Some []
      | Some JNull => Some []
      | Some (JObj sigs) =>
          if signatures_per_entry || forallb (fun kv => obj_or_null (snd kv)) sigs then
            match assoc_last server sigs with
            | Some (JObj ks) => Some (map fst ks)
            | Some JNull => Some []
            | None => Some []
            | Some _ => None
            end
          else None
      | Some _ => None
      end
  | Some _ => None
  end.

Inductive res := ROk | RErr.
Definition res_is_ok (r : res) : bool := match r with ROk => true | RErr => false end.

Definition fetcher := kmap Z -> option (kmap pkres).

(* one recorded fetcher call: index in KeyFetchers, the request map handed over, the answer *)
Record call := { c_idx : nat; c_asked : kmap Z; c_answer : option (kmap pkres) }.

Section Ring.
  Variable M : Type.
  Variable kids_of : bytes -> M -> option (list bytes).    (* ListKeyIDs *)
  Variable vj : bytes -> bytes -> bytes -> M -> bool.      (* VerifyJSON ... == nil *)

  Record vreq := { rq_server : bytes; rq_at : Z; rq_rule : rule; rq_msg : M }.

  (* a request with the key ids kept for it (keyIDs[i]) and its current result *)
  Record slot := { sl_req : vreq; sl_kids : list bytes; sl_res : res }.

  Definition supported (kid : bytes) : bool := is_prefix supported_prefix kid.

  (* first loop of VerifyJSONs: every request starts with an error (one of three texts) *)
  Definition init_slot (r : vreq) : slot :=
    match kids_of (rq_server r) (rq_msg r) with
    | None => {| sl_req := r; sl_kids := []; sl_res := RErr |}
    | Some ids => {| sl_req := r; sl_kids := filter supported ids; sl_res := RErr |}
    end.

  (* publicKeyRequests *)
  Definition add_request (server : bytes) (atts : Z) (acc : kmap Z) (kid : bytes) : kmap Z :=
    let k := (server, kid) in
    let maxts := match mfind k acc with Some t => t | None => 0 end in
    if maxts <=? atts then minsert k atts acc else acc.

  Definition public_key_requests (slots : list slot) : kmap Z :=
    fold_left (fun acc s =>
                 match sl_res s with
                 | ROk => acc
                 | RErr => fold_left (add_request (rq_server (sl_req s)) (rq_at (sl_req s))) (sl_kids s) acc
                 end) slots [].

  (* checkUsingKeys, inner loop over keyIDs[i] (cur = results[i].Error so far) *)
  Fixpoint try_kids (now : Z) (keys : kmap pkres) (r : vreq) (kids : list bytes) (cur : res) : res :=
    match kids with
    | [] => cur
    | kid :: rest =>
        match mfind (rq_server r, kid) keys with
        | None => try_kids now keys r rest cur
        | Some sk =>
            if negb (was_valid_at now sk (rq_at r) (rq_rule r)) then try_kids now keys r rest RErr
            else if vj (rq_server r) kid (pk_key sk) (rq_msg r) then ROk
            else try_kids now keys r rest RErr
        end
    end.

  Definition check_slot (now : Z) (keys : kmap pkres) (s : slot) : slot :=
    match sl_res s with
    | ROk => s
    | RErr => {| sl_req := sl_req s; sl_kids := sl_kids s;
                 sl_res := try_kids now keys (sl_req s) (sl_kids s) RErr |}
    end.

  Definition check_using_keys (now : Z) (keys : kmap pkres) (slots : list slot) : list slot :=
    map (check_slot now keys) slots.

  (* the loop over keysFromDatabase: everything goes into keysFetched; expired keys and keys
     inside their validity (now < valid_until_ts, uint64) leave the request map *)
  Definition absorb_db_step (now_ts : Z) (st : kmap pkres * kmap Z) (kv : skey * pkres) :=
    let k := fst kv in let r := snd kv in
    (minsert k r (fst st),
     if negb (pk_expired r =? public_key_not_expired) then mremove k (snd st)
     else if now_ts <? pk_valid_until r then mremove k (snd st) else snd st).
  Definition absorb_db (now_ts : Z) (fromdb : kmap pkres) (kr : kmap Z) : kmap pkres * kmap Z :=
    fold_left (absorb_db_step now_ts) fromdb ([], kr).

  (* the loop over one fetcher's answer.  A key the fetcher was not asked for does not replace
     one already held (repaired behaviour, see the fix commit in the library clone). *)
  Definition absorb_step (st : kmap pkres * kmap Z) (kv : skey * pkres) :=
    let k := fst kv in
    if negb (mhas k (snd st)) && mhas k (fst st) then st
    else (minsert k (snd kv) (fst st), mremove k (snd st)).
  Definition absorb (ans : kmap pkres) (kf : kmap pkres) (kr : kmap Z) : kmap pkres * kmap Z :=
    fold_left absorb_step ans (kf, kr).

  (* one iteration of the loop over k.KeyFetchers: an error or an empty answer changes nothing *)
  Definition step_fetch (f : fetcher) (kf : kmap pkres) (kr : kmap Z) : kmap pkres * kmap Z :=
    match f kr with
    | None => (kf, kr)
    | Some [] => (kf, kr)
    | Some ans => absorb ans kf kr
    end.

  (* the loop over k.KeyFetchers; stops as soon as the request map is empty *)
  Fixpoint fetch_loop (idx : nat) (fs : list fetcher) (kf : kmap pkres) (kr : kmap Z)
    : (kmap pkres * kmap Z) * list call :=
    match fs with
    | [] => ((kf, kr), [])
    | f :: fs' =>
        match kr with
        | [] => ((kf, kr), [])
        | _ :: _ =>
            let st := step_fetch f kf kr in
            let rest := fetch_loop (S idx) fs' (fst st) (snd st) in
            (fst rest, {| c_idx := idx; c_asked := kr; c_answer := f kr |} :: snd rest)
        end
    end.

  Record outcome := {
    o_results : option (list res);     (* None: VerifyJSONs returned (nil, err) *)
    o_dbcall : option (kmap Z);        (* argument of KeyDatabase.FetchKeys, if called *)
    o_calls : list call;               (* fetcher calls in order *)
    o_keys : kmap pkres;               (* keysFetched at the end *)
    o_stored : option (kmap pkres)     (* argument of KeyDatabase.StoreKeys, if called *)
  }.

  Definition all_ok (slots : list slot) : bool := forallb (fun s => res_is_ok (sl_res s)) slots.

  Definition verify_jsons (now : Z) (db_fetch : fetcher) (db_store : kmap pkres -> bool)
             (fetchers : list fetcher) (reqs : list vreq) : outcome :=
    let slots0 := map init_slot reqs in
    let kr0 := public_key_requests slots0 in
    match kr0 with
    | [] => {| o_results := Some (map sl_res slots0); o_dbcall := None; o_calls := [];
               o_keys := []; o_stored := None |}
    | _ :: _ =>
        match db_fetch kr0 with
        | None => {| o_results := None; o_dbcall := Some kr0; o_calls := []; o_keys := [];
                     o_stored := None |}
        | Some fromdb =>
            let st1 := absorb_db (as_timestamp now) fromdb kr0 in
            let kf1 := fst st1 in
            let first_pass := Nat.eqb (length kf1) (length reqs) in
            let slots1 := if first_pass then check_using_keys now kf1 slots0 else slots0 in
            if first_pass && all_ok slots1 then
              {| o_results := Some (map sl_res slots1); o_dbcall := Some kr0; o_calls := [];
                 o_keys := kf1; o_stored := None |}
            else
              let fl := fetch_loop 0 fetchers kf1 (snd st1) in
              let kf2 := fst (fst fl) in
              let cs := snd fl in
              let slots2 := check_using_keys now kf2 slots1 in
              {| o_results := if db_store kf2 then Some (map sl_res slots2) else None;
                 o_dbcall := Some kr0; o_calls := cs; o_keys := kf2; o_stored := Some kf2 |}
        end
    end.
End Ring.
