(* Proofs about the VerifyJSONs model (Keys/Model.v), for every message type, ListKeyIDs,
   VerifyJSON, database and fetcher behaviour. *)
From Coq Require Import Sorted.
From Verif Require Import Lib.Bytes Keys.Model Keys.Spec Keys.MapFacts.
Open Scope Z_scope.

Arguments rq_server {M}. Arguments rq_at {M}. Arguments rq_rule {M}. Arguments rq_msg {M}.
Arguments sl_req {M}. Arguments sl_kids {M}. Arguments sl_res {M}.

Section RingProofs.
  Variable M : Type.
  Variable kids_of : bytes -> M -> option (list bytes).
  Variable vj : bytes -> bytes -> bytes -> M -> bool.

  Notation init_slot := (init_slot M kids_of).
  Notation try_kids := (try_kids M vj).
  Notation check_slot := (check_slot M vj).
  Notation check_using_keys := (check_using_keys M vj).
  Notation verify_jsons := (verify_jsons M kids_of vj).

  (* the key held for (server of r, kid) is valid at the request's timestamp and verifies *)
  Definition good (now : Z) (keys : kmap pkres) (r : vreq M) (kid : bytes) : bool :=
    match mfind (rq_server r, kid) keys with
    | Some sk => was_valid_at now sk (rq_at r) (rq_rule r) && vj (rq_server r) kid (pk_key sk) (rq_msg r)
    | None => false
    end.

  Lemma try_kids_err now keys r kids :
    try_kids now keys r kids RErr = ROk <-> exists kid, In kid kids /\ good now keys r kid = true.
  Proof.
    induction kids as [|kid rest IH]; simpl.
    - split; [discriminate|]. intros [k [[] _]].
    - unfold good at 1. destruct (mfind (rq_server r, kid) keys) as [sk|] eqn:F.
      + destruct (was_valid_at now sk (rq_at r) (rq_rule r)) eqn:W; simpl.
        * destruct (vj (rq_server r) kid (pk_key sk) (rq_msg r)) eqn:V.
          -- split; [|reflexivity]. intros _. exists kid. split; [left; reflexivity|].
             unfold good. rewrite F, W, V. reflexivity.
          -- rewrite IH. split.
             ++ intros [k [Hi Hg]]. exists k; split; [right; exact Hi|exact Hg].
             ++ intros [k [[->|Hi] Hg]].
                ** unfold good in Hg. rewrite F, W, V in Hg. discriminate.
                ** exists k; split; assumption.
        * rewrite IH. split.
          -- intros [k [Hi Hg]]. exists k; split; [right; exact Hi|exact Hg].
          -- intros [k [[->|Hi] Hg]].
             ++ unfold good in Hg. rewrite F, W in Hg. discriminate.
             ++ exists k; split; assumption.
      + rewrite IH. split.
        * intros [k [Hi Hg]]. exists k; split; [right; exact Hi|exact Hg].
        * intros [k [[->|Hi] Hg]].
          -- unfold good in Hg. rewrite F in Hg. discriminate.
          -- exists k; split; assumption.
  Qed.

  Lemma check_slot_req now keys s : sl_req (check_slot now keys s) = sl_req s.
  Proof. unfold Model.check_slot. destruct (sl_res s); reflexivity. Qed.
  Lemma check_slot_kids now keys s : sl_kids (check_slot now keys s) = sl_kids s.
  Proof. unfold Model.check_slot. destruct (sl_res s); reflexivity. Qed.
  Lemma check_slot_ok now keys s :
    sl_res (check_slot now keys s) = ROk <->
    sl_res s = ROk \/ exists kid, In kid (sl_kids s) /\ good now keys (sl_req s) kid = true.
  Proof.
    unfold Model.check_slot. destruct (sl_res s) eqn:R; simpl.
    - rewrite R. split; auto.
    - rewrite try_kids_err. split; [auto|]. intros [H|H]; [discriminate|exact H].
  Qed.

  Lemma init_slot_req r : sl_req (init_slot r) = r.
  Proof. unfold Model.init_slot. destruct (kids_of (rq_server r) (rq_msg r)); reflexivity. Qed.
  Lemma init_slot_res r : sl_res (init_slot r) = RErr.
  Proof. unfold Model.init_slot. destruct (kids_of (rq_server r) (rq_msg r)); reflexivity. Qed.
  Lemma init_slot_kids r kid :
    In kid (sl_kids (init_slot r)) <->
    exists ids, kids_of (rq_server r) (rq_msg r) = Some ids /\ In kid ids /\ supported kid = true.
  Proof.
    unfold Model.init_slot. destruct (kids_of (rq_server r) (rq_msg r)) as [ids|]; simpl.
    - rewrite filter_In. split.
      + intros [H1 H2]. exists ids; auto.
      + intros [ids' [E [H1 H2]]]. inversion E; subst. auto.
    - split; [tauto|]. intros [ids [E _]]; discriminate.
  Qed.

  (* ---------- the database answer ---------- *)
  Definition db_final (now_ts : Z) (r : pkres) : bool :=
    negb (pk_expired r =? public_key_not_expired) || (now_ts <? pk_valid_until r).

  Lemma absorb_db_step_snd now_ts st kv :
    snd (absorb_db_step now_ts st kv) =
    if db_final now_ts (snd kv) then mremove (fst kv) (snd st) else snd st.
  Proof.
    unfold absorb_db_step, db_final. simpl.
    destruct (negb (pk_expired (snd kv) =? public_key_not_expired)); simpl; [reflexivity|].
    destruct (now_ts <? pk_valid_until (snd kv)); reflexivity.
  Qed.

  Lemma absorb_db_keys now_ts l : forall st k v,
    mfind k (fst (fold_left (absorb_db_step now_ts) l st)) = Some v ->
    mfind k (fst st) = Some v \/ In (k, v) l.
  Proof.
    induction l as [|[k' r'] l IH]; intros st k v H; simpl in *; [left; exact H|].
    apply IH in H. destruct H as [H|H]; [|right; right; exact H].
    unfold absorb_db_step in H; simpl in H.
    destruct (skey_eq_dec k k') as [->|N].
    - rewrite mfind_minsert_same in H. inversion H; subst. right; left; reflexivity.
    - rewrite mfind_minsert_other in H by exact N. left; exact H.
  Qed.

  Lemma absorb_db_kr now_ts l : forall st k,
    mhas k (snd (fold_left (absorb_db_step now_ts) l st)) = true ->
    mhas k (snd st) = true /\ forall r, In (k, r) l -> db_final now_ts r = false.
  Proof.
    induction l as [|[k' r'] l IH]; intros st k H; simpl in *; [split; [exact H|tauto]|].
    apply IH in H. destruct H as [H1 H2]. rewrite absorb_db_step_snd in H1. simpl in H1.
    split.
    - destruct (db_final now_ts r'); [eapply mhas_mremove_le; exact H1|exact H1].
    - intros r [E|Hin]; [|auto]. inversion E; subst.
      destruct (db_final now_ts r) eqn:F; [|reflexivity].
      rewrite mhas_mremove_same in H1. discriminate.
  Qed.

  (* with unique keys (a Go map), what ends up in keysFetched for k is what the database said *)
  Lemma absorb_db_keys_nodup now_ts l : NoDup (map fst l) -> forall st k v,
    In (k, v) l -> mfind k (fst (fold_left (absorb_db_step now_ts) l st)) = Some v.
  Proof.
    induction l as [|[k' r'] l IH]; intros ND st k v Hin; simpl in *; [tauto|].
    inversion ND as [|? ? Hnot ND']; subst.
    destruct Hin as [E|Hin].
    - inversion E; subst.
      assert (G : forall l st, ~ In k (map fst l) -> mfind k (fst st) = Some v ->
                  mfind k (fst (fold_left (absorb_db_step now_ts) l st)) = Some v).
      { clear. induction l as [|[k2 r2] l IH]; intros st Hn Hf; simpl in *; [exact Hf|].
        apply IH; [tauto|]. unfold absorb_db_step; simpl.
        rewrite mfind_minsert_other; [exact Hf|]. intro E; apply Hn; left; congruence. }
      apply G; [exact Hnot|]. unfold absorb_db_step; simpl. apply mfind_minsert_same.
    - apply IH; assumption.
  Qed.

  Lemma absorb_db_kr_removed now_ts l : forall st k r,
    In (k, r) l -> db_final now_ts r = true ->
    mhas k (snd (fold_left (absorb_db_step now_ts) l st)) = false.
  Proof.
    intros st k r Hin F. destruct (mhas k (snd (fold_left (absorb_db_step now_ts) l st))) eqn:E; [|reflexivity].
    apply absorb_db_kr in E. destruct E as [_ E]. rewrite (E r Hin) in F. discriminate.
  Qed.

  (* ---------- one fetcher answer ---------- *)
  Lemma absorb_step_cases st kv :
    absorb_step st kv = st /\ mhas (fst kv) (snd st) = false /\ mhas (fst kv) (fst st) = true
    \/ absorb_step st kv = (minsert (fst kv) (snd kv) (fst st), mremove (fst kv) (snd st))
       /\ (mhas (fst kv) (snd st) = true \/ mhas (fst kv) (fst st) = false).
  Proof.
    unfold absorb_step. destruct (mhas (fst kv) (snd st)); simpl; [right; auto|].
    destruct (mhas (fst kv) (fst st)); simpl; [left; auto|right; auto].
  Qed.

  Lemma absorb_keys ans : forall st k v,
    mfind k (fst (fold_left absorb_step ans st)) = Some v ->
    mfind k (fst st) = Some v \/ In (k, v) ans.
  Proof.
    induction ans as [|[k' r'] ans IH]; intros st k v H; simpl in *; [left; exact H|].
    apply IH in H. destruct H as [H|H]; [|right; right; exact H].
    destruct (absorb_step_cases st (k', r')) as [[E _]|[E C]]; rewrite E in H; simpl in H; [left; exact H|].
    destruct (skey_eq_dec k k') as [->|N].
    - rewrite mfind_minsert_same in H. inversion H; subst. right; left; reflexivity.
    - rewrite mfind_minsert_other in H by exact N. left; exact H.
  Qed.

  Lemma absorb_kr_le ans : forall st k,
    mhas k (snd (fold_left absorb_step ans st)) = true -> mhas k (snd st) = true.
  Proof.
    induction ans as [|[k' r'] ans IH]; intros st k H; simpl in *; [exact H|].
    apply IH in H.
    destruct (absorb_step_cases st (k', r')) as [[E _]|[E C]]; rewrite E in H; simpl in H; [exact H|].
    eapply mhas_mremove_le; exact H.
  Qed.

  (* a pair that is held and no longer wanted is never touched again *)
  Lemma absorb_held_kept ans : forall st k v,
    mhas k (snd st) = false -> mfind k (fst st) = Some v ->
    mhas k (snd (fold_left absorb_step ans st)) = false /\
    mfind k (fst (fold_left absorb_step ans st)) = Some v.
  Proof.
    induction ans as [|[k' r'] ans IH]; intros st k v Hw Hh; simpl in *; [auto|].
    apply IH.
    - destruct (absorb_step_cases st (k', r')) as [[E _]|[E C]]; rewrite E; simpl; [exact Hw|].
      destruct (mhas k (mremove k' (snd st))) eqn:G; [|reflexivity].
      apply mhas_mremove_le in G. congruence.
    - destruct (absorb_step_cases st (k', r')) as [[E _]|[E C]]; rewrite E; simpl; [exact Hh|].
      destruct (skey_eq_dec k k') as [->|N].
      + exfalso. simpl in C. destruct C as [C|C]; [congruence|].
        assert (Hm : mhas k' (fst st) = true) by (apply mhas_true; eauto). congruence.
      + rewrite mfind_minsert_other by exact N. exact Hh.
  Qed.

  (* a pair the fetcher was asked for and answered (unique keys) is taken from that answer *)
  Lemma absorb_wanted ans : NoDup (map fst ans) -> forall st k v,
    In (k, v) ans -> mhas k (snd st) = true ->
    mhas k (snd (fold_left absorb_step ans st)) = false /\
    mfind k (fst (fold_left absorb_step ans st)) = Some v.
  Proof.
    induction ans as [|[k' r'] ans IH]; intros ND st k v Hin Hw; simpl in *; [tauto|].
    inversion ND as [|? ? Hnot ND']; subst.
    destruct Hin as [E|Hin].
    - inversion E; subst.
      destruct (absorb_step_cases st (k, v)) as [[_ [C _]]|[E2 _]]; simpl in *; [congruence|].
      rewrite E2. apply absorb_held_kept; simpl.
      + apply mhas_mremove_same.
      + apply mfind_minsert_same.
    - assert (N : k <> k').
      { intro; subst k'. apply Hnot. apply (in_map fst) in Hin. exact Hin. }
      apply IH; [exact ND'|exact Hin|].
      destruct (absorb_step_cases st (k', r')) as [[E _]|[E _]]; rewrite E; simpl; [exact Hw|].
      rewrite mhas_mremove_other by exact N. exact Hw.
  Qed.

  (* ---------- one fetcher ---------- *)
  Lemma step_fetch_eq f kf kr :
    step_fetch f kf kr = match f kr with None => (kf, kr) | Some ans => fold_left absorb_step ans (kf, kr) end.
  Proof. unfold step_fetch, absorb. destruct (f kr) as [[|a ans]|]; reflexivity. Qed.

  Lemma step_fetch_keys f kf kr k v :
    mfind k (fst (step_fetch f kf kr)) = Some v ->
    mfind k kf = Some v \/ exists ans, f kr = Some ans /\ In (k, v) ans.
  Proof.
    rewrite step_fetch_eq. destruct (f kr) as [ans|]; simpl; [|auto].
    intro H. apply absorb_keys in H. destruct H as [H|H]; [left; exact H|right; eauto].
  Qed.

  Lemma step_fetch_kr_le f kf kr k :
    mhas k (snd (step_fetch f kf kr)) = true -> mhas k kr = true.
  Proof.
    rewrite step_fetch_eq. destruct (f kr) as [ans|]; simpl; [|auto].
    intro H. apply absorb_kr_le in H. exact H.
  Qed.

  Lemma step_fetch_held f kf kr k v :
    mhas k kr = false -> mfind k kf = Some v ->
    mhas k (snd (step_fetch f kf kr)) = false /\ mfind k (fst (step_fetch f kf kr)) = Some v.
  Proof.
    rewrite step_fetch_eq. destruct (f kr) as [ans|]; simpl; [|auto].
    intros. apply absorb_held_kept; assumption.
  Qed.

  Lemma step_fetch_wanted f kf kr ans k v :
    f kr = Some ans -> NoDup (map fst ans) -> In (k, v) ans -> mhas k kr = true ->
    mhas k (snd (step_fetch f kf kr)) = false /\ mfind k (fst (step_fetch f kf kr)) = Some v.
  Proof.
    intros E ND Hin Hw. rewrite step_fetch_eq, E. apply absorb_wanted; assumption.
  Qed.

  (* ---------- the loop over the fetchers ---------- *)
  Lemma fetch_loop_keys fs : forall idx kf kr k v,
    mfind k (fst (fst (fetch_loop idx fs kf kr))) = Some v ->
    mfind k kf = Some v \/
    exists c ans, In c (snd (fetch_loop idx fs kf kr)) /\ c_answer c = Some ans /\ In (k, v) ans.
  Proof.
    induction fs as [|f fs IH]; intros idx kf kr k v H; simpl in *; [left; exact H|].
    destruct kr as [|e kr']; simpl in *; [left; exact H|].
    apply IH in H. destruct H as [H|[c [ans [Hc [Ha Hin]]]]].
    - apply step_fetch_keys in H. destruct H as [H|[ans [E Hin]]]; [left; exact H|].
      right. eexists; exists ans. split; [left; reflexivity|]. simpl. auto.
    - right. exists c, ans. auto.
  Qed.

  Lemma fetch_loop_asked fs : forall idx kf kr c k,
    In c (snd (fetch_loop idx fs kf kr)) -> mhas k (c_asked c) = true -> mhas k kr = true.
  Proof.
    induction fs as [|f fs IH]; intros idx kf kr c k Hc Hk; simpl in *; [tauto|].
    destruct kr as [|e kr']; simpl in *; [tauto|].
    destruct Hc as [<-|Hc]; [exact Hk|].
    eapply step_fetch_kr_le. eapply IH; eassumption.
  Qed.

  Lemma fetch_loop_held fs : forall idx kf kr k v,
    mhas k kr = false -> mfind k kf = Some v ->
    mfind k (fst (fst (fetch_loop idx fs kf kr))) = Some v.
  Proof.
    induction fs as [|f fs IH]; intros idx kf kr k v Hw Hh; simpl in *; [exact Hh|].
    destruct kr as [|e kr']; simpl in *; [exact Hh|].
    destruct (step_fetch_held f kf (e :: kr') k v Hw Hh) as [H1 H2].
    apply IH; assumption.
  Qed.

  Lemma fetch_loop_answered fs : forall idx kf kr c ans k v,
    In c (snd (fetch_loop idx fs kf kr)) -> c_answer c = Some ans -> NoDup (map fst ans) ->
    In (k, v) ans -> mhas k (c_asked c) = true ->
    mfind k (fst (fst (fetch_loop idx fs kf kr))) = Some v.
  Proof.
    induction fs as [|f fs IH]; intros idx kf kr c ans k v Hc Ha ND Hin Hk; simpl in *; [tauto|].
    destruct kr as [|e kr']; simpl in *; [tauto|].
    destruct Hc as [<-|Hc]; simpl in *.
    - destruct (step_fetch_wanted f kf (e :: kr') ans k v Ha ND Hin Hk) as [H1 H2].
      apply fetch_loop_held; assumption.
    - eapply IH; eassumption.
  Qed.

  (* every recorded call is a call of the fetcher with that index on the recorded request map *)
  Lemma fetch_loop_calls fs : forall idx kf kr c,
    In c (snd (fetch_loop idx fs kf kr)) ->
    (idx <= c_idx c)%nat /\ exists f, nth_error fs (c_idx c - idx) = Some f /\ c_answer c = f (c_asked c).
  Proof.
    induction fs as [|f fs IH]; intros idx kf kr c Hc; simpl in *; [tauto|].
    destruct kr as [|e kr']; simpl in *; [tauto|].
    destruct Hc as [<-|Hc]; simpl.
    - split; [lia|]. exists f. rewrite Nat.sub_diag. auto.
    - apply IH in Hc. destruct Hc as [Hle [g [Hn Hg]]]. split; [lia|]. exists g. split; [|exact Hg].
      replace (c_idx c - idx)%nat with (S (c_idx c - S idx)) by lia. exact Hn.
  Qed.

  (* each fetcher is called at most once, in list order *)
  Lemma fetch_loop_order fs : forall idx kf kr,
    StronglySorted (fun a b => (c_idx a < c_idx b)%nat) (snd (fetch_loop idx fs kf kr)).
  Proof.
    induction fs as [|f fs IH]; intros idx kf kr; simpl; [constructor|].
    destruct kr as [|e kr']; simpl; [constructor|].
    constructor; [apply IH|]. apply Forall_forall. intros c Hc.
    apply fetch_loop_calls in Hc. simpl. lia.
  Qed.

  (* once a fetcher's answer mentions a pair, no later fetcher is asked for it *)
  Lemma absorb_answered_removed ans : forall st k v,
    In (k, v) ans -> mhas k (snd (fold_left absorb_step ans st)) = false.
  Proof.
    induction ans as [|[k' r'] ans IH]; intros st k v Hin; simpl in *; [tauto|].
    destruct Hin as [E|Hin]; [|eapply IH; exact Hin].
    inversion E; subst.
    destruct (mhas k (snd (fold_left absorb_step ans (absorb_step st (k, v))))) eqn:G; [|reflexivity].
    apply absorb_kr_le in G.
    destruct (absorb_step_cases st (k, v)) as [[E2 [C _]]|[E2 _]]; rewrite E2 in G; simpl in *.
    - congruence.
    - rewrite mhas_mremove_same in G. discriminate.
  Qed.

  Lemma fetch_loop_first fs : forall idx kf kr c1 c2 ans k v,
    In c1 (snd (fetch_loop idx fs kf kr)) -> In c2 (snd (fetch_loop idx fs kf kr)) ->
    (c_idx c1 < c_idx c2)%nat -> c_answer c1 = Some ans -> In (k, v) ans ->
    mhas k (c_asked c2) = false.
  Proof.
    induction fs as [|f fs IH]; intros idx kf kr c1 c2 ans k v H1 H2 Hlt Ha Hin; simpl in *; [tauto|].
    destruct kr as [|e kr']; simpl in *; [tauto|].
    destruct H1 as [<-|H1]; destruct H2 as [<-|H2]; simpl in *.
    - lia.
    - destruct (mhas k (c_asked c2)) eqn:G; [|reflexivity].
      eapply fetch_loop_asked in G; [|exact H2].
      rewrite step_fetch_eq, Ha in G. simpl in G.
      erewrite absorb_answered_removed in G; [discriminate|exact Hin].
    - apply fetch_loop_calls in H1. lia.
    - exact (IH _ _ _ _ _ _ _ _ H1 H2 Hlt Ha Hin).
  Qed.

  (* ---------- publicKeyRequests ---------- *)
  Definition needs (slots : list (slot M)) : list (skey * Z) :=
    flat_map (fun s => match sl_res s with
                       | ROk => []
                       | RErr => map (fun kid => ((rq_server (sl_req s), kid), rq_at (sl_req s))) (sl_kids s)
                       end) slots.

  Definition add_need (acc : kmap Z) (n : skey * Z) : kmap Z :=
    let maxts := match mfind (fst n) acc with Some t => t | None => 0 end in
    if maxts <=? snd n then minsert (fst n) (snd n) acc else acc.

  Lemma pkr_flat_acc slots : forall acc,
    fold_left (fun acc s =>
                 match sl_res s with
                 | ROk => acc
                 | RErr => fold_left (add_request (rq_server (sl_req s)) (rq_at (sl_req s))) (sl_kids s) acc
                 end) slots acc
    = fold_left add_need (needs slots) acc.
  Proof.
    induction slots as [|s slots IH]; intro acc; simpl; [reflexivity|].
    rewrite fold_left_app, IH. f_equal.
    destruct (sl_res s); [reflexivity|].
    generalize acc. induction (sl_kids s) as [|kid kids IHk]; intro a; simpl; [reflexivity|].
    rewrite IHk. reflexivity.
  Qed.

  Lemma pkr_flat slots : public_key_requests M slots = fold_left add_need (needs slots) [].
  Proof. unfold public_key_requests. apply pkr_flat_acc. Qed.

  Lemma add_need_from l : forall acc k t,
    mfind k (fold_left add_need l acc) = Some t -> mfind k acc = Some t \/ In (k, t) l.
  Proof.
    induction l as [|[k0 t0] l IH]; intros acc k t H; simpl in *; [left; exact H|].
    apply IH in H. destruct H as [H|H]; [|right; right; exact H].
    unfold add_need in H; simpl in H.
    destruct ((match mfind k0 acc with Some t1 => t1 | None => 0 end) <=? t0); [|left; exact H].
    destruct (skey_eq_dec k k0) as [->|N].
    - rewrite mfind_minsert_same in H. inversion H; subst. right; left; reflexivity.
    - rewrite mfind_minsert_other in H by exact N. left; exact H.
  Qed.

  Lemma add_need_mono l : forall acc k t,
    mfind k acc = Some t -> exists t', mfind k (fold_left add_need l acc) = Some t' /\ t <= t'.
  Proof.
    induction l as [|[k0 t0] l IH]; intros acc k t H; simpl; [exists t; split; [exact H|lia]|].
    unfold add_need at 2; simpl.
    destruct (skey_eq_dec k k0) as [->|N].
    - rewrite H. destruct (Z.leb_spec t t0) as [L|L].
      + destruct (IH (minsert k0 t0 acc) k0 t0 (mfind_minsert_same _ _ _)) as [t' [H1 H2]].
        exists t'. split; [exact H1|lia].
      + apply IH. exact H.
    - destruct ((match mfind k0 acc with Some t1 => t1 | None => 0 end) <=? t0).
      + apply IH. rewrite mfind_minsert_other by exact N. exact H.
      + apply IH. exact H.
  Qed.

  Lemma add_need_covers l : forall acc k t0,
    In (k, t0) l -> 0 <= t0 -> exists t, mfind k (fold_left add_need l acc) = Some t /\ t0 <= t.
  Proof.
    induction l as [|[k1 t1] l IH]; intros acc k t0 Hin Hpos; simpl in *; [tauto|].
    destruct Hin as [E|Hin]; [|apply IH; assumption].
    inversion E; subst k1 t1. unfold add_need at 2; simpl.
    destruct (mfind k acc) as [tm|] eqn:F.
    - destruct (Z.leb_spec tm t0) as [L|L].
      + apply add_need_mono. apply mfind_minsert_same.
      + destruct (add_need_mono l acc k tm F) as [t' [H1 H2]]. exists t'. split; [exact H1|lia].
    - destruct (Z.leb_spec 0 t0) as [L|L]; [|lia].
      apply add_need_mono. apply mfind_minsert_same.
  Qed.

  Lemma needs_init reqs k t :
    In (k, t) (needs (map init_slot reqs)) <->
    exists r, In r reqs /\ fst k = rq_server r /\ In (snd k) (sl_kids (init_slot r)) /\ t = rq_at r.
  Proof.
    unfold needs. rewrite in_flat_map. split.
    - intros [s [Hs Hin]]. apply in_map_iff in Hs. destruct Hs as [r [<- Hr]].
      rewrite init_slot_res, init_slot_req in Hin. apply in_map_iff in Hin.
      destruct Hin as [kid [E Hk]]. inversion E; subst. exists r. simpl. auto.
    - intros [r [Hr [E1 [Hk E2]]]]. exists (init_slot r). split; [apply in_map; exact Hr|].
      rewrite init_slot_res, init_slot_req. apply in_map_iff. exists (snd k). split; [|exact Hk].
      destruct k as [a b]; simpl in *; subst; reflexivity.
  Qed.

  (* the request map handed to the database: a pair is in it only for a request that names that
     server and carries that supported key id, with that request's timestamp; and every such
     request is covered with a timestamp at least its own (so the timestamp is the maximum) *)
  Lemma key_requests_sound reqs k t :
    mfind k (public_key_requests M (map init_slot reqs)) = Some t ->
    exists r, In r reqs /\ fst k = rq_server r /\ In (snd k) (sl_kids (init_slot r)) /\ t = rq_at r.
  Proof.
    rewrite pkr_flat. intro H. apply add_need_from in H. destruct H as [H|H]; [discriminate|].
    apply needs_init. exact H.
  Qed.

  Lemma key_requests_cover reqs r kid :
    In r reqs -> In kid (sl_kids (init_slot r)) -> 0 <= rq_at r ->
    exists t, mfind (rq_server r, kid) (public_key_requests M (map init_slot reqs)) = Some t /\ rq_at r <= t.
  Proof.
    intros Hr Hk Hpos. rewrite pkr_flat. apply add_need_covers; [|exact Hpos].
    apply needs_init. exists r. simpl. auto.
  Qed.

  (* ================= VerifyJSONs ================= *)
  Section Call.
    Variables (now : Z) (dbf : fetcher) (dbs : kmap pkres -> bool) (fs : list fetcher) (reqs : list (vreq M)).

    Let slots0 := map init_slot reqs.
    Let kr0 := public_key_requests M slots0.
    Let o := verify_jsons now dbf dbs fs reqs.

    Definition st1_of (fromdb : kmap pkres) := absorb_db (as_timestamp now) fromdb kr0.
    Definition first_pass_of (fromdb : kmap pkres) := Nat.eqb (length (fst (st1_of fromdb))) (length reqs).
    Definition slots1_of (fromdb : kmap pkres) :=
      if first_pass_of fromdb then check_using_keys now (fst (st1_of fromdb)) slots0 else slots0.
    Definition fl_of (fromdb : kmap pkres) := fetch_loop 0 fs (fst (st1_of fromdb)) (snd (st1_of fromdb)).

    Lemma verify_jsons_cases :
      (kr0 = [] /\ o = {| o_results := Some (map sl_res slots0); o_dbcall := None; o_calls := [];
                          o_keys := []; o_stored := None |})
      \/ (kr0 <> [] /\ dbf kr0 = None /\
          o = {| o_results := None; o_dbcall := Some kr0; o_calls := []; o_keys := []; o_stored := None |})
      \/ exists fromdb, kr0 <> [] /\ dbf kr0 = Some fromdb /\
          ((first_pass_of fromdb && all_ok M (slots1_of fromdb) = true /\
            o = {| o_results := Some (map sl_res (slots1_of fromdb)); o_dbcall := Some kr0; o_calls := [];
                   o_keys := fst (st1_of fromdb); o_stored := None |})
           \/ (first_pass_of fromdb && all_ok M (slots1_of fromdb) = false /\
               o = {| o_results := if dbs (fst (fst (fl_of fromdb)))
                                   then Some (map sl_res (check_using_keys now (fst (fst (fl_of fromdb))) (slots1_of fromdb)))
                                   else None;
                      o_dbcall := Some kr0; o_calls := snd (fl_of fromdb);
                      o_keys := fst (fst (fl_of fromdb)); o_stored := Some (fst (fst (fl_of fromdb))) |})).
    Proof.
      subst o. unfold Model.verify_jsons. fold slots0. fold kr0.
      unfold first_pass_of, slots1_of, fl_of, st1_of, first_pass_of, st1_of.
      clearbody kr0. destruct kr0 as [|e k0]; [left; auto|right].
      destruct (dbf (e :: k0)) as [fromdb|] eqn:ED; [right|left; split; [discriminate|auto]].
      exists fromdb. split; [discriminate|]. split; [reflexivity|].
      match goal with |- context [if ?c then {| o_results := Some _; o_dbcall := _; o_calls := []; o_keys := _; o_stored := None |} else _] =>
        destruct c eqn:C end.
      - left. split; reflexivity.
      - right. split; reflexivity.
    Qed.

    Lemma slots0_nth i r : nth_error reqs i = Some r -> nth_error slots0 i = Some (init_slot r).
    Proof. intro H. unfold slots0. apply map_nth_error. exact H. Qed.

    Lemma slots1_nth fromdb i r : nth_error reqs i = Some r ->
      nth_error (slots1_of fromdb) i =
      Some (if first_pass_of fromdb then check_slot now (fst (st1_of fromdb)) (init_slot r) else init_slot r).
    Proof.
      intro H. unfold slots1_of. destruct (first_pass_of fromdb).
      - unfold Model.check_using_keys. apply map_nth_error. apply slots0_nth; exact H.
      - apply slots0_nth; exact H.
    Qed.

    Lemma slots1_length fromdb : length (slots1_of fromdb) = length reqs.
    Proof.
      unfold slots1_of, Model.check_using_keys. unfold slots0.
      destruct (first_pass_of fromdb); rewrite ?map_length; reflexivity.
    Qed.

    Lemma good_elim keys r kid : good now keys r kid = true ->
      exists sk, mfind (rq_server r, kid) keys = Some sk /\
                 was_valid_at now sk (rq_at r) (rq_rule r) = true /\
                 vj (rq_server r) kid (pk_key sk) (rq_msg r) = true.
    Proof.
      unfold good. destruct (mfind (rq_server r, kid) keys) as [sk|]; [|discriminate].
      intro H. apply andb_true_iff in H. exists sk. tauto.
    Qed.

    Lemma st1_keys_from_db fromdb k v : mfind k (fst (st1_of fromdb)) = Some v -> In (k, v) fromdb.
    Proof.
      unfold st1_of, absorb_db. intro H. apply absorb_db_keys in H. destruct H as [H|H]; [discriminate|exact H].
    Qed.

    (* ---- shape ---- *)
    Lemma shape rs : o_results o = Some rs -> length rs = length reqs.
    Proof.
      destruct verify_jsons_cases as [[_ E]|[[_ [_ E]]|[fromdb [_ [_ [[_ E]|[_ E]]]]]]]; rewrite E; simpl.
      - intro H; inversion H. unfold slots0. rewrite !map_length. reflexivity.
      - discriminate.
      - intro H; inversion H. rewrite map_length. apply slots1_length.
      - destruct (dbs _); [|discriminate]. intro H; inversion H.
        unfold Model.check_using_keys. rewrite !map_length. apply slots1_length.
    Qed.

    (* a key counts as obtained if the database answer or the answer of a recorded fetcher call has it *)
    Definition obtained (k : skey) (v : pkres) : Prop :=
      (exists kr fromdb, o_dbcall o = Some kr /\ dbf kr = Some fromdb /\ In (k, v) fromdb)
      \/ (exists c ans, In c (o_calls o) /\ c_answer c = Some ans /\ In (k, v) ans).

    Definition witness (r : vreq M) (keys : kmap pkres) (kid : bytes) (rec : pkres) : Prop :=
      (exists ids, kids_of (rq_server r) (rq_msg r) = Some ids /\ In kid ids) /\ supported kid = true /\
      mfind (rq_server r, kid) keys = Some rec /\
      was_valid_at now rec (rq_at r) (rq_rule r) = true /\
      vj (rq_server r) kid (pk_key rec) (rq_msg r) = true.

    Lemma good_witness keys r kid : In kid (sl_kids (init_slot r)) -> good now keys r kid = true ->
      exists rec, witness r keys kid rec.
    Proof.
      intros Hk Hg. apply init_slot_kids in Hk. destruct Hk as [ids [E [Hi Hs]]].
      apply good_elim in Hg. destruct Hg as [sk [F [W V]]].
      exists sk. unfold witness. split; [exists ids; auto|auto].
    Qed.

    Lemma witness_good keys r kid rec : witness r keys kid rec ->
      In kid (sl_kids (init_slot r)) /\ good now keys r kid = true.
    Proof.
      intros [[ids [E Hi]] [Hs [F [W V]]]]. split.
      - apply init_slot_kids. exists ids; auto.
      - unfold good. rewrite F, W, V. reflexivity.
    Qed.

    (* ---- soundness ---- *)
    Lemma sound rs i r : o_results o = Some rs -> nth_error reqs i = Some r -> nth_error rs i = Some ROk ->
      exists kid rec keys, witness r keys kid rec /\ obtained (rq_server r, kid) rec.
    Proof.
      intros HR Hr Hi. unfold obtained.
      destruct verify_jsons_cases as [[_ E]|[[_ [_ E]]|[fromdb [_ [ED [[C E]|[C E]]]]]]]; rewrite E in *; simpl in *.
      - inversion HR; subst rs. erewrite map_nth_error in Hi by (apply slots0_nth; exact Hr).
        rewrite init_slot_res in Hi. discriminate.
      - discriminate.
      - inversion HR; subst rs. erewrite map_nth_error in Hi by (apply slots1_nth; exact Hr).
        destruct (first_pass_of fromdb); [|rewrite init_slot_res in Hi; discriminate].
        inversion Hi as [Hok]. apply check_slot_ok in Hok. rewrite init_slot_res, init_slot_req in Hok.
        destruct Hok as [Hok|[kid [Hk Hg]]]; [discriminate|].
        destruct (good_witness _ _ _ Hk Hg) as [rec W]. exists kid, rec, (fst (st1_of fromdb)).
        split; [exact W|]. left. exists kr0, fromdb. split; [reflexivity|]. split; [exact ED|].
        apply st1_keys_from_db. apply W.
      - destruct (dbs _); [|discriminate]. inversion HR; subst rs.
        unfold Model.check_using_keys in Hi.
        erewrite map_nth_error in Hi by (apply map_nth_error; apply slots1_nth; exact Hr).
        inversion Hi as [Hok]. apply check_slot_ok in Hok.
        destruct Hok as [Hok|[kid [Hk Hg]]].
        + destruct (first_pass_of fromdb); [|rewrite init_slot_res in Hok; discriminate].
          apply check_slot_ok in Hok. rewrite init_slot_res, init_slot_req in Hok.
          destruct Hok as [Hok|[kid [Hk Hg]]]; [discriminate|].
          destruct (good_witness _ _ _ Hk Hg) as [rec W]. exists kid, rec, (fst (st1_of fromdb)).
          split; [exact W|]. left. exists kr0, fromdb. split; [reflexivity|]. split; [exact ED|].
          apply st1_keys_from_db. apply W.
        + assert (Hreq : sl_req (if first_pass_of fromdb then check_slot now (fst (st1_of fromdb)) (init_slot r) else init_slot r) = r)
            by (destruct (first_pass_of fromdb); rewrite ?check_slot_req; apply init_slot_req).
          assert (Hkids : sl_kids (if first_pass_of fromdb then check_slot now (fst (st1_of fromdb)) (init_slot r) else init_slot r) = sl_kids (init_slot r))
            by (destruct (first_pass_of fromdb); rewrite ?check_slot_kids; reflexivity).
          rewrite Hreq in Hg. rewrite Hkids in Hk.
          destruct (good_witness _ _ _ Hk Hg) as [rec W]. exists kid, rec, (fst (fst (fl_of fromdb))).
          split; [exact W|].
          destruct W as [_ [_ [F _]]]. unfold fl_of in F. apply fetch_loop_keys in F.
          destruct F as [F|[c [ans [Hc [Ha Hin]]]]].
          * left. exists kr0, fromdb. split; [reflexivity|]. split; [exact ED|]. apply st1_keys_from_db. exact F.
          * right. exists c, ans. auto.
    Qed.

    (* ---- completeness with respect to the keys finally held ---- *)
    Lemma complete rs i r kid rec : o_results o = Some rs -> nth_error reqs i = Some r ->
      witness r (o_keys o) kid rec -> nth_error rs i = Some ROk.
    Proof.
      intros HR Hr W.
      destruct verify_jsons_cases as [[_ E]|[[_ [_ E]]|[fromdb [_ [ED [[C E]|[C E]]]]]]]; rewrite E in *; simpl in *.
      - destruct W as [_ [_ [F _]]]. discriminate.
      - discriminate.
      - inversion HR; subst rs. erewrite map_nth_error by (apply slots1_nth; exact Hr). f_equal.
        apply andb_true_iff in C. destruct C as [_ C]. unfold all_ok in C. rewrite forallb_forall in C.
        assert (Hin : In (if first_pass_of fromdb then check_slot now (fst (st1_of fromdb)) (init_slot r) else init_slot r) (slots1_of fromdb))
          by (eapply nth_error_In; apply slots1_nth; exact Hr).
        apply C in Hin. destruct (sl_res _); [reflexivity|discriminate].
      - destruct (dbs _); [|discriminate]. inversion HR; subst rs.
        unfold Model.check_using_keys.
        erewrite map_nth_error by (apply map_nth_error; apply slots1_nth; exact Hr). f_equal.
        apply check_slot_ok. right.
        assert (Hreq : sl_req (if first_pass_of fromdb then check_slot now (fst (st1_of fromdb)) (init_slot r) else init_slot r) = r)
          by (destruct (first_pass_of fromdb); rewrite ?check_slot_req; apply init_slot_req).
        assert (Hkids : sl_kids (if first_pass_of fromdb then check_slot now (fst (st1_of fromdb)) (init_slot r) else init_slot r) = sl_kids (init_slot r))
          by (destruct (first_pass_of fromdb); rewrite ?check_slot_kids; reflexivity).
        rewrite Hreq, Hkids. exists kid. apply witness_good in W. exact W.
    Qed.

    (* ---- which fetcher calls are made, and with what ---- *)
    Lemma calls_spec c : In c (o_calls o) ->
      exists f, nth_error fs (c_idx c) = Some f /\ c_answer c = f (c_asked c).
    Proof.
      destruct verify_jsons_cases as [[_ E]|[[_ [_ E]]|[fromdb [_ [ED [[C E]|[C E]]]]]]]; rewrite E; simpl; try tauto.
      intro Hc. unfold fl_of in Hc. apply fetch_loop_calls in Hc. destruct Hc as [_ [f [Hn Hf]]].
      rewrite Nat.sub_0_r in Hn. eauto.
    Qed.

    Lemma calls_ordered : StronglySorted (fun a b => (c_idx a < c_idx b)%nat) (o_calls o).
    Proof.
      destruct verify_jsons_cases as [[_ E]|[[_ [_ E]]|[fromdb [_ [ED [[C E]|[C E]]]]]]]; rewrite E; simpl; try constructor.
      apply fetch_loop_order.
    Qed.

    Lemma asked_spec c k : In c (o_calls o) -> mhas k (c_asked c) = true ->
      exists fromdb, o_dbcall o = Some kr0 /\ dbf kr0 = Some fromdb /\ mhas k kr0 = true /\
                     forall r, In (k, r) fromdb -> db_final (as_timestamp now) r = false.
    Proof.
      destruct verify_jsons_cases as [[_ E]|[[_ [_ E]]|[fromdb [_ [ED [[C E]|[C E]]]]]]]; rewrite E; simpl; try tauto.
      intros Hc Hk. exists fromdb. split; [reflexivity|]. split; [exact ED|].
      unfold fl_of in Hc. eapply fetch_loop_asked in Hk; [|exact Hc].
      unfold st1_of, absorb_db in Hk. apply absorb_db_kr in Hk. exact Hk.
    Qed.

    Lemma asked_first c1 c2 ans k v : In c1 (o_calls o) -> In c2 (o_calls o) -> (c_idx c1 < c_idx c2)%nat ->
      c_answer c1 = Some ans -> In (k, v) ans -> mhas k (c_asked c2) = false.
    Proof.
      destruct verify_jsons_cases as [[_ E]|[[_ [_ E]]|[fromdb [_ [ED [[C E]|[C E]]]]]]]; rewrite E; simpl; try tauto.
      unfold fl_of. apply fetch_loop_first.
    Qed.

    (* ---- what is stored ---- *)
    Lemma stored_spec c ans k v : In c (o_calls o) -> c_answer c = Some ans -> NoDup (map fst ans) ->
      In (k, v) ans -> mhas k (c_asked c) = true ->
      o_stored o = Some (o_keys o) /\ mfind k (o_keys o) = Some v.
    Proof.
      destruct verify_jsons_cases as [[_ E]|[[_ [_ E]]|[fromdb [_ [ED [[C E]|[C E]]]]]]]; rewrite E; simpl; try tauto.
      intros Hc Ha ND Hin Hk. split; [reflexivity|].
      unfold fl_of in *. eapply fetch_loop_answered; eassumption.
    Qed.

    Lemma stored_whenever_fetching : o_calls o <> [] -> o_stored o = Some (o_keys o).
    Proof.
      destruct verify_jsons_cases as [[_ E]|[[_ [_ E]]|[fromdb [_ [ED [[C E]|[C E]]]]]]]; rewrite E; simpl; congruence.
    Qed.

    (* ---- keys the database holds inside their validity are the keys used ---- *)
    Lemma db_final_kept fromdb k v : o_dbcall o = Some kr0 -> dbf kr0 = Some fromdb -> NoDup (map fst fromdb) ->
      In (k, v) fromdb -> db_final (as_timestamp now) v = true ->
      mfind k (o_keys o) = Some v /\ forall c, In c (o_calls o) -> mhas k (c_asked c) = false.
    Proof.
      destruct verify_jsons_cases as [[_ E]|[[_ [ED0 E]]|[fromdb' [_ [ED [[C E]|[C E]]]]]]]; rewrite E; simpl.
      - discriminate.
      - congruence.
      - intros _ ED2 ND Hin F. assert (fromdb' = fromdb) by congruence. subst fromdb'.
        split; [|tauto]. unfold st1_of, absorb_db. apply absorb_db_keys_nodup; assumption.
      - intros _ ED2 ND Hin F. assert (fromdb' = fromdb) by congruence. subst fromdb'.
        assert (H1 : mfind k (fst (st1_of fromdb)) = Some v)
          by (unfold st1_of, absorb_db; apply absorb_db_keys_nodup; assumption).
        assert (H2 : mhas k (snd (st1_of fromdb)) = false)
          by (unfold st1_of, absorb_db; eapply absorb_db_kr_removed; eassumption).
        split.
        + unfold fl_of. apply fetch_loop_held; assumption.
        + intros c Hc. destruct (mhas k (c_asked c)) eqn:G; [|reflexivity].
          unfold fl_of in Hc. eapply fetch_loop_asked in G; [|exact Hc]. congruence.
    Qed.
  End Call.

  Lemma dbcall_cases now dbf dbs fs reqs :
    let kr0 := public_key_requests M (map init_slot reqs) in
    let o := verify_jsons now dbf dbs fs reqs in
    (kr0 = [] /\ o_dbcall o = None) \/ (kr0 <> [] /\ o_dbcall o = Some kr0).
  Proof.
    intros kr0 o. subst o.
    destruct (verify_jsons_cases now dbf dbs fs reqs)
      as [[E0 E]|[[E0 [_ E]]|[fromdb [E0 [_ [[_ E]|[_ E]]]]]]]; rewrite E; simpl; auto.
  Qed.

  Lemma thm_database_asked_only_for_needed_pairs : forall now dbf dbs fs reqs kr k t,
    o_dbcall (verify_jsons now dbf dbs fs reqs) = Some kr -> mfind k kr = Some t ->
    exists r ids, In r reqs /\ fst k = rq_server r /\ t = rq_at r /\
                  kids_of (rq_server r) (rq_msg r) = Some ids /\ In (snd k) ids /\ supported (snd k) = true.
  Proof.
    intros now dbf dbs fs reqs kr k t HD HF.
    destruct (dbcall_cases now dbf dbs fs reqs) as [[_ E]|[_ E]]; rewrite E in HD; [discriminate|].
    inversion HD; subst kr. apply key_requests_sound in HF.
    destruct HF as [r [Hr [E1 [Hk E2]]]]. apply init_slot_kids in Hk. destruct Hk as [ids [Ei [Hi Hs]]].
    exists r, ids. repeat split; assumption.
  Qed.

  Lemma thm_database_asked_for_every_needed_pair : forall now dbf dbs fs reqs r ids kid,
    In r reqs -> kids_of (rq_server r) (rq_msg r) = Some ids -> In kid ids -> supported kid = true ->
    0 <= rq_at r ->
    exists kr t, o_dbcall (verify_jsons now dbf dbs fs reqs) = Some kr /\
                 mfind (rq_server r, kid) kr = Some t /\ rq_at r <= t.
  Proof.
    intros now dbf dbs fs reqs r ids kid Hr Ei Hi Hs Hpos.
    assert (Hk : In kid (sl_kids (init_slot r))) by (apply init_slot_kids; exists ids; auto).
    destruct (key_requests_cover reqs r kid Hr Hk Hpos) as [t [F L]].
    destruct (dbcall_cases now dbf dbs fs reqs) as [[E0 _]|[_ E]].
    - rewrite E0 in F. discriminate.
    - eexists; exists t. split; [exact E|]. split; assumption.
  Qed.

  (* ---------- the statements of Props/C12.v ---------- *)
  Lemma thm_verify_jsons_sound : forall now dbf dbs fs reqs rs i r,
    let o := verify_jsons now dbf dbs fs reqs in
    o_results o = Some rs -> nth_error reqs i = Some r -> nth_error rs i = Some ROk ->
    exists kid rec,
      (exists ids, kids_of (rq_server r) (rq_msg r) = Some ids /\ In kid ids) /\
      supported kid = true /\
      vj (rq_server r) kid (pk_key rec) (rq_msg r) = true /\
      was_valid_at now rec (rq_at r) (rq_rule r) = true /\
      ((exists kr fromdb, o_dbcall o = Some kr /\ dbf kr = Some fromdb /\ In ((rq_server r, kid), rec) fromdb)
       \/ (exists c ans, In c (o_calls o) /\ c_answer c = Some ans /\ In ((rq_server r, kid), rec) ans)).
  Proof.
    intros now dbf dbs fs reqs rs i r o HR Hr Hi.
    destruct (sound now dbf dbs fs reqs rs i r HR Hr Hi) as [kid [rec [keys [W O]]]].
    exists kid, rec. destruct W as [W1 [W2 [W3 [W4 W5]]]]. repeat split; try assumption.
  Qed.

  Lemma thm_verify_jsons_complete : forall now dbf dbs fs reqs rs i r kid rec,
    let o := verify_jsons now dbf dbs fs reqs in
    o_results o = Some rs -> nth_error reqs i = Some r ->
    (exists ids, kids_of (rq_server r) (rq_msg r) = Some ids /\ In kid ids) -> supported kid = true ->
    mfind (rq_server r, kid) (o_keys o) = Some rec ->
    was_valid_at now rec (rq_at r) (rq_rule r) = true ->
    vj (rq_server r) kid (pk_key rec) (rq_msg r) = true ->
    nth_error rs i = Some ROk.
  Proof.
    intros now dbf dbs fs reqs rs i r kid rec o HR Hr Hk Hs F W V.
    eapply (complete now dbf dbs fs reqs rs i r kid rec); try eassumption.
    unfold witness. repeat split; assumption.
  Qed.

  Lemma thm_database_key_inside_validity_is_used : forall now dbf dbs fs reqs kr fromdb k v,
    let o := verify_jsons now dbf dbs fs reqs in
    o_dbcall o = Some kr -> dbf kr = Some fromdb -> NoDup (map fst fromdb) -> In (k, v) fromdb ->
    (pk_expired v <> 0 \/ as_timestamp now < pk_valid_until v) ->
    mfind k (o_keys o) = Some v /\ forall c, In c (o_calls o) -> mhas k (c_asked c) = false.
  Proof.
    intros now dbf dbs fs reqs kr fromdb k v o HD HF ND Hin Hfin.
    assert (HK : o_dbcall o = Some (public_key_requests M (map init_slot reqs))).
    { subst o. destruct (verify_jsons_cases now dbf dbs fs reqs)
        as [[_ E]|[[_ [_ E]]|[fromdb' [_ [_ [[_ E]|[_ E]]]]]]]; rewrite E in *; simpl in *;
        try discriminate; reflexivity. }
    assert (kr = public_key_requests M (map init_slot reqs)) by congruence. subst kr.
    eapply db_final_kept; eauto.
    unfold db_final, public_key_not_expired. destruct Hfin as [H|H].
    - apply orb_true_iff. left. apply negb_true_iff. apply Z.eqb_neq. exact H.
    - apply orb_true_iff. right. apply Z.ltb_lt. exact H.
  Qed.

  Lemma thm_fetchers_asked_only_for_missing_or_stale : forall now dbf dbs fs reqs c k,
    let o := verify_jsons now dbf dbs fs reqs in
    In c (o_calls o) -> mhas k (c_asked c) = true ->
    exists kr fromdb, o_dbcall o = Some kr /\ dbf kr = Some fromdb /\ mhas k kr = true /\
      forall v, In (k, v) fromdb -> pk_expired v = 0 /\ pk_valid_until v <= as_timestamp now.
  Proof.
    intros now dbf dbs fs reqs c k o Hc Hk.
    destruct (asked_spec now dbf dbs fs reqs c k Hc Hk) as [fromdb [H1 [H2 [H3 H4]]]].
    eexists; exists fromdb. split; [exact H1|]. split; [exact H2|]. split; [exact H3|].
    intros v Hin. apply H4 in Hin. unfold db_final, public_key_not_expired in Hin.
    apply orb_false_iff in Hin. destruct Hin as [A B].
    apply negb_false_iff in A. apply Z.eqb_eq in A. apply Z.ltb_ge in B. auto.
  Qed.

  Lemma thm_verify_jsons_complete_database : forall now dbf dbs fs reqs rs i r kid rec kr fromdb,
    let o := verify_jsons now dbf dbs fs reqs in
    o_results o = Some rs -> nth_error reqs i = Some r ->
    (exists ids, kids_of (rq_server r) (rq_msg r) = Some ids /\ In kid ids) -> supported kid = true ->
    o_dbcall o = Some kr -> dbf kr = Some fromdb -> NoDup (map fst fromdb) ->
    In ((rq_server r, kid), rec) fromdb ->
    (pk_expired rec <> 0 \/ as_timestamp now < pk_valid_until rec) ->
    was_valid_at now rec (rq_at r) (rq_rule r) = true ->
    vj (rq_server r) kid (pk_key rec) (rq_msg r) = true ->
    nth_error rs i = Some ROk.
  Proof.
    intros now dbf dbs fs reqs rs i r kid rec kr fromdb o HR Hr Hk Hs HD HF ND Hin Hfin W V.
    destruct (thm_database_key_inside_validity_is_used now dbf dbs fs reqs kr fromdb _ _ HD HF ND Hin Hfin) as [F _].
    eapply thm_verify_jsons_complete; eauto.
  Qed.

  Lemma thm_verify_jsons_complete_fetcher : forall now dbf dbs fs reqs rs i r kid rec c ans,
    let o := verify_jsons now dbf dbs fs reqs in
    o_results o = Some rs -> nth_error reqs i = Some r ->
    (exists ids, kids_of (rq_server r) (rq_msg r) = Some ids /\ In kid ids) -> supported kid = true ->
    In c (o_calls o) -> mhas (rq_server r, kid) (c_asked c) = true ->
    c_answer c = Some ans -> NoDup (map fst ans) -> In ((rq_server r, kid), rec) ans ->
    was_valid_at now rec (rq_at r) (rq_rule r) = true ->
    vj (rq_server r) kid (pk_key rec) (rq_msg r) = true ->
    nth_error rs i = Some ROk.
  Proof.
    intros now dbf dbs fs reqs rs i r kid rec c ans o HR Hr Hk Hs Hc Hask Ha ND Hin W V.
    destruct (stored_spec now dbf dbs fs reqs c ans _ _ Hc Ha ND Hin Hask) as [_ F].
    eapply thm_verify_jsons_complete; eauto.
  Qed.

End RingProofs.
