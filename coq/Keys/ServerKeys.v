(* Model of keys.go: CheckKeys / checkVerifyKeys on an unmarshalled ServerKeys value, and of
   keyring.go: mapServerKeysToPublicKeyLookupResult, DirectKeyFetcher.FetchKeys (with
   fetchKeysForServer / fetchNotaryKeysForServer; the worker pool is sequentialised, concurrency
   is property C19) and PerspectiveKeyFetcher.FetchKeys.

   A ServerKeys value is its decoded fields plus the raw JSON it was decoded from (type M); the
   raw JSON only matters to VerifyJSON (vj) and ListKeyIDs (kids_of), both parameters.
   The KeyClient is a pair of arbitrary functions (None = error). *)
From Verif Require Import Lib.Bytes Json.Ast Keys.Model.
Open Scope Z_scope.

Definition ed25519_name : bytes := bs "ed25519".
Definition ed25519_key_length : nat := 32.
Definition fetcher_check_now : Z := 0.                       (* time.Unix(0, 0) *)
Definition local_key_valid_until : Z := 137438953472000.      (* AsTimestamp(time.Unix(1<<37, 0)) *)

(* strings.SplitN(keyID, ":", 2)[0] *)
Definition algorithm_of (kid : bytes) : bytes :=
  match split_at 58%N kid with Some (a, _) => a | None => kid end.

Section ServerKeys.
  Variable M : Type.
  Variable kids_of : bytes -> M -> option (list bytes).
  Variable vj : bytes -> bytes -> bytes -> M -> bool.

  Record server_keys := {
    sk_server : bytes;
    sk_verify : list (bytes * bytes);            (* key id, public key *)
    sk_valid_until : Z;
    sk_old : list (bytes * (bytes * Z));         (* key id, (public key, expired_ts) *)
    sk_raw : M
  }.

  Record key_check := { kc_kid : bytes; kc_valid : bool; kc_match : bool }.
  Record key_checks := {
    ck_all : bool; ck_name : bool; ck_future : bool; ck_has : bool;
    ck_alled : option bool;                      (* nil when there was no ed25519 key *)
    ck_entries : list key_check;
    ck_keys : option (list (bytes * bytes))      (* the returned map; nil unless all checks pass *)
  }.

  Definition is_ed25519 (kid : bytes) : bool := bytes_eqb (algorithm_of kid) ed25519_name.

  (* one ed25519 entry of checkVerifyKeys *)
  Definition check_entry (sk : server_keys) (kv : bytes * bytes) : key_check :=
    let valid := Nat.eqb (length (snd kv)) ed25519_key_length in
    {| kc_kid := fst kv; kc_valid := valid;
       kc_match := if valid then vj (sk_server sk) (fst kv) (snd kv) (sk_raw sk) else false |}.

  Definition check_keys (server : bytes) (now : Z) (sk : server_keys) : key_checks :=
    let name_ok := bytes_eqb server (sk_server sk) in
    let future := ts_time (sk_valid_until sk) >? now in
    let eds := filter (fun kv => is_ed25519 (fst kv)) (sk_verify sk) in
    let entries := map (check_entry sk) eds in
    let has := match eds with [] => false | _ => true end in
    let alled := forallb kc_match entries in
    let all := name_ok && future && has && alled in
    {| ck_all := all; ck_name := name_ok; ck_future := future; ck_has := has;
       ck_alled := if has then Some alled else None;
       ck_entries := entries;
       ck_keys := if all then Some (map (fun e => (fst e, snd e))
                                        (filter (fun kv => kc_match (check_entry sk kv)) eds))
                  else None |}.

  (* mapServerKeysToPublicKeyLookupResult: current keys first, old keys overwrite *)
  Definition map_server_keys (sk : server_keys) (results : kmap pkres) : kmap pkres :=
    let r1 := fold_left (fun m kv => minsert (sk_server sk, fst kv)
                                       {| pk_key := snd kv; pk_expired := public_key_not_expired;
                                          pk_valid_until := sk_valid_until sk |} m)
                        (sk_verify sk) results in
    fold_left (fun m kv => minsert (sk_server sk, fst kv)
                             {| pk_key := fst (snd kv); pk_expired := snd (snd kv);
                                pk_valid_until := public_key_not_valid |} m)
              (sk_old sk) r1.

  (* ServerKeys.PublicKey: the current key while at <= valid_until_ts, else the old key while
     at <= expired_ts (uint64 comparisons; note the old key is still handed out AT expired_ts,
     whereas WasValidAt requires at < expired_ts) *)
  Definition public_key (sk : server_keys) (kid : bytes) (atts : Z) : option bytes :=
    match assoc_first kid (sk_verify sk) with
    | Some key => if atts <=? sk_valid_until sk then Some key
                  else match assoc_first kid (sk_old sk) with
                       | Some (okey, e) => if atts <=? e then Some okey else None
                       | None => None
                       end
    | None => match assoc_first kid (sk_old sk) with
              | Some (okey, e) => if atts <=? e then Some okey else None
              | None => None
              end
    end.

  (* ---------- DirectKeyFetcher ---------- *)
  Variable get_keys : bytes -> option server_keys.                    (* Client.GetServerKeys *)
  Variable lookup_keys : bytes -> kmap Z -> option (list server_keys). (* Client.LookupServerKeys *)

  Definition fetch_keys_for_server (server : bytes) : option (kmap pkres) :=
    match get_keys server with
    | None => None
    | Some sk => if ck_all (check_keys server fetcher_check_now sk) then Some (map_server_keys sk []) else None
    end.

  Definition fetch_notary_keys_for_server (now_ts : Z) (server : bytes) : option (kmap pkres) :=
    match lookup_keys server [((server, []), now_ts)] with
    | None => None
    | Some all =>
        match find (fun sk => bytes_eqb (sk_server sk) server) all with
        | None => None
        | Some sk => if ck_all (check_keys server fetcher_check_now sk) then Some (map_server_keys sk []) else None
        end
    end.

  Fixpoint distinct_servers (l : list bytes) (seen : list bytes) : list bytes :=
    match l with
    | [] => []
    | s :: r => if mem_bytes s seen then distinct_servers r seen else s :: distinct_servers r (s :: seen)
    end.

  Definition direct_fetch (is_local : bytes -> bool) (local_key : bytes) (now_ts : Z) (asked : kmap Z)
    : kmap pkres :=
    let locals := filter (fun kv => is_local (fst (fst kv))) asked in
    let remote := filter (fun kv => negb (is_local (fst (fst kv)))) asked in
    let results0 := fold_left (fun m kv => minsert (fst kv)
                                 {| pk_key := local_key; pk_expired := public_key_not_expired;
                                    pk_valid_until := local_key_valid_until |} m) locals [] in
    fold_left (fun m server =>
                 match (match fetch_keys_for_server server with
                        | Some r => Some r
                        | None => fetch_notary_keys_for_server now_ts server
                        end) with
                 | Some r => fold_left (fun m' kv => minsert (fst kv) (snd kv) m') r m
                 | None => m
                 end)
              (distinct_servers (map (fun kv => fst (fst kv)) remote) []) results0.

  (* ---------- PerspectiveKeyFetcher ---------- *)
  (* the loop over the key ids the perspective server signed with: the first id we hold a key for
     decides (the library walks a Go map; inputs where one known id verifies and another does not
     are outside the modelled class) *)
  Fixpoint notary_signed (pname : bytes) (pkeys : list (bytes * bytes)) (raw : M) (kids : list bytes)
    : option bool :=       (* None: no known id; Some b: VerifyJSON outcome for the first known id *)
    match kids with
    | [] => None
    | kid :: rest =>
        match assoc_first kid pkeys with
        | None => notary_signed pname pkeys raw rest
        | Some key => Some (vj pname kid key raw)
        end
    end.

  (* the map of requested server names the fetcher builds from its request map *)
  Definition server_requested (asked : kmap Z) (server : bytes) : bool :=
    existsb (fun kv => bytes_eqb (fst (fst kv)) server) asked.

  (* a document about a server that was not asked for is skipped (finding F64): CheckKeys below is
     handed the document's own name, so nothing else ties it to the requests *)
  Fixpoint perspective_docs (pname : bytes) (pkeys : list (bytes * bytes)) (asked : kmap Z)
           (docs : list server_keys) (results : kmap pkres) : option (kmap pkres) :=
    match docs with
    | [] => Some results
    | sk :: rest =>
        match kids_of pname (sk_raw sk) with
        | None => None
        | Some kids =>
            match notary_signed pname pkeys (sk_raw sk) kids with
            | Some true =>
                if negb (server_requested asked (sk_server sk))
                then perspective_docs pname pkeys asked rest results
                else if ck_all (check_keys (sk_server sk) fetcher_check_now sk)
                then perspective_docs pname pkeys asked rest (map_server_keys sk results)
                else None
            | _ => None
            end
        end
    end.

  Definition perspective_fetch (pname : bytes) (pkeys : list (bytes * bytes)) (asked : kmap Z)
    : option (kmap pkres) :=
    match lookup_keys pname asked with
    | None => None
    | Some docs => perspective_docs pname pkeys asked docs []
    end.
End ServerKeys.
