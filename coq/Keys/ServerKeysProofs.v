(* Proofs about Keys/ServerKeys.v: CheckKeys, mapServerKeysToPublicKeyLookupResult and the two
   library fetchers, for every message type, VerifyJSON, ListKeyIDs and KeyClient behaviour. *)
From Verif Require Import Lib.Bytes Json.Ast Keys.Model Keys.Spec Keys.MapFacts Keys.ServerKeys.
Open Scope Z_scope.

Arguments sk_server {M}. Arguments sk_verify {M}. Arguments sk_valid_until {M}.
Arguments sk_old {M}. Arguments sk_raw {M}.

Lemma In_minsert {V} (k k' : skey) (v v' : V) m :
  In (k, v) (minsert k' v' m) -> (k = k' /\ v = v') \/ In (k, v) m.
Proof.
  induction m as [|[k2 v2] m IH]; simpl.
  - intros [H|[]]. inversion H; auto.
  - destruct (skey_cmp k' k2).
    + intros [H|H]; [inversion H; auto|right; right; exact H].
    + intros [H|H]; [inversion H; auto|right; exact H].
    + intros [H|H]; [right; left; exact H|]. apply IH in H. destruct H; [auto|right; right; assumption].
Qed.

Lemma In_fold_insert {V X} (f : X -> skey) (g : X -> V) (k : skey) (v : V) l : forall m0,
  In (k, v) (fold_left (fun m x => minsert (f x) (g x) m) l m0) ->
  In (k, v) m0 \/ exists x, In x l /\ f x = k /\ g x = v.
Proof.
  induction l as [|x l IH]; intros m0 H; simpl in *; [left; exact H|].
  apply IH in H. destruct H as [H|[y [Hy E]]].
  - apply In_minsert in H. destruct H as [[E1 E2]|H]; [|left; exact H].
    right. exists x. auto.
  - right. exists y. auto.
Qed.

Section SKProofs.
  Variable M : Type.
  Variable kids_of : bytes -> M -> option (list bytes).
  Variable vj : bytes -> bytes -> bytes -> M -> bool.
  Notation server_keys := (server_keys M).
  Notation check_keys := (check_keys M vj).
  Notation map_server_keys := (map_server_keys M).

  (* ---------- CheckKeys ---------- *)
  Lemma check_keys_all server now (sk : server_keys) :
    ck_all (check_keys server now sk) = true <->
    server = sk_server sk /\ now < ts_time (sk_valid_until sk) /\
    (exists kv, In kv (sk_verify sk) /\ is_ed25519 (fst kv) = true) /\
    (forall kv, In kv (sk_verify sk) -> is_ed25519 (fst kv) = true ->
                length (snd kv) = 32%nat /\ vj (sk_server sk) (fst kv) (snd kv) (sk_raw sk) = true).
  Proof.
    unfold ServerKeys.check_keys. cbn [ck_all].
    set (eds := filter (fun kv => is_ed25519 (fst kv)) (sk_verify sk)).
    rewrite !andb_true_iff, bytes_eqb_eq, Z.gtb_lt, forallb_forall.
    assert (Hent : forall kv, kc_match (check_entry M vj sk kv) = true <->
                              length (snd kv) = 32%nat /\ vj (sk_server sk) (fst kv) (snd kv) (sk_raw sk) = true).
    { intro kv. unfold check_entry, ed25519_key_length. cbn [kc_match].
      destruct (Nat.eqb_spec (length (snd kv)) 32) as [E|E]; split.
      - intro H; auto. - intros [_ H]; exact H. - discriminate. - intros [H _]; contradiction. }
    split.
    - intros [[[H1 H2] H3] H4]. split; [exact H1|]. split; [exact H2|]. split.
      + destruct eds as [|kv r] eqn:E; [discriminate|]. exists kv.
        assert (Hin : In kv eds) by (rewrite E; left; reflexivity).
        unfold eds in Hin. apply filter_In in Hin. exact Hin.
      + intros kv Hin Hed. apply Hent. apply H4. apply in_map. unfold eds. apply filter_In. auto.
    - intros [H1 [H2 [[kv [Hin Hed]] H4]]]. repeat split; try assumption.
      + assert (Hin' : In kv eds) by (unfold eds; apply filter_In; auto).
        destruct eds; [destruct Hin'|reflexivity].
      + intros e He. apply in_map_iff in He. destruct He as [kv' [<- Hin']].
        unfold eds in Hin'. apply filter_In in Hin'. destruct Hin' as [Hi Hd]. apply Hent. auto.
  Qed.

  (* the keys CheckKeys hands back are listed ed25519 keys of 32 bytes whose self-signature verifies *)
  Lemma check_keys_keys server now (sk : server_keys) l kid key :
    ck_keys (check_keys server now sk) = Some l -> In (kid, key) l ->
    ck_all (check_keys server now sk) = true /\ In (kid, key) (sk_verify sk) /\ is_ed25519 kid = true /\
    length key = 32%nat /\ vj (sk_server sk) kid key (sk_raw sk) = true.
  Proof.
    unfold ServerKeys.check_keys. cbn [ck_keys ck_all].
    match goal with |- (if ?c then _ else _) = _ -> _ => destruct c eqn:C end; [|discriminate].
    intro H; inversion H; subst l; clear H. intro Hin.
    apply in_map_iff in Hin. destruct Hin as [[k2 key2] [E Hin]]. simpl in E. inversion E; subst.
    apply filter_In in Hin. destruct Hin as [Hin Hm]. apply filter_In in Hin. destruct Hin as [Hin Hed].
    split; [reflexivity|]. split; [exact Hin|]. split; [exact Hed|].
    unfold check_entry, ed25519_key_length in Hm. cbn [kc_match fst snd] in Hm.
    destruct (Nat.eqb_spec (length key) 32); [auto|discriminate].
  Qed.

  (* the fetchers pass the epoch: all that is left of valid_until_ts in the future is
     0 < valid_until_ts < 2^63 *)
  Lemma future_at_epoch vu : 0 <= vu < 2 ^ 64 -> (fetcher_check_now < ts_time vu <-> 0 < vu < 2 ^ 63).
  Proof.
    intro H. unfold fetcher_check_now. rewrite ts_time_signed.
    destruct (Z_lt_ge_dec vu (2 ^ 63)) as [L|G].
    - rewrite signed_ms_small by lia. lia.
    - rewrite signed_ms_big by lia. lia.
  Qed.

  (* ---------- mapServerKeysToPublicKeyLookupResult ---------- *)
  Definition entry_from (d : server_keys) (k : skey) (r : pkres) : Prop :=
    fst k = sk_server d /\
    ((exists key, In (snd k, key) (sk_verify d) /\
                  r = {| pk_key := key; pk_expired := 0; pk_valid_until := sk_valid_until d |})
     \/ (exists key e, In (snd k, (key, e)) (sk_old d) /\
                       r = {| pk_key := key; pk_expired := e; pk_valid_until := 0 |})).

  Lemma map_server_keys_In (d : server_keys) m k r :
    In (k, r) (map_server_keys d m) -> In (k, r) m \/ entry_from d k r.
  Proof.
    unfold ServerKeys.map_server_keys. intro H.
    apply In_fold_insert in H. destruct H as [H|[x [Hx [E1 E2]]]].
    - apply In_fold_insert in H. destruct H as [H|[x [Hx [E1 E2]]]]; [left; exact H|].
      right. unfold entry_from. subst k r. simpl. split; [reflexivity|]. left. exists (snd x).
      split; [destruct x; exact Hx|reflexivity].
    - right. unfold entry_from. subst k r. simpl. split; [reflexivity|]. right.
      exists (fst (snd x)), (snd (snd x)). split; [destruct x as [a [b c]]; exact Hx|reflexivity].
  Qed.

  (* ---------- ServerKeys.PublicKey ---------- *)
  Lemma assoc_first_In {A} (k : bytes) (m : list (bytes * A)) v : assoc_first k m = Some v -> In (k, v) m.
  Proof.
    induction m as [|[k' v'] m IH]; simpl; [discriminate|].
    destruct (bytes_eqb k k') eqn:E.
    - intro H; inversion H; subst. apply bytes_eqb_eq in E; subst. left; reflexivity.
    - intro H; right; auto.
  Qed.

  Lemma public_key_spec (sk : server_keys) kid atts key :
    public_key M sk kid atts = Some key ->
    (In (kid, key) (sk_verify sk) /\ atts <= sk_valid_until sk) \/
    (exists e, In (kid, (key, e)) (sk_old sk) /\ atts <= e).
  Proof.
    unfold public_key.
    assert (Hold : match assoc_first kid (sk_old sk) with
                   | Some (okey, e) => if atts <=? e then Some okey else None
                   | None => None end = Some key ->
                   exists e, In (kid, (key, e)) (sk_old sk) /\ atts <= e).
    { destruct (assoc_first kid (sk_old sk)) as [[okey e]|] eqn:F; [|discriminate].
      destruct (Z.leb_spec atts e) as [L|L]; [|discriminate]. intro HH; inversion HH; subst.
      exists e. split; [apply assoc_first_In; exact F|assumption]. }
    destruct (assoc_first kid (sk_verify sk)) as [k1|] eqn:F1.
    - destruct (Z.leb_spec atts (sk_valid_until sk)) as [L|L].
      + intro HH; inversion HH; subst. left. split; [apply assoc_first_In; exact F1|assumption].
      + intro H. right. auto.
    - intro H. right. auto.
  Qed.

  (* ---------- PerspectiveKeyFetcher ---------- *)
  Lemma notary_signed_true pname pkeys raw kids :
    notary_signed M vj pname pkeys raw kids = Some true ->
    exists kid key, In kid kids /\ assoc_first kid pkeys = Some key /\ vj pname kid key raw = true.
  Proof.
    induction kids as [|kid rest IH]; simpl; [discriminate|].
    destruct (assoc_first kid pkeys) as [key|] eqn:E.
    - intro H. inversion H. exists kid, key. auto.
    - intro H. apply IH in H. destruct H as [k [ky [Hi H]]]. exists k, ky. auto.
  Qed.

  Definition notary_signature (pname : bytes) (pkeys : list (bytes * bytes)) (d : server_keys) : Prop :=
    exists kids kid key, kids_of pname (sk_raw d) = Some kids /\ In kid kids /\
                         assoc_first kid pkeys = Some key /\ vj pname kid key (sk_raw d) = true.

  (* a document that contributes: signed by the notary, about a requested server, passes CheckKeys *)
  Definition notary_vouched (pname : bytes) (pkeys : list (bytes * bytes)) (asked : kmap Z) (d : server_keys) : Prop :=
    notary_signature pname pkeys d /\ server_requested asked (sk_server d) = true /\
    ck_all (check_keys (sk_server d) fetcher_check_now d) = true.

  Lemma perspective_docs_cons pname pkeys asked d docs results :
    perspective_docs M kids_of vj pname pkeys asked (d :: docs) results =
    match kids_of pname (sk_raw d) with
    | None => None
    | Some kids =>
        match notary_signed M vj pname pkeys (sk_raw d) kids with
        | Some true =>
            if negb (server_requested asked (sk_server d))
            then perspective_docs M kids_of vj pname pkeys asked docs results
            else if ck_all (check_keys (sk_server d) fetcher_check_now d)
            then perspective_docs M kids_of vj pname pkeys asked docs (map_server_keys d results)
            else None
        | _ => None
        end
    end.
  Proof. reflexivity. Qed.

  Lemma perspective_docs_spec pname pkeys asked docs : forall results res,
    perspective_docs M kids_of vj pname pkeys asked docs results = Some res ->
    (forall d, In d docs -> notary_signature pname pkeys d) /\
    (forall k r, In (k, r) res ->
                 In (k, r) results \/ exists d, In d docs /\ notary_vouched pname pkeys asked d /\ entry_from d k r).
  Proof.
    induction docs as [|d docs IH]; intros results res.
    - simpl. intro H. inversion H; subst. split; [intros d []|auto].
    - rewrite perspective_docs_cons. destruct (kids_of pname (sk_raw d)) as [kids|] eqn:EK; [|discriminate].
      destruct (notary_signed M vj pname pkeys (sk_raw d) kids) as [[|]|] eqn:EN; try discriminate.
      assert (HN : notary_signature pname pkeys d).
      { apply notary_signed_true in EN. destruct EN as [kid [key [Hi [Ha Hv]]]]. exists kids, kid, key. auto. }
      destruct (server_requested asked (sk_server d)) eqn:ER; cbn [negb].
      + destruct (ck_all (check_keys (sk_server d) fetcher_check_now d)) eqn:EC; [|discriminate].
        intro H. apply IH in H. destruct H as [H1 H2]. split.
        * intros d' Hd'. simpl in Hd'. destruct Hd' as [<-|Hin]; [exact HN|auto].
        * intros k r Hin. apply H2 in Hin. destruct Hin as [Hin|[d' [Hd [Hv He]]]].
          -- apply map_server_keys_In in Hin. destruct Hin as [Hin|He]; [left; exact Hin|].
             right. exists d. split; [left; reflexivity|]. split; [|exact He]. split; [exact HN|]. split; assumption.
          -- right. exists d'. split; [right; exact Hd|]. split; assumption.
      + intro H. apply IH in H. destruct H as [H1 H2]. split.
        * intros d' Hd'. simpl in Hd'. destruct Hd' as [<-|Hin]; [exact HN|auto].
        * intros k r Hin. apply H2 in Hin. destruct Hin as [Hin|[d' [Hd [Hv He]]]]; [left; exact Hin|].
          right. exists d'. split; [right; exact Hd|]. split; assumption.
  Qed.

  Section Client.
    Variable get_keys : bytes -> option server_keys.
    Variable lookup_keys : bytes -> kmap Z -> option (list server_keys).

    Lemma perspective_fetch_spec pname pkeys asked res :
      perspective_fetch M kids_of vj lookup_keys pname pkeys asked = Some res ->
      exists docs, lookup_keys pname asked = Some docs /\
        (forall d, In d docs -> notary_signature pname pkeys d) /\
        (forall k r, In (k, r) res ->
                     exists d, In d docs /\ notary_vouched pname pkeys asked d /\ entry_from d k r).
    Proof.
      unfold perspective_fetch. destruct (lookup_keys pname asked) as [docs|]; [|discriminate].
      intro H. apply perspective_docs_spec in H. destruct H as [H1 H2].
      exists docs. split; [reflexivity|]. split; [exact H1|].
      intros k r Hin. apply H2 in Hin. destruct Hin as [[]|H]; exact H.
    Qed.

    (* every key of a perspective answer is for a server of the request map *)
    Lemma perspective_fetch_requested pname pkeys asked res k r :
      perspective_fetch M kids_of vj lookup_keys pname pkeys asked = Some res -> In (k, r) res ->
      exists kid t, In ((fst k, kid), t) asked.
    Proof.
      intros H Hin. apply perspective_fetch_spec in H. destruct H as [docs [_ [_ H]]].
      apply H in Hin. destruct Hin as [d [_ [[_ [HR _]] [E _]]]].
      unfold server_requested in HR. apply existsb_exists in HR. destruct HR as [[[s kid] t] [Hin E2]].
      simpl in E2. apply bytes_eqb_eq in E2. exists kid, t. rewrite E, <- E2. exact Hin.
    Qed.

    (* ---------- DirectKeyFetcher ---------- *)
    Definition direct_source (now_ts : Z) (server : bytes) (d : server_keys) : Prop :=
      (get_keys server = Some d \/
       exists all, lookup_keys server [((server, []), now_ts)] = Some all /\ In d all /\ sk_server d = server)
      /\ ck_all (check_keys server fetcher_check_now d) = true.

    Lemma fetch_server_spec now_ts server r :
      match fetch_keys_for_server M vj get_keys server with
      | Some r => Some r
      | None => fetch_notary_keys_for_server M vj lookup_keys now_ts server
      end = Some r ->
      exists d, direct_source now_ts server d /\ r = map_server_keys d [].
    Proof.
      unfold fetch_keys_for_server, fetch_notary_keys_for_server, direct_source.
      destruct (get_keys server) as [d|] eqn:EG.
      - destruct (ck_all (check_keys server fetcher_check_now d)) eqn:EC.
        + intro H; inversion H. exists d. auto.
        + destruct (lookup_keys server [((server, []), now_ts)]) as [all|] eqn:EL; [|discriminate].
          destruct (find (fun sk => bytes_eqb (sk_server sk) server) all) as [d'|] eqn:EF; [|discriminate].
          destruct (ck_all (check_keys server fetcher_check_now d')) eqn:EC'; [|discriminate].
          intro H; inversion H. apply find_some in EF. destruct EF as [Hin Hs]. apply bytes_eqb_eq in Hs.
          exists d'. split; [split; [right; exists all; auto|exact EC']|reflexivity].
      - destruct (lookup_keys server [((server, []), now_ts)]) as [all|] eqn:EL; [|discriminate].
        destruct (find (fun sk => bytes_eqb (sk_server sk) server) all) as [d'|] eqn:EF; [|discriminate].
        destruct (ck_all (check_keys server fetcher_check_now d')) eqn:EC'; [|discriminate].
        intro H; inversion H. apply find_some in EF. destruct EF as [Hin Hs]. apply bytes_eqb_eq in Hs.
        exists d'. split; [split; [right; exists all; auto|exact EC']|reflexivity].
    Qed.

    Lemma direct_fetch_spec is_local local_key now_ts asked k r :
      In (k, r) (direct_fetch M vj get_keys lookup_keys is_local local_key now_ts asked) ->
      (is_local (fst k) = true /\ mhas k asked = true /\
       r = {| pk_key := local_key; pk_expired := 0; pk_valid_until := local_key_valid_until |})
      \/ (exists d, is_local (fst k) = false /\ direct_source now_ts (fst k) d /\ entry_from d k r).
    Proof.
      unfold direct_fetch.
      set (locals := filter (fun kv => is_local (fst (fst kv))) asked).
      set (remote := filter (fun kv => negb (is_local (fst (fst kv)))) asked).
      set (servers := distinct_servers (map (fun kv => fst (fst kv)) remote) []).
      assert (Hservers : forall s, In s servers -> is_local s = false).
      { assert (G : forall l seen s, In s (distinct_servers l seen) -> In s l).
        { induction l as [|x l IH]; intros seen s H; simpl in *; [exact H|].
          destruct (mem_bytes x seen); [right; eapply IH; exact H|].
          destruct H as [<-|H]; [left; reflexivity|right; eapply IH; exact H]. }
        intros s Hs. apply G in Hs. apply in_map_iff in Hs. destruct Hs as [kv [<- Hkv]].
        unfold remote in Hkv. apply filter_In in Hkv. destruct Hkv as [_ Hn].
        apply negb_true_iff in Hn. exact Hn. }
      set (Q := fun (k : skey) (r : pkres) =>
        (is_local (fst k) = true /\ mhas k asked = true /\
         r = {| pk_key := local_key; pk_expired := 0; pk_valid_until := local_key_valid_until |})
        \/ (exists d, is_local (fst k) = false /\ direct_source now_ts (fst k) d /\ entry_from d k r)).
      assert (H0 : forall k r, In (k, r) (fold_left (fun m kv => minsert (fst kv)
                     {| pk_key := local_key; pk_expired := public_key_not_expired;
                        pk_valid_until := local_key_valid_until |} m) locals []) -> Q k r).
      { intros k0 r0 Hin.
        apply (In_fold_insert (fun kv : skey * Z => fst kv)
                 (fun _ => {| pk_key := local_key; pk_expired := public_key_not_expired;
                              pk_valid_until := local_key_valid_until |})) in Hin.
        destruct Hin as [[]|[x [Hx [E1 E2]]]]. left. subst k0 r0.
        unfold locals in Hx. apply filter_In in Hx. destruct Hx as [Hx Hl]. split; [exact Hl|]. split; [|reflexivity].
        apply mhas_true. clear - Hx. induction asked as [|[k' v'] m IH]; [destruct Hx|].
        simpl. destruct (skey_eqb (fst x) k') eqn:E; [eauto|].
        destruct Hx as [Hx|Hx]; [subst x; simpl in E; rewrite skey_eqb_refl in E; discriminate|auto]. }
      revert H0. generalize (fold_left (fun m kv => minsert (fst kv)
                     {| pk_key := local_key; pk_expired := public_key_not_expired;
                        pk_valid_until := local_key_valid_until |} m) locals []).
      revert Hservers. generalize servers. clear servers.
      induction servers as [|s servers IH]; intros Hs m0 H0 Hin; simpl in Hin; [apply H0; exact Hin|].
      eapply IH; [intros; apply Hs; right; assumption| |exact Hin].
      intros k0 r0 Hin0.
      destruct (match fetch_keys_for_server M vj get_keys s with
                | Some r1 => Some r1
                | None => fetch_notary_keys_for_server M vj lookup_keys now_ts s
                end) as [res|] eqn:EF; [|apply H0; exact Hin0].
      apply (In_fold_insert (fun kv : skey * pkres => fst kv) (fun kv => snd kv)) in Hin0.
      destruct Hin0 as [Hin0|[x [Hx [E1 E2]]]]; [apply H0; exact Hin0|].
      apply fetch_server_spec in EF. destruct EF as [d [Hd ->]].
      destruct x as [kx rx]. simpl in E1, E2. subst kx rx.
      apply map_server_keys_In in Hx. destruct Hx as [[]|He].
      right. exists d. assert (Es : fst k0 = s).
      { destruct He as [E _]. rewrite E. destruct Hd as [[Hg|[all [_ [_ E2]]]] Hc].
        - apply check_keys_all in Hc. destruct Hc as [E3 _]. congruence.
        - exact E2. }
      rewrite Es. split; [apply Hs; left; reflexivity|]. split; [exact Hd|exact He].
    Qed.
  End Client.
End SKProofs.
