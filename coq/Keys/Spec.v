(* Specification side of C12, written from the property text and independently of the structure
   of Keys/Model.v: closed forms over scenario DATA (database contents, fetcher scripts, a table of
   which signatures verify) in millisecond arithmetic. *)
From Verif Require Import Lib.Bytes.
Open Scope Z_scope.

Definition seven_days_ms : Z := 7 * 24 * 60 * 60 * 1000.

(* a uint64 millisecond timestamp read the way Timestamp.Time reads it (as an int64) *)
Definition p63 : Z := 9223372036854775808.      (* 2^63, see pow_literals in Keys/MapFacts.v *)
Definition p64 : Z := 18446744073709551616.     (* 2^64 *)
Definition signed_ms (u : Z) : Z := if u <? p63 then u else u - p64.

(* validity of a key (expired_ts, valid_until_ts) at [atts]; now_ns = wall clock in ns.
   expired key: strictly before expired_ts; otherwise lenient: always; strict: a validity period
   is known and atts is at or before min(valid_until_ts, now + 7 days). *)
Definition valid_at_spec (strict : bool) (now_ns expired valid_until atts : Z) : bool :=
  if negb (expired =? 0) then atts <? expired
  else if negb strict then true
  else negb (valid_until =? 0)
       && (signed_ms atts <=? signed_ms valid_until)
       && (signed_ms atts * 1000000 <=? now_ns + seven_days_ms * 1000000).

(* the same rule on the uint64 millisecond values themselves, which is what the property text and
   the room version 5 rule say (finding F62: the library converts to time.Time through int64, so
   its rule, valid_at_spec above, differs from this one once a timestamp reaches 2^63) *)
Definition valid_at_unsigned (strict : bool) (now_ns expired valid_until atts : Z) : bool :=
  if negb (expired =? 0) then atts <? expired
  else if negb strict then true
  else negb (valid_until =? 0)
       && (atts <=? valid_until)
       && (atts <=? now_ns / 1000000 + seven_days_ms).

(* a stored key is held inside its validity (no refetch): expired keys never change; a current
   key is refetched once now (ms) has reached valid_until_ts *)
Definition db_key_final (now_ns expired valid_until : Z) : bool :=
  negb (expired =? 0) || ((now_ns / 1000000) mod p64 <? valid_until).
