(* Bytes as N (each < 256 by convention), byte strings as lists.
   Model-side helpers only (no property theorems here). *)
From Coq Require Export String Ascii.
From Coq Require Export List NArith ZArith Bool Lia.
Export ListNotations.
Open Scope N_scope.

Definition byte := N.
Definition bytes := list N.

(* string literal -> bytes (ASCII only in practice) *)
Definition bs (s : string) : bytes := map N_of_ascii (list_ascii_of_string s).

Fixpoint bytes_eqb (a b : bytes) : bool :=
  match a, b with
  | [], [] => true
  | x :: a', y :: b' => (x =? y) && bytes_eqb a' b'
  | _, _ => false
  end.

Lemma bytes_eqb_refl a : bytes_eqb a a = true.
Proof. induction a as [|x a IH]; simpl; [reflexivity|]. rewrite N.eqb_refl, IH. reflexivity. Qed.

Lemma bytes_eqb_eq a b : bytes_eqb a b = true <-> a = b.
Proof.
  revert b; induction a as [|x a IH]; intros [|y b]; simpl; split; intro H;
    try reflexivity; try discriminate.
  - apply andb_true_iff in H as [H1 H2]. apply N.eqb_eq in H1. apply IH in H2. subst. reflexivity.
  - inversion H; subst. rewrite N.eqb_refl. simpl. apply IH. reflexivity.
Qed.

Lemma bytes_eqb_neq a b : bytes_eqb a b = false <-> a <> b.
Proof.
  split; intro H.
  - intro E. apply bytes_eqb_eq in E. congruence.
  - destruct (bytes_eqb a b) eqn:E; [|reflexivity]. apply bytes_eqb_eq in E. contradiction.
Qed.

(* lexicographic comparison on byte values (= strings.Compare / bytes.Compare) *)
Fixpoint bytes_cmp (a b : bytes) : comparison :=
  match a, b with
  | [], [] => Eq
  | [], _ => Lt
  | _, [] => Gt
  | x :: a', y :: b' =>
      match x ?= y with
      | Eq => bytes_cmp a' b'
      | c => c
      end
  end.

Definition bytes_ltb (a b : bytes) : bool :=
  match bytes_cmp a b with Lt => true | _ => false end.
Definition bytes_leb (a b : bytes) : bool :=
  match bytes_cmp a b with Gt => false | _ => true end.

Lemma bytes_cmp_eq a b : bytes_cmp a b = Eq <-> a = b.
Proof.
  revert b; induction a as [|x a IH]; intros [|y b]; simpl; split; intro H;
    try reflexivity; try discriminate.
  - destruct (x ?= y) eqn:E; try discriminate. apply N.compare_eq in E. apply IH in H. subst; reflexivity.
  - inversion H; subst. rewrite N.compare_refl. apply IH. reflexivity.
Qed.

Lemma bytes_cmp_antisym a b : bytes_cmp b a = CompOpp (bytes_cmp a b).
Proof.
  revert b; induction a as [|x a IH]; intros [|y b]; simpl; try reflexivity.
  rewrite (N.compare_antisym x y). destruct (x ?= y); simpl; auto.
Qed.

Lemma bytes_cmp_trans_lt a b c :
  bytes_cmp a b = Lt -> bytes_cmp b c = Lt -> bytes_cmp a c = Lt.
Proof.
  revert b c; induction a as [|x a IH]; intros [|y b] [|z c]; simpl; intros H1 H2;
    try reflexivity; try discriminate.
  destruct (x ?= y) eqn:Exy; try discriminate.
  - apply N.compare_eq in Exy; subst y. destruct (x ?= z) eqn:Exz; try discriminate; auto.
    eapply IH; eauto.
  - destruct (y ?= z) eqn:Eyz; try discriminate.
    + apply N.compare_eq in Eyz; subst z. rewrite Exy. reflexivity.
    + rewrite N.compare_lt_iff in Exy, Eyz.
      assert (Hxz : (x ?= z) = Lt) by (rewrite N.compare_lt_iff; lia).
      rewrite Hxz. reflexivity.
Qed.

Fixpoint is_prefix (p s : bytes) : bool :=
  match p, s with
  | [], _ => true
  | x :: p', y :: s' => (x =? y) && is_prefix p' s'
  | _ :: _, [] => false
  end.

Fixpoint drop (n : nat) (s : bytes) : bytes :=
  match n, s with
  | O, _ => s
  | S n', _ :: s' => drop n' s'
  | S _, [] => []
  end.

Lemma is_prefix_app p s : is_prefix p s = true -> s = p ++ drop (length p) s.
Proof.
  revert s; induction p as [|x p IH]; intros s H; simpl in *; [reflexivity|].
  destruct s as [|y s]; [discriminate|].
  apply andb_true_iff in H as [H1 H2]. apply N.eqb_eq in H1; subst. f_equal. apply IH. exact H2.
Qed.

Lemma is_prefix_self_app p s : is_prefix p (p ++ s) = true.
Proof. induction p as [|x p IH]; simpl; [reflexivity|]. rewrite N.eqb_refl. exact IH. Qed.

Lemma drop_app_length p s : drop (length p) (p ++ s) = s.
Proof. induction p; simpl; auto. Qed.

(* index of first occurrence of byte c *)
Fixpoint split_at (c : N) (s : bytes) : option (bytes * bytes) :=
  match s with
  | [] => None
  | x :: s' => if x =? c then Some ([], s')
               else match split_at c s' with
                    | Some (a, b) => Some (x :: a, b)
                    | None => None
                    end
  end.

Fixpoint mem_bytes (x : bytes) (l : list bytes) : bool :=
  match l with [] => false | y :: l' => bytes_eqb x y || mem_bytes x l' end.

Lemma mem_bytes_In x l : mem_bytes x l = true <-> In x l.
Proof.
  induction l as [|y l IH]; simpl; [split; [discriminate|tauto]|].
  rewrite orb_true_iff, IH, bytes_eqb_eq. split; intros [H|H]; auto.
Qed.

(* ---- decimal ---- *)
Definition is_digit (c : N) : bool := (48 <=? c) && (c <=? 57).

Fixpoint parse_dec_acc (acc : N) (s : bytes) : option N :=
  match s with
  | [] => Some acc
  | c :: s' => if is_digit c then parse_dec_acc (acc * 10 + (c - 48)) s' else None
  end.

(* non-empty string of ASCII digits -> N *)
Definition parse_dec (s : bytes) : option N :=
  match s with [] => None | _ => parse_dec_acc 0 s end.

(* Go strconv.Atoi style: optional sign, then digits (no range limit modelled) *)
Definition parse_int (s : bytes) : option Z :=
  match s with
  | [] => None
  | c :: r =>
      if c =? 45 then option_map (fun n => Z.opp (Z.of_N n)) (parse_dec r)
      else if c =? 43 then option_map Z.of_N (parse_dec r)
      else option_map Z.of_N (parse_dec s)
  end.

Fixpoint print_dec_fuel (fuel : nat) (n : N) (acc : bytes) : bytes :=
  match fuel with
  | O => acc
  | S f => let acc' := (48 + n mod 10) :: acc in
           if n <? 10 then acc' else print_dec_fuel f (n / 10) acc'
  end.

Definition print_dec (n : N) : bytes := print_dec_fuel (S (N.to_nat (N.log2 n))) n [].

Definition print_int (z : Z) : bytes :=
  match z with
  | Zneg p => 45 :: print_dec (Npos p)
  | _ => print_dec (Z.to_N z)
  end.

(* ---- hex ---- *)
Definition hex_digit (n : N) : N := if n <? 10 then 48 + n else 87 + n.
Definition hex_of_bytes (s : bytes) : bytes :=
  flat_map (fun c => [hex_digit (c / 16); hex_digit (c mod 16)]) s.

Definition concat_bytes (l : list bytes) : bytes := List.concat l.

Fixpoint join_bytes (sep : bytes) (l : list bytes) : bytes :=
  match l with
  | [] => []
  | [x] => x
  | x :: l' => x ++ sep ++ join_bytes sep l'
  end.
