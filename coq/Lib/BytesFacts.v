(* Facts about the decimal printer / parser of Lib/Bytes.v *)
From Verif Require Import Lib.Bytes.
Open Scope N_scope.

Lemma is_digit_add n : n < 10 -> is_digit (48 + n) = true.
Proof.
  intro H. unfold is_digit. apply andb_true_iff; split; apply N.leb_le; lia.
Qed.

Lemma print_dec_fuel_parse f : forall n acc, n < 2 ^ N.of_nat f ->
  exists k, forall a, parse_dec_acc a (print_dec_fuel f n acc) = parse_dec_acc (a * 10 ^ k + n) acc.
Proof.
  induction f as [|f IH]; intros n acc Hn.
  - simpl in Hn. assert (n = 0) by lia. subst. exists 0. intro a. simpl.
    f_equal. lia.
  - cbn [print_dec_fuel].
    destruct (n <? 10) eqn:E.
    + apply N.ltb_lt in E. exists 1. intro a. cbn [parse_dec_acc].
      rewrite (N.mod_small n 10) by exact E.
      rewrite is_digit_add by exact E. f_equal. lia.
    + apply N.ltb_ge in E.
      assert (Hd : n / 10 < 2 ^ N.of_nat f).
      { rewrite Nat2N.inj_succ, N.pow_succ_r' in Hn.
        apply N.div_lt_upper_bound; lia. }
      destruct (IH (n / 10) ((48 + n mod 10) :: acc) Hd) as [k Hk].
      exists (k + 1). intro a. rewrite Hk. cbn [parse_dec_acc].
      assert (Hm : n mod 10 < 10) by (apply N.mod_lt; lia).
      rewrite is_digit_add by exact Hm. f_equal.
      rewrite N.pow_add_r. pose proof (N.div_mod n 10 ltac:(lia)) as Hdm.
      set (m := n mod 10) in *. set (q := n / 10) in *. set (p := 10 ^ k) in *.
      replace (48 + m - 48) with m by lia.
      rewrite N.pow_1_r.
      transitivity ((a * p + q) * 10 + m); [reflexivity|].
      transitivity (a * (p * 10) + (10 * q + m)); [ring|]. rewrite <- Hdm. reflexivity.
Qed.

Lemma log2_fuel n : n < 2 ^ N.of_nat (S (N.to_nat (N.log2 n))).
Proof.
  rewrite Nat2N.inj_succ, N2Nat.id.
  destruct (N.eq_dec n 0) as [->|Hn]; [reflexivity|].
  apply N.log2_spec. lia.
Qed.

Lemma print_dec_fuel_nonempty f n acc : print_dec_fuel (S f) n acc <> [].
Proof.
  revert n acc; induction f as [|f IH]; intros n acc; cbn [print_dec_fuel].
  - destruct (n <? 10); discriminate.
  - destruct (n <? 10); [discriminate|]. apply IH.
Qed.

Lemma print_dec_fuel_head f : forall n acc,
  (forall c r, acc = c :: r -> is_digit c = true) ->
  forall c r, print_dec_fuel f n acc = c :: r -> is_digit c = true.
Proof.
  induction f as [|f IH]; intros n acc Hacc c r H; cbn [print_dec_fuel] in H.
  - eapply Hacc; eauto.
  - assert (Hm : n mod 10 < 10) by (apply N.mod_lt; lia).
    destruct (n <? 10).
    + inversion H; subst. apply is_digit_add. exact Hm.
    + eapply IH; [|exact H]. intros c' r' E. inversion E; subst. apply is_digit_add; exact Hm.
Qed.

Lemma parse_print_dec n : parse_dec (print_dec n) = Some n.
Proof.
  unfold parse_dec, print_dec.
  destruct (print_dec_fuel (S (N.to_nat (N.log2 n))) n []) eqn:E.
  - exfalso. eapply print_dec_fuel_nonempty; eauto.
  - rewrite <- E.
    destruct (print_dec_fuel_parse _ n [] (log2_fuel n)) as [k Hk].
    rewrite Hk. simpl. f_equal.
Qed.

Lemma print_dec_head n : exists c r, print_dec n = c :: r /\ is_digit c = true.
Proof.
  unfold print_dec.
  destruct (print_dec_fuel (S (N.to_nat (N.log2 n))) n []) as [|c r] eqn:E.
  - exfalso. eapply print_dec_fuel_nonempty; eauto.
  - exists c, r. split; [reflexivity|].
    eapply print_dec_fuel_head; [|exact E]. intros; discriminate.
Qed.

Lemma parse_print_int z : parse_int (print_int z) = Some z.
Proof.
  unfold print_int.
  assert (Hnonneg : forall n, parse_int (print_dec n) = Some (Z.of_N n)).
  { intro n. destruct (print_dec_head n) as (c & r & E & Hc).
    unfold parse_int. rewrite E.
    unfold is_digit in Hc. apply andb_true_iff in Hc as [H1 H2].
    apply N.leb_le in H1. apply N.leb_le in H2.
    destruct (c =? 45) eqn:E1; [apply N.eqb_eq in E1; lia|].
    destruct (c =? 43) eqn:E2; [apply N.eqb_eq in E2; lia|].
    rewrite <- E, parse_print_dec. reflexivity. }
  destruct z as [|p|p].
  - apply (Hnonneg 0).
  - apply (Hnonneg (Npos p)).
  - unfold parse_int. rewrite N.eqb_refl, parse_print_dec. reflexivity.
Qed.
