(* C19: fclient/dnscache.go as a labelled transition system whose atomic steps are the code's
   critical sections.

     lookup(h)  =  [lock: check / drop expired]  .  [unlocked: resolver]  .  [lock: evict to
                   size, insert]
     DialContext retry path = [lock: delete(h)]

   The functions of the critical sections are executable (they are also the sequential
   semantics compared with the real DNSCache); the interleaving is the relation [step].
   One clock reading per critical section (the code reads time.Now once per pass of the
   eviction loop and once more for the new entry; readings inside one critical section are
   taken as equal).  Go's map iteration order is random: where two entries have the same
   minimal expiry the code evicts either; the model takes the first in list order.
   No proofs in this file. *)
From Verif Require Import Lib.Bytes.
Open Scope Z_scope.

Record entry := { e_host : bytes; e_addrs : bytes; e_exp : Z }.

Fixpoint find_entry (h : bytes) (es : list entry) : option entry :=
  match es with
  | [] => None
  | e :: r => if bytes_eqb (e_host e) h then Some e else find_entry h r
  end.

Definition remove_host (h : bytes) (es : list entry) : list entry :=
  filter (fun e => negb (bytes_eqb (e_host e) h)) es.

(* c.entries[name] = entry *)
Fixpoint set_entry (n : entry) (es : list entry) : list entry :=
  match es with
  | [] => [n]
  | e :: r => if bytes_eqb (e_host e) (e_host n) then n :: r else e :: set_entry n r
  end.

(* first critical section of lookup: (entries', Some addrs) = served from the cache *)
Definition check_section (now : Z) (h : bytes) (es : list entry) : list entry * option bytes :=
  match find_entry h es with
  | Some e => if now <? e_exp e then (es, Some (e_addrs e)) else (remove_host h es, None)
  | None => (es, None)
  end.

(* one pass over the map: the entry that expires first, if it expires before ts *)
Fixpoint victim (ts : Z) (name : option bytes) (es : list entry) : option bytes :=
  match es with
  | [] => name
  | e :: r => if e_exp e <? ts then victim (e_exp e) (Some (e_host e)) r else victim ts name r
  end.

(* for len(c.entries) >= c.size { ... delete(oldest) }   None = the loop does not end
   (no entry expires before now + duration: deleting the empty name removes nothing) *)
Fixpoint evict (fuel : nat) (size : nat) (now dur : Z) (es : list entry) : option (list entry) :=
  if Nat.ltb (length es) size then Some es
  else match fuel with
       | O => None
       | S f => match victim (now + dur) None es with
                | None => None
                | Some h => evict f size now dur (remove_host h es)
                end
       end.

(* third critical section of lookup *)
(* since the repair of F94 a cache without room (size 0; the harness also maps negative sizes
   there) stores nothing: the fresh entry is handed back uncached *)
Definition insert_section (size : nat) (dur now : Z) (h a : bytes) (es : list entry)
  : option (list entry) :=
  if Nat.eqb size 0 then Some es else
  match evict (S (length es)) size now dur es with
  | Some es' => Some (set_entry {| e_host := h; e_addrs := a; e_exp := now + dur |} es')
  | None => None
  end.

(* ---------- sequential semantics: one whole lookup with nothing in between ---------- *)
(* result: addresses and the cached flag; None = resolver failed;
   the outer None = the eviction loop spins *)
Definition seq_lookup (size : nat) (dur : Z) (t1 t3 : Z) (h : bytes) (answer : option bytes)
           (es : list entry) : option (list entry * option (bytes * bool)) :=
  match check_section t1 h es with
  | (es1, Some a) => Some (es1, Some (a, true))
  | (es1, None) =>
      match answer with
      | None => Some (es1, None)
      | Some a => match insert_section size dur t3 h a es1 with
                  | Some es3 => Some (es3, Some (a, false))
                  | None => None
                  end
      end
  end.

(* ---------- interleaved semantics ---------- *)
Inductive pc :=
| Idle
| Resolving (h : bytes)                       (* first section done, resolver being asked *)
| Resolved (h a : bytes)                      (* resolver answered, waiting for the lock *)
| Finished (h : bytes) (r : option (bytes * bool)).

Record state := {
  entries : list entry;
  threads : nat -> pc;
  clock : Z;                                  (* last clock reading taken under the lock *)
  answers : list (bytes * bytes);             (* ghost: what the resolver has answered so far *)
  spinning : bool                             (* some thread is stuck in the eviction loop, lock held *)
}.

Definition upd (f : nat -> pc) (i : nat) (v : pc) : nat -> pc :=
  fun j => if Nat.eqb j i then v else f j.

Inductive label :=
| LCheck (i : nat) (h : bytes) (t : Z)
| LResolve (i : nat) (a : option bytes)
| LInsert (i : nat) (t : Z)
| LDelete (i : nat) (h : bytes)
| LReturn (i : nat).

Section Steps.
  Variable size : nat.
  Variable dur : Z.
  (* strict = true: successive clock readings under the lock strictly increase *)
  Variable strict : bool.

  Definition later (t now : Z) : Prop := if strict then now < t else now <= t.

  Inductive step : state -> label -> state -> Prop :=
  | S_check_hit : forall s i h t a es',
      spinning s = false -> threads s i = Idle -> later t (clock s) ->
      check_section t h (entries s) = (es', Some a) ->
      step s (LCheck i h t)
           {| entries := es'; threads := upd (threads s) i (Finished h (Some (a, true)));
              clock := t; answers := answers s; spinning := false |}
  | S_check_miss : forall s i h t es',
      spinning s = false -> threads s i = Idle -> later t (clock s) ->
      check_section t h (entries s) = (es', None) ->
      step s (LCheck i h t)
           {| entries := es'; threads := upd (threads s) i (Resolving h);
              clock := t; answers := answers s; spinning := false |}
  | S_resolve_ok : forall s i h a,
      threads s i = Resolving h ->
      step s (LResolve i (Some a))
           {| entries := entries s; threads := upd (threads s) i (Resolved h a);
              clock := clock s; answers := (h, a) :: answers s; spinning := spinning s |}
  | S_resolve_fail : forall s i h,
      threads s i = Resolving h ->
      step s (LResolve i None)
           {| entries := entries s; threads := upd (threads s) i (Finished h None);
              clock := clock s; answers := answers s; spinning := spinning s |}
  | S_insert : forall s i h a t es',
      spinning s = false -> threads s i = Resolved h a -> later t (clock s) ->
      insert_section size dur t h a (entries s) = Some es' ->
      step s (LInsert i t)
           {| entries := es'; threads := upd (threads s) i (Finished h (Some (a, false)));
              clock := t; answers := answers s; spinning := false |}
  | S_insert_spin : forall s i h a t,
      spinning s = false -> threads s i = Resolved h a -> later t (clock s) ->
      insert_section size dur t h a (entries s) = None ->
      step s (LInsert i t)
           {| entries := entries s; threads := threads s;
              clock := t; answers := answers s; spinning := true |}
  | S_delete : forall s i h,
      spinning s = false ->
      step s (LDelete i h)
           {| entries := remove_host h (entries s); threads := threads s;
              clock := clock s; answers := answers s; spinning := false |}
  | S_return : forall s i h r,
      threads s i = Finished h r ->
      step s (LReturn i)
           {| entries := entries s; threads := upd (threads s) i Idle;
              clock := clock s; answers := answers s; spinning := spinning s |}.

  Definition init (t0 : Z) : state :=
    {| entries := []; threads := fun _ => Idle; clock := t0; answers := []; spinning := false |}.

  Inductive reachable (t0 : Z) : state -> Prop :=
  | R_init : reachable t0 (init t0)
  | R_step : forall s l s', reachable t0 s -> step s l s' -> reachable t0 s'.
End Steps.
