(* C19: invariants of the DNS cache transition system, for all interleavings (induction over
   [reachable]). *)
From Verif Require Import Lib.Bytes Net.DnsCache.
Open Scope Z_scope.

Definition hosts (es : list entry) : list bytes := map e_host es.

(* ---------- the map operations ---------- *)
Lemma remove_host_incl h es e : In e (remove_host h es) -> In e es.
Proof. unfold remove_host. intro H. apply filter_In in H. tauto. Qed.

Lemma remove_host_length h es : (length (remove_host h es) <= length es)%nat.
Proof.
  unfold remove_host. induction es as [|e r IH]; simpl; [lia|].
  destruct (negb (bytes_eqb (e_host e) h)); simpl; lia.
Qed.

Lemma remove_host_length_lt h es :
  In h (hosts es) -> (length (remove_host h es) < length es)%nat.
Proof.
  unfold remove_host, hosts. induction es as [|e r IH]; simpl; [tauto|].
  intros [E|Hin].
  - subst h. rewrite bytes_eqb_refl. simpl.
    pose proof (remove_host_length (e_host e) r) as Hl. unfold remove_host in Hl. lia.
  - specialize (IH Hin). destruct (negb (bytes_eqb (e_host e) h)); simpl; lia.
Qed.

Lemma remove_host_hosts h es x : In x (hosts (remove_host h es)) -> In x (hosts es) /\ x <> h.
Proof.
  unfold hosts. intro H. apply in_map_iff in H as (e & Ee & Hin).
  unfold remove_host in Hin. apply filter_In in Hin as [Hin Hne].
  split; [apply in_map_iff; exists e; auto|].
  subst x. intro E. rewrite E, bytes_eqb_refl in Hne. discriminate.
Qed.

Lemma remove_host_nodup h es : NoDup (hosts es) -> NoDup (hosts (remove_host h es)).
Proof.
  unfold hosts, remove_host. induction es as [|e r IH]; simpl; intro H; [constructor|].
  inversion H as [|? ? Hni Hnd]; subst.
  destruct (negb (bytes_eqb (e_host e) h)); simpl; [|auto].
  constructor; [|auto]. intro Hin. apply Hni.
  apply (remove_host_hosts h r (e_host e)) in Hin. tauto.
Qed.

Lemma set_entry_length n es :
  (length (set_entry n es) <= S (length es))%nat.
Proof.
  induction es as [|e r IH]; simpl; [lia|].
  destruct (bytes_eqb (e_host e) (e_host n)); simpl; lia.
Qed.

Lemma set_entry_in n es e : In e (set_entry n es) -> e = n \/ In e es.
Proof.
  induction es as [|x r IH]; simpl; [intros [H|[]]; auto|].
  destruct (bytes_eqb (e_host x) (e_host n)); simpl; intros [H|H]; auto.
  destruct (IH H); auto.
Qed.

Lemma set_entry_hosts n es x : In x (hosts (set_entry n es)) -> x = e_host n \/ In x (hosts es).
Proof.
  unfold hosts. intro H. apply in_map_iff in H as (e & Ee & Hin).
  apply set_entry_in in Hin as [E|Hin]; [left; congruence|right; apply in_map_iff; eauto].
Qed.

Lemma set_entry_nodup n es : NoDup (hosts es) -> NoDup (hosts (set_entry n es)).
Proof.
  induction es as [|x r IH]; simpl; intro H; [repeat constructor; auto|].
  inversion H as [|? ? Hni Hnd]; subst.
  destruct (bytes_eqb (e_host x) (e_host n)) eqn:E; simpl.
  - apply bytes_eqb_eq in E. constructor; [rewrite <- E; exact Hni|exact Hnd].
  - constructor; [|auto]. intro Hin. apply set_entry_hosts in Hin as [Hx|Hin]; [|auto].
    rewrite Hx, bytes_eqb_refl in E. discriminate.
Qed.

Lemma find_entry_in h es e : find_entry h es = Some e -> In e es /\ e_host e = h.
Proof.
  induction es as [|x r IH]; simpl; [discriminate|].
  destruct (bytes_eqb (e_host x) h) eqn:E.
  - intro H; inversion H; subst. apply bytes_eqb_eq in E. auto.
  - intro H. destruct (IH H). auto.
Qed.

(* ---------- eviction ---------- *)
Lemma victim_in ts name es h :
  victim ts name es = Some h -> name = Some h \/ In h (hosts es).
Proof.
  revert ts name. induction es as [|e r IH]; simpl; intros ts name H; [auto|].
  destruct (e_exp e <? ts).
  - apply IH in H as [H|H]; [inversion H; auto|auto].
  - apply IH in H as [H|H]; auto.
Qed.

Lemma victim_some ts name es :
  (name <> None \/ exists e, In e es /\ e_exp e < ts) -> victim ts name es <> None.
Proof.
  revert ts name. induction es as [|e r IH]; simpl; intros ts name H.
  - destruct H as [H|(e & [] & _)]. exact H.
  - destruct (e_exp e <? ts) eqn:E.
    + apply IH. left. discriminate.
    + apply IH. destruct H as [H|(x & [Hx|Hx] & Hlt)]; auto.
      * subst x. apply Z.ltb_ge in E. lia.
      * right. exists x. auto.
Qed.

Lemma evict_result fuel size now dur : forall es es',
  evict fuel size now dur es = Some es' ->
  (length es' < size)%nat /\ (forall e, In e es' -> In e es) /\
  (NoDup (hosts es) -> NoDup (hosts es')).
Proof.
  induction fuel as [|f IH]; intros es es' H; simpl in H.
  - destruct (Nat.ltb (length es) size) eqn:E; [|discriminate]. inversion H; subst.
    apply Nat.ltb_lt in E. auto.
  - destruct (Nat.ltb (length es) size) eqn:E.
    + inversion H; subst. apply Nat.ltb_lt in E. auto.
    + destruct (victim (now + dur) None es) as [h|]; [|discriminate].
      apply IH in H as (Hl & Hin & Hnd). split; [exact Hl|]. split.
      * intros e He. eapply remove_host_incl. apply Hin. exact He.
      * intro Hn. apply Hnd. apply remove_host_nodup. exact Hn.
Qed.

(* the loop ends when the map is small enough or every entry expires before now + duration *)
Lemma evict_terminates size now dur : forall fuel es,
  (1 <= size)%nat -> (length es < fuel)%nat ->
  (forall e, In e es -> e_exp e < now + dur) ->
  evict fuel size now dur es <> None.
Proof.
  induction fuel as [|f IH]; intros es Hs Hf Hexp; [lia|]. simpl.
  destruct (Nat.ltb (length es) size) eqn:E; [discriminate|].
  apply Nat.ltb_ge in E.
  destruct es as [|e0 r]; [simpl in E; lia|].
  destruct (victim (now + dur) None (e0 :: r)) as [h|] eqn:Ev.
  - apply IH; [exact Hs| |].
    + apply victim_in in Ev as [Ev|Ev]; [discriminate|].
      pose proof (remove_host_length_lt h (e0 :: r) Ev). lia.
    + intros e He. apply Hexp. eapply remove_host_incl. exact He.
  - exfalso. revert Ev. apply victim_some. right. exists e0. split; [left; reflexivity|].
    apply Hexp. left. reflexivity.
Qed.

(* ---------- invariants over all interleavings ---------- *)
Section Inv.
  Variable size : nat.
  Variable dur : Z.
  Hypothesis size_pos : (1 <= size)%nat.

  Definition known (s : state) (h a : bytes) : Prop := In (h, a) (answers s).

  Record inv (s : state) : Prop := {
    inv_nodup : NoDup (hosts (entries s));
    inv_size : (length (entries s) <= size)%nat;
    inv_exp : forall e, In e (entries s) -> e_exp e <= clock s + dur;
    inv_entries_known : forall e, In e (entries s) -> known s (e_host e) (e_addrs e);
    inv_threads_known : forall i h a,
        (threads s i = Resolved h a \/ (exists c, threads s i = Finished h (Some (a, c)))) ->
        known s h a
  }.

  Lemma upd_same f i v : upd f i v i = v.
  Proof. unfold upd. rewrite Nat.eqb_refl. reflexivity. Qed.

  Lemma upd_cases f i v j : upd f i v j = v /\ j = i \/ upd f i v j = f j /\ j <> i.
  Proof.
    unfold upd. destruct (Nat.eqb j i) eqn:E.
    - apply Nat.eqb_eq in E. auto.
    - apply Nat.eqb_neq in E. auto.
  Qed.

  Lemma later_le strict t now : later strict t now -> now <= t.
  Proof. unfold later. destruct strict; lia. Qed.

  Lemma check_section_spec t h es es' r :
    check_section t h es = (es', r) ->
    (forall e, In e es' -> In e es) /\ (length es' <= length es)%nat /\
    (NoDup (hosts es) -> NoDup (hosts es')) /\
    (forall a, r = Some a -> exists e, In e es /\ e_host e = h /\ e_addrs e = a /\ t < e_exp e).
  Proof.
    unfold check_section. destruct (find_entry h es) as [e|] eqn:Ef.
    - apply find_entry_in in Ef as [Hin Hh].
      destruct (t <? e_exp e) eqn:Et; intro H; inversion H; subst; clear H.
      + repeat split; auto. intros a Ha. inversion Ha; subst. exists e.
        apply Z.ltb_lt in Et. auto.
      + split; [intros x; apply remove_host_incl|]. split; [apply remove_host_length|].
        split; [apply remove_host_nodup|]. intros a Ha. discriminate.
    - intro H; inversion H; subst. repeat split; auto. intros a Ha. discriminate.
  Qed.

  Lemma inv_step strict s l s' : inv s -> step size dur strict s l s' -> inv s'.
  Proof.
    intros I H. destruct I as [In1 In2 In3 In4 In5].
    inversion H; subst; clear H.
    - (* check hit *)
      match goal with Hc : check_section _ _ _ = _ |- _ =>
        apply check_section_spec in Hc as (Hsub & Hlen & Hnd & Hr) end.
      match goal with Hl : later _ _ _ |- _ => apply later_le in Hl end.
      constructor; simpl; auto.
      + lia.
      + intros e He. specialize (In3 e (Hsub e He)). lia.
      + intros e He. apply In4. auto.
      + intros j h0 a0 Hj. destruct (upd_cases (threads s) i (Finished h (Some (a, true))) j) as [[E _]|[E _]];
          rewrite E in Hj.
        * destruct Hj as [Hj|[c Hj]]; [discriminate|]. inversion Hj; subst.
          destruct (Hr a0 eq_refl) as (e & He & Hh & Ha & _). subst. apply In4. exact He.
        * apply (In5 j). exact Hj.
    - (* check miss *)
      match goal with Hc : check_section _ _ _ = _ |- _ =>
        apply check_section_spec in Hc as (Hsub & Hlen & Hnd & Hr) end.
      match goal with Hl : later _ _ _ |- _ => apply later_le in Hl end.
      constructor; simpl; auto.
      + lia.
      + intros e He. specialize (In3 e (Hsub e He)). lia.
      + intros e He. apply In4. auto.
      + intros j h0 a0 Hj. destruct (upd_cases (threads s) i (Resolving h) j) as [[E _]|[E _]];
          rewrite E in Hj.
        * destruct Hj as [Hj|[c Hj]]; discriminate.
        * apply (In5 j). exact Hj.
    - (* resolve ok *)
      constructor; simpl; auto.
      + intros e He. right. apply In4. exact He.
      + intros j h0 a0 Hj. unfold known. simpl.
        destruct (upd_cases (threads s) i (Resolved h a) j) as [[E _]|[E _]]; rewrite E in Hj.
        * destruct Hj as [Hj|[c Hj]]; [|discriminate]. inversion Hj; subst. left. reflexivity.
        * right. apply (In5 j). exact Hj.
    - (* resolve fail *)
      constructor; simpl; auto.
      intros j h0 a0 Hj.
      destruct (upd_cases (threads s) i (Finished h None) j) as [[E _]|[E _]]; rewrite E in Hj.
      + destruct Hj as [Hj|[c Hj]]; discriminate.
      + apply (In5 j). exact Hj.
    - (* insert *)
      match goal with Hi : insert_section _ _ _ _ _ _ = Some _ |- _ =>
        unfold insert_section in Hi;
        replace (Nat.eqb size 0) with false in Hi by (symmetry; apply Nat.eqb_neq; lia);
        match type of Hi with context [evict ?a ?b ?c ?d ?e] =>
          destruct (evict a b c d e) as [es1|] eqn:Ee end;
          [|discriminate]; inversion Hi; subst; clear Hi end.
      apply evict_result in Ee as (Hl1 & Hsub & Hnd).
      match goal with Hl : later _ _ _ |- _ => apply later_le in Hl end.
      assert (Hk : known s h a) by (apply (In5 i); left; assumption).
      constructor; simpl.
      + apply set_entry_nodup. auto.
      + pose proof (set_entry_length {| e_host := h; e_addrs := a; e_exp := t + dur |} es1). lia.
      + intros e He. apply set_entry_in in He as [E|He]; [subst e; simpl; lia|].
        specialize (In3 e (Hsub e He)). lia.
      + intros e He. apply set_entry_in in He as [E|He]; [subst e; exact Hk|].
        apply In4. auto.
      + intros j h0 a0 Hj.
        destruct (upd_cases (threads s) i (Finished h (Some (a, false))) j) as [[E _]|[E _]];
          rewrite E in Hj.
        * destruct Hj as [Hj|[c Hj]]; [discriminate|]. inversion Hj; subst. exact Hk.
        * apply (In5 j). exact Hj.
    - (* insert spins: nothing changes but the clock *)
      match goal with Hl : later _ _ _ |- _ => apply later_le in Hl end.
      constructor; simpl; auto.
      intros e He. specialize (In3 e He). lia.
    - (* delete *)
      constructor; simpl; auto.
      + apply remove_host_nodup. exact In1.
      + pose proof (remove_host_length h (entries s)). lia.
      + intros e He. apply In3. eapply remove_host_incl. exact He.
      + intros e He. apply In4. eapply remove_host_incl. exact He.
    - (* return *)
      constructor; simpl; auto.
      intros j h0 a0 Hj.
      destruct (upd_cases (threads s) i Idle j) as [[E _]|[E _]]; rewrite E in Hj.
      + destruct Hj as [Hj|[c Hj]]; discriminate.
      + apply (In5 j). exact Hj.
  Qed.

  Lemma inv_init t0 : inv (init t0).
  Proof.
    constructor; simpl; try (intros; contradiction); [constructor|lia|].
    intros i h a [H|[c H]]; discriminate.
  Qed.

  Theorem inv_reachable strict t0 s : reachable size dur strict t0 s -> inv s.
  Proof. induction 1; [apply inv_init|eapply inv_step; eauto]. Qed.

  (* with strictly increasing clock readings the eviction loop always ends *)
  Theorem strict_never_spins t0 s :
    reachable size dur true t0 s -> spinning s = false.
  Proof.
    induction 1 as [|s l s' Hr IH Hs]; [reflexivity|].
    pose proof (inv_reachable true t0 s Hr) as I.
    inversion Hs; subst; simpl; auto.
    exfalso.
    match goal with Hi : insert_section _ _ _ _ _ _ = None |- _ =>
      unfold insert_section in Hi;
      replace (Nat.eqb size 0) with false in Hi by (symmetry; apply Nat.eqb_neq; lia);
      match type of Hi with context [evict ?a ?b ?c ?d ?e] =>
        destruct (evict a b c d e) eqn:Ee end; [discriminate|] end.
    revert Ee. apply evict_terminates; [exact size_pos|lia|].
    intros e He. pose proof (inv_exp s I e He).
    match goal with Hl : later true _ _ |- _ => unfold later in Hl end. lia.
  Qed.
End Inv.

(* ---------- what a caller is handed ---------- *)
Lemma served_is_unexpired size dur strict s i h t s' h' a c :
  step size dur strict s (LCheck i h t) s' -> threads s' i = Finished h' (Some (a, c)) ->
  h' = h /\ c = true /\
  exists e, In e (entries s) /\ e_host e = h /\ e_addrs e = a /\ t < e_exp e.
Proof.
  intros H Hf. inversion H; subst; simpl in Hf; rewrite upd_same in Hf.
  - inversion Hf; subst. split; [reflexivity|]. split; [reflexivity|].
    match goal with Hc : check_section _ _ _ = _ |- _ =>
      apply check_section_spec in Hc as (_ & _ & _ & Hr) end.
    destruct (Hr a eq_refl) as (e & He). exists e. exact He.
  - discriminate.
Qed.

(* progress: no reachable state without the lock-holder spinning leaves a thread without a move *)
Definition label_thread (l : label) : nat :=
  match l with LCheck i _ _ | LResolve i _ | LInsert i _ | LDelete i _ | LReturn i => i end.

Lemma thread_can_move size dur strict s (i : nat) :
  spinning s = false -> exists l s', step size dur strict s l s' /\ label_thread l = i.
Proof.
  intro Hs.
  assert (Hl : later strict (clock s + 1) (clock s)) by (unfold later; destruct strict; lia).
  destruct (threads s i) as [|h|h a|h r] eqn:Et.
  - destruct (check_section (clock s + 1) [] (entries s)) as [es' [a|]] eqn:Ec.
    + eexists. eexists. split; [eapply S_check_hit; eauto|reflexivity].
    + eexists. eexists. split; [eapply S_check_miss; eauto|reflexivity].
  - eexists. eexists. split; [eapply S_resolve_fail; eauto|reflexivity].
  - destruct (insert_section size dur (clock s + 1) h a (entries s)) eqn:Ei.
    + eexists. eexists. split; [eapply S_insert; eauto|reflexivity].
    + eexists. eexists. split; [eapply S_insert_spin; eauto|reflexivity].
  - eexists. eexists. split; [eapply S_return; eauto|reflexivity].
Qed.

(* ---------- a resolver whose answers do not change during the run ---------- *)
Section Stable.
  Variable size : nat.
  Variable dur : Z.
  Variable strict : bool.
  Variable R : bytes -> option bytes.
  Hypothesis size_pos : (1 <= size)%nat.

  Definition obeys (s : state) (l : label) : Prop :=
    match l with
    | LResolve i a => exists h, threads s i = Resolving h /\ R h = a
    | _ => True
    end.

  Inductive reachable_R (t0 : Z) : state -> Prop :=
  | RR_init : reachable_R t0 (init t0)
  | RR_step : forall s l s', reachable_R t0 s -> step size dur strict s l s' -> obeys s l ->
                             reachable_R t0 s'.

  Lemma reachable_R_reachable t0 s : reachable_R t0 s -> reachable size dur strict t0 s.
  Proof. induction 1; [constructor|econstructor; eauto]. Qed.

  Definition inv_R (s : state) : Prop :=
    (forall h a, In (h, a) (answers s) -> R h = Some a) /\
    (forall i h, threads s i = Finished h None -> R h = None).

  Lemma inv_R_reachable t0 s : reachable_R t0 s -> inv_R s.
  Proof.
    induction 1 as [|s l s' Hr [IA IF] Hs Ho].
    - split; simpl; [intros h a []|intros i h H; discriminate].
    - inversion Hs; subst; split; cbn [threads answers entries clock spinning] in *;
        try solve [eauto];
        try (intros j h0 Hj;
             match type of Hj with upd ?f ?x ?v ?y = _ =>
               destruct (upd_cases f x v y) as [[E _]|[E _]]; rewrite E in Hj end;
             [try discriminate|solve [eauto]]).
      + intros h0 a0 [E|Hin]; [|eauto]. inversion E; subst.
        destruct Ho as (h1 & Ht & HR). congruence.
      + inversion Hj; subst. destruct Ho as (h1 & Ht & HR). congruence.
  Qed.

  (* whatever the interleaving, every caller is handed exactly the resolver's answer for the
     host it asked for: the result of any sequential execution *)
  Theorem stable_results t0 s i h r :
    reachable_R t0 s -> threads s i = Finished h r -> option_map fst r = R h.
  Proof.
    intros Hr Hf. destruct (inv_R_reachable t0 s Hr) as [IA IF].
    destruct r as [[a c]|]; simpl.
    - symmetry. apply IA.
      pose proof (inv_reachable size dur size_pos strict t0 s (reachable_R_reachable t0 s Hr)) as I.
      apply (inv_threads_known size dur s I i). right. exists c. exact Hf.
    - symmetry. eapply IF. exact Hf.
  Qed.

  Theorem seq_lookup_result t1 t3 h es es' r :
    (forall e, In e es -> R (e_host e) = Some (e_addrs e)) ->
    seq_lookup size dur t1 t3 h (R h) es = Some (es', r) -> option_map fst r = R h.
  Proof.
    intros Hes. unfold seq_lookup.
    destruct (check_section t1 h es) as [es1 [a|]] eqn:Ec.
    - intro H; inversion H; subst. simpl.
      apply check_section_spec in Ec as (_ & _ & _ & Hr).
      destruct (Hr a eq_refl) as (e & He & Hh & Ha & _). subst. symmetry. apply Hes. exact He.
    - destruct (R h) as [a|] eqn:ER.
      + destruct (insert_section size dur t3 h a es1); [|discriminate].
        intro H; inversion H; subst. reflexivity.
      + intro H; inversion H; subst. reflexivity.
  Qed.
End Stable.

(* a cache configured with size 0 (degenerate, but it is the zero value of an unset
   configuration field) holds nothing and never spins: every lookup is handed its own fresh
   answer *)
Theorem size_zero_inserts_nothing dur t h a es : insert_section 0 dur t h a es = Some es.
Proof. reflexivity. Qed.

Theorem size_zero_caches_nothing dur strict t0 s :
  reachable 0 dur strict t0 s -> entries s = [] /\ spinning s = false.
Proof.
  induction 1 as [|s l s' Hr [IHe IHs] Hs]; [split; reflexivity|].
  inversion Hs; subst; simpl; try (split; assumption).
  - match goal with Hc : check_section _ _ _ = _ |- _ => rewrite IHe in Hc; unfold check_section in Hc; simpl in Hc; inversion Hc end.
  - match goal with Hc : check_section _ _ _ = _ |- _ => rewrite IHe in Hc; unfold check_section in Hc; simpl in Hc; inversion Hc; subst end.
    split; reflexivity.
  - match goal with Hi : insert_section _ _ _ _ _ _ = Some _ |- _ => rewrite size_zero_inserts_nothing in Hi; inversion Hi; subst end.
    split; [exact IHe|reflexivity].
  - match goal with Hi : insert_section _ _ _ _ _ _ = None |- _ => rewrite size_zero_inserts_nothing in Hi; discriminate end.
  - rewrite IHe. split; reflexivity.
Qed.
