(* C16: executable model of the pieces of Go's net package that the federation client's
   network policy relies on (go1.24: net.ParseIP = netip.ParseAddr without zone, net.ParseCIDR,
   IPNet.Contains, IP.To4, net.SplitHostPort, net.JoinHostPort) and of
   fclient/client.go: allowDenyNetworksControl / isAllowed / inRange.

   Addresses are numbers: an IPv4 address is an N below 2^32, a 16-byte address an N below
   2^128.  net.ParseIP always yields the 16-byte form (IPv4 as ::ffff:a.b.c.d); To4 takes it
   back.  No proofs in this file. *)
From Verif Require Import Lib.Bytes.
Open Scope N_scope.

Definition two32 : N := 4294967296.
Definition v4_prefix : N := 65535.           (* the 96 leading bits of an IPv4-mapped address *)
Definition map4 (a : N) : N := v4_prefix * two32 + a.

(* ---------- netip.parseIPv4Fields ---------- *)
(* state: val, digLen, fields so far (reversed); pos = length of the reversed list *)
Fixpoint v4_fields (s : bytes) (val diglen : N) (acc : list N) : option (list N) :=
  match s with
  | [] => if (N.of_nat (length acc)) <? 3 then None else Some (rev (val :: acc))
  | c :: r =>
      if is_digit c then
        if (diglen =? 1) && (val =? 0) then None          (* octet with leading zero *)
        else let v := val * 10 + (c - 48) in
             if 255 <? v then None else v4_fields r v (diglen + 1) acc
      else if c =? 46 then
        (* i = 0 or previous byte was a dot  <->  no digit since the last dot;
           i = len - 1  <->  nothing follows *)
        if (diglen =? 0) || (match r with [] => true | _ => false end) then None
        else if (N.of_nat (length acc)) =? 3 then None      (* 1.2.3.4.5 *)
        else v4_fields r 0 0 (val :: acc)
      else None
  end.

Definition parse_ipv4 (s : bytes) : option N :=
  match v4_fields s 0 0 [] with
  | Some [a; b; c; d] => Some (((a * 256 + b) * 256 + c) * 256 + d)
  | _ => None
  end.

(* ---------- netip.parseIPv6 (zone-less; any percent sign makes net.ParseIP fail) ---------- *)
Definition hexv (c : N) : option N :=
  if is_digit c then Some (c - 48)
  else if (97 <=? c) && (c <=? 102) then Some (c - 87)
  else if (65 <=? c) && (c <=? 70) then Some (c - 55)
  else None.

(* scan hex digits: Some (off, acc, rest) or None when a fifth digit is met *)
Fixpoint hex_scan (s : bytes) (off acc : N) : option (N * N * bytes) :=
  match s with
  | [] => Some (off, acc, [])
  | c :: r =>
      match hexv c with
      | Some d => if 3 <? off then None else hex_scan r (off + 1) (acc * 16 + d)
      | None => Some (off, acc, s)
      end
  end.

(* groups are 16-bit numbers; i = 2 * number of groups; ell = group index of the ellipsis *)
Fixpoint v6_loop (fuel : nat) (s : bytes) (groups : list N) (ell : option nat)
  : option (bytes * list N * option nat) :=
  match fuel with
  | O => Some (s, groups, ell)                         (* i = 16: loop condition fails *)
  | S f =>
      match hex_scan s 0 0 with
      | None => None
      | Some (off, acc, rest) =>
          if off =? 0 then None
          else
            match rest with
            | c :: _ =>
                if c =? 46 then
                  (* trailing IPv4 *)
                  let i := length groups in
                  if (match ell with None => negb (Nat.eqb i 6) | Some _ => false end) then None
                  else if Nat.ltb 6 i then None           (* i*2 + 4 > 16 *)
                  else match v4_fields s 0 0 [] with
                       | Some [a; b; c4; d] => Some ([], groups ++ [a * 256 + b; c4 * 256 + d], ell)
                       | _ => None
                       end
                else if negb (c =? 58) then None          (* want colon *)
                else
                  match rest with
                  | [_] => None                           (* colon must be followed by more *)
                  | _ :: c2 :: r2 =>
                      let groups' := groups ++ [acc] in
                      if c2 =? 58 then
                        match ell with
                        | Some _ => None                  (* multiple :: *)
                        | None =>
                            match r2 with
                            | [] => Some ([], groups', Some (length groups'))
                            | _ => v6_loop f r2 groups' (Some (length groups'))
                            end
                        end
                      else v6_loop f (c2 :: r2) groups' ell
                  | [] => None
                  end
            | [] => Some ([], groups ++ [acc], ell)
            end
      end
  end.

Fixpoint groups_val (g : list N) (acc : N) : N :=
  match g with [] => acc | x :: r => groups_val r (acc * 65536 + x) end.

Definition v6_finish (st : bytes * list N * option nat) : option N :=
  let '(s, groups, ell) := st in
  match s with
  | _ :: _ => None                                        (* trailing garbage *)
  | [] =>
      let n := length groups in
      if Nat.ltb n 8 then
        match ell with
        | None => None                                    (* too short *)
        | Some e => Some (groups_val (firstn e groups ++ repeat 0 (8 - n) ++ skipn e groups) 0)
        end
      else match ell with
           | Some _ => None                               (* :: must stand for a group *)
           | None => Some (groups_val groups 0)
           end
  end.

Fixpoint has_byte (c : N) (s : bytes) : bool :=
  match s with [] => false | x :: r => (x =? c) || has_byte c r end.

Definition parse_ipv6 (s : bytes) : option N :=
  if has_byte 37 s then None
  else
    match s with
    | a :: b :: r =>
        if (a =? 58) && (b =? 58) then
          match r with
          | [] => Some 0
          | _ => match v6_loop 8 r [] (Some O) with Some st => v6_finish st | None => None end
          end
        else match v6_loop 8 s [] None with Some st => v6_finish st | None => None end
    | _ => match v6_loop 8 s [] None with Some st => v6_finish st | None => None end
    end.

(* netip.ParseAddr dispatches on the first of . : percent *)
Inductive addr := A4 (n : N) | A6 (n : N).

Fixpoint first_sep (s : bytes) : N :=
  match s with
  | [] => 0
  | c :: r => if c =? 46 then 46 else if c =? 58 then 58 else if c =? 37 then 37 else first_sep r
  end.

Definition parse_addr (s : bytes) : option addr :=
  let k := first_sep s in
  if k =? 46 then option_map A4 (parse_ipv4 s)
  else if k =? 58 then option_map A6 (parse_ipv6 s)
  else None.

(* net.ParseIP: 16-byte form *)
Definition parse_ip (s : bytes) : option N :=
  match parse_addr s with
  | Some (A4 a) => Some (map4 a)
  | Some (A6 a) => Some a
  | None => None
  end.

(* IP.To4 on a 16-byte address *)
Definition to4 (v : N) : option N :=
  if v / two32 =? v4_prefix then Some (v mod two32) else None.

(* ---------- net.ParseCIDR / IPNet.Contains ---------- *)
(* CIDRMask(n, bits) as a number *)
Definition cidr_mask (n bits : N) : N := N.shiftl (N.ones n) (bits - n).

(* the *IPNet that ParseCIDR returns: IP and Mask have the same length (4 or 16 bytes) *)
Inductive ipnet := Net4 (ip mask : N) | Net6 (ip mask : N).

Definition parse_cidr (s : bytes) : option ipnet :=
  match split_at 47 s with
  | None => None
  | Some (a, m) =>
      match parse_addr a, parse_dec m with
      | Some (A4 ip), Some n =>
          if n <=? 32 then Some (Net4 (N.land ip (cidr_mask n 32)) (cidr_mask n 32)) else None
      | Some (A6 ip), Some n =>
          if n <=? 128 then Some (Net6 (N.land ip (cidr_mask n 128)) (cidr_mask n 128)) else None
      | _, _ => None
      end
  end.

(* networkNumberAndMask + Contains; ip16 is a ParseIP result *)
Definition net_contains (n : ipnet) (ip16 : N) : bool :=
  let '(nn_is4, nn, m) :=
    match n with
    | Net4 ip m => (true, ip, m)
    | Net6 ip m => match to4 ip with
                   | Some ip4 => (true, ip4, m mod two32)      (* m[12:] *)
                   | None => (false, ip, m)
                   end
    end in
  let '(ip_is4, x) := match to4 ip16 with Some x => (true, x) | None => (false, ip16) end in
  Bool.eqb nn_is4 ip_is4 && (N.land nn m =? N.land x m).

(* inRange.  [tolerant] = true is the repaired loop (an unparsable entry is skipped);
   false is the loop as first found (the scan ended at an unparsable entry, F13). *)
Fixpoint in_range_gen (tolerant : bool) (ip16 : N) (cidrs : list bytes) : bool :=
  match cidrs with
  | [] => false
  | c :: r =>
      match parse_cidr c with
      | None => if tolerant then in_range_gen tolerant ip16 r else false
      | Some n => if net_contains n ip16 then true else in_range_gen tolerant ip16 r
      end
  end.

Definition in_range := in_range_gen true.

Definition is_allowed (ip16 : N) (allow deny : list bytes) : bool :=
  if in_range ip16 deny then false
  else if in_range ip16 allow then true else false.

(* ---------- net.SplitHostPort (host part only; None = error) ---------- *)
Fixpoint last_index (c : N) (s : bytes) (i : N) (best : option N) : option N :=
  match s with
  | [] => best
  | x :: r => last_index c r (i + 1) (if x =? c then Some i else best)
  end.

Fixpoint index_of (c : N) (s : bytes) (i : N) : option N :=
  match s with
  | [] => None
  | x :: r => if x =? c then Some i else index_of c r (i + 1)
  end.

Definition take (n : N) (s : bytes) : bytes := firstn (N.to_nat n) s.
Definition dropN (n : N) (s : bytes) : bytes := skipn (N.to_nat n) s.

Definition split_host (hp : bytes) : option bytes :=
  match last_index 58 hp 0 None with
  | None => None                                           (* missing port *)
  | Some i =>
      match hp with
      | [] => None
      | c0 :: _ =>
          if c0 =? 91 then
            match index_of 93 hp 0 with
            | None => None
            | Some e =>
                if e + 1 =? N.of_nat (length hp) then None
                else if e + 1 =? i then
                  let host := take (e - 1) (dropN 1 hp) in
                  if has_byte 91 (dropN 1 hp) then None
                  else if has_byte 93 (dropN (e + 1) hp) then None
                  else Some host
                else None
            end
          else
            let host := take i hp in
            if has_byte 58 host then None
            else if has_byte 91 hp then None
            else if has_byte 93 hp then None
            else Some host
      end
  end.

Definition join_host_port (host port : bytes) : bytes :=
  if has_byte 58 host then [91] ++ host ++ [93; 58] ++ port else host ++ [58] ++ port.

(* ---------- allowDenyNetworksControl: true = nil error (the connection may proceed) ------- *)
Definition control_allows (allow deny : list bytes) (network address : bytes) : bool :=
  if negb (bytes_eqb network (bs "tcp4") || bytes_eqb network (bs "tcp6")) then false
  else match split_host address with
       | None => false
       | Some h =>
           match parse_ip h with
           | None => false
           | Some ip => is_allowed ip allow deny
           end
       end.

(* the loop as first found, kept for the regression oracle *)
Definition control_allows_unrepaired (allow deny : list bytes) (network address : bytes) : bool :=
  if negb (bytes_eqb network (bs "tcp4") || bytes_eqb network (bs "tcp6")) then false
  else match split_host address with
       | None => false
       | Some h =>
           match parse_ip h with
           | None => false
           | Some ip => if in_range_gen false ip deny then false
                        else in_range_gen false ip allow
           end
       end.
