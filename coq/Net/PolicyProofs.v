(* C16: CIDR arithmetic (mask-and-compare = interval membership) and the dialer control
   decision = the specification's may_connect. *)
From Verif Require Import Lib.Bytes Net.IpC16 Net.PolicySpec.
Open Scope N_scope.

(* ---------- arithmetic ---------- *)
Lemma land_mask a p k :
  a < 2 ^ (p + k) -> N.land a (N.shiftl (N.ones p) k) = a - a mod 2 ^ k.
Proof.
  intro Ha.
  assert (E : N.land a (N.shiftl (N.ones p) k) = N.shiftl (N.shiftr a k) k).
  { apply N.bits_inj. intro i. rewrite N.land_spec.
    destruct (N.lt_ge_cases i k) as [Hi|Hi].
    - rewrite (N.shiftl_spec_low (N.ones p) k i Hi), (N.shiftl_spec_low (N.shiftr a k) k i Hi).
      apply andb_false_r.
    - rewrite (N.shiftl_spec_high' (N.ones p) k i Hi), (N.shiftl_spec_high' (N.shiftr a k) k i Hi).
      rewrite N.shiftr_spec'.
      replace (i - k + k) with i by lia.
      destruct (N.lt_ge_cases (i - k) p) as [Hp|Hp].
      + rewrite N.ones_spec_low by exact Hp. apply andb_true_r.
      + rewrite N.ones_spec_high by exact Hp. rewrite andb_false_r. symmetry.
        destruct (N.eq_dec a 0) as [->|Hnz]; [apply N.bits_0|].
        apply N.bits_above_log2. apply N.log2_lt_pow2; [lia|].
        eapply N.lt_le_trans; [exact Ha|]. apply N.pow_le_mono_r; lia. }
  rewrite E, N.shiftl_mul_pow2, N.shiftr_div_pow2.
  pose proof (N.div_mod a (2 ^ k)) as Hd.
  assert (2 ^ k <> 0) by (apply N.pow_nonzero; lia). specialize (Hd H).
  set (q := a / 2 ^ k) in *. set (m := a mod 2 ^ k) in *. set (t := 2 ^ k) in *. nia.
Qed.

Lemma block_base_mul a k : block_base a k = 2 ^ k * (a / 2 ^ k).
Proof.
  unfold block_base. assert (2 ^ k <> 0) by (apply N.pow_nonzero; lia).
  pose proof (N.div_mod a (2 ^ k) H) as Hd.
  set (q := a / 2 ^ k) in *. set (m := a mod 2 ^ k) in *. set (t := 2 ^ k) in *. nia.
Qed.

Lemma same_block a x k :
  block_base a k = block_base x k <-> block_base a k <= x < block_base a k + 2 ^ k.
Proof.
  rewrite !block_base_mul.
  assert (Hs : 2 ^ k <> 0) by (apply N.pow_nonzero; lia).
  assert (Hp : 0 < 2 ^ k) by lia.
  split.
  - intro E. rewrite E. split.
    + apply N.mul_div_le. exact Hs.
    + pose proof (N.mul_succ_div_gt x (2 ^ k) Hs). lia.
  - intros [H1 H2]. f_equal.
    apply (N.div_unique x (2 ^ k) (a / 2 ^ k) (x - 2 ^ k * (a / 2 ^ k))); lia.
Qed.

Lemma block_base_idem a k : block_base (block_base a k) k = block_base a k.
Proof.
  unfold block_base at 1. replace (block_base a k mod 2 ^ k) with 0; [apply N.sub_0_r|].
  rewrite block_base_mul, N.mul_comm, N.mod_mul; [reflexivity|apply N.pow_nonzero; lia].
Qed.

Lemma block_base_le a k : block_base a k <= a.
Proof. unfold block_base. apply N.le_sub_l. Qed.

Lemma cidr_mask_land a p bits :
  p <= bits -> a < 2 ^ bits -> N.land a (cidr_mask p bits) = block_base a (bits - p).
Proof.
  intros Hp Ha. unfold cidr_mask, block_base. apply land_mask.
  replace (p + (bits - p)) with bits by lia. exact Ha.
Qed.

(* mask-and-compare on w-bit numbers is interval membership *)
Lemma masked_eq_interval ip x p bits :
  p <= bits -> ip < 2 ^ bits -> x < 2 ^ bits ->
  (N.land (N.land ip (cidr_mask p bits)) (cidr_mask p bits) =? N.land x (cidr_mask p bits)) = true
  <-> block_base ip (bits - p) <= x < block_base ip (bits - p) + 2 ^ (bits - p).
Proof.
  intros Hp Hip Hx. rewrite N.eqb_eq.
  rewrite (cidr_mask_land ip) by assumption.
  rewrite cidr_mask_land; [|assumption|eapply N.le_lt_trans; [apply block_base_le|exact Hip]].
  rewrite (cidr_mask_land x) by assumption.
  rewrite block_base_idem. apply same_block.
Qed.

(* ---------- parsed addresses are 32-bit / 128-bit numbers ---------- *)
Definition le255 (x : N) : Prop := x <= 255.
Definition lt16b (x : N) : Prop := x < 65536.

Lemma v4_fields_bound s : forall val dl acc l,
  v4_fields s val dl acc = Some l -> le255 val -> Forall le255 acc -> Forall le255 l.
Proof.
  induction s as [|c r IH]; intros val dl acc l H Hv Ha; simpl in H.
  - destruct (N.of_nat (length acc) <? 3); [discriminate|]. inversion H; subst.
    apply Forall_app. split; [apply Forall_rev; assumption|]. constructor; [assumption|constructor].
  - destruct (is_digit c).
    + destruct ((dl =? 1) && (val =? 0)); [discriminate|].
      destruct (255 <? val * 10 + (c - 48)) eqn:E; [discriminate|].
      eapply IH; eauto. apply N.ltb_ge in E. exact E.
    + destruct (c =? 46); [|discriminate].
      destruct ((dl =? 0) || match r with [] => true | _ => false end); [discriminate|].
      destruct (N.of_nat (length acc) =? 3); [discriminate|].
      eapply IH; eauto. unfold le255; lia.
Qed.

Lemma four_fields_bound a b c d :
  le255 a -> le255 b -> le255 c -> le255 d -> ((a * 256 + b) * 256 + c) * 256 + d < 2 ^ 32.
Proof. unfold le255. intros. change (2 ^ 32) with 4294967296. lia. Qed.

Lemma parse_ipv4_bound s v : parse_ipv4 s = Some v -> v < 2 ^ 32.
Proof.
  unfold parse_ipv4. destruct (v4_fields s 0 0 []) as [l|] eqn:E; [|discriminate].
  assert (Hl : Forall le255 l).
  { eapply v4_fields_bound; eauto. unfold le255; lia. }
  destruct l as [|a [|b [|c [|d [|e l]]]]]; try discriminate.
  intro H; inversion H; subst.
  inversion Hl as [|? ? Ha Hl1]; subst. inversion Hl1 as [|? ? Hb Hl2]; subst.
  inversion Hl2 as [|? ? Hc Hl3]; subst. inversion Hl3 as [|? ? Hd _]; subst.
  apply four_fields_bound; assumption.
Qed.

Lemma hexv_bound c d : hexv c = Some d -> d < 16.
Proof.
  unfold hexv, is_digit.
  destruct ((48 <=? c) && (c <=? 57)) eqn:E1.
  { intro H; inversion H; subst. apply andb_true_iff in E1 as [_ E]. apply N.leb_le in E. lia. }
  destruct ((97 <=? c) && (c <=? 102)) eqn:E2.
  { intro H; inversion H; subst. apply andb_true_iff in E2 as [_ E]. apply N.leb_le in E. lia. }
  destruct ((65 <=? c) && (c <=? 70)) eqn:E3; [|discriminate].
  intro H; inversion H; subst. apply andb_true_iff in E3 as [_ E]. apply N.leb_le in E. lia.
Qed.

Lemma hex_scan_bound s : forall off acc off' acc' rest,
  hex_scan s off acc = Some (off', acc', rest) -> off <= 4 -> acc < 16 ^ off -> lt16b acc'.
Proof.
  induction s as [|c r IH]; intros off acc off' acc' rest H Ho Ha; simpl in H.
  - inversion H; subst. unfold lt16b. eapply N.lt_le_trans; [exact Ha|].
    change 65536 with (16 ^ 4). apply N.pow_le_mono_r; lia.
  - destruct (hexv c) as [d|] eqn:Eh.
    + destruct (3 <? off) eqn:E3; [discriminate|]. apply N.ltb_ge in E3.
      eapply IH; eauto; [lia|]. apply hexv_bound in Eh.
      rewrite N.pow_add_r. change (16 ^ 1) with 16. nia.
    + inversion H; subst. unfold lt16b. eapply N.lt_le_trans; [exact Ha|].
      change 65536 with (16 ^ 4). apply N.pow_le_mono_r; lia.
Qed.

Lemma v6_loop_bound fuel : forall s groups ell s' groups' ell',
  v6_loop fuel s groups ell = Some (s', groups', ell') ->
  Forall lt16b groups -> (length groups + fuel <= 8)%nat ->
  Forall lt16b groups' /\ (length groups' <= 8)%nat.
Proof.
  induction fuel as [|f IH]; intros s groups ell s' groups' ell' H Hg Hl; simpl in H.
  - inversion H; subst. split; [assumption|lia].
  - destruct (hex_scan s 0 0) as [[[off acc] rest]|] eqn:Eh; [|discriminate].
    assert (Hacc : lt16b acc).
    { eapply hex_scan_bound; eauto; [lia|]. simpl. lia. }
    destruct (off =? 0); [discriminate|].
    destruct rest as [|c rest'].
    + inversion H; subst. split.
      * apply Forall_app. split; [assumption|]. constructor; [assumption|constructor].
      * rewrite app_length. simpl. lia.
    + destruct (c =? 46).
      * destruct (match ell with None => negb (Nat.eqb (length groups) 6) | Some _ => false end);
          [discriminate|].
        destruct (Nat.ltb 6 (length groups)) eqn:E6; [discriminate|].
        apply Nat.ltb_ge in E6.
        destruct (v4_fields s 0 0 []) as [l|] eqn:E4; [|discriminate].
        assert (Hl4 : Forall le255 l).
        { eapply v4_fields_bound; eauto. unfold le255; lia. }
        destruct l as [|a [|b [|c4 [|d [|e l]]]]]; try discriminate.
        inversion H; subst.
        inversion Hl4 as [|? ? Ha Hl1]; subst. inversion Hl1 as [|? ? Hb Hl2]; subst.
        inversion Hl2 as [|? ? Hc Hl3]; subst. inversion Hl3 as [|? ? Hd _]; subst.
        unfold le255 in *. split.
        -- apply Forall_app. split; [assumption|].
           constructor; [unfold lt16b; lia|]. constructor; [unfold lt16b; lia|constructor].
        -- rewrite app_length. simpl. lia.
      * destruct (negb (c =? 58)); [discriminate|].
        destruct rest' as [|c2 r2]; [discriminate|].
        assert (Hg' : Forall lt16b (groups ++ [acc])).
        { apply Forall_app. split; [assumption|]. constructor; [assumption|constructor]. }
        assert (Hl' : (length (groups ++ [acc]) + f <= 8)%nat).
        { rewrite app_length. simpl. lia. }
        destruct (c2 =? 58).
        -- destruct ell; [discriminate|].
           destruct r2 as [|c3 r3].
           ++ inversion H; subst. split; [assumption|]. lia.
           ++ eapply IH; eauto.
        -- eapply IH; eauto.
Qed.

Lemma groups_val_bound g : forall acc k,
  Forall lt16b g -> acc < 65536 ^ k -> groups_val g acc < 65536 ^ (k + N.of_nat (length g)).
Proof.
  induction g as [|x g IH]; intros acc k Hg Ha; simpl.
  - replace (k + 0) with k by lia. exact Ha.
  - inversion Hg as [|? ? Hx Hg']; subst.
    replace (k + N.pos (Pos.of_succ_nat (length g))) with ((k + 1) + N.of_nat (length g)) by lia.
    apply IH; [assumption|]. rewrite N.pow_add_r. change (65536 ^ 1) with 65536.
    unfold lt16b in Hx. nia.
Qed.

Lemma groups_val_128 g :
  Forall lt16b g -> (length g <= 8)%nat -> groups_val g 0 < 2 ^ 128.
Proof.
  intros Hg Hl. eapply N.lt_le_trans.
  - apply (groups_val_bound g 0 0 Hg). simpl. lia.
  - change (2 ^ 128) with (65536 ^ 8). apply N.pow_le_mono_r; lia.
Qed.

Lemma Forall_firstn_ {A} (P : A -> Prop) n : forall l, Forall P l -> Forall P (firstn n l).
Proof.
  induction n as [|n IH]; intros l H; simpl; [constructor|].
  destruct l; [constructor|]. inversion H; subst. constructor; auto.
Qed.

Lemma Forall_skipn_ {A} (P : A -> Prop) n : forall l, Forall P l -> Forall P (skipn n l).
Proof.
  induction n as [|n IH]; intros l H; simpl; [assumption|].
  destruct l; [constructor|]. inversion H; subst. auto.
Qed.

Lemma v6_finish_bound st v :
  Forall lt16b (snd (fst st)) -> (length (snd (fst st)) <= 8)%nat ->
  v6_finish st = Some v -> v < 2 ^ 128.
Proof.
  destruct st as [[s groups] ell]. cbn [fst snd]. intros Hg Hl. unfold v6_finish.
  remember (8 - length groups)%nat as pad eqn:Hpad.
  destruct s; [|discriminate].
  destruct (Nat.ltb (length groups) 8) eqn:E8.
  - destruct ell as [e|]; [|discriminate]. intro H; inversion H; subst.
    apply Nat.ltb_lt in E8.
    apply groups_val_128.
    + apply Forall_app. split; [apply Forall_firstn_; assumption|].
      apply Forall_app. split; [|apply Forall_skipn_; assumption].
      apply Forall_forall. intros x Hx. apply repeat_spec in Hx. subst. unfold lt16b. lia.
    + rewrite !app_length, repeat_length.
      pose proof (firstn_skipn e groups) as Hfs.
      apply (f_equal (@length N)) in Hfs. rewrite app_length in Hfs. lia.
  - destruct ell; [discriminate|]. intro H; inversion H; subst.
    apply groups_val_128; assumption.
Qed.

Lemma parse_ipv6_bound s v : parse_ipv6 s = Some v -> v < 2 ^ 128.
Proof.
  unfold parse_ipv6. destruct (has_byte 37 s); [discriminate|].
  assert (Hgen : forall s0 ell, match v6_loop 8 s0 [] ell with
                                | Some st => v6_finish st | None => None end = Some v ->
                                v < 2 ^ 128).
  { intros s0 ell H. destruct (v6_loop 8 s0 [] ell) as [[[s' g'] e']|] eqn:El; [|discriminate].
    destruct (v6_loop_bound 8 s0 [] ell s' g' e' El) as [Hg Hl]; [constructor|simpl; lia|].
    apply (v6_finish_bound (s', g', e') v); [exact Hg|exact Hl|exact H]. }
  destruct s as [|a [|b r]]; try (apply Hgen).
  destruct ((a =? 58) && (b =? 58)); [|apply Hgen].
  destruct r; [|apply Hgen]. intro H; inversion H; subst. reflexivity.
Qed.

Lemma parse_addr_bound s a :
  parse_addr s = Some a -> match a with A4 n => n < 2 ^ 32 | A6 n => n < 2 ^ 128 end.
Proof.
  unfold parse_addr. destruct (first_sep s =? 46).
  - destruct (parse_ipv4 s) as [v|] eqn:E; [|discriminate]. intro H; inversion H; subst.
    apply parse_ipv4_bound in E. exact E.
  - destruct (first_sep s =? 58); [|discriminate].
    destruct (parse_ipv6 s) as [v|] eqn:E; [|discriminate]. intro H; inversion H; subst.
    apply parse_ipv6_bound in E. exact E.
Qed.

Lemma parse_ip_bound s v : parse_ip s = Some v -> v < 2 ^ 128.
Proof.
  unfold parse_ip. destruct (parse_addr s) as [[n|n]|] eqn:E; [| |discriminate];
    apply parse_addr_bound in E; intro H; inversion H; subst; [|exact E].
  unfold map4, v4_prefix, two32. change (2 ^ 32) with 4294967296 in E.
  change (2 ^ 128) with 340282366920938463463374607431768211456. lia.
Qed.

(* ---------- a CIDR entry: mask-and-compare = membership in its interval ---------- *)
Lemma to4_family v :
  to4 v = match addr_family v with F4 => Some (addr_value v) | F6 => None end.
Proof. unfold to4, addr_family, addr_value. destruct (v / two32 =? v4_prefix); reflexivity. Qed.

Lemma addr_value_bound4 v : addr_family v = F4 -> addr_value v < 2 ^ 32.
Proof.
  unfold addr_family, addr_value. destruct (v / two32 =? v4_prefix); [|discriminate].
  intros _. apply N.mod_upper_bound. discriminate.
Qed.

Lemma addr_value_6 v : addr_family v = F6 -> addr_value v = v.
Proof. unfold addr_family, addr_value. destruct (v / two32 =? v4_prefix); [discriminate|reflexivity]. Qed.

Lemma net4_contains ip p x16 :
  p <= 32 -> ip < 2 ^ 32 ->
  net_contains (Net4 (N.land ip (cidr_mask p 32)) (cidr_mask p 32)) x16 = true <->
  in_interval {| i_fam := F4; i_lo := block_base ip (32 - p); i_size := 2 ^ (32 - p) |} x16.
Proof.
  intros Hp Hip. unfold net_contains, in_interval. cbn [i_fam i_lo i_size].
  rewrite to4_family. destruct (addr_family x16) eqn:Ef.
  - cbn [Bool.eqb andb]. rewrite masked_eq_interval; [|assumption|assumption|apply addr_value_bound4; exact Ef].
    split; [intro H; split; [reflexivity|exact H]|intros [_ H]; exact H].
  - cbn [Bool.eqb andb]. split; [discriminate|intros [H _]; discriminate].
Qed.

Lemma net6_contains_plain ip p x16 :
  p <= 128 -> ip < 2 ^ 128 -> x16 < 2 ^ 128 ->
  (block_base ip (128 - p) / two32 =? v4_prefix) = false ->
  net_contains (Net6 (N.land ip (cidr_mask p 128)) (cidr_mask p 128)) x16 = true <->
  in_interval {| i_fam := F6; i_lo := block_base ip (128 - p); i_size := 2 ^ (128 - p) |} x16.
Proof.
  intros Hp Hip Hx Hm.
  assert (Hto : to4 (N.land ip (cidr_mask p 128)) = None).
  { unfold to4. rewrite (cidr_mask_land ip p 128 Hp Hip), Hm. reflexivity. }
  unfold net_contains, in_interval. cbn [i_fam i_lo i_size]. rewrite Hto.
  rewrite to4_family. destruct (addr_family x16) eqn:Ef.
  - cbn [Bool.eqb andb]. split; [discriminate|intros [H _]; discriminate].
  - cbn [Bool.eqb andb]. rewrite masked_eq_interval by assumption.
    rewrite (addr_value_6 _ Ef).
    split; [intro H; split; [reflexivity|exact H]|intros [_ H]; exact H].
Qed.

(* an IPv4-mapped network address forces a prefix of at least 96 bits *)
Lemma mapped_base_small_block ip k :
  block_base ip k / two32 = v4_prefix -> k <= 32.
Proof.
  intro H. destruct (N.le_gt_cases k 32) as [Hk|Hk]; [exact Hk|exfalso].
  rewrite block_base_mul in H.
  replace k with (32 + (1 + (k - 33))) in H by lia.
  rewrite !N.pow_add_r in H. change (2 ^ 1) with 2 in H. unfold two32 in H.
  change (2 ^ 32) with 4294967296 in H.
  set (q := ip / _) in H. set (t := 2 ^ (k - 33)) in H.
  replace (4294967296 * (2 * t) * q) with ((2 * t * q) * 4294967296) in H by lia.
  rewrite N.div_mul in H by discriminate. unfold v4_prefix in H. lia.
Qed.

Lemma mask128_low32 p :
  96 <= p -> p <= 128 -> cidr_mask p 128 mod two32 = cidr_mask (p - 96) 32.
Proof.
  intros H1 H2. unfold cidr_mask, two32. change 4294967296 with (2 ^ 32).
  apply N.bits_inj. intro i.
  destruct (N.lt_ge_cases i 32) as [Hi|Hi].
  - rewrite N.mod_pow2_bits_low by exact Hi.
    destruct (N.lt_ge_cases i (128 - p)) as [Hk|Hk].
    + rewrite N.shiftl_spec_low by exact Hk.
      rewrite N.shiftl_spec_low; [reflexivity|lia].
    + rewrite N.shiftl_spec_high' by exact Hk.
      rewrite N.shiftl_spec_high' by lia.
      rewrite !N.ones_spec_low; [reflexivity|lia|lia].
  - rewrite N.mod_pow2_bits_high by exact Hi.
    rewrite N.shiftl_spec_high' by lia. rewrite N.ones_spec_high; [reflexivity|lia].
Qed.

Lemma block_base_low32 ip k :
  k <= 32 -> block_base (block_base ip k mod two32) k = block_base ip k mod two32.
Proof.
  intro Hk. unfold block_base at 1.
  replace (block_base ip k mod two32 mod 2 ^ k) with 0; [apply N.sub_0_r|].
  rewrite block_base_mul. unfold two32. change 4294967296 with (2 ^ 32).
  replace 32 with (k + (32 - k)) by lia. rewrite N.pow_add_r.
  rewrite N.mul_mod_distr_l; [|apply N.pow_nonzero; lia|apply N.pow_nonzero; lia].
  rewrite N.mul_comm, N.mod_mul; [reflexivity|apply N.pow_nonzero; lia].
Qed.

Lemma net6_contains_mapped ip p x16 :
  p <= 128 -> ip < 2 ^ 128 ->
  (block_base ip (128 - p) / two32 =? v4_prefix) = true ->
  net_contains (Net6 (N.land ip (cidr_mask p 128)) (cidr_mask p 128)) x16 = true <->
  in_interval {| i_fam := F4; i_lo := block_base ip (128 - p) mod two32; i_size := 2 ^ (128 - p) |} x16.
Proof.
  intros Hp Hip Hm.
  assert (Hto : to4 (N.land ip (cidr_mask p 128)) = Some (block_base ip (128 - p) mod two32)).
  { unfold to4. rewrite (cidr_mask_land ip p 128 Hp Hip), Hm. reflexivity. }
  unfold net_contains, in_interval. cbn [i_fam i_lo i_size]. rewrite Hto.
  apply N.eqb_eq in Hm. pose proof (mapped_base_small_block _ _ Hm) as Hk.
  rewrite mask128_low32 by lia.
  rewrite to4_family. destruct (addr_family x16) eqn:Ef.
  - cbn [Bool.eqb andb]. rewrite N.eqb_eq.
    set (lo4 := block_base ip (128 - p) mod two32).
    assert (Hlo : lo4 < 2 ^ 32) by (apply N.mod_upper_bound; discriminate).
    pose proof (addr_value_bound4 _ Ef) as Hx.
    rewrite (cidr_mask_land lo4 (p - 96) 32) by (assumption || lia).
    rewrite (cidr_mask_land (addr_value x16) (p - 96) 32) by (assumption || lia).
    replace (32 - (p - 96)) with (128 - p) by lia.
    assert (Hb : block_base lo4 (128 - p) = lo4) by (apply block_base_low32; exact Hk).
    rewrite same_block, Hb.
    split; [intro H; split; [reflexivity|exact H]|intros [_ H]; exact H].
  - cbn [Bool.eqb andb]. split; [discriminate|intros [H _]; discriminate].
Qed.

Lemma cidr_corr c :
  match parse_cidr c, interval_of_cidr c with
  | None, None => True
  | Some n, Some r => forall x16, x16 < 2 ^ 128 -> (net_contains n x16 = true <-> in_interval r x16)
  | _, _ => False
  end.
Proof.
  unfold parse_cidr, interval_of_cidr.
  destruct (split_at 47 c) as [[a m]|]; [|exact I].
  destruct (parse_addr a) as [[ip|ip]|] eqn:Ea; [| |exact I].
  - destruct (parse_dec m) as [p|]; [|exact I].
    destruct (p <=? 32) eqn:Ep; [|exact I]. apply N.leb_le in Ep.
    apply parse_addr_bound in Ea. intros x16 _. apply net4_contains; assumption.
  - destruct (parse_dec m) as [p|]; [|exact I].
    destruct (p <=? 128) eqn:Ep; [|exact I]. apply N.leb_le in Ep.
    apply parse_addr_bound in Ea.
    destruct (block_base ip (128 - p) / two32 =? v4_prefix) eqn:Em; intros x16 Hx.
    + apply net6_contains_mapped; assumption.
    + apply net6_contains_plain; assumption.
Qed.

Lemma in_intervalb_iff r x : in_intervalb r x = true <-> in_interval r x.
Proof.
  unfold in_intervalb, in_interval. rewrite !andb_true_iff, N.leb_le, N.ltb_lt.
  destruct (i_fam r), (addr_family x); simpl; intuition discriminate.
Qed.

(* the (repaired) range scan = listed *)
Lemma in_range_listed x16 cidrs :
  x16 < 2 ^ 128 -> (in_range x16 cidrs = true <-> listed x16 cidrs).
Proof.
  intro Hx. unfold in_range, listed. induction cidrs as [|c l IH]; simpl.
  - split; [discriminate|]. intros (c & r & [] & _).
  - pose proof (cidr_corr c) as Hc.
    destruct (parse_cidr c) as [n|] eqn:Ep; destruct (interval_of_cidr c) as [r|] eqn:Ei;
      try contradiction.
    + specialize (Hc x16 Hx). destruct (net_contains n x16) eqn:En.
      * split; [|reflexivity]. intros _. exists c, r. split; [left; reflexivity|].
        split; [exact Ei|]. apply Hc. reflexivity.
      * rewrite IH. split.
        -- intros (c' & r' & Hin & Hr & Hi). exists c', r'. split; [right; exact Hin|auto].
        -- intros (c' & r' & [Hin|Hin] & Hr & Hi).
           ++ subst c'. rewrite Ei in Hr. inversion Hr; subst r'.
              apply Hc in Hi. discriminate.
           ++ exists c', r'. auto.
    + rewrite IH. split.
      * intros (c' & r' & Hin & Hr & Hi). exists c', r'. split; [right; exact Hin|auto].
      * intros (c' & r' & [Hin|Hin] & Hr & Hi); [subst c'; congruence|]. exists c', r'. auto.
Qed.

Theorem control_allows_may_connect allow deny network address :
  control_allows allow deny network address = true <-> may_connect allow deny network address.
Proof.
  unfold control_allows, may_connect, is_allowed.
  destruct (bytes_eqb network (bs "tcp4")) eqn:E4; [|destruct (bytes_eqb network (bs "tcp6")) eqn:E6].
  3: { simpl. split; [discriminate|]. intros [[H|H] _]; apply bytes_eqb_eq in H; congruence. }
  all: cbn [orb negb];
    assert (Hnet : network = bs "tcp4" \/ network = bs "tcp6")
      by (first [left; apply bytes_eqb_eq; assumption | right; apply bytes_eqb_eq; assumption]);
    (destruct (split_host address) as [h|];
      [|split; [discriminate|intros (_ & h & ip & Hh & _); discriminate]]);
    (destruct (parse_ip h) as [ip|] eqn:Eip;
      [|split; [discriminate|intros (_ & h' & ip & Hh & Hip & _); inversion Hh; subst; congruence]]);
    pose proof (parse_ip_bound _ _ Eip) as Hb;
    pose proof (in_range_listed ip deny Hb) as Hd;
    pose proof (in_range_listed ip allow Hb) as Ha;
    (destruct (in_range ip deny) eqn:Ed;
      [split; [discriminate|];
       intros (_ & h' & ip' & Hh & Hip & Hnd & _); inversion Hh; subst h';
       rewrite Eip in Hip; inversion Hip; subst ip'; exfalso; apply Hnd; apply Hd; reflexivity|]);
    (destruct (in_range ip allow) eqn:Eal;
      [split; [intros _|reflexivity]; split; [exact Hnet|];
       exists h, ip; split; [reflexivity|]; split; [exact Eip|]; split;
       [intro Hl; apply Hd in Hl; discriminate|apply Ha; reflexivity]
      |split; [discriminate|];
       intros (_ & h' & ip' & Hh & Hip & _ & Hl); inversion Hh; subst h';
       rewrite Eip in Hip; inversion Hip; subst ip'; apply Ha in Hl; discriminate]).
Qed.

Theorem may_connectb_iff allow deny network address :
  may_connectb allow deny network address = true <-> may_connect allow deny network address.
Proof.
  assert (Hl : forall ip l, listedb ip l = true <-> listed ip l).
  { intros ip l. unfold listedb, listed. rewrite existsb_exists. split.
    - intros (c & Hin & H). destruct (interval_of_cidr c) as [r|] eqn:E; [|discriminate].
      exists c, r. split; [exact Hin|]. split; [exact E|]. apply in_intervalb_iff. exact H.
    - intros (c & r & Hin & Hr & Hi). exists c. split; [exact Hin|]. rewrite Hr.
      apply in_intervalb_iff. exact Hi. }
  unfold may_connectb, may_connect. rewrite andb_true_iff, orb_true_iff, !bytes_eqb_eq.
  split.
  - intros [Hn H]. split; [exact Hn|].
    destruct (split_host address) as [h|]; [|discriminate].
    destruct (parse_ip h) as [ip|] eqn:Eip; [|discriminate].
    apply andb_true_iff in H as [Hd Ha]. exists h, ip. split; [reflexivity|]. split; [exact Eip|].
    split; [|apply Hl; exact Ha]. intro Hx. apply Hl in Hx. rewrite Hx in Hd. discriminate.
  - intros [Hn (h & ip & Hh & Hip & Hnd & Ha)]. split; [exact Hn|]. rewrite Hh, Hip.
    apply andb_true_iff. split; [|apply Hl; exact Ha].
    destruct (listedb ip deny) eqn:E; [|reflexivity]. exfalso. apply Hnd. apply Hl. exact E.
Qed.

(* the loop as first found failed open: a malformed deny entry hid the entries after it *)
Theorem unrepaired_deny_list_failed_open :
  exists allow deny network address,
    control_allows_unrepaired allow deny network address = true /\
    ~ may_connect allow deny network address.
Proof.
  exists [bs "0.0.0.0/0"], [bs "bad"; bs "10.0.0.0/8"], (bs "tcp4"), (bs "10.0.0.1:8448").
  split; [vm_compute; reflexivity|].
  intro H. apply control_allows_may_connect in H. vm_compute in H. discriminate.
Qed.
