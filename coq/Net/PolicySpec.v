(* C16 specification side of the network policy, written with interval arithmetic and without
   bit operations: a CIDR entry denotes an interval of addresses of one family; the dialer may
   connect iff the network is tcp4/tcp6, the address is host:port with an IP-literal host, no
   (parsable) deny interval contains it and some allow interval does.
   Family: an address whose 16-byte form is IPv4-mapped (::ffff:a.b.c.d), however it was
   written, is the IPv4 address a.b.c.d; an IPv6 entry whose network address is IPv4-mapped
   (possible only for prefix lengths >= 96) denotes the IPv4 interval of its low 32 bits.
   Text-to-number conversion of addresses (parse_addr) is shared with the model (it is compared
   with net.ParseIP / net.ParseCIDR by the correspondence check). *)
From Verif Require Import Lib.Bytes Net.IpC16.
Open Scope N_scope.

Inductive family := F4 | F6.
Definition family_eqb (a b : family) : bool :=
  match a, b with F4, F4 => true | F6, F6 => true | _, _ => false end.

Record interval := { i_fam : family; i_lo : N; i_size : N }.

(* the address a connection goes to, from its 16-byte form *)
Definition addr_family (ip16 : N) : family := if ip16 / two32 =? v4_prefix then F4 else F6.
Definition addr_value (ip16 : N) : N := if ip16 / two32 =? v4_prefix then ip16 mod two32 else ip16.

Definition in_interval (r : interval) (ip16 : N) : Prop :=
  i_fam r = addr_family ip16 /\ i_lo r <= addr_value ip16 < i_lo r + i_size r.

Definition in_intervalb (r : interval) (ip16 : N) : bool :=
  family_eqb (i_fam r) (addr_family ip16)
  && (i_lo r <=? addr_value ip16) && (addr_value ip16 <? i_lo r + i_size r).

(* base of the block of 2^k addresses that contains a *)
Definition block_base (a k : N) : N := a - a mod 2 ^ k.

Definition interval_of_cidr (s : bytes) : option interval :=
  match split_at 47 s with
  | None => None
  | Some (a, m) =>
      match parse_addr a, parse_dec m with
      | Some (A4 ip), Some p =>
          if p <=? 32 then Some {| i_fam := F4; i_lo := block_base ip (32 - p); i_size := 2 ^ (32 - p) |}
          else None
      | Some (A6 ip), Some p =>
          if p <=? 128 then
            let lo := block_base ip (128 - p) in
            if lo / two32 =? v4_prefix
            then Some {| i_fam := F4; i_lo := lo mod two32; i_size := 2 ^ (128 - p) |}
            else Some {| i_fam := F6; i_lo := lo; i_size := 2 ^ (128 - p) |}
          else None
      | _, _ => None
      end
  end.

Definition listed (ip16 : N) (cidrs : list bytes) : Prop :=
  exists c r, In c cidrs /\ interval_of_cidr c = Some r /\ in_interval r ip16.

Definition listedb (ip16 : N) (cidrs : list bytes) : bool :=
  existsb (fun c => match interval_of_cidr c with
                    | Some r => in_intervalb r ip16
                    | None => false
                    end) cidrs.

Definition may_connect (allow deny : list bytes) (network address : bytes) : Prop :=
  (network = bs "tcp4" \/ network = bs "tcp6") /\
  exists h ip, split_host address = Some h /\ parse_ip h = Some ip /\
               ~ listed ip deny /\ listed ip allow.

(* executable form, for the oracle op *)
Definition may_connectb (allow deny : list bytes) (network address : bytes) : bool :=
  (bytes_eqb network (bs "tcp4") || bytes_eqb network (bs "tcp6")) &&
  match split_host address with
  | Some h => match parse_ip h with
              | Some ip => negb (listedb ip deny) && listedb ip allow
              | None => false
              end
  | None => false
  end.
