(* C16: fclient/resolve.go ResolveServer / resolveServer / handleNoWellKnown / lookupSRV as a
   function of the server name and of two oracles:
     wk  : name -> option delegated-name   (LookupWellKnown succeeded with that m.server)
     srv : service -> name -> outcome      (net.DefaultResolver.LookupSRV(service, tcp, name))
   No proofs in this file. *)
From Verif Require Import Lib.Bytes Net.IpC16 Net.ServerNameC16.
Open Scope N_scope.

Record target := { t_dest : bytes; t_host : bytes; t_sni : bytes }.

Inductive srv_outcome :=
| SrvOk (recs : list (bytes * N))      (* err = nil; (Target, Port) in the order returned *)
| SrvNotFound                          (* *net.DNSError with IsNotFound *)
| SrvError.                            (* any other error *)

Inductive outcome :=
| Refused                              (* error: invalid server name *)
| Targets (l : list target)
| Crash.                               (* index out of range on an empty SRV target *)

Definition svc_fed : bytes := bs "matrix-fed".
Definition svc_legacy : bytes := bs "matrix".

(* lookupSRV: None = an error is returned *)
Definition lookup_srv (srv : bytes -> bytes -> srv_outcome) (name : bytes)
  : option (list (bytes * N)) :=
  match srv svc_fed name with
  | SrvOk recs => Some recs
  | SrvError => None
  | SrvNotFound =>
      match srv svc_legacy name with
      | SrvOk recs => Some recs
      | _ => None
      end
  end.

Definition trim_dot (t : bytes) : bytes :=
  if last t 0 =? 46 then removelast t else t.

Definition port_8448 : bytes := bs "8448".

Definition srv_target (name : bytes) (rec : bytes * N) : target :=
  {| t_dest := trim_dot (fst rec) ++ [58] ++ print_dec (snd rec);
     t_host := name; t_sni := name |}.

Definition handle_no_well_known (srv : bytes -> bytes -> srv_outcome) (name : bytes) : outcome :=
  match lookup_srv srv name with
  | Some (r :: recs) =>
      if existsb (fun rc => match fst rc with [] => true | _ => false end) (r :: recs)
      then Crash
      else Targets (map (srv_target name) (r :: recs))
  | _ => Targets [ {| t_dest := name ++ [58] ++ port_8448; t_host := name; t_sni := name |} ]
  end.

Definition strip_brackets (host : bytes) : bytes :=
  match host with
  | c0 :: _ => if (c0 =? 91) && (last host 0 =? 93) then inner host else host
  | [] => host
  end.

(* resolveServer; wk = None is checkWellKnown = false *)
Definition resolve_step (wk : option (bytes -> option bytes))
           (srv : bytes -> bytes -> srv_outcome)
           (delegate : bytes -> outcome) (name : bytes) : outcome :=
  match parse_and_validate name with
  | None => Refused
  | Some (host0, port) =>
      let host := strip_brackets host0 in
      match parse_ip host with
      | Some _ =>
          Targets [ {| t_dest := match port with
                                 | None => join_host_port host port_8448
                                 | Some _ => name
                                 end;
                       t_host := name; t_sni := host |} ]
      | None =>
          match port with
          | Some _ => Targets [ {| t_dest := name; t_host := name; t_sni := host |} ]
          | None =>
              match wk with
              | Some f =>
                  match f name with
                  | Some d =>
                      (* a delegated name that is not a server name makes the reply invalid *)
                      match parse_and_validate d with
                      | Some _ => delegate d
                      | None => handle_no_well_known srv name
                      end
                  | None => handle_no_well_known srv name
                  end
              | None => handle_no_well_known srv name
              end
          end
      end
  end.

Definition resolve_delegate (srv : bytes -> bytes -> srv_outcome) (d : bytes) : outcome :=
  resolve_step None srv (fun _ => Refused) d.

Definition resolve (wk : bytes -> option bytes) (srv : bytes -> bytes -> srv_outcome)
           (name : bytes) : outcome :=
  resolve_step (Some wk) srv (resolve_delegate srv) name.

(* the lookups performed, in order (what a network observer sees):
   W name = GET https://name/.well-known/matrix/server ; S service name = SRV query *)
Inductive probe := PW (name : bytes) | PS (service name : bytes).

Definition srv_probes (srv : bytes -> bytes -> srv_outcome) (name : bytes) : list probe :=
  match srv svc_fed name with
  | SrvNotFound => [PS svc_fed name; PS svc_legacy name]
  | _ => [PS svc_fed name]
  end.

Definition probes_step (wk : option (bytes -> option bytes))
           (srv : bytes -> bytes -> srv_outcome)
           (delegate : bytes -> list probe) (name : bytes) : list probe :=
  match parse_and_validate name with
  | None => []
  | Some (host0, port) =>
      match parse_ip (strip_brackets host0), port with
      | None, None =>
          match wk with
          | Some f => PW name :: match f name with
                                 | Some d => match parse_and_validate d with
                                             | Some _ => delegate d
                                             | None => srv_probes srv name
                                             end
                                 | None => srv_probes srv name
                                 end
          | None => srv_probes srv name
          end
      | _, _ => []
      end
  end.

Definition probes (wk : bytes -> option bytes) (srv : bytes -> bytes -> srv_outcome)
           (name : bytes) : list probe :=
  probes_step (Some wk) srv (probes_step None srv (fun _ => [])) name.
