(* C16: the model of ResolveServer computes exactly the specification's decision table. *)
From Verif Require Import Lib.Bytes Net.IpC16 Net.ServerNameC16 Net.Resolve Net.ResolveSpec.
Open Scope N_scope.

Lemma strip_brackets_valid_nonip name h p :
  parse_and_validate name = Some (h, p) -> parse_ip (strip_brackets h) = None ->
  strip_brackets h = h.
Proof.
  unfold parse_and_validate. destruct name as [|n0 name']; [discriminate|].
  destruct (split_server_name (n0 :: name')) as [host port].
  destruct host as [|c0 host']; [discriminate|].
  destruct (c0 =? 91) eqn:Ec.
  - unfold last_byte. destruct (last (c0 :: host') 0 =? 93) eqn:El; simpl; [|discriminate].
    destruct (parse_ip (inner (c0 :: host'))) eqn:Ei; [|discriminate].
    intro H; inversion H; subst h p. unfold strip_brackets. rewrite Ec, El. simpl.
    intro Hn. rewrite Hn in Ei. discriminate.
  - intros H _.
    assert (Hh : h = c0 :: host').
    { destruct (parse_ip (c0 :: host')) as [ip|]; [destruct (to4 ip)|];
        try (destruct (forallb is_dns_char (c0 :: host'))); inversion H; reflexivity. }
    subst h. unfold strip_brackets. rewrite Ec. reflexivity.
Qed.

Lemma of_record_eq name : srv_target name = of_record name.
Proof. reflexivity. Qed.

Lemma dest_8448_eq name : name ++ [58] ++ port_8448 = name ++ bs ":8448".
Proof. reflexivity. Qed.

Lemma no_empty_target recs :
  Forall (fun rc : bytes * N => fst rc <> []) recs ->
  existsb (fun rc : list N * N => match fst rc with [] => true | _ => false end) recs = false.
Proof.
  induction 1 as [|rc l Hrc _ IH]; simpl; [reflexivity|].
  destruct rc as [t p]; simpl in *. destruct t; [contradiction|]. exact IH.
Qed.

(* the SRV step *)
Lemma lookup_srv_found srv name r l :
  lookup_srv srv name = Some (r :: l) <-> srv_found srv name (r :: l).
Proof.
  unfold lookup_srv. split.
  - destruct (srv svc_fed name) eqn:Ef.
    + intro H; inversion H; subst. constructor. exact Ef.
    + destruct (srv svc_legacy name) eqn:El; try discriminate.
      intro H; inversion H; subst. apply SF_legacy; assumption.
    + discriminate.
  - intro H; inversion H as [r' l' Hf | r' l' Hf Hl]; subst.
    + rewrite Hf. reflexivity.
    + rewrite Hf, Hl. reflexivity.
Qed.

Lemma handle_no_wk_srv srv name r l :
  srv_sane srv -> srv_found srv name (r :: l) ->
  handle_no_well_known srv name = Targets (map (of_record name) (r :: l)).
Proof.
  intros Hs Hf. unfold handle_no_well_known.
  assert (Hne : Forall (fun rc : bytes * N => fst rc <> []) (r :: l)).
  { inversion Hf; subst; eapply Hs; eauto. }
  apply lookup_srv_found in Hf. rewrite Hf. cbv beta iota.
  rewrite (no_empty_target _ Hne). reflexivity.
Qed.

Lemma handle_no_wk_8448 srv name :
  no_srv srv name ->
  handle_no_well_known srv name = one (name ++ bs ":8448") name name.
Proof.
  intro Hn. unfold handle_no_well_known.
  destruct (lookup_srv srv name) as [[|r l]|] eqn:E; try reflexivity.
  exfalso. apply (Hn (r :: l)). apply lookup_srv_found. exact E.
Qed.

Lemma srv_found_or_not srv name :
  (exists r l, srv_found srv name (r :: l)) \/ no_srv srv name.
Proof.
  destruct (lookup_srv srv name) as [[|r l]|] eqn:E.
  - right. intros recs H. inversion H; subst; apply lookup_srv_found in H; congruence.
  - left. exists r, l. apply lookup_srv_found. exact E.
  - right. intros recs H. inversion H; subst; apply lookup_srv_found in H; congruence.
Qed.

Lemma srv_found_functional srv name a b :
  srv_found srv name a -> srv_found srv name b -> a = b.
Proof.
  intros Ha Hb. inversion Ha; subst; inversion Hb; subst; congruence.
Qed.

(* resolution without well-known = the [direct] rows *)
Lemma direct_complete srv name :
  srv_sane srv -> direct srv name (resolve_delegate srv name).
Proof.
  intro Hs. unfold resolve_delegate, resolve_step.
  destruct (parse_and_validate name) as [[h p]|] eqn:Ev.
  - destruct (parse_ip (strip_brackets h)) as [v|] eqn:Ei.
    + destruct p as [p|].
      * eapply D_ip_port; eauto. exists v. exact Ei.
      * eapply D_ip_noport; eauto. exists v. exact Ei.
    + assert (Hni : ~ is_ip_literal h) by (intros [v Hv]; unfold bare in Hv; congruence).
      destruct p as [p|].
      * rewrite (strip_brackets_valid_nonip _ _ _ Ev Ei). eapply D_port; eauto.
      * destruct (srv_found_or_not srv name) as [(r & l & Hf)|Hn].
        -- rewrite (handle_no_wk_srv _ _ _ _ Hs Hf). eapply D_srv; eauto.
           inversion Hf; subst; eapply Hs; eauto.
        -- rewrite (handle_no_wk_8448 _ _ Hn). eapply D_8448; eauto.
  - apply D_invalid. exact Ev.
Qed.

Lemma direct_functional srv name o :
  srv_sane srv -> direct srv name o -> o = resolve_delegate srv name.
Proof.
  intros Hs H. unfold resolve_delegate, resolve_step.
  inversion H as [Ev | h Ev Hip | h p Ev Hip | h p Ev Hip | h recs Ev Hip Hf Hne | h Ev Hip Hno];
    subst; clear H.
  - rewrite Ev. reflexivity.
  - rewrite Ev. destruct Hip as [v Hv]. unfold bare in *. rewrite Hv. reflexivity.
  - rewrite Ev. destruct Hip as [v Hv]. unfold bare in *. rewrite Hv. reflexivity.
  - rewrite Ev. destruct (parse_ip (strip_brackets h)) eqn:Ei.
    + exfalso. apply Hip. eexists. exact Ei.
    + rewrite (strip_brackets_valid_nonip _ _ _ Ev Ei). reflexivity.
  - rewrite Ev. destruct (parse_ip (strip_brackets h)) eqn:Ei.
    + exfalso. apply Hip. eexists. exact Ei.
    + destruct recs as [|r l]; [inversion Hf|].
      rewrite (handle_no_wk_srv _ _ _ _ Hs Hf). reflexivity.
  - rewrite Ev. destruct (parse_ip (strip_brackets h)) eqn:Ei.
    + exfalso. apply Hip. eexists. exact Ei.
    + rewrite (handle_no_wk_8448 _ _ Hno). reflexivity.
Qed.

Lemma wants_wk_dec name :
  (exists h, parse_and_validate name = Some (h, None) /\ parse_ip (strip_brackets h) = None)
  \/ ~ wants_well_known name.
Proof.
  destruct (parse_and_validate name) as [[h [p|]]|] eqn:Ev.
  - right. intros (h' & Hv & _). congruence.
  - destruct (parse_ip (strip_brackets h)) eqn:Ei.
    + right. intros (h' & Hv & Hn). rewrite Ev in Hv. inversion Hv; subst h'.
      apply Hn. eexists. exact Ei.
    + left. exists h. split; [reflexivity|exact Ei].
  - right. intros (h' & Hv & _). congruence.
Qed.

Lemma resolve_no_wk wk srv name :
  ~ wants_well_known name -> resolve wk srv name = resolve_delegate srv name.
Proof.
  intro Hn. unfold resolve, resolve_delegate, resolve_step.
  destruct (parse_and_validate name) as [[h p]|] eqn:Ev; [|reflexivity].
  destruct (parse_ip (strip_brackets h)) eqn:Ei; [reflexivity|].
  destruct p as [p|]; [reflexivity|].
  exfalso. apply Hn. exists h. split; [exact Ev|].
  intros [v Hv]. unfold bare in Hv. congruence.
Qed.

Lemma resolve_wk wk srv name h :
  parse_and_validate name = Some (h, None) -> parse_ip (strip_brackets h) = None ->
  resolve wk srv name = match wk name with
                        | Some d => match parse_and_validate d with
                                    | Some _ => resolve_delegate srv d
                                    | None => resolve_delegate srv name
                                    end
                        | None => resolve_delegate srv name
                        end.
Proof.
  intros Ev Ei. unfold resolve, resolve_step. rewrite Ev, Ei.
  assert (Hn : handle_no_well_known srv name = resolve_delegate srv name).
  { unfold resolve_delegate, resolve_step. rewrite Ev, Ei. reflexivity. }
  destruct (wk name) as [d|]; [|exact Hn].
  destruct (parse_and_validate d); [reflexivity|exact Hn].
Qed.

Theorem resolve_sound wk srv name :
  srv_sane srv -> resolves wk srv name (resolve wk srv name).
Proof.
  intro Hs. destruct (wants_wk_dec name) as [(h & Ev & Ei)|Hn].
  - assert (Hw : wants_well_known name).
    { exists h. split; [exact Ev|]. intros [v Hv]. unfold bare in Hv. congruence. }
    rewrite (resolve_wk _ _ _ _ Ev Ei). destruct (wk name) as [d|] eqn:Ew.
    + destruct (parse_and_validate d) eqn:Ed.
      * eapply R_delegated; eauto; [congruence|]. apply direct_complete. exact Hs.
      * apply R_not_delegated; auto; [right; exists d; auto|]. apply direct_complete. exact Hs.
    + apply R_not_delegated; auto. apply direct_complete. exact Hs.
  - rewrite (resolve_no_wk _ _ _ Hn). apply R_literal_or_port; auto.
    apply direct_complete. exact Hs.
Qed.

Theorem resolve_unique wk srv name o :
  srv_sane srv -> resolves wk srv name o -> o = resolve wk srv name.
Proof.
  intros Hs H. inversion H as [d o' Hw Hwk Hv Hd | o' Hw Hwk Hd | o' Hw Hd]; subst; clear H.
  - destruct Hw as (h & Ev & Hn).
    assert (Ei : parse_ip (strip_brackets h) = None).
    { destruct (parse_ip (strip_brackets h)) eqn:E; [|reflexivity].
      exfalso. apply Hn. eexists. exact E. }
    rewrite (resolve_wk _ _ _ _ Ev Ei), Hwk.
    destruct (parse_and_validate d); [|contradiction]. apply direct_functional; assumption.
  - destruct Hw as (h & Ev & Hn).
    assert (Ei : parse_ip (strip_brackets h) = None).
    { destruct (parse_ip (strip_brackets h)) eqn:E; [|reflexivity].
      exfalso. apply Hn. eexists. exact E. }
    rewrite (resolve_wk _ _ _ _ Ev Ei).
    destruct Hwk as [Hwk|(d & Hwk & Hd0)]; rewrite Hwk; [|rewrite Hd0];
      apply direct_functional; assumption.
  - rewrite (resolve_no_wk _ _ _ Hw). apply direct_functional; assumption.
Qed.

(* the table written as a function is the same table *)
Lemma direct_fn_eq srv name :
  srv_sane srv -> direct_fn srv name = resolve_delegate srv name.
Proof.
  intro Hs. unfold direct_fn, shape_of, resolve_delegate, resolve_step, bare.
  destruct (parse_and_validate name) as [[h p]|] eqn:Ev; [|reflexivity].
  destruct (parse_ip (strip_brackets h)) eqn:Ei.
  - destruct p; reflexivity.
  - destruct p as [p|].
    + rewrite (strip_brackets_valid_nonip _ _ _ Ev Ei). reflexivity.
    + unfold srv_pick, handle_no_well_known, lookup_srv.
      destruct (srv svc_fed name) as [[|r l]| |] eqn:Ef; try reflexivity.
      * rewrite no_empty_target; [reflexivity|]. eapply Hs; eauto.
      * destruct (srv svc_legacy name) as [[|r l]| |] eqn:El; try reflexivity.
        rewrite no_empty_target; [reflexivity|]. eapply Hs; eauto.
Qed.

Theorem spec_fn_eq wk srv name :
  srv_sane srv -> spec_fn wk srv name = resolve wk srv name.
Proof.
  intro Hs. unfold spec_fn. destruct (wants_wk_dec name) as [(h & Ev & Ei)|Hn].
  - rewrite (resolve_wk _ _ _ _ Ev Ei). unfold shape_of at 1. unfold bare. rewrite Ev, Ei.
    destruct (wk name) as [d|]; [|apply direct_fn_eq; exact Hs].
    unfold shape_of. destruct (parse_and_validate d) as [[hd pd]|]; [|apply direct_fn_eq; exact Hs].
    destruct (parse_ip (bare hd)); [apply direct_fn_eq; exact Hs|].
    destruct pd; apply direct_fn_eq; exact Hs.
  - rewrite (resolve_no_wk _ _ _ Hn).
    destruct (shape_of name) eqn:Es; try (apply direct_fn_eq; exact Hs).
    exfalso. apply Hn. unfold shape_of, bare in Es.
    destruct (parse_and_validate name) as [[h p]|] eqn:Ev; [|discriminate].
    destruct (parse_ip (strip_brackets h)) eqn:Ei; [discriminate|].
    destruct p; [discriminate|]. exists h. split; [exact Ev|].
    intros [v Hv]. unfold bare in Hv. congruence.
Qed.

(* ---- the lookups performed ---- *)
Definition is_pw (p : probe) : bool := match p with PW _ => true | PS _ _ => false end.

Lemma srv_probes_no_pw srv n : filter is_pw (srv_probes srv n) = [].
Proof. unfold srv_probes. destruct (srv svc_fed n); reflexivity. Qed.

Lemma probes_nowk_no_pw srv d : filter is_pw (probes_step None srv (fun _ => []) d) = [].
Proof.
  unfold probes_step. destruct (parse_and_validate d) as [[h p]|]; [|reflexivity].
  destruct (parse_ip (strip_brackets h)); [reflexivity|]. destruct p; [reflexivity|].
  apply srv_probes_no_pw.
Qed.

(* at most one well-known request, and only for the name asked for *)
Theorem one_well_known_lookup wk srv name :
  filter is_pw (probes wk srv name) = [] \/ filter is_pw (probes wk srv name) = [PW name].
Proof.
  unfold probes.
  pose proof (probes_nowk_no_pw srv) as Hq.
  set (q := probes_step None srv (fun _ => [])) in *.
  unfold probes_step.
  destruct (parse_and_validate name) as [[h p]|]; [|left; reflexivity].
  destruct (parse_ip (strip_brackets h)); [left; reflexivity|].
  destruct p; [left; reflexivity|]. right. simpl.
  destruct (wk name) as [d|]; [|rewrite srv_probes_no_pw; reflexivity].
  destruct (parse_and_validate d); [rewrite Hq|rewrite srv_probes_no_pw]; reflexivity.
Qed.

(* _matrix-fed is asked first; _matrix only after a not-found answer *)
Theorem fed_before_legacy srv n :
  srv_probes srv n = [PS svc_fed n] \/
  (srv svc_fed n = SrvNotFound /\ srv_probes srv n = [PS svc_fed n; PS svc_legacy n]).
Proof. unfold srv_probes. destruct (srv svc_fed n); auto. Qed.

(* literals, names with a port and invalid names cause no lookup at all *)
Theorem no_lookup_unless_plain wk srv name :
  ~ wants_well_known name -> probes wk srv name = [].
Proof.
  intro Hn. unfold probes. set (q := probes_step None srv (fun _ => [])). unfold probes_step.
  destruct (parse_and_validate name) as [[h p]|] eqn:Ev; [|reflexivity].
  destruct (parse_ip (strip_brackets h)) eqn:Ei; [reflexivity|].
  destruct p; [reflexivity|]. exfalso. apply Hn. exists h. split; [exact Ev|].
  intros [v Hv]. unfold bare in Hv. congruence.
Qed.
