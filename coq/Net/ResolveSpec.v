(* C16 specification side of server-name resolution (Matrix server-server API, section Resolving
   server names), as a decision table in relational form, written from the specification text
   and not from the structure of resolve.go.  The oracles are those of Net/Resolve.v.

   Shape of a name (the syntax analysis itself is the business of C17; here the table is
   indexed by its result): invalid / valid with host part h and optional port.  The host part
   of a bracketed literal is written with its brackets; [bare] removes them.

   Library choices the specification text leaves open, recorded as rows of the table:
   - a delegated name that is not a valid server name makes the well-known reply invalid
     (specification step 3: an invalid response skips to step 4): resolution goes on with SRV
     and port 8448 for the name asked for;
   - an SRV lookup failing with anything but "not found" for _matrix-fed._tcp: the deprecated
     _matrix._tcp is not consulted and the name falls through to port 8448. *)
From Verif Require Import Lib.Bytes Net.IpC16 Net.ServerNameC16 Net.Resolve.
Open Scope N_scope.

Definition bare (h : bytes) : bytes := strip_brackets h.
Definition is_ip_literal (h : bytes) : Prop := exists v, parse_ip (bare h) = Some v.

(* SRV step: the records to use, if any *)
Inductive srv_found (srv : bytes -> bytes -> srv_outcome) (name : bytes)
  : list (bytes * N) -> Prop :=
| SF_fed : forall r l, srv svc_fed name = SrvOk (r :: l) -> srv_found srv name (r :: l)
| SF_legacy : forall r l, srv svc_fed name = SrvNotFound -> srv svc_legacy name = SrvOk (r :: l) ->
                          srv_found srv name (r :: l).

Definition no_srv (srv : bytes -> bytes -> srv_outcome) (name : bytes) : Prop :=
  forall recs, ~ srv_found srv name recs.

Definition one (dest host sni : bytes) : outcome :=
  Targets [ {| t_dest := dest; t_host := host; t_sni := sni |} ].

Definition of_record (name : bytes) (rc : bytes * N) : target :=
  {| t_dest := trim_dot (fst rc) ++ bs ":" ++ print_dec (snd rc); t_host := name; t_sni := name |}.

(* steps that do not involve /.well-known: used for the name itself (steps 1, 2, 4, 5, 6)
   and for the delegated name (steps 3.1 - 3.5) *)
Inductive direct (srv : bytes -> bytes -> srv_outcome) (name : bytes) : outcome -> Prop :=
| D_invalid :
    parse_and_validate name = None -> direct srv name Refused
| D_ip_noport : forall h,
    parse_and_validate name = Some (h, None) -> is_ip_literal h ->
    direct srv name (one (join_host_port (bare h) (bs "8448")) name (bare h))
| D_ip_port : forall h p,
    parse_and_validate name = Some (h, Some p) -> is_ip_literal h ->
    direct srv name (one name name (bare h))
| D_port : forall h p,
    parse_and_validate name = Some (h, Some p) -> ~ is_ip_literal h ->
    direct srv name (one name name h)
| D_srv : forall h recs,
    parse_and_validate name = Some (h, None) -> ~ is_ip_literal h ->
    srv_found srv name recs -> Forall (fun rc => fst rc <> []) recs ->
    direct srv name (Targets (map (of_record name) recs))
| D_8448 : forall h,
    parse_and_validate name = Some (h, None) -> ~ is_ip_literal h ->
    no_srv srv name ->
    direct srv name (one (name ++ bs ":8448") name name).

(* is /.well-known consulted for this name at all? *)
Definition wants_well_known (name : bytes) : Prop :=
  exists h, parse_and_validate name = Some (h, None) /\ ~ is_ip_literal h.

Inductive resolves (wk : bytes -> option bytes) (srv : bytes -> bytes -> srv_outcome)
          (name : bytes) : outcome -> Prop :=
| R_delegated : forall d o,
    wants_well_known name -> wk name = Some d -> parse_and_validate d <> None ->
    direct srv d o ->                       (* no further well-known lookup for d *)
    resolves wk srv name o
| R_not_delegated : forall o,
    wants_well_known name ->
    (wk name = None \/ exists d, wk name = Some d /\ parse_and_validate d = None) ->
    direct srv name o -> resolves wk srv name o
| R_literal_or_port : forall o,
    ~ wants_well_known name -> direct srv name o -> resolves wk srv name o.

(* SRV targets as a resolver returns them are never empty (the root is a single dot) *)
Definition srv_sane (srv : bytes -> bytes -> srv_outcome) : Prop :=
  forall s n recs, srv s n = SrvOk recs -> Forall (fun rc => fst rc <> []) recs.

(* ---- the same table as a function (used by the oracle op; shown to satisfy the relation
   in Net/C16Proofs.v) ---- *)
Inductive shape := ShInvalid | ShIp (b : bytes) (port : option N) | ShPort (h : bytes) | ShPlain.

Definition shape_of (name : bytes) : shape :=
  match parse_and_validate name with
  | None => ShInvalid
  | Some (h, p) =>
      match parse_ip (bare h) with
      | Some _ => ShIp (bare h) p
      | None => match p with Some _ => ShPort h | None => ShPlain end
      end
  end.

Definition srv_pick (srv : bytes -> bytes -> srv_outcome) (name : bytes) : option (list (bytes * N)) :=
  match srv svc_fed name with
  | SrvOk (r :: l) => Some (r :: l)
  | SrvNotFound => match srv svc_legacy name with SrvOk (r :: l) => Some (r :: l) | _ => None end
  | _ => None
  end.

Definition direct_fn (srv : bytes -> bytes -> srv_outcome) (name : bytes) : outcome :=
  match shape_of name with
  | ShInvalid => Refused
  | ShIp b None => one (join_host_port b (bs "8448")) name b
  | ShIp b (Some _) => one name name b
  | ShPort h => one name name h
  | ShPlain =>
      match srv_pick srv name with
      | Some recs => Targets (map (of_record name) recs)
      | None => one (name ++ bs ":8448") name name
      end
  end.

Definition spec_fn (wk : bytes -> option bytes) (srv : bytes -> bytes -> srv_outcome)
           (name : bytes) : outcome :=
  match shape_of name with
  | ShPlain => match wk name with
               | Some d => match shape_of d with
                           | ShInvalid => direct_fn srv name
                           | _ => direct_fn srv d
                           end
               | None => direct_fn srv name
               end
  | _ => direct_fn srv name
  end.
