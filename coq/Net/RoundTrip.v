(* C16: fclient/client.go destinationTripper.RoundTrip: which targets a round trip tries, in
   which order, with which Host header and TLS server name, including the retry after every
   target failed, and what it does to the resolution cache.

   As the code is:  results come from the resolution cache, else from ResolveServer for the
   server name of the request (its URL host AT ENTRY); the targets are tried in order; if all
   fail the cache entry is deleted and, once, the loop is entered again.  On that second pass
   the results already held are reused (they are not empty, so ResolveServer is not called
   again within the same round trip); without well-known/SRV lookups the single direct target
   is appended a second time.  No proofs in this file. *)
From Verif Require Import Lib.Bytes Net.IpC16 Net.Resolve.
Open Scope N_scope.

Inductive attempt_outcome := AOk | ATlsFail | ARefused.

(* the port a destination text ends with *)
Definition port_of (dest : bytes) : bytes :=
  match last_index 58 dest 0 None with
  | Some i => dropN (i + 1) dest
  | None => []
  end.

(* environment: a [blocked] target gets no connection (its port refuses, or the dialer's control
   function refuses the address); the listeners fail the first k handshakes they see (k is
   threaded through) *)
Fixpoint try_targets (blocked : target -> bool) (l : list target) (k : N)
  : list (target * attempt_outcome) * N * bool :=
  match l with
  | [] => ([], k, false)
  | t :: r =>
      if blocked t then
        let '(rest, k', ok) := try_targets blocked r k in ((t, ARefused) :: rest, k', ok)
      else if 0 <? k then
        let '(rest, k', ok) := try_targets blocked r (k - 1) in ((t, ATlsFail) :: rest, k', ok)
      else ([(t, AOk)], k, true)
  end.

(* the targets of the first pass and, should it fail, of the second *)
Definition second_pass (well_known_srv : bool) (results : list target) : list target :=
  if well_known_srv then results else results ++ results.

Record rt_result := {
  rt_attempts : list (target * attempt_outcome);
  rt_ok : bool;
  rt_resolved : bool;                      (* ResolveServer was called *)
  rt_cache : option (list target);         (* resolution cache entry for the name afterwards *)
  rt_k : N
}.

(* [resolved] = what ResolveServer gives for the server name of the request *)
Definition round_trip (well_known_srv : bool) (blocked : target -> bool) (name : bytes)
           (resolved : outcome) (cache : option (list target)) (k : N) : option rt_result :=
  let direct := [ {| t_dest := name; t_host := name; t_sni := name |} ] in
  let from_cache := match cache with Some (x :: l) => Some (x :: l) | _ => None end in
  let pick : option (list target * bool) :=
    if well_known_srv then
      match from_cache with
      | Some r => Some (r, false)
      | None => match resolved with
                | Targets (x :: l) => Some (x :: l, true)
                | _ => None
                end
      end
    else Some (direct, false) in
  match pick with
  | None => None                                   (* error before any attempt *)
  | Some (results, did_resolve) =>
      let cache1 := if well_known_srv then Some results else cache in
      let '(a1, k1, ok1) := try_targets blocked results k in
      if ok1 then
        Some {| rt_attempts := a1; rt_ok := true; rt_resolved := did_resolve; rt_cache := cache1; rt_k := k1 |}
      else
        let '(a2, k2, ok2) := try_targets blocked (second_pass well_known_srv results) k1 in
        Some {| rt_attempts := a1 ++ a2; rt_ok := ok2; rt_resolved := did_resolve;
                rt_cache := None; rt_k := k2 |}
  end.

(* ---------- the connections behind the attempts ----------
   Every dial of the transport - the federation attempts and, since the repair of F71, the
   .well-known request of the resolution - goes through one dialer: the host part of the
   destination is turned into an address (IP literal: itself; name: what the resolver says) and
   the control function decides on address:port. *)
Definition dest_addr (ip_of : bytes -> bytes) (dest : bytes) : bytes :=
  match split_host dest with
  | Some h => join_host_port (match parse_ip h with Some _ => h | None => ip_of h end) (port_of dest)
  | None => dest
  end.

Definition net_of (addr : bytes) : bytes :=
  match addr with c :: _ => if c =? 91 then bs "tcp6" else bs "tcp4" | [] => bs "tcp4" end.

Definition dial_allowed (allow deny : list bytes) (addr : bytes) : bool :=
  control_allows allow deny (net_of addr) addr.

Definition blocked_by (dead allow deny : list bytes) (ip_of : bytes -> bytes) (t : target) : bool :=
  mem_bytes (port_of (t_dest t)) dead || negb (dial_allowed allow deny (dest_addr ip_of (t_dest t))).

Definition attempt_connections (ip_of : bytes -> bytes) (l : list (target * attempt_outcome)) : list bytes :=
  flat_map (fun a => match snd a with
                     | ARefused => []
                     | _ => [dest_addr ip_of (t_dest (fst a))]
                     end) l.

(* the .well-known request: https://name/... is port 443 of the name *)
Definition well_known_dest (name : bytes) : bytes := name ++ bs ":443".
Definition well_known_connection (allow deny : list bytes) (ip_of : bytes -> bytes) (name : bytes)
  : option bytes :=
  let a := dest_addr ip_of (well_known_dest name) in
  if dial_allowed allow deny a then Some a else None.
