(* C16: fclient/client.go destinationTripper.RoundTrip: which targets a round trip tries, in
   which order, with which Host header and TLS server name, including the retry after every
   target failed, and what it does to the resolution cache.

   As the code is (after the repair of F95):  the targets of the first pass come from the
   resolution cache, else from ResolveServer for the server name of the request (its URL host
   AT ENTRY); they are tried in order; if all fail the cache entry is deleted and, once, the
   name is RESOLVED AGAIN (the answers may have changed) and the new targets are tried.  A failed
   second pass deletes the cache entry again.  Without well-known / SRV lookups both passes try
   the single direct target.  Resolutions are numbered: [res n] is what the n-th call of
   ResolveServer for this name gives.  No proofs in this file. *)
From Verif Require Import Lib.Bytes Net.IpC16 Net.Resolve.
Open Scope N_scope.

Inductive attempt_outcome := AOk | ATlsFail | ARefused.

(* the port a destination text ends with *)
Definition port_of (dest : bytes) : bytes :=
  match last_index 58 dest 0 None with
  | Some i => dropN (i + 1) dest
  | None => []
  end.

(* environment: a [blocked] target gets no connection (its port refuses, or the dialer's control
   function refuses the address); the listeners fail the first k handshakes they see (k is
   threaded through) *)
Fixpoint try_targets (blocked : target -> bool) (l : list target) (k : N)
  : list (target * attempt_outcome) * N * bool :=
  match l with
  | [] => ([], k, false)
  | t :: r =>
      if blocked t then
        let '(rest, k', ok) := try_targets blocked r k in ((t, ARefused) :: rest, k', ok)
      else if 0 <? k then
        let '(rest, k', ok) := try_targets blocked r (k - 1) in ((t, ATlsFail) :: rest, k', ok)
      else ([(t, AOk)], k, true)
  end.

(* one pass: the resolution it started with (None: targets from the cache / the direct target)
   and what happened to its targets *)
Record pass := { p_resolution : option nat; p_attempts : list (target * attempt_outcome) }.

Record rt_result := {
  rt_passes : list pass;
  rt_ok : bool;
  rt_cache : option (list target);         (* resolution cache entry for the name afterwards *)
  rt_k : N;
  rt_next : nat                            (* number of the next resolution *)
}.

Definition rt_attempts (r : rt_result) : list (target * attempt_outcome) :=
  flat_map p_attempts (rt_passes r).

Definition targets_of (o : outcome) : option (list target) :=
  match o with Targets (x :: l) => Some (x :: l) | _ => None end.

Definition round_trip (well_known_srv : bool) (blocked : target -> bool) (name : bytes)
           (res : nat -> outcome) (n : nat) (cache : option (list target)) (k : N) : rt_result :=
  let direct := [ {| t_dest := name; t_host := name; t_sni := name |} ] in
  if well_known_srv then
    (* first pass *)
    let first : option (list target) * option nat * nat :=
      match cache with
      | Some (x :: l) => (Some (x :: l), None, n)
      | _ => (targets_of (res n), Some n, S n)
      end in
    let '(t1, r1, n1) := first in
    match t1 with
    | None => (* ResolveServer failed: the error is returned, nothing is cached *)
        {| rt_passes := [ {| p_resolution := r1; p_attempts := [] |} ]; rt_ok := false;
           rt_cache := None; rt_k := k; rt_next := n1 |}
    | Some l1 =>
        let '(a1, k1, ok1) := try_targets blocked l1 k in
        let p1 := {| p_resolution := r1; p_attempts := a1 |} in
        if ok1 then
          {| rt_passes := [p1]; rt_ok := true; rt_cache := Some l1; rt_k := k1; rt_next := n1 |}
        else
          (* cache entry deleted, the name is resolved again *)
          match targets_of (res n1) with
          | None =>
              {| rt_passes := [p1; {| p_resolution := Some n1; p_attempts := [] |}]; rt_ok := false;
                 rt_cache := None; rt_k := k1; rt_next := S n1 |}
          | Some l2 =>
              let '(a2, k2, ok2) := try_targets blocked l2 k1 in
              {| rt_passes := [p1; {| p_resolution := Some n1; p_attempts := a2 |}]; rt_ok := ok2;
                 rt_cache := if ok2 then Some l2 else None; rt_k := k2; rt_next := S n1 |}
          end
    end
  else
    let '(a1, k1, ok1) := try_targets blocked direct k in
    let p1 := {| p_resolution := None; p_attempts := a1 |} in
    if ok1 then {| rt_passes := [p1]; rt_ok := true; rt_cache := cache; rt_k := k1; rt_next := n |}
    else
      let '(a2, k2, ok2) := try_targets blocked direct k1 in
      {| rt_passes := [p1; {| p_resolution := None; p_attempts := a2 |}]; rt_ok := ok2;
         rt_cache := None; rt_k := k2; rt_next := n |}.

(* ---------- the connections behind the attempts ----------
   Every dial of the transport - the federation attempts and, since the repair of F71, the
   .well-known request of the resolution - goes through one dialer: the host part of the
   destination is turned into an address (IP literal: itself; name: what the resolver says) and
   the control function decides on address:port. *)
Definition dest_addr (ip_of : bytes -> bytes) (dest : bytes) : bytes :=
  match split_host dest with
  | Some h => join_host_port (match parse_ip h with Some _ => h | None => ip_of h end) (port_of dest)
  | None => dest
  end.

Definition net_of (addr : bytes) : bytes :=
  match addr with c :: _ => if c =? 91 then bs "tcp6" else bs "tcp4" | [] => bs "tcp4" end.

Definition dial_allowed (allow deny : list bytes) (addr : bytes) : bool :=
  control_allows allow deny (net_of addr) addr.

Definition blocked_by (dead allow deny : list bytes) (ip_of : bytes -> bytes) (t : target) : bool :=
  mem_bytes (port_of (t_dest t)) dead || negb (dial_allowed allow deny (dest_addr ip_of (t_dest t))).

Definition attempt_connections (ip_of : bytes -> bytes) (l : list (target * attempt_outcome)) : list bytes :=
  flat_map (fun a => match snd a with
                     | ARefused => []
                     | _ => [dest_addr ip_of (t_dest (fst a))]
                     end) l.

(* the .well-known request: https://name/... is port 443 of the name *)
Definition well_known_dest (name : bytes) : bytes := name ++ bs ":443".
Definition well_known_connection (allow deny : list bytes) (ip_of : bytes -> bytes) (name : bytes)
  : option bytes :=
  let a := dest_addr ip_of (well_known_dest name) in
  if dial_allowed allow deny a then Some a else None.
