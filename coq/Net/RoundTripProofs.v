(* C16: every connection attempt of a round trip, retries included, goes to a target that a
   resolution of the ORIGINAL server name produced (the cached one, the one made at the start of
   the round trip, or the fresh one made for the retry), with that target's Host and SNI, and
   every connection behind an attempt is one the allow / deny lists permit. *)
From Verif Require Import Lib.Bytes Net.IpC16 Net.ServerNameC16 Net.Resolve Net.ResolveSpec
     Net.ResolveProofs Net.RoundTrip Net.PolicySpec Net.PolicyProofs.
Open Scope N_scope.

Lemma try_targets_in (dead : target -> bool) : forall l k t o,
  In (t, o) (fst (fst (try_targets dead l k))) -> In t l.
Proof.
  induction l as [|x r IH]; intros k t o H; simpl in H; [contradiction|].
  destruct (dead x).
  - destruct (try_targets dead r k) as [[rest k'] ok] eqn:E. simpl in H.
    destruct H as [H|H]; [inversion H; subst; left; reflexivity|].
    right. apply (IH k t o). rewrite E. exact H.
  - destruct (0 <? k).
    + destruct (try_targets dead r (k - 1)) as [[rest k'] ok] eqn:E. simpl in H.
      destruct H as [H|H]; [inversion H; subst; left; reflexivity|].
      right. apply (IH (k - 1) t o). rewrite E. exact H.
    + simpl in H. destruct H as [H|[]]. inversion H; subst. left. reflexivity.
Qed.

Lemma try_targets_ok_last (dead : target -> bool) : forall l k,
  snd (try_targets dead l k) = true ->
  exists t, In (t, AOk) (fst (fst (try_targets dead l k))).
Proof.
  induction l as [|x r IH]; intros k H; simpl in *; [discriminate|].
  destruct (dead x).
  - destruct (try_targets dead r k) as [[rest k'] ok] eqn:E. simpl in *.
    destruct (IH k) as [t Ht]; [rewrite E; exact H|]. rewrite E in Ht. exists t. right. exact Ht.
  - destruct (0 <? k).
    + destruct (try_targets dead r (k - 1)) as [[rest k'] ok] eqn:E. simpl in *.
      destruct (IH (k - 1)) as [t Ht]; [rewrite E; exact H|]. rewrite E in Ht. exists t. right. exact Ht.
    + exists x. left. reflexivity.
Qed.

Lemma try_targets_unblocked (blocked : target -> bool) : forall l k t o,
  In (t, o) (fst (fst (try_targets blocked l k))) -> o <> ARefused -> blocked t = false.
Proof.
  induction l as [|x r IH]; intros k t o H Ho; simpl in H; [contradiction|].
  destruct (blocked x) eqn:Eb.
  - destruct (try_targets blocked r k) as [[rest k'] ok] eqn:E. simpl in H.
    destruct H as [H|H]; [inversion H; subst; contradiction|].
    apply (IH k t o); [rewrite E; exact H|exact Ho].
  - destruct (0 <? k).
    + destruct (try_targets blocked r (k - 1)) as [[rest k'] ok] eqn:E. simpl in H.
      destruct H as [H|H]; [inversion H; subst; exact Eb|].
      apply (IH (k - 1) t o); [rewrite E; exact H|exact Ho].
    + simpl in H. destruct H as [H|[]]. inversion H; subst. exact Eb.
Qed.

Lemma targets_of_some o l : targets_of o = Some l -> o = Targets l.
Proof. destruct o as [|[|x r]|]; simpl; intro H; inversion H; reflexivity. Qed.

(* A property of the passes of a round trip, proved once: every pass's attempts were produced by
   try_targets over a list that is the cache content, a resolution made in this round trip, or
   the direct target. *)
Definition source_ok (wks : bool) (name : bytes) (res : nat -> outcome) (n : nat)
           (cache : option (list target)) (l : list target) : Prop :=
  if wks then cache = Some l \/ res n = Targets l \/ res (S n) = Targets l
            \/ (exists x r, cache = Some (x :: r) /\ res n = Targets l)
  else l = [ {| t_dest := name; t_host := name; t_sni := name |} ].

Lemma round_trip_passes wks blocked name res n cache k p :
  In p (rt_passes (round_trip wks blocked name res n cache k)) ->
  p_attempts p = [] \/
  exists l kk, source_ok wks name res n cache l /\
               p_attempts p = fst (fst (try_targets blocked l kk)).
Proof.
  unfold round_trip, source_ok. destruct wks.
  - destruct cache as [[|x l]|].
    + (* empty cached list: resolve *)
      destruct (targets_of (res n)) as [l1|] eqn:E1; simpl.
      * destruct (try_targets blocked l1 k) as [[a1 k1] ok1] eqn:T1. destruct ok1; simpl.
        -- intros [H|[]]; subst p; simpl. right. exists l1, k. rewrite T1. simpl.
           split; [right; left; apply targets_of_some; exact E1|reflexivity].
        -- destruct (targets_of (res (S n))) as [l2|] eqn:E2; simpl.
           ++ destruct (try_targets blocked l2 k1) as [[a2 k2] ok2] eqn:T2. simpl.
              intros [H|[H|[]]]; subst p; simpl; right.
              ** exists l1, k. rewrite T1. simpl. split; [right; left; apply targets_of_some; exact E1|reflexivity].
              ** exists l2, k1. rewrite T2. simpl. split; [right; right; left; apply targets_of_some; exact E2|reflexivity].
           ++ intros [H|[H|[]]]; subst p; simpl; [right|left; reflexivity].
              exists l1, k. rewrite T1. simpl. split; [right; left; apply targets_of_some; exact E1|reflexivity].
      * intros [H|[]]; subst p. left. reflexivity.
    + (* cached targets *)
      remember (x :: l) as cl eqn:Ecl. rewrite Ecl at 1. cbv beta iota zeta. rewrite <- Ecl.
      destruct (try_targets blocked cl k) as [[a1 k1] ok1] eqn:T1. destruct ok1; simpl.
      * intros [H|[]]; subst p; simpl. right. exists cl, k. rewrite T1. simpl. auto.
      * destruct (targets_of (res n)) as [l2|] eqn:E2; simpl.
        -- destruct (try_targets blocked l2 k1) as [[a2 k2] ok2] eqn:T2. simpl.
           intros [H|[H|[]]]; subst p; simpl; right.
           ++ exists cl, k. rewrite T1. simpl. auto.
           ++ exists l2, k1. rewrite T2. simpl. split; [right; left; apply targets_of_some; exact E2|reflexivity].
        -- intros [H|[H|[]]]; subst p; simpl; [right|left; reflexivity].
           exists cl, k. rewrite T1. simpl. auto.
    + destruct (targets_of (res n)) as [l1|] eqn:E1; simpl.
      * destruct (try_targets blocked l1 k) as [[a1 k1] ok1] eqn:T1. destruct ok1; simpl.
        -- intros [H|[]]; subst p; simpl. right. exists l1, k. rewrite T1. simpl.
           split; [right; left; apply targets_of_some; exact E1|reflexivity].
        -- destruct (targets_of (res (S n))) as [l2|] eqn:E2; simpl.
           ++ destruct (try_targets blocked l2 k1) as [[a2 k2] ok2] eqn:T2. simpl.
              intros [H|[H|[]]]; subst p; simpl; right.
              ** exists l1, k. rewrite T1. simpl. split; [right; left; apply targets_of_some; exact E1|reflexivity].
              ** exists l2, k1. rewrite T2. simpl. split; [right; right; left; apply targets_of_some; exact E2|reflexivity].
           ++ intros [H|[H|[]]]; subst p; simpl; [right|left; reflexivity].
              exists l1, k. rewrite T1. simpl. split; [right; left; apply targets_of_some; exact E1|reflexivity].
      * intros [H|[]]; subst p. left. reflexivity.
  - remember [ {| t_dest := name; t_host := name; t_sni := name |} ] as d eqn:Ed.
    destruct (try_targets blocked d k) as [[a1 k1] ok1] eqn:T1. destruct ok1; simpl.
    + intros [H|[]]; subst p; simpl. right. exists d, k. rewrite T1. auto.
    + destruct (try_targets blocked d k1) as [[a2 k2] ok2] eqn:T2. simpl.
      intros [H|[H|[]]]; subst p; simpl; right.
      * exists d, k. rewrite T1. auto.
      * exists d, k1. rewrite T2. auto.
Qed.

(* the targets a round trip may use: those in the cache, those of the resolution it starts with
   and those of the fresh resolution made for its retry *)
Definition usable (wks : bool) (name : bytes) (res : nat -> outcome) (n : nat)
           (cache : option (list target)) (t : target) : Prop :=
  if wks then
    (exists l, cache = Some l /\ In t l) \/ (exists l, res n = Targets l /\ In t l)
    \/ (exists l, res (S n) = Targets l /\ In t l)
  else t = {| t_dest := name; t_host := name; t_sni := name |}.

Theorem attempts_are_usable wks blocked name res n cache k t o :
  In (t, o) (rt_attempts (round_trip wks blocked name res n cache k)) ->
  usable wks name res n cache t.
Proof.
  unfold rt_attempts. intro H. apply in_flat_map in H as (p & Hp & Hin).
  destruct (round_trip_passes _ _ _ _ _ _ _ _ Hp) as [He|(l & kk & Hs & Ha)].
  - rewrite He in Hin. contradiction.
  - rewrite Ha in Hin. apply try_targets_in in Hin.
    unfold source_ok in Hs. unfold usable. destruct wks.
    + destruct Hs as [Hc|[Hr|[Hr|(x & r & Hc & Hr)]]].
      * left. exists l. auto.
      * right. left. exists l. auto.
      * right. right. exists l. auto.
      * right. left. exists l. auto.
    + subst l. destruct Hin as [Hin|[]]. symmetry. exact Hin.
Qed.

Theorem attempts_unblocked wks blocked name res n cache k t o :
  In (t, o) (rt_attempts (round_trip wks blocked name res n cache k)) ->
  o <> ARefused -> blocked t = false.
Proof.
  unfold rt_attempts. intros H Ho. apply in_flat_map in H as (p & Hp & Hin).
  destruct (round_trip_passes _ _ _ _ _ _ _ _ Hp) as [He|(l & kk & _ & Ha)].
  - rewrite He in Hin. contradiction.
  - rewrite Ha in Hin. eapply try_targets_unblocked; eauto.
Qed.

(* the cache only ever holds what it held or what a resolution of that name produced *)
Theorem cache_holds_resolution wks blocked name res n cache k l :
  rt_cache (round_trip wks blocked name res n cache k) = Some l ->
  cache = Some l \/ (wks = true /\ (res n = Targets l \/ res (S n) = Targets l)).
Proof.
  unfold round_trip. destruct wks.
  - destruct cache as [[|x c]|].
    + destruct (targets_of (res n)) as [l1|] eqn:E1; simpl; [|discriminate].
      destruct (try_targets blocked l1 k) as [[a1 k1] ok1]. destruct ok1; simpl.
      * intro H; inversion H; subst. right. split; [reflexivity|left; apply targets_of_some; exact E1].
      * destruct (targets_of (res (S n))) as [l2|] eqn:E2; simpl; [|discriminate].
        destruct (try_targets blocked l2 k1) as [[a2 k2] ok2]. simpl. destruct ok2; [|discriminate].
        intro H; inversion H; subst. right. split; [reflexivity|right; apply targets_of_some; exact E2].
    + remember (x :: c) as cl eqn:Ecl. rewrite Ecl at 1. cbv beta iota zeta. rewrite <- Ecl.
      destruct (try_targets blocked cl k) as [[a1 k1] ok1]. destruct ok1; simpl.
      * intro H; inversion H; subst. left. reflexivity.
      * destruct (targets_of (res n)) as [l2|] eqn:E2; simpl; [|discriminate].
        destruct (try_targets blocked l2 k1) as [[a2 k2] ok2]. simpl. destruct ok2; [|discriminate].
        intro H; inversion H; subst. right. split; [reflexivity|left; apply targets_of_some; exact E2].
    + destruct (targets_of (res n)) as [l1|] eqn:E1; simpl; [|discriminate].
      destruct (try_targets blocked l1 k) as [[a1 k1] ok1]. destruct ok1; simpl.
      * intro H; inversion H; subst. right. split; [reflexivity|left; apply targets_of_some; exact E1].
      * destruct (targets_of (res (S n))) as [l2|] eqn:E2; simpl; [|discriminate].
        destruct (try_targets blocked l2 k1) as [[a2 k2] ok2]. simpl. destruct ok2; [|discriminate].
        intro H; inversion H; subst. right. split; [reflexivity|right; apply targets_of_some; exact E2].
  - remember [ {| t_dest := name; t_host := name; t_sni := name |} ] as d eqn:Ed.
    destruct (try_targets blocked d k) as [[a1 k1] ok1]. destruct ok1; simpl.
    + intro H. left. exact H.
    + destruct (try_targets blocked d k1) as [[a2 k2] ok2]. simpl. discriminate.
Qed.

(* a round trip reports success iff one attempt succeeded *)
Theorem success_has_ok_attempt wks blocked name res n cache k :
  rt_ok (round_trip wks blocked name res n cache k) = true ->
  exists t, In (t, AOk) (rt_attempts (round_trip wks blocked name res n cache k)).
Proof.
  assert (Hgen : forall l kk a k' (pre : list pass) r,
            try_targets blocked l kk = (a, k', true) ->
            exists t, In (t, AOk) (flat_map p_attempts (pre ++ [ {| p_resolution := r; p_attempts := a |} ]))).
  { intros l kk a k' pre r T. destruct (try_targets_ok_last blocked l kk) as [t Ht]; [rewrite T; reflexivity|].
    rewrite T in Ht. simpl in Ht. exists t. rewrite flat_map_app. apply in_or_app. right. simpl.
    rewrite app_nil_r. exact Ht. }
  unfold rt_attempts, round_trip. destruct wks.
  - destruct cache as [[|x c]|].
    + destruct (targets_of (res n)) as [l1|]; simpl; [|discriminate].
      destruct (try_targets blocked l1 k) as [[a1 k1] ok1] eqn:T1. destruct ok1; simpl.
      * intros _. apply (Hgen l1 k a1 k1 [] (Some n) T1).
      * destruct (targets_of (res (S n))) as [l2|]; simpl; [|discriminate].
        destruct (try_targets blocked l2 k1) as [[a2 k2] ok2] eqn:T2. simpl. intro H; subst ok2.
        apply (Hgen l2 k1 a2 k2 [ {| p_resolution := Some n; p_attempts := a1 |} ] (Some (S n)) T2).
    + remember (x :: c) as cl eqn:Ecl. rewrite Ecl at 1. cbv beta iota zeta. rewrite <- Ecl.
      destruct (try_targets blocked cl k) as [[a1 k1] ok1] eqn:T1. destruct ok1; simpl.
      * intros _. apply (Hgen cl k a1 k1 [] None T1).
      * destruct (targets_of (res n)) as [l2|]; simpl; [|discriminate].
        destruct (try_targets blocked l2 k1) as [[a2 k2] ok2] eqn:T2. simpl. intro H; subst ok2.
        apply (Hgen l2 k1 a2 k2 [ {| p_resolution := None; p_attempts := a1 |} ] (Some n) T2).
    + destruct (targets_of (res n)) as [l1|]; simpl; [|discriminate].
      destruct (try_targets blocked l1 k) as [[a1 k1] ok1] eqn:T1. destruct ok1; simpl.
      * intros _. apply (Hgen l1 k a1 k1 [] (Some n) T1).
      * destruct (targets_of (res (S n))) as [l2|]; simpl; [|discriminate].
        destruct (try_targets blocked l2 k1) as [[a2 k2] ok2] eqn:T2. simpl. intro H; subst ok2.
        apply (Hgen l2 k1 a2 k2 [ {| p_resolution := Some n; p_attempts := a1 |} ] (Some (S n)) T2).
  - remember [ {| t_dest := name; t_host := name; t_sni := name |} ] as d eqn:Ed.
    destruct (try_targets blocked d k) as [[a1 k1] ok1] eqn:T1. destruct ok1; simpl.
    + intros _. apply (Hgen d k a1 k1 [] None T1).
    + destruct (try_targets blocked d k1) as [[a2 k2] ok2] eqn:T2. simpl. intro H; subst ok2.
      apply (Hgen d k1 a2 k2 [ {| p_resolution := None; p_attempts := a1 |} ] None T2).
Qed.

(* with the specification: a round trip for [name] starting without a cache entry sends every
   attempt to a target the specification's table prescribes for [name] itself under the answers
   of the lookups at the time: those of its first resolution on the first pass, those of the
   fresh resolution on the retry *)
Theorem attempts_follow_spec wk1 srv1 wk2 srv2 blocked name k t o :
  srv_sane srv1 -> srv_sane srv2 ->
  In (t, o) (rt_attempts (round_trip true blocked name
               (fun i => match i with O => resolve wk1 srv1 name | _ => resolve wk2 srv2 name end)
               0 None k)) ->
  (exists l, resolves wk1 srv1 name (Targets l) /\ In t l) \/
  (exists l, resolves wk2 srv2 name (Targets l) /\ In t l).
Proof.
  intros Hs1 Hs2 Hin. apply attempts_are_usable in Hin. simpl in Hin.
  destruct Hin as [(l & Hc & _)|[(l & Hr & Hl)|(l & Hr & Hl)]]; [discriminate| |].
  - left. exists l. split; [|exact Hl]. rewrite <- Hr. apply resolve_sound. exact Hs1.
  - right. exists l. split; [|exact Hl]. rewrite <- Hr. apply resolve_sound. exact Hs2.
Qed.

(* ---------- every connection is policed ---------- *)
Theorem attempt_connections_allowed wks dead allow deny ip_of name res n cache k c :
  In c (attempt_connections ip_of
          (rt_attempts (round_trip wks (blocked_by dead allow deny ip_of) name res n cache k))) ->
  may_connect allow deny (net_of c) c.
Proof.
  intro Hin. unfold attempt_connections in Hin. apply in_flat_map in Hin as ([t o] & Ha & Hc).
  simpl in Hc. assert (Ho : o <> ARefused) by (destruct o; [discriminate|discriminate|contradiction]).
  assert (Hc' : c = dest_addr ip_of (t_dest t)) by (destruct o; simpl in Hc; intuition).
  pose proof (attempts_unblocked _ _ _ _ _ _ _ _ _ Ha Ho) as Hb.
  unfold blocked_by in Hb. apply orb_false_iff in Hb as [_ Hb]. apply negb_false_iff in Hb.
  subst c. apply control_allows_may_connect. exact Hb.
Qed.

Theorem well_known_connection_allowed allow deny ip_of name c :
  well_known_connection allow deny ip_of name = Some c -> may_connect allow deny (net_of c) c.
Proof.
  unfold well_known_connection. destruct (dial_allowed allow deny _) eqn:E; [|discriminate].
  intro H; inversion H; subst. apply control_allows_may_connect. exact E.
Qed.
