(* C16: every connection attempt of a round trip, retries included, goes to a target that the
   resolution of the ORIGINAL server name produced, with that target's Host and SNI. *)
From Verif Require Import Lib.Bytes Net.IpC16 Net.ServerNameC16 Net.Resolve Net.ResolveSpec
     Net.ResolveProofs Net.RoundTrip Net.PolicySpec Net.PolicyProofs.
Open Scope N_scope.

Lemma try_targets_in (dead : target -> bool) : forall l k t o,
  In (t, o) (fst (fst (try_targets dead l k))) -> In t l.
Proof.
  induction l as [|x r IH]; intros k t o H; simpl in H; [contradiction|].
  destruct (dead x).
  - destruct (try_targets dead r k) as [[rest k'] ok] eqn:E. simpl in H.
    destruct H as [H|H]; [inversion H; subst; left; reflexivity|].
    right. apply (IH k t o). rewrite E. exact H.
  - destruct (0 <? k).
    + destruct (try_targets dead r (k - 1)) as [[rest k'] ok] eqn:E. simpl in H.
      destruct H as [H|H]; [inversion H; subst; left; reflexivity|].
      right. apply (IH (k - 1) t o). rewrite E. exact H.
    + simpl in H. destruct H as [H|[]]. inversion H; subst. left. reflexivity.
Qed.

Lemma try_targets_ok_last (dead : target -> bool) : forall l k,
  snd (try_targets dead l k) = true ->
  exists t, In (t, AOk) (fst (fst (try_targets dead l k))).
Proof.
  induction l as [|x r IH]; intros k H; simpl in *; [discriminate|].
  destruct (dead x).
  - destruct (try_targets dead r k) as [[rest k'] ok] eqn:E. simpl in *.
    destruct (IH k) as [t Ht]; [rewrite E; exact H|]. rewrite E in Ht. exists t. right. exact Ht.
  - destruct (0 <? k).
    + destruct (try_targets dead r (k - 1)) as [[rest k'] ok] eqn:E. simpl in *.
      destruct (IH (k - 1)) as [t Ht]; [rewrite E; exact H|]. rewrite E in Ht. exists t. right. exact Ht.
    + exists x. left. reflexivity.
Qed.

(* the targets a round trip may use: those in the cache, else those just resolved *)
Definition usable (well_known_srv : bool) (name : bytes) (resolved : outcome)
           (cache : option (list target)) (t : target) : Prop :=
  if well_known_srv then
    (exists l, cache = Some l /\ In t l) \/ (exists l, resolved = Targets l /\ In t l)
  else t = {| t_dest := name; t_host := name; t_sni := name |}.

Theorem attempts_are_usable wks dead name resolved cache k r t o :
  round_trip wks dead name resolved cache k = Some r ->
  In (t, o) (rt_attempts r) -> usable wks name resolved cache t.
Proof.
  unfold round_trip, usable. destruct wks.
  - destruct (match cache with Some (x :: l) => Some (x :: l) | _ => None end) as [res|] eqn:Ec.
    + assert (Hc : cache = Some res) by (destruct cache as [[|x l]|]; inversion Ec; reflexivity).
      destruct (try_targets dead res k) as [[a1 k1] ok1] eqn:E1.
      destruct ok1.
      * intro H; inversion H; subst; simpl. intro Hin. left. exists res. split; [first [exact Hc|reflexivity]|].
        apply (try_targets_in dead res k t o). rewrite E1. exact Hin.
      * unfold second_pass. destruct (try_targets dead res k1) as [[a2 k2] ok2] eqn:E2.
        intro H; inversion H; subst; simpl. intro Hin. left. exists res. split; [first [exact Hc|reflexivity]|].
        apply in_app_or in Hin as [Hin|Hin].
        -- apply (try_targets_in dead res k t o). rewrite E1. exact Hin.
        -- apply (try_targets_in dead res k1 t o). rewrite E2. exact Hin.
    + destruct resolved as [|[|x l]|]; try discriminate.
      destruct (try_targets dead (x :: l) k) as [[a1 k1] ok1] eqn:E1.
      destruct ok1.
      * intro H; inversion H; subst; simpl. intro Hin. right. exists (x :: l). split; [reflexivity|].
        apply (try_targets_in dead (x :: l) k t o). rewrite E1. exact Hin.
      * unfold second_pass. destruct (try_targets dead (x :: l) k1) as [[a2 k2] ok2] eqn:E2.
        intro H; inversion H; subst; simpl. intro Hin. right. exists (x :: l). split; [reflexivity|].
        apply in_app_or in Hin as [Hin|Hin].
        -- apply (try_targets_in dead (x :: l) k t o). rewrite E1. exact Hin.
        -- apply (try_targets_in dead (x :: l) k1 t o). rewrite E2. exact Hin.
  - set (d := {| t_dest := name; t_host := name; t_sni := name |}).
    destruct (try_targets dead [d] k) as [[a1 k1] ok1] eqn:E1.
    assert (Hall : forall l kk tt oo, (forall y, In y l -> y = d) ->
                   In (tt, oo) (fst (fst (try_targets dead l kk))) -> tt = d).
    { intros l kk tt oo Hl Hin. apply Hl. eapply try_targets_in. exact Hin. }
    destruct ok1.
    + intro H; inversion H; subst; simpl. intro Hin.
      apply (Hall [d] k t o); [intros y [Hy|[]]; auto|rewrite E1; exact Hin].
    + unfold second_pass. destruct (try_targets dead ([d] ++ [d]) k1) as [[a2 k2] ok2] eqn:E2.
      intro H; inversion H; subst; simpl. intro Hin. apply in_app_or in Hin as [Hin|Hin].
      * apply (Hall [d] k t o); [intros y [Hy|[]]; auto|rewrite E1; exact Hin].
      * apply (Hall ([d] ++ [d]) k1 t o); [intros y [Hy|[Hy|[]]]; auto|rewrite E2; exact Hin].
Qed.

(* the cache only ever holds what a resolution of that name produced *)
Theorem cache_holds_resolution wks dead name resolved cache k r l :
  round_trip wks dead name resolved cache k = Some r -> rt_cache r = Some l ->
  (wks = true /\ (cache = Some l \/ resolved = Targets l)) \/ (wks = false /\ cache = Some l).
Proof.
  unfold round_trip. destruct wks.
  - destruct (match cache with Some (x :: l0) => Some (x :: l0) | _ => None end) as [res|] eqn:Ec.
    + assert (Hc : cache = Some res) by (destruct cache as [[|x l0]|]; inversion Ec; reflexivity).
      destruct (try_targets dead res k) as [[a1 k1] ok1]. destruct ok1.
      * intro H; inversion H; subst; simpl. intro E; inversion E; subst. left. auto.
      * unfold second_pass. destruct (try_targets dead res k1) as [[a2 k2] ok2].
        intro H; inversion H; subst; simpl. discriminate.
    + destruct resolved as [|[|x l0]|]; try discriminate.
      destruct (try_targets dead (x :: l0) k) as [[a1 k1] ok1]. destruct ok1.
      * intro H; inversion H; subst; simpl. intro E; inversion E; subst. left. auto.
      * unfold second_pass. destruct (try_targets dead (x :: l0) k1) as [[a2 k2] ok2].
        intro H; inversion H; subst; simpl. discriminate.
  - destruct (try_targets dead _ k) as [[a1 k1] ok1]. destruct ok1.
    + intro H; inversion H; subst; simpl. intro E. right. auto.
    + unfold second_pass. destruct (try_targets dead _ k1) as [[a2 k2] ok2].
      intro H; inversion H; subst; simpl. discriminate.
Qed.

(* a round trip reports success iff one attempt succeeded *)
Theorem success_has_ok_attempt wks dead name resolved cache k r :
  round_trip wks dead name resolved cache k = Some r -> rt_ok r = true ->
  exists t, In (t, AOk) (rt_attempts r).
Proof.
  unfold round_trip.
  destruct (if wks then _ else _) as [[results did]|]; [|discriminate].
  destruct (try_targets dead results k) as [[a1 k1] ok1] eqn:E1. destruct ok1.
  - intro H; inversion H; subst; simpl. intros _.
    destruct (try_targets_ok_last dead results k) as [t Ht]; [rewrite E1; reflexivity|].
    rewrite E1 in Ht. exists t. exact Ht.
  - destruct (try_targets dead (second_pass wks results) k1) as [[a2 k2] ok2] eqn:E2.
    intro H; inversion H; subst; simpl. intro Hok. subst ok2.
    destruct (try_targets_ok_last dead (second_pass wks results) k1) as [t Ht]; [rewrite E2; reflexivity|].
    rewrite E2 in Ht. exists t. apply in_or_app. right. exact Ht.
Qed.

(* with the specification: a fresh round trip for [name] sends every attempt, retries
   included, to a target the specification's table prescribes for [name] itself *)
Theorem attempts_follow_spec wk srv dead name k r t o l :
  srv_sane srv ->
  round_trip true dead name (resolve wk srv name) None k = Some r ->
  In (t, o) (rt_attempts r) -> resolves wk srv name (Targets l) -> In t l.
Proof.
  intros Hs Hr Hin Hspec.
  apply (resolve_unique wk srv name _ Hs) in Hspec.
  pose proof (attempts_are_usable true dead name _ None k r t o Hr Hin) as Hu.
  simpl in Hu. destruct Hu as [(l' & Hc & _)|(l' & Hres & Hl')]; [discriminate|].
  rewrite <- Hspec in Hres. inversion Hres; subst. exact Hl'.
Qed.

(* ---------- every connection is policed ---------- *)
Lemma try_targets_unblocked (blocked : target -> bool) : forall l k t o,
  In (t, o) (fst (fst (try_targets blocked l k))) -> o <> ARefused -> blocked t = false.
Proof.
  induction l as [|x r IH]; intros k t o H Ho; simpl in H; [contradiction|].
  destruct (blocked x) eqn:Eb.
  - destruct (try_targets blocked r k) as [[rest k'] ok] eqn:E. simpl in H.
    destruct H as [H|H]; [inversion H; subst; contradiction|].
    apply (IH k t o); [rewrite E; exact H|exact Ho].
  - destruct (0 <? k).
    + destruct (try_targets blocked r (k - 1)) as [[rest k'] ok] eqn:E. simpl in H.
      destruct H as [H|H]; [inversion H; subst; exact Eb|].
      apply (IH (k - 1) t o); [rewrite E; exact H|exact Ho].
    + simpl in H. destruct H as [H|[]]. inversion H; subst. exact Eb.
Qed.

Lemma round_trip_unblocked wks blocked name resolved cache k r t o :
  round_trip wks blocked name resolved cache k = Some r ->
  In (t, o) (rt_attempts r) -> o <> ARefused -> blocked t = false.
Proof.
  unfold round_trip.
  destruct (if wks then _ else _) as [[results did]|]; [|discriminate].
  destruct (try_targets blocked results k) as [[a1 k1] ok1] eqn:E1. destruct ok1.
  - intro H; inversion H; subst; simpl. intros Hin Ho.
    apply (try_targets_unblocked blocked results k t o); [rewrite E1; exact Hin|exact Ho].
  - destruct (try_targets blocked (second_pass wks results) k1) as [[a2 k2] ok2] eqn:E2.
    intro H; inversion H; subst; simpl. intros Hin Ho. apply in_app_or in Hin as [Hin|Hin].
    + apply (try_targets_unblocked blocked results k t o); [rewrite E1; exact Hin|exact Ho].
    + apply (try_targets_unblocked blocked (second_pass wks results) k1 t o); [rewrite E2; exact Hin|exact Ho].
Qed.

(* every connection a round trip makes for its attempts, on either pass, is to an address the
   allow / deny lists permit ... *)
Theorem attempt_connections_allowed wks dead allow deny ip_of name resolved cache k r c :
  round_trip wks (blocked_by dead allow deny ip_of) name resolved cache k = Some r ->
  In c (attempt_connections ip_of (rt_attempts r)) ->
  may_connect allow deny (net_of c) c.
Proof.
  intros Hr Hin. unfold attempt_connections in Hin. apply in_flat_map in Hin as ([t o] & Ha & Hc).
  simpl in Hc. assert (Ho : o <> ARefused) by (destruct o; [discriminate|discriminate|contradiction]).
  assert (Hc' : c = dest_addr ip_of (t_dest t)) by (destruct o; simpl in Hc; intuition).
  pose proof (round_trip_unblocked _ _ _ _ _ _ _ _ _ Hr Ha Ho) as Hb.
  unfold blocked_by in Hb. apply orb_false_iff in Hb as [_ Hb]. apply negb_false_iff in Hb.
  subst c. apply control_allows_may_connect. exact Hb.
Qed.

(* ... and so is the connection of the .well-known request *)
Theorem well_known_connection_allowed allow deny ip_of name c :
  well_known_connection allow deny ip_of name = Some c -> may_connect allow deny (net_of c) c.
Proof.
  unfold well_known_connection. destruct (dial_allowed allow deny _) eqn:E; [|discriminate].
  intro H; inversion H; subst. apply control_allows_may_connect. exact E.
Qed.
