(* C16: spec/servername.go ParseAndValidateServerName / splitServerName, exactly as much as
   ResolveServer uses (the grammar theorem about server names belongs to C17).  No proofs. *)
From Verif Require Import Lib.Bytes Net.IpC16.
Open Scope N_scope.

(* a port suffix of more than five characters is not a port (repair of F101); then
   strconv.ParseUint(s, 10, 16): non-empty, ASCII digits only, value at most 65535 *)
Definition parse_port (s : bytes) : option N :=
  if (5 <? length s)%nat then None else
  match parse_dec s with
  | Some n => if n <=? 65535 then Some n else None
  | None => None
  end.

(* splitServerName: (host, port); port None is Go's -1 *)
Definition split_server_name (s : bytes) : bytes * option N :=
  match last_index 58 s 0 None with
  | None => (s, None)
  | Some i =>
      match parse_port (dropN (i + 1) s) with
      | Some p => (take i s, Some p)
      | None => (s, None)
      end
  end.

Definition is_dns_char (c : N) : bool :=
  ((65 <=? c) && (c <=? 90)) || ((97 <=? c) && (c <=? 122)) || ((48 <=? c) && (c <=? 57))
  || (c =? 45) || (c =? 46).

Definition last_byte (s : bytes) : N := last s 0.

(* the text between the first and the last byte *)
Definition inner (s : bytes) : bytes := removelast (tl s).

(* ParseAndValidateServerName: Some (host, port) iff valid *)
Definition parse_and_validate (name : bytes) : option (bytes * option N) :=
  match name with
  | [] => None
  | _ =>
      let '(host, port) := split_server_name name in
      match host with
      | [] => None
      | c0 :: _ =>
          if c0 =? 91 then
            if negb (last_byte host =? 93) then None
            else match parse_ip (inner host) with
                 | Some _ => Some (host, port)
                 | None => None
                 end
          else
            match parse_ip host with
            | Some ip =>
                match to4 ip with
                | Some _ => Some (host, port)
                | None => if forallb is_dns_char host then Some (host, port) else None
                end
            | None => if forallb is_dns_char host then Some (host, port) else None
            end
      end
  end.
