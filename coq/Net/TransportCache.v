(* C19: fclient/client.go destinationTripper.transports as a transition system.  One mutex
   (transportsMutex); the critical sections are

     getTransport(name) = [lock: look the name up, insert a new transport if absent,
                           store lastUsed := now; unlock]            (one section: the deferred
                           Unlock runs after lastUsed.Store)
     reaper()           = [lock: for every entry Load lastUsed (a type assertion on the loaded
                           value: it PANICS when nothing was ever stored), delete the entry if
                           now - lastUsed > lifetime; unlock]

   A transport is a token (the number of transports created before it): two callers got the
   same transport iff they got the same token.  lastUsed is an atomic.Value: None = never
   stored.  [split] = true is NOT the code: it is the variant in which the new entry becomes
   visible in one section and lastUsed is stored in a later step outside the lock; it is kept
   to show what the invariant below depends on.  No proofs in this file. *)
From Verif Require Import Lib.Bytes.
Open Scope Z_scope.

Record tentry := { t_name : bytes; t_id : N; t_last : option Z }.

Fixpoint tfind (n : bytes) (es : list tentry) : option tentry :=
  match es with
  | [] => None
  | e :: r => if bytes_eqb (t_name e) n then Some e else tfind n r
  end.

Fixpoint ttouch (n : bytes) (now : Z) (es : list tentry) : list tentry :=
  match es with
  | [] => []
  | e :: r => if bytes_eqb (t_name e) n
              then {| t_name := t_name e; t_id := t_id e; t_last := Some now |} :: r
              else e :: ttouch n now r
  end.

(* getTransport as the code has it: (entries', next token, token handed out) *)
Definition get_section (now : Z) (n : bytes) (next : N) (es : list tentry)
  : list tentry * N * N :=
  match tfind n es with
  | Some e => (ttouch n now es, next, t_id e)
  | None => (es ++ [ {| t_name := n; t_id := next; t_last := Some now |} ], (next + 1)%N, next)
  end.

(* the insert half and the store half of the split variant *)
Definition get_insert_only (n : bytes) (next : N) (es : list tentry) : list tentry * N * N :=
  match tfind n es with
  | Some e => (es, next, t_id e)
  | None => (es ++ [ {| t_name := n; t_id := next; t_last := None |} ], (next + 1)%N, next)
  end.

(* one reaper pass: None = panic (an entry without a stored lastUsed was met) *)
Fixpoint reap_section (lifetime now : Z) (es : list tentry) : option (list tentry) :=
  match es with
  | [] => Some []
  | e :: r =>
      match t_last e with
      | None => None
      | Some t =>
          match reap_section lifetime now r with
          | None => None
          | Some r' => if lifetime <? now - t then Some r' else Some (e :: r')
          end
      end
  end.

Record tstate := {
  tentries : list tentry;
  tnext : N;
  tclock : Z;
  tpending : list bytes;       (* split variant only: names whose lastUsed store is still to come *)
  tpanicked : bool
}.

Inductive tlabel := TGet (n : bytes) (t : Z) (id : N) | TStore (n : bytes) (t : Z) | TReap (t : Z).

Section TSteps.
  Variable lifetime : Z.
  Variable split : bool.

  Inductive tstep : tstate -> tlabel -> tstate -> Prop :=
  | T_get : forall s n t es' nx id,
      split = false -> tpanicked s = false -> tclock s <= t ->
      get_section t n (tnext s) (tentries s) = (es', nx, id) ->
      tstep s (TGet n t id)
            {| tentries := es'; tnext := nx; tclock := t; tpending := tpending s; tpanicked := false |}
  | T_get_insert : forall s n t es' nx id,
      split = true -> tpanicked s = false -> tclock s <= t ->
      get_insert_only n (tnext s) (tentries s) = (es', nx, id) ->
      tstep s (TGet n t id)
            {| tentries := es'; tnext := nx; tclock := t; tpending := n :: tpending s; tpanicked := false |}
  | T_store : forall s n t p1 p2,
      split = true -> tpanicked s = false -> tclock s <= t -> tpending s = p1 ++ n :: p2 ->
      tstep s (TStore n t)
            {| tentries := ttouch n t (tentries s); tnext := tnext s; tclock := t;
               tpending := p1 ++ p2; tpanicked := false |}
  | T_reap : forall s t es',
      tpanicked s = false -> tclock s <= t ->
      reap_section lifetime t (tentries s) = Some es' ->
      tstep s (TReap t)
            {| tentries := es'; tnext := tnext s; tclock := t; tpending := tpending s; tpanicked := false |}
  | T_reap_panic : forall s t,
      tpanicked s = false -> tclock s <= t ->
      reap_section lifetime t (tentries s) = None ->
      tstep s (TReap t)
            {| tentries := tentries s; tnext := tnext s; tclock := t; tpending := tpending s; tpanicked := true |}.

  Definition tinit (t0 : Z) : tstate :=
    {| tentries := []; tnext := 0; tclock := t0; tpending := []; tpanicked := false |}.

  Inductive treachable (t0 : Z) : tstate -> Prop :=
  | TR_init : treachable t0 (tinit t0)
  | TR_step : forall s l s', treachable t0 s -> tstep s l s' -> treachable t0 s'.
End TSteps.
