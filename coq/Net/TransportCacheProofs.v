(* C19: invariants of the transport cache for all interleavings of getTransport and reaper. *)
From Verif Require Import Lib.Bytes Net.TransportCache.
Open Scope Z_scope.

Definition stored (e : tentry) : Prop := exists t, t_last e = Some t.
Definition tnames (es : list tentry) : list bytes := map t_name es.

Lemma tfind_in n es e : tfind n es = Some e -> In e es /\ t_name e = n.
Proof.
  induction es as [|x r IH]; simpl; [discriminate|].
  destruct (bytes_eqb (t_name x) n) eqn:E.
  - intro H; inversion H; subst. apply bytes_eqb_eq in E. auto.
  - intro H. destruct (IH H). auto.
Qed.

Lemma tfind_none n es : tfind n es = None -> ~ In n (tnames es).
Proof.
  induction es as [|x r IH]; simpl; [tauto|].
  destruct (bytes_eqb (t_name x) n) eqn:E; [discriminate|].
  intros H [Hx|Hin]; [subst; rewrite bytes_eqb_refl in E; discriminate|exact (IH H Hin)].
Qed.

Lemma ttouch_names n t es : tnames (ttouch n t es) = tnames es.
Proof.
  induction es as [|x r IH]; simpl; [reflexivity|].
  destruct (bytes_eqb (t_name x) n); simpl; [reflexivity|]. f_equal. exact IH.
Qed.

Lemma ttouch_stored n t es : Forall stored es -> Forall stored (ttouch n t es).
Proof.
  induction 1 as [|x r Hx Hr IH]; simpl; [constructor|].
  destruct (bytes_eqb (t_name x) n); constructor; auto. exists t. reflexivity.
Qed.

Lemma ttouch_ids n t es : map t_id (ttouch n t es) = map t_id es.
Proof.
  induction es as [|x r IH]; simpl; [reflexivity|].
  destruct (bytes_eqb (t_name x) n); simpl; [reflexivity|]. f_equal. exact IH.
Qed.

Lemma reap_ok lifetime now es : Forall stored es -> reap_section lifetime now es <> None.
Proof.
  induction 1 as [|x r [t Hx] Hr IH]; simpl; [discriminate|].
  rewrite Hx. destruct (reap_section lifetime now r); [|contradiction].
  destruct (lifetime <? now - t); discriminate.
Qed.

Lemma reap_sub lifetime now : forall es es',
  reap_section lifetime now es = Some es' ->
  (forall e, In e es' -> In e es) /\
  (forall e t, In e es -> t_last e = Some t -> now - t <= lifetime -> In e es').
Proof.
  induction es as [|x r IH]; simpl; intros es' H.
  - inversion H; subst. split; [tauto|intros e t []].
  - destruct (t_last x) as [tx|] eqn:Ex; [|discriminate].
    destruct (reap_section lifetime now r) as [r'|]; [|discriminate].
    destruct (IH r' eq_refl) as [I1 I2].
    destruct (lifetime <? now - tx) eqn:El; inversion H; subst.
    + split; [intros e He; right; auto|].
      intros e t [E|Hin] Ht Hle; [|eauto]. subst e. rewrite Ex in Ht. inversion Ht; subst.
      apply Z.ltb_lt in El. lia.
    + split; [intros e [E|He]; [left; auto|right; auto]|].
      intros e t [E|Hin] Ht Hle; [left; auto|right; eauto].
Qed.

Lemma reap_map_nodup {A} (f : tentry -> A) lifetime now : forall es es',
  reap_section lifetime now es = Some es' -> NoDup (map f es) -> NoDup (map f es').
Proof.
  induction es as [|x r IH]; simpl; intros es' H Hn.
  - inversion H; subst. constructor.
  - destruct (t_last x) as [tx|]; [|discriminate].
    destruct (reap_section lifetime now r) as [r'|] eqn:Er; [|discriminate].
    inversion Hn as [|? ? Hni Hnd]; subst.
    destruct (lifetime <? now - tx); inversion H; subst; [auto|].
    simpl. constructor; [|auto]. intro Hin. apply Hni.
    apply in_map_iff in Hin as (e & He & Hin).
    apply in_map_iff. exists e. split; [exact He|].
    destruct (reap_sub lifetime now r r' Er) as [I1 _]. auto.
Qed.

Lemma ttouch_in n t es x : In x (ttouch n t es) -> In x es \/ t_last x = Some t.
Proof.
  induction es as [|y r IH]; simpl; [tauto|].
  destruct (bytes_eqb (t_name y) n); simpl.
  - intros [E|Hin]; [right; subst x; reflexivity|left; right; exact Hin].
  - intros [E|Hin]; [left; left; exact E|]. destruct (IH Hin); auto.
Qed.

Lemma NoDup_snoc {A} (l : list A) x : NoDup l -> ~ In x l -> NoDup (l ++ [x]).
Proof.
  induction 1 as [|y l Hy Hl IH]; simpl; intro Hx; [repeat constructor; auto|].
  constructor.
  - intro Hin. apply in_app_or in Hin as [Hin|[E|[]]]; [contradiction|]. subst. apply Hx. left. reflexivity.
  - apply IH. intro Hin. apply Hx. right. exact Hin.
Qed.

Section TInv.
  Variable lifetime : Z.

  Record tinv (s : tstate) : Prop := {
    ti_stored : Forall stored (tentries s);
    ti_nodup : NoDup (tnames (tentries s));
    ti_ids : forall e, In e (tentries s) -> (t_id e < tnext s)%N;
    ti_ids_nodup : NoDup (map t_id (tentries s));
    ti_clock : forall e t, In e (tentries s) -> t_last e = Some t -> t <= tclock s;
    ti_alive : tpanicked s = false
  }.

  Lemma tinv_step s l s' : tinv s -> tstep lifetime false s l s' -> tinv s'.
  Proof.
    intros [I1 I2 I3 I4 I5 I6] H. inversion H; subst; try discriminate.
    - (* getTransport *)
      unfold get_section in *.
      destruct (tfind n (tentries s)) as [e|] eqn:Ef.
      + match goal with Hg : (_, _, _) = (_, _, _) |- _ => inversion Hg; subst; clear Hg end.
        constructor; simpl; auto.
        * apply ttouch_stored. exact I1.
        * rewrite ttouch_names. exact I2.
        * intros x Hx. assert (Hid : In (t_id x) (map t_id (ttouch n t (tentries s))))
            by (apply in_map; exact Hx).
          rewrite ttouch_ids in Hid. apply in_map_iff in Hid as (y & Hy & Hin).
          rewrite <- Hy. apply I3. exact Hin.
        * rewrite ttouch_ids. exact I4.
        * intros x tx Hx Hl. apply ttouch_in in Hx as [Hx|Hx].
          -- specialize (I5 x tx Hx Hl). lia.
          -- rewrite Hx in Hl. inversion Hl. lia.
      + match goal with Hg : (_, _, _) = (_, _, _) |- _ => inversion Hg; subst; clear Hg end.
        constructor; simpl; auto.
        * apply Forall_app. split; [exact I1|]. constructor; [exists t; reflexivity|constructor].
        * unfold tnames. rewrite map_app. simpl. apply tfind_none in Ef.
          apply NoDup_snoc; assumption.
        * intros x Hx. apply in_app_or in Hx as [Hx|[E|[]]]; [specialize (I3 x Hx); lia|subst x; simpl; lia].
        * rewrite map_app. simpl. apply NoDup_snoc; [exact I4|].
          intro Hin. apply in_map_iff in Hin as (y & Hy & Hin). specialize (I3 y Hin). lia.
        * intros x tx Hx Hl. apply in_app_or in Hx as [Hx|[E|[]]].
          -- specialize (I5 x tx Hx Hl). lia.
          -- subst x. simpl in Hl. inversion Hl. lia.
    - (* reaper *)
      match goal with Hr : reap_section _ _ _ = Some _ |- _ =>
        pose proof (reap_sub _ _ _ _ Hr) as [Hsub _];
        pose proof (reap_map_nodup t_name _ _ _ _ Hr I2) as Hnd;
        pose proof (reap_map_nodup t_id _ _ _ _ Hr I4) as Hnd2 end.
      constructor; simpl; auto.
      + apply Forall_forall. intros e He. rewrite Forall_forall in I1. auto.
      + intros e te He Hl. specialize (I5 e te (Hsub e He) Hl). lia.
    - (* a reaper pass that panics is impossible under the invariant *)
      exfalso. match goal with Hr : reap_section _ _ _ = None |- _ => revert Hr end.
      apply reap_ok. exact I1.
  Qed.

  Theorem tinv_reachable t0 s : treachable lifetime false t0 s -> tinv s.
  Proof.
    induction 1 as [|s l s' Hr IH Hs]; [|eapply tinv_step; eauto].
    constructor; simpl; try constructor; try (intros; contradiction); reflexivity.
  Qed.
End TInv.

(* with the store of lastUsed inside the critical section (the code), no reaper pass of any
   interleaving meets an entry without a stored lastUsed *)
Theorem reaper_never_panics lifetime t0 s t :
  treachable lifetime false t0 s ->
  tpanicked s = false /\ reap_section lifetime t (tentries s) <> None.
Proof.
  intro H. apply tinv_reachable in H. destruct H as [I1 _ _ _ _ I6].
  split; [exact I6|apply reap_ok; exact I1].
Qed.

(* an entry used within the lifetime survives a reaper pass *)
Theorem recently_used_survives lifetime now es es' e t :
  reap_section lifetime now es = Some es' -> In e es -> t_last e = Some t -> now - t <= lifetime ->
  In e es'.
Proof. intros H. destruct (reap_sub lifetime now es es' H) as [_ I2]. apply I2. Qed.

(* as long as the entry is there every caller is handed the same transport; a new transport
   differs from all transports in the cache *)
Theorem same_transport_for_name now n next es e :
  tfind n es = Some e -> snd (get_section now n next es) = t_id e.
Proof. intro H. unfold get_section. rewrite H. reflexivity. Qed.

Theorem new_transport_is_fresh lifetime t0 s now n :
  treachable lifetime false t0 s -> tfind n (tentries s) = None ->
  forall e, In e (tentries s) -> t_id e <> snd (get_section now n (tnext s) (tentries s)).
Proof.
  intros H Hf e He. unfold get_section. rewrite Hf. simpl.
  apply tinv_reachable in H. pose proof (ti_ids s H e He). lia.
Qed.

(* the variant that publishes the entry in one section and stores lastUsed later, outside the
   lock, is NOT safe: a reaper pass in between panics *)
Theorem split_variant_reaper_can_panic lifetime :
  exists s, treachable lifetime true 0 s /\ tpanicked s = true.
Proof.
  eexists. split.
  - eapply TR_step. eapply TR_step. apply TR_init.
    + eapply (T_get_insert lifetime true (tinit 0) (bs "fresh.example") 1);
        [reflexivity|reflexivity|simpl; lia|reflexivity].
    + eapply T_reap_panic with (t := 2); [reflexivity|simpl; lia|reflexivity].
  - reflexivity.
Qed.
