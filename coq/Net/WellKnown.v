(* C16: fclient/well_known.go LookupWellKnown after the HTTP exchange: what is done with the
   status, the Content-Length / Cache-Control / Expires headers and the body.
   The HTTP round trip itself, time.Parse of the Expires header (its result is an input here)
   and the syntax analysis of encoding/json (Json/Parse.v stands for it) are outside.
   [repaired] = true is the code after the two fix: commits (oversized body refused, F23;
   cache expiry taken from the headers only, F24); false is the code as first found.
   No proofs in this file. *)
From Verif Require Import Lib.Bytes Json.Ast Json.Parse.
Open Scope N_scope.

Definition max_size : N := 51200.          (* = GenConsts.gen_well_known_max_size, see Props *)

(* strconv.ParseInt(s, 10, 64) / strconv.Atoi on a 64-bit platform *)
Definition parse_i64 (s : bytes) : option Z :=
  match parse_int s with
  | Some z => if ((- 2 ^ 63 <=? z) && (z <? 2 ^ 63))%Z then Some z else None
  | None => None
  end.

(* int64 addition wraps (the code as first found) *)
Definition wrap64 (z : Z) : Z := ((z + 2 ^ 63) mod 2 ^ 64 - 2 ^ 63)%Z.

(* the repaired sum saturates: if age > MaxInt64 - now then MaxInt64 else age + now *)
Definition max_i64 : Z := (2 ^ 63 - 1)%Z.
Definition sat_add (age now : Z) : Z := if (max_i64 - now <? age)%Z then max_i64 else (age + now)%Z.

(* the Cache-Control field lines arrive separated by byte 10; the repaired code joins them
   with commas into one list, the code as first found read the first line only *)
Definition join_lines (raw : bytes) : bytes := map (fun c => if c =? 10 then 44 else c) raw.
Fixpoint first_line (raw : bytes) : bytes :=
  match raw with [] => [] | c :: r => if c =? 10 then [] else c :: first_line r end.

(* ---- Cache-Control ---- *)
Fixpoint split_all (c : N) (s : bytes) (cur : bytes) : list bytes :=
  match s with
  | [] => [rev cur]
  | x :: r => if x =? c then rev cur :: split_all c r [] else split_all c r (x :: cur)
  end.

Fixpoint trim_left (c : N) (s : bytes) : bytes :=
  match s with x :: r => if x =? c then trim_left c r else s | [] => [] end.
Definition trim (c : N) (s : bytes) : bytes := rev (trim_left c (rev (trim_left c s))).

Definition lower (c : N) : N := if (65 <=? c) && (c <=? 90) then c + 32 else c.
Definition eq_fold_ascii (a b : bytes) : bool := bytes_eqb (map lower a) (map lower b).

(* one directive: Some age when it is max-age=<int64> *)
Definition max_age_of (directive : bytes) : option Z :=
  match split_at 61 (trim 32 directive) with
  | Some (k, v) => if eq_fold_ascii k (bs "max-age") then parse_i64 v else None
  | None => None
  end.

(* the loop keeps the last valid max-age *)
Fixpoint last_max_age (ds : list bytes) (acc : option Z) : option Z :=
  match ds with
  | [] => acc
  | d :: r => last_max_age r (match max_age_of d with Some a => Some a | None => acc end)
  end.

Definition cache_control_max_age (h : bytes) : option Z :=
  match h with [] => None | _ => last_max_age (split_all 44 h []) None end.

(* expires = result of time.Parse on a non-empty Expires header, if it parsed *)
Definition header_expiry_gen (repaired : bool) (now : Z) (expires : option Z) (cache_control : bytes) : Z :=
  match cache_control_max_age (if repaired then join_lines cache_control else first_line cache_control) with
  | Some age => if repaired then sat_add age now else wrap64 (age + now)
  | None => match expires with Some e => e | None => 0%Z end
  end.
Definition header_expiry := header_expiry_gen true.

(* ---- body: encoding/json into struct{NewAddress `m.server`; CacheExpiresAt int64} ---- *)
(* foldName: ASCII upper case; U+017F and U+212A are the only other runes folding to ASCII *)
Fixpoint fold_name (s : bytes) : bytes :=
  match s with
  | [] => []
  | a :: r =>
      match r with
      | b :: r2 =>
          if (a =? 197) && (b =? 191) then 83 :: fold_name r2
          else match r2 with
               | c :: r3 =>
                   if (a =? 226) && (b =? 132) && (c =? 170) then 75 :: fold_name r3
                   else (if (97 <=? a) && (a <=? 122) then a - 32 else a) :: fold_name r
               | [] => (if (97 <=? a) && (a <=? 122) then a - 32 else a) :: fold_name r
               end
      | [] => [if (97 <=? a) && (a <=? 122) then a - 32 else a]
      end
  end.

Definition key_server : bytes := bs "M.SERVER".
Definition key_expiry : bytes := bs "CACHEEXPIRESAT".

Record wk_fields := { f_addr : bytes; f_exp : option Z; f_bad : bool }.

Definition set_member (st : wk_fields) (kv : bytes * json) : wk_fields :=
  let '(k, v) := kv in
  let fk := fold_name k in
  if bytes_eqb fk key_server then
    match v with
    | JStr s => {| f_addr := s; f_exp := f_exp st; f_bad := f_bad st |}
    | JNull => st
    | _ => {| f_addr := f_addr st; f_exp := f_exp st; f_bad := true |}
    end
  else if bytes_eqb fk key_expiry then
    match v with
    | JNull => st
    | JNum raw =>
        match num_int raw with
        | Some z => if ((- 2 ^ 63 <=? z) && (z <? 2 ^ 63))%Z
                    then {| f_addr := f_addr st; f_exp := Some z; f_bad := f_bad st |}
                    else {| f_addr := f_addr st; f_exp := f_exp st; f_bad := true |}
        | None => {| f_addr := f_addr st; f_exp := f_exp st; f_bad := true |}
        end
    | _ => {| f_addr := f_addr st; f_exp := f_exp st; f_bad := true |}
    end
  else st.

Definition decode_body (body : bytes) : option wk_fields :=
  match parse_json body with
  | Some (JObj m) => Some (fold_left set_member m {| f_addr := []; f_exp := None; f_bad := false |})
  | Some JNull => Some {| f_addr := []; f_exp := None; f_bad := false |}
  | Some _ => Some {| f_addr := []; f_exp := None; f_bad := true |}
  | None => None
  end.

Inductive wk_result := WkErr | WkOk (addr : bytes) (expires : Z).

Record wk_reply := {
  r_status : Z;                 (* resp.StatusCode *)
  r_content_length : bytes;     (* Content-Length header, empty when absent *)
  r_cache_control : bytes;      (* the Cache-Control field lines, separated by byte 10 *)
  r_expires : option Z;         (* time.Parse result of a non-empty Expires header *)
  r_body : bytes;
  r_body_read_ok : bool         (* false: the body reader fails *)
}.

Definition lookup_gen (repaired : bool) (now : Z) (r : wk_reply) : wk_result :=
  if negb (r_status r =? 200)%Z then WkErr
  else if (match parse_i64 (r_content_length r) with
           | Some l => (Z.of_N max_size <? l)%Z | None => false end) then WkErr
  else if negb (r_body_read_ok r)
          && (repaired || (N.of_nat (length (r_body r)) <? max_size)) then WkErr
          (* the unrepaired LimitedReader stopped asking before a late failure could show *)
  else if repaired && (max_size <? N.of_nat (length (r_body r))) then WkErr
  else
    let body := if repaired then r_body r else firstn (N.to_nat max_size) (r_body r) in
    let hexp := header_expiry_gen repaired now (r_expires r) (r_cache_control r) in
    match decode_body body with
    | None => WkErr
    | Some f =>
        if f_bad f then WkErr
        else match f_addr f with
             | [] => WkErr
             | a => WkOk a (if repaired then hexp
                            else match f_exp f with Some e => e | None => hexp end)
             end
    end.

Definition lookup := lookup_gen true.
