(* C16: the model of LookupWellKnown honours a reply iff the specification does. *)
From Verif Require Import Lib.Bytes Json.Ast Json.Parse Net.WellKnown Net.WellKnownSpec.
Open Scope N_scope.

Definition srv_str (kv : bytes * json) : bool := is_server_key (fst kv) && is_str (snd kv).

Definition pick (o : option (bytes * json)) (dflt : bytes) : bytes :=
  match o with Some (_, JStr s) => s | _ => dflt end.

Lemma find_snoc {A} (f : A -> bool) l x :
  find f (l ++ [x]) = match find f l with Some y => Some y | None => if f x then Some x else None end.
Proof. induction l as [|y l IH]; simpl; [reflexivity|]. destruct (f y); [reflexivity|exact IH]. Qed.

Ltac case_if := match goal with |- context [if ?c then _ else _] => destruct c end.

Lemma set_member_addr st kv :
  f_addr (set_member st kv) = if srv_str kv then pick (Some kv) [] else f_addr st.
Proof.
  destruct kv as [k v]. unfold set_member, srv_str, is_server_key. simpl.
  destruct (bytes_eqb (fold_name k) key_server).
  - destruct v; reflexivity.
  - simpl. destruct (bytes_eqb (fold_name k) key_expiry); [|reflexivity].
    destruct v; try reflexivity. destruct (num_int raw) as [z|]; [|reflexivity].
    case_if; reflexivity.
Qed.

Lemma set_member_bad st kv :
  f_bad (set_member st kv) = f_bad st || negb (member_ok kv).
Proof.
  destruct kv as [k v]. unfold set_member, member_ok, is_expiry_key, is_server_key. simpl.
  destruct (bytes_eqb (fold_name k) key_server).
  - destruct v; simpl; try reflexivity; destruct (f_bad st); reflexivity.
  - simpl. destruct (bytes_eqb (fold_name k) key_expiry).
    + destruct v; simpl; try (destruct (f_bad st); reflexivity).
      destruct (num_int raw) as [z|]; [|destruct (f_bad st); reflexivity].
      case_if; simpl; destruct (f_bad st); reflexivity.
    + destruct (f_bad st); reflexivity.
Qed.

Lemma fold_addr m : forall st,
  f_addr (fold_left set_member m st) = pick (find srv_str (rev m)) (f_addr st).
Proof.
  induction m as [|kv m IH]; intro st; simpl; [reflexivity|].
  rewrite IH, find_snoc, set_member_addr.
  destruct (find srv_str (rev m)) as [[k v]|] eqn:Ef.
  { apply find_some in Ef as [_ Ef]. unfold srv_str in Ef. simpl in Ef.
    apply andb_true_iff in Ef as [_ Ef]. destruct v; try discriminate. reflexivity. }
  destruct (srv_str kv) eqn:E; [|reflexivity].
  destruct kv as [k v]. unfold srv_str in E. simpl in E.
  apply andb_true_iff in E as [_ E]. destruct v; try discriminate. reflexivity.
Qed.

Lemma fold_bad m : forall st,
  f_bad (fold_left set_member m st) = f_bad st || negb (forallb member_ok m).
Proof.
  induction m as [|kv m IH]; intro st; simpl.
  - destruct (f_bad st); reflexivity.
  - rewrite IH, set_member_bad. destruct (f_bad st), (member_ok kv); simpl; try reflexivity.
Qed.

Lemma named_server_pick m : named_server m = pick (find srv_str (rev m)) [].
Proof. reflexivity. Qed.

(* the body names an m.server iff the decoding loop ends well with a non-empty address *)
Lemma decode_names body a :
  (exists f, decode_body body = Some f /\ f_bad f = false /\ f_addr f = a /\ a <> [])
  <-> names_m_server body a.
Proof.
  unfold decode_body, names_m_server. split.
  - intros (f & Hd & Hb & Ha & Hne).
    destruct (parse_json body) as [j|]; [|discriminate].
    destruct j; inversion Hd; subst f; clear Hd; simpl in *; try discriminate; try congruence.
    exists m. split; [reflexivity|].
    rewrite fold_bad in Hb. simpl in Hb. rewrite fold_addr in Ha. simpl in Ha.
    split; [|split; [rewrite named_server_pick; exact Ha|exact Hne]].
    destruct (forallb member_ok m); [reflexivity|discriminate].
  - intros (m & Hp & Hok & Hn & Hne). rewrite Hp. eexists. split; [reflexivity|].
    rewrite fold_bad, fold_addr, Hok. simpl. rewrite <- named_server_pick. auto.
Qed.

Lemma declared_ok_iff cl :
  (match parse_i64 cl with Some l => (Z.of_N max_size <? l)%Z | None => false end) = false
  <-> declared_size_ok cl.
Proof.
  unfold declared_size_ok. destruct (parse_i64 cl) as [l|]; split.
  - intros H l' E. inversion E; subst. apply Z.ltb_ge in H. exact H.
  - intro H. apply Z.ltb_ge. apply H. reflexivity.
  - intros _ l' E. discriminate.
  - reflexivity.
Qed.

Lemma header_expiry_lifetime now ex cc e :
  header_expiry now ex cc = e <-> lifetime now ex cc e.
Proof.
  unfold header_expiry, header_expiry_gen, lifetime.
  destruct (cache_control_max_age (join_lines cc)); [|destruct ex]; split; intro H; congruence.
Qed.

Theorem lookup_iff now r a e :
  lookup now r = WkOk a e <-> honoured now r a e.
Proof.
  unfold lookup, lookup_gen, honoured. split.
  - destruct (r_status r =? 200)%Z eqn:Es; cbn [negb]; [|discriminate].
    destruct (match parse_i64 (r_content_length r) with
              | Some l => (Z.of_N max_size <? l)%Z | None => false end) eqn:Ec; [discriminate|].
    destruct (r_body_read_ok r) eqn:Er; cbn [negb andb orb]; [|discriminate].
    destruct (max_size <? N.of_nat (length (r_body r))) eqn:El; [discriminate|].
    destruct (decode_body (r_body r)) as [f|] eqn:Ed; [|discriminate].
    destruct (f_bad f) eqn:Eb; [discriminate|].
    destruct (f_addr f) as [|c0 a'] eqn:Ea; [discriminate|].
    intro H; inversion H; subst a e; clear H.
    split; [apply Z.eqb_eq; exact Es|]. split; [apply declared_ok_iff; exact Ec|].
    split; [reflexivity|]. split; [apply N.ltb_ge; exact El|].
    split; [|apply header_expiry_lifetime; reflexivity].
    apply decode_names. exists f. repeat split; auto. discriminate.
  - intros (Hs & Hc & Hr & Hl & Hn & He).
    apply Z.eqb_eq in Hs. rewrite Hs. cbn [negb].
    apply declared_ok_iff in Hc. rewrite Hc. rewrite Hr. cbn [negb andb orb].
    apply N.ltb_ge in Hl. rewrite Hl.
    apply decode_names in Hn. destruct Hn as (f & Hd & Hb & Ha & Hne).
    rewrite Hd, Hb. rewrite Ha. destruct a as [|c0 a']; [contradiction|].
    apply header_expiry_lifetime in He. unfold header_expiry in He. rewrite He. reflexivity.
Qed.

(* the oracle function is the same predicate *)
Theorem honouredb_iff now r a e :
  honouredb now r = Some (a, e) <-> honoured now r a e.
Proof.
  unfold honouredb, honoured, names_m_server. split.
  - destruct (r_status r =? 200)%Z eqn:Es; cbn [negb]; [|discriminate].
    destruct (parse_i64 (r_content_length r)) as [l|] eqn:Ec.
    + destruct (l <=? Z.of_N max_size)%Z eqn:Ecl; cbn [negb]; [|discriminate].
      destruct (r_body_read_ok r) eqn:Er; cbn [negb]; [|discriminate].
      destruct (N.of_nat (length (r_body r)) <=? max_size) eqn:El; cbn [negb]; [|discriminate].
      destruct (parse_json (r_body r)) as [[| | | | |m]|] eqn:Ep; try discriminate.
      destruct (forallb member_ok m) eqn:Eok; [|discriminate].
      destruct (named_server m) as [|c0 a'] eqn:En; [discriminate|].
      intro H; inversion H; subst a e; clear H.
      split; [apply Z.eqb_eq; exact Es|].
      split; [unfold declared_size_ok; rewrite Ec; intros l' E; inversion E; subst;
              apply Z.leb_le; exact Ecl|].
      split; [reflexivity|]. split; [apply N.leb_le; exact El|].
      split; [exists m; repeat split; auto; discriminate|].
      unfold lifetime. destruct (cache_control_max_age (join_lines (r_cache_control r))); [reflexivity|].
      destruct (r_expires r); reflexivity.
    + destruct (r_body_read_ok r) eqn:Er; cbn [negb]; [|discriminate].
      destruct (N.of_nat (length (r_body r)) <=? max_size) eqn:El; cbn [negb]; [|discriminate].
      destruct (parse_json (r_body r)) as [[| | | | |m]|] eqn:Ep; try discriminate.
      destruct (forallb member_ok m) eqn:Eok; [|discriminate].
      destruct (named_server m) as [|c0 a'] eqn:En; [discriminate|].
      intro H; inversion H; subst a e; clear H.
      split; [apply Z.eqb_eq; exact Es|].
      split; [unfold declared_size_ok; rewrite Ec; intros l' E; discriminate|].
      split; [reflexivity|]. split; [apply N.leb_le; exact El|].
      split; [exists m; repeat split; auto; discriminate|].
      unfold lifetime. destruct (cache_control_max_age (join_lines (r_cache_control r))); [reflexivity|].
      destruct (r_expires r); reflexivity.
  - intros (Hs & Hc & Hr & Hl & (m & Hp & Hok & Hn & Hne) & He).
    apply Z.eqb_eq in Hs. rewrite Hs. cbn [negb].
    assert (Hc' : negb (match parse_i64 (r_content_length r) with
                        | Some l => (l <=? Z.of_N max_size)%Z | None => true end) = false).
    { unfold declared_size_ok in Hc. destruct (parse_i64 (r_content_length r)) as [l|]; [|reflexivity].
      apply negb_false_iff. apply Z.leb_le. apply Hc. reflexivity. }
    rewrite Hc'. rewrite Hr. cbn [negb]. apply N.leb_le in Hl. rewrite Hl. cbn [negb].
    rewrite Hp, Hok, Hn. destruct a as [|c0 a']; [contradiction|].
    unfold lifetime in He. destruct (cache_control_max_age (join_lines (r_cache_control r))).
    + subst e. reflexivity.
    + destruct (r_expires r); subst e; reflexivity.
Qed.

(* max-age is preferred: with a valid max-age directive, Expires plays no part *)
Theorem max_age_preferred now ex ex' cc age :
  cache_control_max_age (join_lines cc) = Some age ->
  header_expiry now ex cc = sat_add age now /\ header_expiry now ex cc = header_expiry now ex' cc.
Proof. intro H. unfold header_expiry, header_expiry_gen. rewrite H. split; reflexivity. Qed.

(* the saturating sum is the exact sum whenever that fits, never wraps, never decreases *)
Theorem sat_add_spec age now :
  (sat_add age now = Z.min (age + now) max_i64)%Z.
Proof. unfold sat_add. destruct (max_i64 - now <? age)%Z eqn:E; [apply Z.ltb_lt in E|apply Z.ltb_ge in E]; lia. Qed.

Theorem expires_used_otherwise now ex cc :
  cache_control_max_age (join_lines cc) = None ->
  header_expiry now ex cc = match ex with Some e => e | None => 0%Z end.
Proof. intro H. unfold header_expiry, header_expiry_gen. rewrite H. reflexivity. Qed.

(* which directive counts: the last comma-separated, space-trimmed one of the form
   max-age=<int64> (name in any letter case) *)
Lemma last_max_age_app ds x acc :
  last_max_age (ds ++ [x]) acc =
  match max_age_of x with Some a => Some a | None => last_max_age ds acc end.
Proof.
  revert acc. induction ds as [|d ds IH]; intro acc; simpl; [reflexivity|]. apply IH.
Qed.

Theorem max_age_is_last_valid_directive cc ds x :
  cc <> [] -> split_all 44 cc [] = ds ++ [x] ->
  cache_control_max_age cc =
  match max_age_of x with Some a => Some a | None => last_max_age ds None end.
Proof.
  intros Hne Hs. unfold cache_control_max_age. destruct cc; [contradiction|].
  rewrite Hs. apply last_max_age_app.
Qed.

(* the repaired reader never honours what the unrepaired one cut short: an oversized reply is
   refused whatever its first 51200 bytes are *)
Theorem oversized_refused now r :
  max_size < N.of_nat (length (r_body r)) -> lookup now r = WkErr.
Proof.
  intro H. unfold lookup, lookup_gen.
  destruct (negb (r_status r =? 200)%Z); [reflexivity|].
  destruct (match parse_i64 (r_content_length r) with
            | Some l => (Z.of_N max_size <? l)%Z | None => false end); [reflexivity|].
  destruct (negb (r_body_read_ok r) && _); [reflexivity|].
  apply N.ltb_lt in H. rewrite H. reflexivity.
Qed.
