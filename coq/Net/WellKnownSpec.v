(* C16 specification side of the well-known acceptance rule: a reply is honoured iff it has
   status 200, is no larger than 50 KiB (neither declared nor actual size) and its body is a
   JSON object naming an m.server; the cache lifetime is max-age (when a valid one is present)
   in preference to Expires, else 0.  Written over the parsed JSON value, without the decoding
   loop of the model. *)
From Verif Require Import Lib.Bytes Json.Ast Json.Parse Net.WellKnown.
Open Scope N_scope.

Definition is_server_key (k : bytes) : bool := bytes_eqb (fold_name k) key_server.
Definition is_expiry_key (k : bytes) : bool :=
  negb (is_server_key k) && bytes_eqb (fold_name k) key_expiry.

Definition is_str (v : json) : bool := match v with JStr _ => true | _ => false end.
Definition is_null (v : json) : bool := match v with JNull => true | _ => false end.
Definition is_i64 (v : json) : bool :=
  match v with
  | JNum raw => match num_int raw with
                | Some z => ((- 2 ^ 63 <=? z) && (z <? 2 ^ 63))%Z
                | None => false
                end
  | _ => false
  end.

(* encoding/json refuses a member of the wrong JSON type for its field; null is skipped *)
Definition member_ok (kv : bytes * json) : bool :=
  if is_server_key (fst kv) then is_str (snd kv) || is_null (snd kv)
  else if is_expiry_key (fst kv) then is_i64 (snd kv) || is_null (snd kv)
  else true.

(* the m.server the body names: the last member with that key (any letter case) that carries
   a string; absent = empty *)
Definition named_server (m : list (bytes * json)) : bytes :=
  match find (fun kv => is_server_key (fst kv) && is_str (snd kv)) (rev m) with
  | Some (_, JStr s) => s
  | _ => []
  end.

Definition names_m_server (body a : bytes) : Prop :=
  exists m, parse_json body = Some (JObj m) /\ forallb member_ok m = true /\
            named_server m = a /\ a <> [].

Definition declared_size_ok (content_length : bytes) : Prop :=
  forall l, parse_i64 content_length = Some l -> (l <= Z.of_N max_size)%Z.

(* lifetime: max-age first, over all Cache-Control field lines read as one list; the sum
   saturates at the largest int64 *)
Definition lifetime (now : Z) (expires : option Z) (cache_control : bytes) (e : Z) : Prop :=
  match cache_control_max_age (join_lines cache_control) with
  | Some age => e = sat_add age now
  | None => match expires with Some x => e = x | None => e = 0%Z end
  end.

Definition honoured (now : Z) (r : wk_reply) (a : bytes) (e : Z) : Prop :=
  r_status r = 200%Z /\ declared_size_ok (r_content_length r) /\ r_body_read_ok r = true /\
  N.of_nat (length (r_body r)) <= max_size /\
  names_m_server (r_body r) a /\
  lifetime now (r_expires r) (r_cache_control r) e.

(* executable form for the oracle op *)
Definition honouredb (now : Z) (r : wk_reply) : option (bytes * Z) :=
  if negb (r_status r =? 200)%Z then None
  else if negb (match parse_i64 (r_content_length r) with
                | Some l => (l <=? Z.of_N max_size)%Z | None => true end) then None
  else if negb (r_body_read_ok r) then None
  else if negb (N.of_nat (length (r_body r)) <=? max_size) then None
  else match parse_json (r_body r) with
       | Some (JObj m) =>
           if forallb member_ok m then
             match named_server m with
             | [] => None
             | a => Some (a, match cache_control_max_age (join_lines (r_cache_control r)) with
                             | Some age => sat_add age now
                             | None => match r_expires r with Some x => x | None => 0%Z end
                             end)
             end
           else None
       | _ => None
       end.
