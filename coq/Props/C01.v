(* C01 — canonical JSON is a value-preserving, unique, idempotent normal form; invalid JSON is
   refused; room versions 6+ refuse non-integer / out-of-range numbers.

   Vocabulary (coq/Json/Render.v): [RendersText v t] — t is a JSON text (RFC 8259 grammar, any
   whitespace, any escape spelling, no lone surrogate escapes) denoting v;  [normalise] — members
   sorted, integer literals by value;  [jequiv v v'] — equal normal forms (= the same value up to
   member order and integer spelling; non-integer literals compared by their text, which is what
   Matrix canonical JSON leaves alone).  [canonical] (Json/Print.v) is the model of CanonicalJSON,
   [enforced] (Json/CanonC01.v) of EnforcedCanonicalJSON; both are compared byte for byte with the
   library on every run. *)
From Coq Require Import Permutation.
From Verif Require Import Lib.Bytes Json.Ast Json.Parse Json.Print Json.Render Json.NumFacts
  Json.ParseComplete Json.CanonFacts Json.CanonC01 Json.CanonSpecC01 Json.C01Proofs Json.CanonFormProofs Json.ParseSound Json.PermFacts Gen.GenC01 Json.DepthC01 Json.DepthProofsC01 Json.DepthExamplesC01 Crash.Outcome Json.CompactModelC01 Json.CompactProofsC01
  Json.CompactValidC01 Gen.GenVersions.
Open Scope N_scope.

(* every presentation of a value is accepted by the reference parser and read as that value *)
Theorem parse_of_any_rendering : forall v t, RendersText v t -> parse_json t = Some v.
Proof. exact parse_complete. Qed.

(* ---- the nesting limit (json.go maxJSONDepth, read from the source: Gen/GenC01.v).
   [nesting_exceeds t limit] is the model of jsonNestingExceeds (a scan over the bytes that does not
   validate); [canonical_json] = that test, then the validity gate and canonicalisation
   ([canonical] of Json/Print.v); [json_depth v] is how deep the value nests.  The premise
   "nesting_exceeds t max_json_depth = false" of the theorems below is, for a JSON text of a value
   v, exactly "json_depth v <= max_json_depth": *)
Theorem nesting_scan_measures_the_value : forall v t, RendersText v t ->
  text_nesting t = json_depth v
  /\ nesting_exceeds t max_json_depth = (max_json_depth <? json_depth v)%Z.
Proof.
  intros v t H. split; [exact (text_nesting_of_rendering v t H) | exact (nesting_of_rendering _ max_depth_nonneg v t H)].
Qed.

(* the same for whatever the parser accepts (lone surrogate escapes included) *)
Theorem nesting_scan_measures_parsed_value : forall t v, parse_json t = Some v -> text_nesting t = json_depth v.
Proof. exact text_nesting_of_parsed. Qed.

Theorem nesting_exceeds_is_a_comparison : forall t limit, (0 <= limit)%Z ->
  nesting_exceeds t limit = (limit <? text_nesting t)%Z.
Proof. exact nesting_exceeds_spec. Qed.

(* the limit and its two call sites, as the source has them *)
Theorem depth_limit_as_in_the_source :
  max_json_depth = spec_max_nesting /\ gen_canonical_json_guards_depth = true /\ gen_enforced_check_guards_depth = true.
Proof. vm_compute. auto. Qed.

Theorem canonical_of_rendering : forall v t,
  RendersText v t -> nesting_exceeds t max_json_depth = false -> canonical_json t = Some (canon_print v).
Proof. exact (cj_within max_json_depth _). Qed.

(* the same, with the bound read on the value *)
Theorem canonical_of_rendering_by_depth : forall v t,
  RendersText v t -> (json_depth v <= max_json_depth)%Z -> canonical_json t = Some (canon_print v).
Proof. exact (cj_shallow max_json_depth max_depth_nonneg _). Qed.

(* deeper documents are refused, JSON or not *)
Theorem canonical_refuses_deep_nesting : forall t, nesting_exceeds t max_json_depth = true -> canonical_json t = None.
Proof. exact (cj_beyond max_json_depth). Qed.

Theorem canonical_refuses_deep_values : forall v t,
  RendersText v t -> (max_json_depth < json_depth v)%Z -> canonical_json t = None.
Proof. exact (cj_deep max_json_depth max_depth_nonneg). Qed.

(* whatever is accepted is what the unguarded canonicalisation gives, and nests within the limit *)
Theorem canonical_json_is_canonical : forall t c, canonical_json t = Some c -> canonical t = Some c.
Proof. exact (cj_some max_json_depth _). Qed.

Theorem canonical_accepts_only_shallow : forall t c, canonical_json t = Some c ->
  exists v, parse_json t = Some v /\ c = canon_print v /\ (json_depth v <= max_json_depth)%Z.
Proof. exact (cj_accepts_shallow max_json_depth max_depth_nonneg). Qed.

(* the output is again a JSON text, of the normal form of v, which is the same value as v, and it
   nests within the limit as well *)
Theorem canonical_preserves_value : forall v t, RendersText v t -> nesting_exceeds t max_json_depth = false ->
  exists c, canonical_json t = Some c /\ RendersText (normalise v) c /\ jequiv (normalise v) v
            /\ parse_json c = Some (normalise v) /\ nesting_exceeds c max_json_depth = false.
Proof. exact (cj_preserves max_json_depth max_depth_nonneg _). Qed.

(* any two texts of the same value are accepted or refused together, and accepted with identical
   bytes (no premise on the depth: equal values nest equally deep) ... *)
Theorem canonical_unique : forall v v' t t',
  RendersText v t -> RendersText v' t' -> jequiv v v' -> canonical_json t = canonical_json t'.
Proof. exact (cj_unique max_json_depth max_depth_nonneg _). Qed.

(* the same with the relation spelled out: [json_perm] (Json/PermFacts.v) = equal up to a permutation
   of the members of every object (keys without duplicates) and the spelling of integers *)
Theorem json_perm_is_equivalence_of_values : forall v v', json_perm v v' -> jequiv v v'.
Proof. exact json_perm_equiv. Qed.

Theorem canonical_unique_up_to_member_order : forall v v' t t',
  RendersText v t -> RendersText v' t' -> json_perm v v' -> canonical_json t = canonical_json t'.
Proof.
  intros v v' t t' H H' P. exact (cj_unique max_json_depth max_depth_nonneg _ v v' t t' H H' (json_perm_equiv v v' P)).
Qed.

(* ... and texts of different values never get the same bytes *)
Theorem canonical_separates : forall v v' t t' c,
  RendersText v t -> RendersText v' t' -> canonical_json t = Some c -> canonical_json t' = Some c -> jequiv v v'.
Proof. exact (cj_separates max_json_depth _). Qed.

(* ---- validity.  [LRendersText] (Json/ParseSound.v) is the same grammar plus lone surrogate
   escapes (grammatical JSON, ill-formed Unicode, read as U+FFFD): the largest set a validator that
   does not look at Unicode well-formedness can accept.  The parser accepts nothing else ... *)
Theorem parse_accepts_only_json : forall t v, parse_json t = Some v -> LRendersText v t.
Proof. exact parse_sound. Qed.

(* ... so a text that is not JSON is refused *)
Theorem canonical_rejects_invalid : forall t, (forall v, ~ LRendersText v t) -> canonical_json t = None.
Proof. intros t H. exact (cj_none max_json_depth _ t (ParseSound.canonical_rejects_invalid t H)). Qed.

Theorem strict_grammar_within_loose : forall v t, RendersText v t -> LRendersText v t.
Proof. exact renders_text_loose. Qed.

(* for every accepted input whatsoever (duplicate keys, lone surrogates included): the output is a
   JSON text of the strict grammar, and canonicalising it again changes nothing *)
Theorem canonical_output_valid : forall t c, canonical_json t = Some c -> exists v, RendersText v c.
Proof. intros t c H. exact (ParseSound.canonical_output_valid t c (cj_some max_json_depth _ t c H)). Qed.

Theorem canonical_idempotent_all : forall t c, canonical_json t = Some c -> canonical_json c = Some c.
Proof. exact (cj_idempotent max_json_depth max_depth_nonneg _). Qed.

Theorem canonical_idempotent : forall v t c,
  RendersText v t -> canonical_json t = Some c -> canonical_json c = Some c.
Proof. intros v t c _. exact (cj_idempotent max_json_depth max_depth_nonneg _ t c). Qed.

(* the output is in the one canonical form: nothing but structure outside strings (no whitespace),
   only the shortest escapes inside strings, object keys strictly increasing in byte (= code point)
   order at every level, no literal -0  (is_canonical_text, Json/CanonSpecC01.v); the domain is
   texts without duplicate keys *)
Theorem canonical_is_canonical_form : forall v t c,
  RendersText v t -> json_nodup v = true -> canonical_json t = Some c -> is_canonical_text c = true.
Proof. exact (cj_form max_json_depth _). Qed.

(* reused by C02, C03, C13 *)
Theorem canon_print_injective : forall v v',
  json_wf v -> json_wf v' -> canon_print v = canon_print v' -> jequiv v v'.
Proof. exact CanonFacts.canon_print_injective. Qed.

Theorem canon_print_respects : forall v v', jequiv v v' -> canon_print v = canon_print v'.
Proof. exact CanonFacts.canon_print_respects. Qed.

(* ---- the enforced variant ([enforced_json]: version lookup, then for enforcing versions the nesting
   test and the number check of verifyEnforcedCanonicalJSON, then CanonicalJSON).
   Room versions whose generated table entry names the enforcing check refuse every text with a
   number that is not an integer literal within +/-(2^53-1) (whatever the depth) *)
Theorem enforced_rejects_non_integers : forall v t ver,
  enforces ver = true -> RendersText v t -> has_unsafe_number v = true -> enforced_json ver t = None.
Proof. exact (ej_rejects max_json_depth _ _). Qed.

(* and accept (with the plain canonical form) every text within the nesting limit all of whose
   numbers are integer literals within the range other than the literal -0 *)
Theorem enforced_accepts_safe_integers : forall v t ver,
  enforces ver = true -> RendersText v t -> has_bad_number v = false ->
  nesting_exceeds t max_json_depth = false ->
  enforced_json ver t = Some (canon_print v).
Proof. exact (ej_within max_json_depth max_depth_nonneg _ _). Qed.

Theorem enforced_refuses_deep_nesting : forall ver t,
  nesting_exceeds t max_json_depth = true -> enforced_json ver t = None.
Proof. exact (ej_beyond max_json_depth). Qed.

Theorem enforced_otherwise_canonical : forall ver t c, enforced_json ver t = Some c -> canonical_json t = Some c.
Proof. exact (ej_some max_json_depth _ _). Qed.

(* the generated canonicalJSONCheck column names the enforcing check exactly for room versions 6+
   (the unstable ones as the source has them); all others name the no-op *)
Theorem enforced_versions_are_v6_plus :
  forall ver, In ver (map fst gen_versions) ->
    enforces ver = mem_bytes ver spec_enforcing_versions
    /\ (enforces ver = false -> canonical_check_of ver = Some fn_noverify /\ mem_bytes ver spec_legacy_versions = true).
Proof.
  intros ver H. vm_compute in H.
  repeat (destruct H as [<- | H]; [vm_compute; split; [reflexivity | intro E; try discriminate E; split; reflexivity] |]).
  contradiction.
Qed.

Theorem enforcing_versions_all_registered :
  forall ver, In ver spec_enforcing_versions -> enforces ver = true.
Proof.
  intros ver H. vm_compute in H.
  repeat (destruct H as [<- | H]; [vm_compute; reflexivity |]). contradiction.
Qed.

(* ---- index safety of CompactJSON (byte-level model Json/CompactModelC01.v, compared with the real
   CompactJSON through recover on valid and invalid inputs; these statements are exported for C18) *)
Theorem compact_no_panic : forall t, json_valid t = true -> compact_model t <> Crash.
Proof. exact CompactValidC01.compact_no_panic. Qed.

Theorem compact_no_panic_on_renderings : forall v t, RendersText v t -> compact_model t <> Crash.
Proof. exact compact_no_panic_renders. Qed.

(* exactly which byte strings crash it: those the scanner compact_safe refuses *)
Theorem compact_crashes_exactly_when_unsafe : forall t, compact_model t = Crash <-> compact_safe t = false.
Proof. exact compact_crash_iff. Qed.

Theorem valid_json_is_compact_safe : forall t, json_valid t = true -> compact_safe t = true.
Proof. exact valid_compact_safe. Qed.

(* readHexDigits: on four hex digits (either case) the bit trick is plain hex decoding *)
Theorem read_hex_digits_is_hex_decoding : forall a b c d cp,
  read_hex4 [a; b; c; d] = Some (cp, []) -> read_hex_digits [a; b; c; d] = cp.
Proof. exact read_hex_digits_spec. Qed.

(* ---------- non-vacuity ---------- *)
Example ex_num_wf : num_wf (bs "-0").
Proof.
  exists [45], [48], [], []. repeat split; try (left; reflexivity). right; reflexivity.
Qed.

(* a text with whitespace, an escaped key character and the literal -0 is a rendering *)
Example ex_renders :
  RendersText (JObj [(bs "a", JNum (bs "-0"))]) (bs " {""\u0061"" : -0}").
Proof.
  change (bs " {""\u0061"" : -0}") with ([32] ++ (123 :: ([] ++ 34 :: [92; 117; 48; 48; 54; 49] ++ 34 :: [32] ++ 58 :: [32] ++ bs "-0" ++ []) ++ [125]) ++ []).
  apply RT; [reflexivity | reflexivity |].
  apply R_obj. apply RM_one; try reflexivity.
  - change (bs "a") with (utf8_encode 97 ++ []). change [92; 117; 48; 48; 54; 49] with ([92; 117; 48; 48; 54; 49] ++ []).
    apply SB_cons; [apply SC_u; reflexivity | apply SB_nil].
  - apply R_num. exact ex_num_wf.
Qed.

Example ex_canonical :
  canonical_json (bs " {""b"" : [1.50, -0, ""é\n\/""], ""a"":{} } ")
  = Some (bs "{""a"":{},""b"":[1.50,0,""" ++ [195; 169] ++ bs "\n/""]}").
Proof. vm_compute. reflexivity. Qed.

Example ex_unique_instance :
  canonical_json (bs "{""a"":1,""b"":-0}") = canonical_json (bs " { ""b"" : 0 , ""a"" : 1 } ").
Proof. vm_compute. reflexivity. Qed.

(* the premise of canonical_rejects_invalid is satisfiable: the empty text is no value's text *)
Example ex_not_json : forall v, ~ LRendersText v [].
Proof.
  intros v H. inversion H as [v0 t0 w1 w2 _ _ Hr E]. subst.
  destruct w1; [|discriminate]. destruct t0; [|discriminate].
  inversion Hr as [| | | l Hwf | | | | |]; subst.
  destruct Hwf as (sg & ip & fp & ep & E1 & _ & Hip & _).
  destruct sg; [|discriminate]. destruct ip; [|discriminate].
  destruct Hip as [Hip | (d & ds & Hip & _)]; discriminate.
Qed.

Example ex_rejects : canonical_json (bs "[1,]") = None /\ canonical_json (bs "{""a"":01}") = None /\ canonical_json [] = None.
Proof. vm_compute. auto. Qed.

Example ex_perm :
  json_perm (JObj [(bs "a", JNum (bs "1")); (bs "b", JNum (bs "-0"))])
            (JObj [(bs "b", JNum (bs "0")); (bs "a", JNum (bs "1"))]).
Proof.
  apply (JP_obj _ [(bs "b", JNum (bs "-0")); (bs "a", JNum (bs "1"))]).
  - repeat constructor; simpl; intuition discriminate.
  - apply perm_swap.
  - repeat constructor.
Qed.

(* the premise of the completeness theorems is satisfiable, and both sides of the boundary:
   arrays nested n+1 deep (n brackets around an empty array) are accepted, unchanged, exactly when
   n + 1 <= maxJSONDepth; the scan ignores brackets inside strings and after a backslash, and is
   fooled by closers that come first (such a text is not JSON and is refused by the validity gate) *)
Example ex_nesting_within : nesting_exceeds (bs " {""\u0061"" : -0}") max_json_depth = false.
Proof. vm_compute. reflexivity. Qed.

Theorem nested_arrays_at_any_depth : forall n,
  canonical_json (nest_arrays n [91; 93]) =
    if (Z.of_nat n + 1 <=? max_json_depth)%Z then Some (nest_arrays n [91; 93]) else None.
Proof. intro n. exact (nested_arrays_boundary max_json_depth n max_depth_nonneg). Qed.

Example ex_boundary_accepted : forall n, Z.of_nat n = 9999%Z ->
  canonical_json (nest_arrays n [91; 93]) = Some (nest_arrays n [91; 93]).
Proof. intros n H. rewrite nested_arrays_at_any_depth, H. reflexivity. Qed.

Example ex_boundary_refused : forall n, Z.of_nat n = 10000%Z -> canonical_json (nest_arrays n [91; 93]) = None.
Proof. intros n H. rewrite nested_arrays_at_any_depth, H. reflexivity. Qed.

(* evaluated directly on the generated texts of 10000 and 10001 levels (Json/DepthExamplesC01.v) *)
Example ex_boundary_by_evaluation :
  nesting_exceeds (nest_arrays (N.to_nat 9999) [91; 93]) max_json_depth = false
  /\ nesting_exceeds (nest_arrays (N.to_nat 10000) [91; 93]) max_json_depth = true
  /\ canonical_json_accepts (nest_arrays (N.to_nat 9999) [91; 93]) = true
  /\ canonical_json_accepts (nest_arrays (N.to_nat 10000) [91; 93]) = false.
Proof. exact boundary_by_evaluation. Qed.

Example ex_scan_details :
  nesting_exceeds (bs "[""[[[[""]") 1 = false /\ nesting_exceeds (bs "[""\""[[""]") 1 = false
  /\ nesting_exceeds (bs "[""\\"",[[]]]") 2 = true /\ nesting_exceeds (bs "]]]][[[[") 0 = false
  /\ nesting_exceeds (bs "[[]]") 2 = false /\ nesting_exceeds (bs "[[],[],[[]]]") 2 = true
  /\ text_nesting (bs "{""a"":[1,{""b"":[]}],""c"":{}}") = 4%Z.
Proof. vm_compute. repeat split; reflexivity. Qed.

Example ex_unsafe : has_unsafe_number (JArr [JNum (bs "1"); JNum (bs "9007199254740992")]) = true
                    /\ has_unsafe_number (JArr [JNum (bs "0.0")]) = true
                    /\ has_unsafe_number (JArr [JNum (bs "-9007199254740991")]) = false.
Proof. vm_compute. auto. Qed.

Example ex_enforced : enforced_json (bs "10") (bs "[1E2]") = None /\ enforced_json (bs "5") (bs "[1E2]") = Some (bs "[1E2]")
                      /\ enforced_json (bs "6") (bs "[-9007199254740991]") = Some (bs "[-9007199254740991]").
Proof. vm_compute. auto. Qed.

Print Assumptions parse_of_any_rendering.
Print Assumptions nesting_scan_measures_the_value.
Print Assumptions nesting_scan_measures_parsed_value.
Print Assumptions nesting_exceeds_is_a_comparison.
Print Assumptions depth_limit_as_in_the_source.
Print Assumptions canonical_of_rendering.
Print Assumptions canonical_of_rendering_by_depth.
Print Assumptions canonical_refuses_deep_nesting.
Print Assumptions canonical_refuses_deep_values.
Print Assumptions canonical_json_is_canonical.
Print Assumptions canonical_accepts_only_shallow.
Print Assumptions canonical_preserves_value.
Print Assumptions canonical_unique.
Print Assumptions json_perm_is_equivalence_of_values.
Print Assumptions canonical_unique_up_to_member_order.
Print Assumptions canonical_separates.
Print Assumptions canonical_idempotent.
Print Assumptions parse_accepts_only_json.
Print Assumptions canonical_rejects_invalid.
Print Assumptions strict_grammar_within_loose.
Print Assumptions canonical_output_valid.
Print Assumptions canonical_idempotent_all.
Print Assumptions canonical_is_canonical_form.
Print Assumptions canon_print_injective.
Print Assumptions canon_print_respects.
Print Assumptions enforced_rejects_non_integers.
Print Assumptions enforced_accepts_safe_integers.
Print Assumptions enforced_refuses_deep_nesting.
Print Assumptions enforced_otherwise_canonical.
Print Assumptions nested_arrays_at_any_depth.
Print Assumptions compact_no_panic.
Print Assumptions compact_no_panic_on_renderings.
Print Assumptions compact_crashes_exactly_when_unsafe.
Print Assumptions valid_json_is_compact_safe.
Print Assumptions read_hex_digits_is_hex_decoding.
Print Assumptions enforced_versions_are_v6_plus.
Print Assumptions enforcing_versions_all_registered.
