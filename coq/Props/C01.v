(* C01 — canonical JSON. Property theorems (statements only; proofs live in Json/*Proofs*.v). *)
From Verif Require Import Lib.Bytes Json.Ast Json.Parse Json.Print Json.CanonC01 Json.CanonSpecC01 Gen.GenVersions.
Open Scope N_scope.

(* the generated canonicalJSONCheck column names the enforcing check exactly for room versions 6+ *)
Theorem enforced_versions_are_v6_plus :
  forall ver, In ver (map fst gen_versions) ->
    enforces ver = mem_bytes ver spec_enforcing_versions
    /\ (enforces ver = false -> canonical_check_of ver = Some fn_noverify /\ mem_bytes ver spec_legacy_versions = true).
Proof.
  intros ver H. vm_compute in H.
  repeat (destruct H as [<- | H]; [vm_compute; split; [reflexivity | intro E; try discriminate E; split; reflexivity] |]).
  contradiction.
Qed.

Print Assumptions enforced_versions_are_v6_plus.
