(* C01 — canonical JSON is a value-preserving, unique, idempotent normal form; invalid JSON is
   refused; room versions 6+ refuse non-integer / out-of-range numbers.

   Vocabulary (coq/Json/Render.v): [RendersText v t] — t is a JSON text (RFC 8259 grammar, any
   whitespace, any escape spelling, no lone surrogate escapes) denoting v;  [normalise] — members
   sorted, integer literals by value;  [jequiv v v'] — equal normal forms (= the same value up to
   member order and integer spelling; non-integer literals compared by their text, which is what
   Matrix canonical JSON leaves alone).  [canonical] (Json/Print.v) is the model of CanonicalJSON,
   [enforced] (Json/CanonC01.v) of EnforcedCanonicalJSON; both are compared byte for byte with the
   library on every run. *)
From Verif Require Import Lib.Bytes Json.Ast Json.Parse Json.Print Json.Render Json.NumFacts
  Json.ParseComplete Json.CanonFacts Json.CanonC01 Json.CanonSpecC01 Json.C01Proofs Json.CanonFormProofs Gen.GenVersions.
Open Scope N_scope.

(* every presentation of a value is accepted by the reference parser and read as that value *)
Theorem parse_of_any_rendering : forall v t, RendersText v t -> parse_json t = Some v.
Proof. exact parse_complete. Qed.

Theorem canonical_of_rendering : forall v t, RendersText v t -> canonical t = Some (canon_print v).
Proof. exact CanonFacts.canonical_of_rendering. Qed.

(* the output is again a JSON text, of the normal form of v, which is the same value as v *)
Theorem canonical_preserves_value : forall v t, RendersText v t ->
  exists c, canonical t = Some c /\ RendersText (normalise v) c /\ jequiv (normalise v) v
            /\ parse_json c = Some (normalise v).
Proof. exact C01Proofs.canonical_preserves_value. Qed.

(* any two texts of the same value canonicalise to identical bytes ... *)
Theorem canonical_unique : forall v v' t t',
  RendersText v t -> RendersText v' t' -> jequiv v v' -> canonical t = canonical t'.
Proof. exact C01Proofs.canonical_unique. Qed.

(* ... and texts of different values never do *)
Theorem canonical_separates : forall v v' t t',
  RendersText v t -> RendersText v' t' -> canonical t = canonical t' -> jequiv v v'.
Proof. exact C01Proofs.canonical_separates. Qed.

Theorem canonical_idempotent : forall v t c,
  RendersText v t -> canonical t = Some c -> canonical c = Some c.
Proof. exact C01Proofs.canonical_idempotent. Qed.

(* the output is in the one canonical form: nothing but structure outside strings (no whitespace),
   only the shortest escapes inside strings, object keys strictly increasing in byte (= code point)
   order at every level, no literal -0  (is_canonical_text, Json/CanonSpecC01.v); the domain is
   texts without duplicate keys *)
Theorem canonical_is_canonical_form : forall v t c,
  RendersText v t -> json_nodup v = true -> canonical t = Some c -> is_canonical_text c = true.
Proof. exact CanonFormProofs.canonical_is_canonical_form. Qed.

(* reused by C02, C03, C13 *)
Theorem canon_print_injective : forall v v',
  json_wf v -> json_wf v' -> canon_print v = canon_print v' -> jequiv v v'.
Proof. exact CanonFacts.canon_print_injective. Qed.

Theorem canon_print_respects : forall v v', jequiv v v' -> canon_print v = canon_print v'.
Proof. exact CanonFacts.canon_print_respects. Qed.

(* room versions whose generated table entry names the enforcing check refuse every text with a
   number that is not an integer literal within +/-(2^53-1) *)
Theorem enforced_rejects_non_integers : forall v t ver,
  enforces ver = true -> RendersText v t -> has_unsafe_number v = true -> enforced ver t = None.
Proof. exact C01Proofs.enforced_rejects. Qed.

Theorem enforced_otherwise_canonical : forall ver t c, enforced ver t = Some c -> canonical t = Some c.
Proof. exact C01Proofs.enforced_otherwise_canonical. Qed.

(* the generated canonicalJSONCheck column names the enforcing check exactly for room versions 6+
   (the unstable ones as the source has them); all others name the no-op *)
Theorem enforced_versions_are_v6_plus :
  forall ver, In ver (map fst gen_versions) ->
    enforces ver = mem_bytes ver spec_enforcing_versions
    /\ (enforces ver = false -> canonical_check_of ver = Some fn_noverify /\ mem_bytes ver spec_legacy_versions = true).
Proof.
  intros ver H. vm_compute in H.
  repeat (destruct H as [<- | H]; [vm_compute; split; [reflexivity | intro E; try discriminate E; split; reflexivity] |]).
  contradiction.
Qed.

Theorem enforcing_versions_all_registered :
  forall ver, In ver spec_enforcing_versions -> enforces ver = true.
Proof.
  intros ver H. vm_compute in H.
  repeat (destruct H as [<- | H]; [vm_compute; reflexivity |]). contradiction.
Qed.

(* ---------- non-vacuity ---------- *)
Example ex_num_wf : num_wf (bs "-0").
Proof.
  exists [45], [48], [], []. repeat split; try (left; reflexivity). right; reflexivity.
Qed.

(* a text with whitespace, an escaped key character and the literal -0 is a rendering *)
Example ex_renders :
  RendersText (JObj [(bs "a", JNum (bs "-0"))]) (bs " {""\u0061"" : -0}").
Proof.
  change (bs " {""\u0061"" : -0}") with ([32] ++ (123 :: ([] ++ 34 :: [92; 117; 48; 48; 54; 49] ++ 34 :: [32] ++ 58 :: [32] ++ bs "-0" ++ []) ++ [125]) ++ []).
  apply RT; [reflexivity | reflexivity |].
  apply R_obj. apply RM_one; try reflexivity.
  - change (bs "a") with (utf8_encode 97 ++ []). change [92; 117; 48; 48; 54; 49] with ([92; 117; 48; 48; 54; 49] ++ []).
    apply SB_cons; [apply SC_u; reflexivity | apply SB_nil].
  - apply R_num. exact ex_num_wf.
Qed.

Example ex_canonical :
  canonical (bs " {""b"" : [1.50, -0, ""é\n\/""], ""a"":{} } ")
  = Some (bs "{""a"":{},""b"":[1.50,0,""" ++ [195; 169] ++ bs "\n/""]}").
Proof. vm_compute. reflexivity. Qed.

Example ex_unique_instance :
  canonical (bs "{""a"":1,""b"":-0}") = canonical (bs " { ""b"" : 0 , ""a"" : 1 } ").
Proof. vm_compute. reflexivity. Qed.

Example ex_unsafe : has_unsafe_number (JArr [JNum (bs "1"); JNum (bs "9007199254740992")]) = true
                    /\ has_unsafe_number (JArr [JNum (bs "0.0")]) = true
                    /\ has_unsafe_number (JArr [JNum (bs "-9007199254740991")]) = false.
Proof. vm_compute. auto. Qed.

Example ex_enforced : enforced (bs "10") (bs "[1E2]") = None /\ enforced (bs "5") (bs "[1E2]") = Some (bs "[1E2]")
                      /\ enforced (bs "6") (bs "[-9007199254740991]") = Some (bs "[-9007199254740991]").
Proof. vm_compute. auto. Qed.

Print Assumptions parse_of_any_rendering.
Print Assumptions canonical_of_rendering.
Print Assumptions canonical_preserves_value.
Print Assumptions canonical_unique.
Print Assumptions canonical_separates.
Print Assumptions canonical_idempotent.
Print Assumptions canonical_is_canonical_form.
Print Assumptions canon_print_injective.
Print Assumptions canon_print_respects.
Print Assumptions enforced_rejects_non_integers.
Print Assumptions enforced_otherwise_canonical.
Print Assumptions enforced_versions_are_v6_plus.
Print Assumptions enforcing_versions_all_registered.
