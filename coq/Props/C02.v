(* C02 - placeholder, replaced below *)
From Verif Require Import Lib.Bytes Sign.Model.
Example C02_placeholder : k_signatures = bs "signatures".
Proof. reflexivity. Qed.
Print Assumptions C02_placeholder.
