(* C02 - JSON signatures: complete for the signer, sound against any tampering.
   Statements only; proofs live in Sign/Proofs.v (and Sign/Base64Facts.v).
   ed25519 enters as the Section parameters pub / sign / verify with the premises of the record
   ideal_sig (Sign/Proofs.v): completeness, symbolic unforgeability, injectivity, sizes.  The
   record is inhabited (Example ideal_sig_inhabited below).  Values are JSON values as parsed by
   the shared reference parser; objects with duplicate keys are outside the domain in which the
   model is tied to the code (see props/C02.json). *)
From Verif Require Import Lib.Bytes Json.Ast Json.Parse Json.Print Json.Render Json.CanonFacts
     Json.ParseSound Fed.Utf8C13 Sign.Base64 Sign.Base64Facts Sign.Model Sign.Proofs Sign.Normal Sign.Instance Sign.IdealInstance.
Open Scope N_scope.

Section C02.
  Context {key : Type} (pub : key -> bytes) (sign : key -> bytes -> bytes)
          (verify : bytes -> bytes -> bytes -> bool) (sig_size_ok pk_size_ok : bytes -> bool)
          (IS : ideal_sig pub sign verify sig_size_ok pk_size_ok).
  Notation sign_value := (sign_value key sign).
  Notation verify_value := (verify_value verify sig_size_ok pk_size_ok).
  Notation sign_all := (sign_all sign).

  (* every object that SignJSON signs verifies under the signer's name, key ID and public key -
     provided no member name other than signatures / unsigned occurs twice in it (no_repeats m;
     implied by distinct member names, nodup_no_repeats).  Without the proviso the statement is
     false of the code and of the model: finding F69, sign_then_verify_refuted_for_repeated_member. *)
  Theorem sign_then_verify : forall name kid k m o,
    no_repeats m ->
    sign_value name kid k (JObj m) = Some o -> verify_value name kid (pub k) o = true.
  Proof. intros. eapply sign_then_verify_value; eauto. Qed.

  Theorem distinct_names_have_no_repeats : forall m, NoDup (map fst m) -> no_repeats m.
  Proof. intros. apply nodup_no_repeats. assumption. Qed.

  (* ... however the signed object is re-serialised: any text t' whose value is equivalent to
     the signed object (same members in any order, integers spelled differently; white space and
     escape spellings are gone after parsing) gets the verdict of the signed object - for every
     name, key ID and key.  jequiv / normalise are C01's definitions (Json/Render.v); the one fact
     used about the canonical printer is C01's theorem CanonFacts.canon_print_normalise:
     canon_print (normalise v) = canon_print v.  No premise is left. *)
  Theorem verdict_invariant_under_reserialisation : forall name kid p o t' v',
    top_no_repeats o -> top_no_repeats v' ->
    parse_json t' = Some v' -> jequiv v' o ->
    verify_json verify sig_size_ok pk_size_ok name kid p t' = verify_value name kid p o.
  Proof.
    intros name kid p o t' v' N N' P E. unfold verify_json. rewrite P.
    apply verify_respects_jequiv; assumption.
  Qed.

  Theorem sign_then_verify_reserialised : forall name kid k m o t' v',
    no_repeats m -> top_no_repeats v' ->
    sign_value name kid k (JObj m) = Some o ->
    parse_json t' = Some v' -> jequiv v' o ->
    verify_json verify sig_size_ok pk_size_ok name kid (pub k) t' = true.
  Proof.
    intros name kid k m o t' v' N N' S P E.
    rewrite (verdict_invariant_under_reserialisation name kid (pub k) o t' v'); try assumption.
    - eapply sign_then_verify_value; eauto.
    - eapply signed_top_no_repeats; eauto.
  Qed.

  (* the text-level functions: SignJSON refuses a text that is not UTF-8 (repair F70), else
     parses, signs the value and prints canonically, so that with the two theorems above every
     text equivalent to the value of its output verifies *)
  Theorem sign_json_text : forall name kid k t st,
    sign_json key sign name kid k t = Some st <->
    utf8_valid t = true /\
    exists v o, parse_json t = Some v /\ sign_value name kid k v = Some o /\ st = canon_print o.
  Proof. intros. apply sign_json_unfold. Qed.

  (* SignJSON refuses an object only when its signatures member is not a signature map *)
  Theorem sign_succeeds_iff_signatures_readable : forall name kid k m,
    sign_value name kid k (JObj m) = None <-> sigs_of m = None.
  Proof. intros. apply sign_none_iff. Qed.

  (* ... still after any list of further signers with other (name, key ID) pairs has signed,
     each of which succeeds *)
  Theorem sign_then_verify_after_more_signers : forall name kid k m o more,
    no_repeats m ->
    sign_value name kid k (JObj m) = Some o ->
    Forall (fun s : signer => (fst (fst s), snd (fst s)) <> (name, kid)) more ->
    exists o', sign_all more o = Some o' /\ verify_value name kid (pub k) o' = true.
  Proof. intros. eapply more_signers_verify; eauto. Qed.

  (* ... and after unsigned is set to anything, or removed; more generally whenever the
     signatures member and the members other than signatures / unsigned are what they were *)
  Theorem sign_then_verify_after_unsigned_change : forall name kid k m m1,
    no_repeats m ->
    sign_value name kid k (JObj m) = Some (JObj m1) ->
    (forall u, verify_value name kid (pub k) (jset k_unsigned u (JObj m1)) = true) /\
    verify_value name kid (pub k) (jdel k_unsigned (JObj m1)) = true /\
    (forall m2, assoc_last k_signatures m2 = assoc_last k_signatures m1 ->
                strip_members m2 = strip_members m1 ->
                verify_value name kid (pub k) (JObj m2) = true).
  Proof. intros. eapply unsigned_change_verify; eauto. Qed.

  (* signing keeps the signed members, unsigned and every earlier signature exactly, and adds
     the signer's own signature over the canonical form of the signed members *)
  Theorem sign_preserves_signatures_and_unsigned : forall name kid k m o,
    sign_value name kid k (JObj m) = Some o ->
    exists m' sm,
      o = JObj m' /\
      strip_members m' = strip_members m /\
      assoc_last k_unsigned m' = assoc_last k_unsigned m /\
      sigs_of m = Some sm /\
      sig_at name kid o = Some (sign k (canon_print (JObj (strip_members m)))) /\
      forall name' kid', (name', kid') <> (name, kid) -> sig_at name' kid' o = lookup_sig name' kid' sm.
  Proof. intros. eapply sign_preserves; eauto. Qed.

  (* soundness, identity: under another public key the signed object is refused; under another
     name or key ID the verdict is what it was before signing (refused when no such signature
     was there) *)
  Theorem verify_sound_wrong_identity : forall name kid k m o,
    sign_value name kid k (JObj m) = Some o ->
    (forall p, p <> pub k -> verify_value name kid p o = false) /\
    (forall name' kid' p, (name', kid') <> (name, kid) ->
       verify_value name' kid' p o = verify_value name' kid' p (JObj m)) /\
    (forall name' kid' p, (name', kid') <> (name, kid) -> sig_at name' kid' (JObj m) = None ->
       verify_value name' kid' p o = false).
  Proof. intros. eapply wrong_identity; eauto. Qed.

  (* soundness, in general: whatever VerifyJSON accepts carries, under that name and key ID, a
     signature made with the secret key of the presented public key over the canonical form of
     the members other than signatures and unsigned - of the LAST member of each name
     (verified_part): VerifyJSON reads the text into a Go map, finding F69 *)
  Theorem verify_accepts_only_genuine_signatures : forall name kid p v,
    verify_value name kid p v = true ->
    exists k s, sig_at name kid v = Some s /\ p = pub k /\ s = sign k (canon_print (verified_part v)).
  Proof. intros. eapply verify_accepts_only_genuine; eauto. Qed.

  (* soundness, tampering: the signature SignJSON made for one object is refused on every value
     whose members other than signatures / unsigned have another canonical form ... *)
  Theorem verify_sound_tamper_canonical : forall name kid k m o v' p,
    sign_value name kid k (JObj m) = Some o ->
    sig_at name kid v' = sig_at name kid o ->
    canon_print (verified_part v') <> canon_print (strip (JObj m)) ->
    verify_value name kid p v' = false.
  Proof. intros. eapply tamper_canonical; eauto. Qed.

  (* ... hence on every value without a repeated member name that differs from the signed
     object in any member other than signatures and unsigned (value change, insertion, deletion, nested edit: the stripped values
     are not equivalent).  Equivalence of JSON values (jequiv), well-formedness (json_wf: every
     number literal is grammatical - true of every parsed value, ParseSound.parse_wf) and the
     injectivity of the canonical printer up to equivalence are C01's
     (CanonFacts.canon_print_injective); no premise is left. *)
  Theorem verify_sound_tamper : forall name kid k m o v' p,
    top_no_repeats v' ->
    sign_value name kid k (JObj m) = Some o ->
    sig_at name kid v' = sig_at name kid o ->
    json_wf (strip v') -> json_wf (strip (JObj m)) ->
    ~ jequiv (strip v') (strip (JObj m)) ->
    verify_value name kid p v' = false.
  Proof.
    intros name kid k m o v' p NR S A W W' N.
    eapply verify_sound_tamper_canonical; eauto.
    rewrite (verified_part_no_repeats v' NR). eauto using canon_print_injective.
  Qed.

  (* ... spelled out for single members: if some member other than signatures / unsigned is
     bound to an inequivalent value (value change, nested edit), or is present on one side only
     (insertion, deletion), the old signature is refused *)
  Theorem verify_sound_member_change : forall name kid k m o m' p mkey,
    no_repeats m' ->
    sign_value name kid k (JObj m) = Some o ->
    sig_at name kid (JObj m') = sig_at name kid o ->
    json_wf (strip (JObj m')) -> json_wf (strip (JObj m)) ->
    is_meta mkey = false -> member_differs mkey m' m ->
    verify_value name kid p (JObj m') = false.
  Proof.
    intros name kid k m o m' p mkey NR S A W W' M D.
    apply (verify_sound_tamper name kid k m o (JObj m') p NR S A W W').
    apply (member_differs_not_jequiv mkey); assumption.
  Qed.

  (* ... and on texts: the well-formedness side conditions hold of everything the parser
     returns, so for parsed objects they disappear *)
  Theorem verify_sound_member_change_parsed : forall name kid k t t' m o m' p mkey,
    parse_json t = Some (JObj m) -> parse_json t' = Some (JObj m') -> no_repeats m' ->
    sign_value name kid k (JObj m) = Some o ->
    sig_at name kid (JObj m') = sig_at name kid o ->
    is_meta mkey = false -> member_differs mkey m' m ->
    verify_json verify sig_size_ok pk_size_ok name kid p t' = false.
  Proof.
    intros name kid k t t' m o m' p mkey P P' NR S A M D. unfold verify_json. rewrite P'.
    apply (verify_sound_member_change name kid k m o m' p mkey NR S A); try assumption.
    - apply strip_wf. exact (parse_wf _ _ P').
    - apply strip_wf. exact (parse_wf _ _ P).
  Qed.

  (* ListKeyIDs returns exactly the member names of signatures.<name>, and every key ID under
     which VerifyJSON can accept is among them *)
  Theorem list_key_ids_spec : forall name m,
    (forall ks, list_key_ids_value name (JObj m) = Some ks -> ks = key_ids_of name m) /\
    (forall kid p, verify_value name kid p (JObj m) = true ->
       exists ks, list_key_ids_value name (JObj m) = Some ks /\ In kid ks).
  Proof.
    intros name m. split.
    - intros ks H. apply list_key_ids_lists_the_members. exact H.
    - intros kid p V. eapply verified_key_id_is_listed. exact V.
  Qed.
End C02.

(* ---- non-vacuity ------------------------------------------------------------------------ *)

(* the premises are satisfiable *)
Example ideal_sig_inhabited : ideal_sig clamp32 u_sign u_verify u_sig_ok u_pk_ok.
Proof. exact unary_scheme_is_ideal. Qed.

(* a concrete run with the scheme the extracted model uses: sign, re-serialise (other member
   order, white space, the key signatures spelled with an escape), verify; tamper, refuse *)
Definition ex_key : bytes := bs "seed-0001-xxxxxxxxxxxxxxxxxxxxxx".
Definition ex_text : bytes := bs "{""type"":""m.x"",""content"":{""body"":""hi""},""unsigned"":{""age"":1}}".
Definition ex_signed : option bytes := s_sign_json (bs "example.org") (bs "ed25519:1") ex_key ex_text.

Example concrete_sign_verify :
  match ex_signed with
  | Some st =>
      s_verify_json (bs "example.org") (bs "ed25519:1") ex_key st = true /\
      s_verify_json (bs "example.org") (bs "ed25519:2") ex_key st = false /\
      s_verify_json (bs "other.org") (bs "ed25519:1") ex_key st = false /\
      s_verify_json (bs "example.org") (bs "ed25519:1") (bs "seed-0002-xxxxxxxxxxxxxxxxxxxxxx") st = false /\
      list_key_ids (bs "example.org") st = Some [bs "ed25519:1"]
  | None => False
  end.
Proof. vm_compute. repeat split; reflexivity. Qed.

Example concrete_reserialised_and_tampered :
  match ex_signed with
  | Some st =>
      match parse_json st with
      | Some (JObj m) =>
          match assoc_last k_signatures m with
          | Some sg =>
              let sgt := canon_print sg in
              (* members reordered, spaces, escaped spelling of the key *)
              let t1 := bs "{ """ ++ [92] ++ bs "u0073ignatures"" : " ++ sgt
                        ++ bs " , ""content"":{""body"":""hi""}, ""type"" :""m.x"" }" in
              (* one nested value changed *)
              let t2 := bs "{""signatures"":" ++ sgt ++ bs ",""content"":{""body"":""ho""},""type"":""m.x""}" in
              (* a member added *)
              let t3 := bs "{""signatures"":" ++ sgt ++ bs ",""content"":{""body"":""hi""},""type"":""m.x"",""x"":null}" in
              (* only unsigned changed *)
              let t4 := bs "{""signatures"":" ++ sgt ++ bs ",""content"":{""body"":""hi""},""type"":""m.x"",""unsigned"":[]}" in
              s_verify_json (bs "example.org") (bs "ed25519:1") ex_key t1 = true /\
              s_verify_json (bs "example.org") (bs "ed25519:1") ex_key t2 = false /\
              s_verify_json (bs "example.org") (bs "ed25519:1") ex_key t3 = false /\
              s_verify_json (bs "example.org") (bs "ed25519:1") ex_key t4 = true
          | None => False
          end
      | _ => False
      end
  | None => False
  end.
Proof. vm_compute. repeat split; reflexivity. Qed.

(* F69, both directions, on the model (which follows the code): a member inserted IN FRONT of a
   signed member of the same name is not noticed, and an object with a repeated member name is
   signed by SignJSON but refused by VerifyJSON.  Hence the no_repeats provisos above. *)
Example verify_sound_tamper_refuted_for_repeated_member :
  match s_sign_json (bs "example.org") (bs "ed25519:1") ex_key
          (bs "{""content"":{""body"":""pay 100""},""sender"":""@alice:example.org""}") with
  | Some st =>
      match parse_json st with
      | Some (JObj m) =>
          match assoc_last k_signatures m with
          | Some sg =>
              let t' := bs "{""content"":{""body"":""pay 999""},""content"":{""body"":""pay 100""},"
                        ++ bs """sender"":""@alice:example.org"",""signatures"":" ++ canon_print sg ++ bs "}" in
              match parse_json t' with
              | Some v' =>
                  sig_at (bs "example.org") (bs "ed25519:1") v' = sig_at (bs "example.org") (bs "ed25519:1") (JObj m) /\
                  canon_print (strip v') <> canon_print (strip (JObj m)) /\
                  s_verify_json (bs "example.org") (bs "ed25519:1") ex_key t' = true
              | None => False
              end
          | None => False
          end
      | _ => False
      end
  | None => False
  end.
Proof. vm_compute. repeat split; try reflexivity. discriminate. Qed.

Example sign_then_verify_refuted_for_repeated_member :
  exists t,
    match s_sign_json (bs "example.org") (bs "ed25519:1") ex_key t with
    | Some st => s_verify_json (bs "example.org") (bs "ed25519:1") ex_key st = false
    | None => False
    end.
Proof. exists (bs "{""a"":1,""a"":2}"). vm_compute. reflexivity. Qed.

(* equivalence is not trivial: member order and integer spelling are ignored, values are not *)
Example jequiv_concrete :
  match parse_json (bs "{""a"":1,""b"":[-0,{""y"":2,""x"":3}]}"),
        parse_json (bs " { ""b"" : [0, {""x"":3, ""y"":2}], ""a"":1 }"),
        parse_json (bs "{""a"":1,""b"":[0,{""y"":3,""x"":2}]}") with
  | Some v1, Some v2, Some v3 => jequiv v1 v2 /\ ~ jequiv v1 v3
  | _, _, _ => False
  end.
Proof. vm_compute. split; [reflexivity|discriminate]. Qed.

Print Assumptions sign_then_verify.
Print Assumptions distinct_names_have_no_repeats.
Print Assumptions verdict_invariant_under_reserialisation.
Print Assumptions sign_then_verify_reserialised.
Print Assumptions sign_json_text.
Print Assumptions sign_succeeds_iff_signatures_readable.
Print Assumptions sign_then_verify_after_more_signers.
Print Assumptions sign_then_verify_after_unsigned_change.
Print Assumptions sign_preserves_signatures_and_unsigned.
Print Assumptions verify_sound_wrong_identity.
Print Assumptions verify_accepts_only_genuine_signatures.
Print Assumptions verify_sound_tamper_canonical.
Print Assumptions verify_sound_tamper.
Print Assumptions verify_sound_member_change.
Print Assumptions verify_sound_member_change_parsed.
Print Assumptions list_key_ids_spec.
Print Assumptions ideal_sig_inhabited.
