(* C03 -- events round-trip; identity is a function of the redacted content.
   Statements only; proofs live in Event/ProofsC03.v. *)
From Verif Require Import Lib.Bytes Json.Ast Event.ModelC03 Gen.GenVersions.
Open Scope N_scope.

(* placeholder while the model is being tied to the code *)
Theorem C03_b64_alphabet_sizes : b64_char false 62 = 43 /\ b64_char true 62 = 45.
Proof. split; reflexivity. Qed.

Print Assumptions C03_b64_alphabet_sizes.
