(* C03 -- Events round-trip; their identity is a function of the redacted content.
   Statements only; the proofs are in Event/B64FactsC03.v, Event/RedactFactsC03.v,
   Event/ProofsC03.v, Event/BuildMembersC03.v, Event/ProofsBuildC03.v, Event/ProofsIdC03.v,
   Event/ProofsInjC03.v.

   H is the hash (SHA-256 in the library) and sgn the signing function: Section variables, any
   functions.  Where a claim needs something of H it is a stated premise:
     digest_shape H  (32-byte digests: only for the alphabet / room-ID claims),
     hash_bytes H    (digests are byte strings: for the content-hash check and injectivity),
     H injective     (collision-freeness: only for different events => different IDs).
   No theorem assumes both digest_shape and injectivity (together they are unsatisfiable);
   the Examples at the end show each premise set inhabited and Build succeeding on concrete input.

   An event is the parsed JSON value of the bytes the library keeps (model: Event/ModelC03.v).
   The step through the bytes -- parse_json (canon_print j) = Some (normalise j) -- is C01's
   parse_canon_print; the correspondence runs every re-parse through the real bytes. *)
From Verif Require Import Lib.Bytes Json.Ast Json.Print Json.Render Json.CanonFacts Gen.GenVersions Gen.GenStrip.
From Verif Require Import Event.Redact Event.RedactProofs.
From Verif Require Import Event.ModelC03 Event.B64FactsC03 Event.RedactFactsC03 Event.ProofsC03
  Event.BuildMembersC03 Event.ProofsBuildC03 Event.ProofsIdC03 Event.ProofsInjC03.
Open Scope N_scope.

(* ---------- the generated room-version table, as far as this property reads it ---------- *)
(* per registered version: event format (1 = reference pairs, 2 = plain IDs), event ID format
   (1 = random, 2 = standard base64, 3 = URL-safe base64), struct class of the three parse
   functions (1 eventV1, 2 eventV2, 3 eventV3), domainless room IDs *)
Definition version_row (v : bytes) := (event_format v, id_format v, class_trusted v, domainless v).

Theorem C03_version_table :
  map fst gen_versions =
    [bs "1"; bs "10"; bs "11"; bs "12"; bs "2"; bs "3"; bs "4"; bs "5"; bs "6"; bs "7"; bs "8"; bs "9";
     bs "org.matrix.hydra.11"; bs "org.matrix.msc3667"; bs "org.matrix.msc3787"; bs "org.matrix.msc4014"] /\
  map version_row (map fst gen_versions) =
    [(1, 1, 1, false); (2, 3, 2, false); (2, 3, 2, false); (2, 3, 3, true); (1, 1, 1, false);
     (2, 2, 2, false); (2, 3, 2, false); (2, 3, 2, false); (2, 3, 2, false); (2, 3, 2, false);
     (2, 3, 2, false); (2, 3, 2, false); (2, 3, 3, true); (2, 3, 2, false); (2, 3, 2, false);
     (2, 3, 2, false)] /\
  forallb (fun v => (class_untrusted v =? class_trusted v) && (class_with_id v =? class_trusted v))
          (map fst gen_versions) = true.
Proof. repeat split; vm_compute; reflexivity. Qed.

(* the keys the model's untrusted parse strips, and the keys left out of the content hash, are
   the delete-loops of the source (regenerated on every run) *)
Theorem C03_strip_lists_match_source :
  assoc_first (bs "newEventFromUntrustedJSONV1") gen_strip_lists = Some [strip_keys 1] /\
  assoc_first (bs "newEventFromUntrustedJSONV2") gen_strip_lists = Some [strip_keys 2] /\
  assoc_first (bs "newEventFromUntrustedJSONV3") gen_strip_lists = Some [strip_keys 3] /\
  assoc_first (bs "checkEventContentHash") gen_strip_lists = Some [[k_signatures; k_unsigned; k_hashes]].
Proof. repeat split; vm_compute; reflexivity. Qed.

Section C03.
  Variable H : bytes -> bytes.
  Variable sgn : bytes -> bytes -> bytes -> bytes.
  Notation build := (build H sgn).
  Notation event_id := (event_id H).
  Notation room_id := (room_id H).

  (* ================= 1. Build, then re-parse ================= *)

  (* the accessors of a built event are the proto-event's fields (depth and timestamp within the
     range of their Go types; prev/auth for the plain-ID formats, where an untyped nil and an
     empty list are the same references) *)
  Theorem build_fields : forall ver p eid ts origin keyid e,
    build ver p eid ts origin keyid = BOk e true ->
    f_type e = p_type p /\ f_sender e = p_sender p /\ f_room e = p_room p /\ f_skey e = p_skey p /\
    f_redacts e = p_redacts p /\ f_content e = Some (p_content p) /\
    (int64_ok (p_depth p) = true -> f_depth e = p_depth p) /\
    (uint64_ok ts = true -> f_ts e = ts) /\
    (class_trusted ver <> 1 -> f_prev_raw e = ids_of (p_prev p) /\ f_auth_raw e = ids_of (p_auth p)) /\
    e_redacted e = false /\ check_fields e = true.
  Proof.
    intros ver p eid ts origin keyid e Hb. pose proof (build_built H sgn _ _ _ _ _ _ _ Hb) as B.
    destruct (built_fields H _ _ _ _ _ _ B) as (F1 & F2 & F3 & F4 & F5 & F6 & F7 & F8 & F9 & _).
    repeat split; auto; try (apply F9; assumption).
    - exact (b_red _ _ _ _ _ _ _ B).
    - exact (b_check _ _ _ _ _ _ _ B).
  Qed.

  (* as trusted input: the very same event *)
  Theorem build_reparse_trusted : forall ver p eid ts origin keyid e,
    build ver p eid ts origin keyid = BOk e true ->
    parse_trusted ver (e_json e) false = Some e.
  Proof. exact (reparse_trusted H sgn). Qed.

  (* through the headered form: the same event with its ID filled in; same ID, type, sender,
     room, state key, content, depth, timestamp, prev/auth references; not redacted; passes
     its field checks *)
  Theorem build_reparse_headered : forall ver p eid ts origin keyid e,
    build ver p eid ts origin keyid = BOk e true ->
    exists e', parse_headered (to_headered H e) false = Some e' /\
               e_json e' = e_json e /\ same_fields H e e' /\ e_redacted e' = false /\ check_fields e' = true.
  Proof.
    intros ver p eid ts origin keyid e Hb. exists (cache_id H e).
    split; [exact (reparse_headered H sgn _ _ _ _ _ _ _ Hb)|].
    destruct (same_fields_cache H e) as (S & C & J & R).
    pose proof (build_built H sgn _ _ _ _ _ _ _ Hb) as B.
    split; [exact J|]. split; [exact S|]. split.
    - rewrite R. exact (b_red _ _ _ _ _ _ _ B).
    - rewrite C. exact (b_check _ _ _ _ _ _ _ B).
  Qed.

  (* as untrusted input: the content hash matches, so the event is accepted unredacted, with
     the unsigned member stripped and every other accessor unchanged; it passes its field checks *)
  Theorem build_reparse_untrusted : forall ver p eid ts origin keyid e,
    hash_bytes H ->
    build ver p eid ts origin keyid = BOk e true ->
    exists e', parse_untrusted H ver (e_json e) = POk e' true /\
               e_json e' = jdel k_unsigned (e_json e) /\ e_redacted e' = false /\ same_fields H e e'.
  Proof. intros ver p eid ts origin keyid e HB Hb. exact (reparse_untrusted H sgn _ _ _ _ _ _ _ HB Hb). Qed.

  (* ================= 2. what the event ID depends on ================= *)
  (* for EVERY event value j and every version: the ID computed by referenceOfEvent ... *)

  (* ... ignores the unsigned member (set or removed) *)
  Theorem event_id_ignores_unsigned : forall ver u j,
    reference_id H ver (jset k_unsigned u j) = reference_id H ver j /\
    reference_id H ver (jdel k_unsigned j) = reference_id H ver j.
  Proof. intros. split; [apply reference_id_ignores_unsigned|apply reference_id_ignores_unsigned_del]. Qed.

  (* ... ignores the signatures member *)
  Theorem event_id_ignores_signatures : forall ver s j,
    reference_id H ver (jset k_signatures s j) = reference_id H ver j.
  Proof. intros. apply reference_id_ignores_signatures. Qed.

  (* ... ignores a signature added by signEvent *)
  Theorem event_id_ignores_added_signature : forall ver name keyid j j',
    sign_json sgn ver name keyid j = Some j' -> reference_id H ver j' = reference_id H ver j.
  Proof. intros. eapply reference_id_ignores_added_signature. eassumption. Qed.

  (* ... and is the ID of the redacted event (from C05: redaction is idempotent) *)
  Theorem event_id_ignores_redaction : forall ver j r,
    redact ver j = Some r -> reference_id H ver r = reference_id H ver j.
  Proof. intros. apply reference_id_ignores_redaction. assumption. Qed.

  (* the same through the PDU methods, which carry a cached ID along *)
  Theorem event_id_after_edits : forall e,
    (forall u e', set_unsigned u e = Some e' -> event_id e' = event_id e) /\
    (forall k v, event_id (set_unsigned_field k v e) = event_id e) /\
    (forall name keyid e', sign sgn name keyid e = Some e' -> event_id e' = event_id e) /\
    (forall e', e_class e <> 1 -> cache_sound H e -> redact_ev e = Some e' -> event_id e' = event_id e).
  Proof.
    intro e. split; [|split; [|split]].
    - intros u e'. apply event_id_set_unsigned_opt.
    - intros k v. apply event_id_set_unsigned_field.
    - intros name keyid e'. apply event_id_sign.
    - intros e'. apply event_id_redact.
  Qed.

  (* F65: in the hash-derived formats no parser and no Redact() takes an ID from the JSON, whatever
     its members are called: an event accepted as untrusted input (intact or through the
     hash-failure path), parsed as trusted input without a supplied ID, or rebuilt by Redact()
     has an empty EventIDRaw, so EventID() is the reference ID of its JSON -- a function of the
     redacted event (event_id_ignores_redaction) *)
  Theorem accepted_event_id_is_reference_id : forall ver j e ok,
    known_version ver = true -> class_trusted ver <> 1 ->
    parse_untrusted H ver j = POk e ok ->
    e_idraw e = [] /\
    event_id e = match reference_id H (e_ver e) (e_json e) with Some i => i | None => PANIC end.
  Proof.
    intros ver j e ok Hk Hc Hp.
    destruct (shape_facts ver Hk) as (Hun & _).
    assert (Hraw : e_idraw e = []).
    { unfold parse_untrusted in Hp. rewrite Hun in Hp.
      assert (Hm : forall j' r, e_idraw (mk_parsed ver (class_trusted ver) j' r None) = []).
      { intros. unfold mk_parsed, json_event_id. simpl. apply N.eqb_neq in Hc. rewrite Hc. reflexivity. }
      destruct ((class_trusted ver =? 0) || has_underscore_key j || negb (canonical_check_ok ver j)); [discriminate|].
      match type of Hp with context [decodes _ ?J1] => set (j1 := J1) in * end.
      destruct (negb (decodes (class_trusted ver) j1) || negb (room_check (class_trusted ver) j1) || negb (redactable ver j1)); [discriminate|].
      destruct (content_hash_ok H j1).
      - inversion Hp. apply Hm.
      - destruct (redact ver j1) as [r|]; [|discriminate].
        destruct (bytes_eqb (canon_print r) (canon_print j1)).
        + inversion Hp. apply Hm.
        + destruct (parse_trusted ver r true) as [e0|] eqn:Et; [|discriminate]. inversion Hp; subst e0.
          exact (parsed_event_has_no_json_id (class_trusted ver) ver r true e Hc Et). }
    split; [exact Hraw|]. unfold ModelC03.event_id. rewrite Hraw.
    destruct (e_class e =? 1) eqn:E1; [|reflexivity].
    (* class 1 cannot come out of a parser of another class: the ID is then EventIDRaw = [] as well *)
    exfalso. apply N.eqb_eq in E1.
    unfold parse_untrusted in Hp. rewrite Hun in Hp.
    destruct ((class_trusted ver =? 0) || has_underscore_key j || negb (canonical_check_ok ver j)); [discriminate|].
    match type of Hp with context [decodes _ ?J1] => set (j1 := J1) in * end.
    destruct (negb (decodes (class_trusted ver) j1) || negb (room_check (class_trusted ver) j1) || negb (redactable ver j1)); [discriminate|].
    destruct (content_hash_ok H j1).
    - inversion Hp; subst e. simpl in E1. contradiction.
    - destruct (redact ver j1) as [r|]; [|discriminate].
      destruct (bytes_eqb (canon_print r) (canon_print j1)).
      + inversion Hp; subst e. simpl in E1. contradiction.
      + destruct (parse_trusted ver r true) as [e0|] eqn:Et; [|discriminate]. inversion Hp; subst e0.
        destruct (parse_trusted_as_inv _ _ _ _ _ _ Et) as (_ & _ & _ & Ee). subst e. simpl in E1. contradiction.
  Qed.

  Theorem trusted_and_redacted_events_have_no_json_id :
    (forall ver j red e, class_trusted ver <> 1 -> parse_trusted ver j red = Some e -> e_idraw e = []) /\
    (forall e e', e_class e <> 1 -> e_redacted e = false -> redact_ev e = Some e' -> e_idraw e' = []).
  Proof.
    split.
    - intros ver j red e Hc Hp. exact (parsed_event_has_no_json_id (class_trusted ver) ver j red e Hc Hp).
    - exact redacted_event_has_no_json_id.
  Qed.

  (* the lazily cached EventIDRaw is invisible *)
  Theorem cache_is_transparent : forall e, event_id (cache_id H e) = event_id e.
  Proof. exact (cache_transparent H). Qed.

  (* ================= 3. alphabet ================= *)
  (* a built event of a hash-derived format: sigil, then 43 characters of the alphabet the
     generated eventIDFormat of the version names (2: A-Za-z0-9+/, 3: A-Za-z0-9-_) *)
  Theorem event_id_alphabet : forall ver p eid ts origin keyid e,
    digest_shape H -> build ver p eid ts origin keyid = BOk e true -> class_trusted ver <> 1 ->
    (id_format ver = 2 \/ id_format ver = 3) /\
    exists r, event_id e = 36 :: r /\ length r = 43%nat /\
              Forall (fun c => (if id_format ver =? 3 then is_b64url_char else is_b64std_char) c = true) r.
  Proof.
    intros ver p eid ts origin keyid e Hd Hb Hc. pose proof (build_built H sgn _ _ _ _ _ _ _ Hb) as B.
    split.
    - destruct (shape_facts ver (b_known _ _ _ _ _ _ _ B)) as (_ & _ & _ & _ & Hc2 & _). apply Hc2. exact Hc.
    - exact (built_event_id_alphabet H _ _ _ _ _ _ Hd B Hc).
  Qed.

  (* ================= 4. room version 12 ================= *)
  (* a create event's room ID is its event ID with the sigil swapped *)
  Theorem v12_create_room_id : forall ver p eid ts origin keyid e,
    digest_shape H -> build ver p eid ts origin keyid = BOk e true -> domainless ver = true ->
    p_type p = create_type -> p_skey p = Some [] ->
    exists d, event_id e = 36 :: d /\ room_id e = 33 :: d.
  Proof.
    intros ver p eid ts origin keyid e Hd Hb Hdl Hty Hsk.
    exact (built_v12_create H ver p eid ts origin e Hd (build_built H sgn _ _ _ _ _ _ _ Hb) Hdl Hty Hsk).
  Qed.

  (* every other event reports the create event (its room ID with the sigil swapped back) as
     its first auth event *)
  Theorem v12_first_auth_is_create : forall ver p eid ts origin keyid e,
    build ver p eid ts origin keyid = BOk e true -> domainless ver = true ->
    (p_type p <> create_type \/ p_skey p <> Some []) ->
    exists l, auth_ids e = Some ((36 :: tl (p_room p)) :: l).
  Proof.
    intros ver p eid ts origin keyid e Hb Hdl Hn.
    exact (built_v12_first_auth H ver p eid ts origin e (build_built H sgn _ _ _ _ _ _ _ Hb) Hdl Hn).
  Qed.

  (* ... and after it exactly the explicit auth list, also when that list names the create event
     itself, at any position (nothing is merged or moved) *)
  Theorem v12_auth_is_create_then_listed : forall ver p eid ts origin keyid e l,
    build ver p eid ts origin keyid = BOk e true -> domainless ver = true ->
    (p_type p <> create_type \/ p_skey p <> Some []) -> ids_of (p_auth p) = Some l ->
    auth_ids e = Some ((36 :: tl (p_room p)) :: l).
  Proof.
    intros ver p eid ts origin keyid e l Hb Hdl Hn Hl.
    exact (built_v12_auth_exact H ver p eid ts origin e l (build_built H sgn _ _ _ _ _ _ _ Hb) Hdl Hn Hl).
  Qed.

  (* both survive SetUnsigned, SetUnsignedField and Sign (defect F4 of the unrepaired code: the
     methods handed back an eventV2): class, room ID and auth events of the result are the event's *)
  Theorem v12_survives_edits : forall e,
    (forall u, e_class (set_unsigned_raw u e) = e_class e /\ room_id (set_unsigned_raw u e) = room_id e
               /\ auth_ids (set_unsigned_raw u e) = auth_ids e) /\
    (forall k v, e_class (set_unsigned_field k v e) = e_class e /\ room_id (set_unsigned_field k v e) = room_id e
                 /\ auth_ids (set_unsigned_field k v e) = auth_ids e) /\
    (forall name keyid e', sign sgn name keyid e = Some e' ->
       e_class e' = e_class e /\ room_id e' = room_id e /\ auth_ids e' = auth_ids e).
  Proof. exact (edits_keep_room_and_auth H sgn). Qed.

  (* ================= 5. different events get different IDs ================= *)
  (* the hashed object (the marshalled struct without signatures, unsigned, hashes) determines
     every field of the proto-event and the timestamp and origin handed to Build *)
  Theorem hashed_object_fixes_every_field : forall ver p1 eid1 ts1 o1 p2 eid2 ts2 o2,
    event_format ver = 2 ->
    jequiv (content_hash_json (JObj (build_members ver p1 eid1 ts1 o1)))
           (content_hash_json (JObj (build_members ver p2 eid2 ts2 o2))) ->
    p_sender p1 = p_sender p2 /\ p_type p1 = p_type p2 /\ p_room p1 = p_room p2 /\
    p_skey p1 = p_skey p2 /\ p_redacts p1 = p_redacts p2 /\ p_depth p1 = p_depth p2 /\
    ts1 = ts2 /\ o1 = o2 /\ jequiv (p_content p1) (p_content p2) /\
    ids_of (p_prev p1) = ids_of (p_prev p2) /\ ids_of (p_auth p1) = ids_of (p_auth p2).
  Proof. exact hashed_object_determines_fields. Qed.

  (* With a collision-free H, two built events (formats 2 and 3, i.e. room versions 3 and later)
     with the same ID were built from proto-events that agree in every field other than unsigned
     and signatures, with the same timestamp and origin.  Contents are objects whose number
     literals are grammatical (proto_wf; likewise the optional signatures and unsigned values).
     Uses C05's redact_members_exact (the reference object keeps the hashes member) and C01's
     canon_print_injective. *)
  Definition same_event (p1 : proto) (ts1 : Z) (o1 : bytes) (p2 : proto) (ts2 : Z) (o2 : bytes) : Prop :=
    p_sender p1 = p_sender p2 /\ p_type p1 = p_type p2 /\ p_room p1 = p_room p2 /\
    p_skey p1 = p_skey p2 /\ p_redacts p1 = p_redacts p2 /\ p_depth p1 = p_depth p2 /\
    ts1 = ts2 /\ o1 = o2 /\ jequiv (p_content p1) (p_content p2) /\
    ids_of (p_prev p1) = ids_of (p_prev p2) /\ ids_of (p_auth p1) = ids_of (p_auth p2).

  Theorem event_id_injective : forall ver p1 eid1 ts1 o1 k1 e1 c1 p2 eid2 ts2 o2 k2 e2 c2,
    (forall x y, H x = H y -> x = y) -> hash_bytes H ->
    build ver p1 eid1 ts1 o1 k1 = BOk e1 true -> build ver p2 eid2 ts2 o2 k2 = BOk e2 true ->
    class_trusted ver <> 1 ->
    p_content p1 = JObj c1 -> p_content p2 = JObj c2 -> proto_wf p1 -> proto_wf p2 ->
    event_id e1 = event_id e2 -> same_event p1 ts1 o1 p2 ts2 o2.
  Proof.
    intros ver p1 eid1 ts1 o1 k1 e1 c1 p2 eid2 ts2 o2 k2 e2 c2 Hinj HB Hb1 Hb2 Hc C1 C2 W1 W2 E.
    exact (built_event_id_injective H ver p1 eid1 ts1 o1 e1 c1 p2 eid2 ts2 o2 e2 c2 Hinj HB
             (build_built H sgn _ _ _ _ _ _ _ Hb1) (build_built H sgn _ _ _ _ _ _ _ Hb2) Hc C1 C2 W1 W2 E).
  Qed.

  (* the same, read the other way: a difference in any field gives a different ID *)
  Theorem different_events_different_ids : forall ver p1 eid1 ts1 o1 k1 e1 c1 p2 eid2 ts2 o2 k2 e2 c2,
    (forall x y, H x = H y -> x = y) -> hash_bytes H ->
    build ver p1 eid1 ts1 o1 k1 = BOk e1 true -> build ver p2 eid2 ts2 o2 k2 = BOk e2 true ->
    class_trusted ver <> 1 ->
    p_content p1 = JObj c1 -> p_content p2 = JObj c2 -> proto_wf p1 -> proto_wf p2 ->
    ~ same_event p1 ts1 o1 p2 ts2 o2 -> event_id e1 <> event_id e2.
  Proof.
    intros ver p1 eid1 ts1 o1 k1 e1 c1 p2 eid2 ts2 o2 k2 e2 c2 Hinj HB Hb1 Hb2 Hc C1 C2 W1 W2 Hn E.
    apply Hn. eapply event_id_injective; eassumption.
  Qed.
End C03.

(* ================= non-vacuity ================= *)
(* a 32-byte constant "hash": digest_shape and hash_bytes hold *)
Definition H_const (x : bytes) : bytes := repeat 0 32.
Definition S_const (n k m : bytes) : bytes := repeat 1 64.

Example digest_premises_inhabited : digest_shape H_const /\ hash_bytes H_const.
Proof.
  split; intro x; [reflexivity|]. unfold H_const. apply Forall_forall. intros b Hb.
  apply repeat_spec in Hb. subst. reflexivity.
Qed.

(* an injective byte-valued "hash" (a prefix-free code: a value below 255 as itself, a larger one
   as 255, that many ones less 255, and a zero): collision-freeness and hash_bytes hold together,
   and digests of byte strings are short enough for Build to succeed (last Example) *)
Definition enc_n (n : N) : bytes := if n <? 255 then [n] else 255 :: repeat 1 (N.to_nat (n - 255)) ++ [0].
Definition H_inj (x : bytes) : bytes := flat_map enc_n x.

Lemma ones_inj : forall n n' (r r' : bytes),
  repeat 1 n ++ 0 :: r = repeat 1 n' ++ 0 :: r' -> n = n' /\ r = r'.
Proof.
  induction n as [|n IH]; intros [|n'] r r' E; simpl in E; try discriminate.
  - inversion E. auto.
  - inversion E as [E']. destruct (IH n' r r' E') as [A B]. subst. auto.
Qed.

Lemma enc_n_inj : forall a r a' r', enc_n a ++ r = enc_n a' ++ r' -> a = a' /\ r = r'.
Proof.
  intros a r a' r' E. unfold enc_n in E.
  destruct (N.ltb_spec a 255) as [Ha|Ha], (N.ltb_spec a' 255) as [Ha'|Ha']; simpl in E.
  - inversion E. auto.
  - inversion E. lia.
  - inversion E. lia.
  - inversion E as [E']. rewrite <- !app_assoc in E'. simpl in E'. apply ones_inj in E' as [A B].
    split; [lia|exact B].
Qed.

Lemma enc_n_bytes a : Forall is_byte (enc_n a).
Proof.
  unfold enc_n. destruct (N.ltb_spec a 255) as [Ha|Ha].
  - repeat constructor. unfold is_byte. lia.
  - constructor; [reflexivity|]. apply Forall_app. split; [|repeat constructor].
    apply Forall_forall. intros b Hb. apply repeat_spec in Hb. subst. reflexivity.
Qed.

Example injective_premises_inhabited : (forall x y, H_inj x = H_inj y -> x = y) /\ hash_bytes H_inj.
Proof.
  split.
  - induction x as [|a x IH]; intros [|b y] E; simpl in E; try reflexivity.
    + unfold enc_n in E. destruct (b <? 255); discriminate.
    + unfold enc_n in E. destruct (a <? 255); discriminate.
    + apply enc_n_inj in E as [A B]. subst. f_equal. apply IH. exact B.
  - intro x. unfold H_inj. induction x as [|a x IH]; simpl; [constructor|].
    apply Forall_app. split; [apply enc_n_bytes|exact IH].
Qed.

(* Build succeeds on a concrete message event (room version 10) and on a concrete room version 12
   create event, whose room ID is its event ID with the sigil swapped *)
Definition ex_proto : proto :=
  mkProto (bs "@alice:example.org") (bs "!r:example.org") (bs "m.room.message") None
          (Ids [bs "$abc"]) IdsNil [] 5%Z None (JObj [(bs "body", JStr (bs "hi"))])
          (Some (JObj [(bs "age", JNum (bs "1"))])).
Definition ex_create : proto :=
  mkProto (bs "@alice:example.org") [] (bs "m.room.create") (Some []) IdsNil IdsNil [] 1%Z None
          (JObj [(bs "room_version", JStr (bs "12"))]) None.

Example build_succeeds :
  (exists e, build H_const S_const (bs "10") ex_proto [] 1000%Z (bs "example.org") (bs "ed25519:1") = BOk e true) /\
  (exists e, build H_const S_const (bs "12") ex_create [] 1000%Z (bs "example.org") (bs "ed25519:1") = BOk e true /\
             room_id H_const e = 33 :: tl (event_id H_const e) /\ auth_ids e = Some []).
Proof.
  split.
  - eexists. vm_compute. reflexivity.
  - eexists. split; [vm_compute; reflexivity|]. split; vm_compute; reflexivity.
Qed.

(* under the injective hash: two concrete builds that differ in the depth only have different IDs *)
Definition ex_proto' : proto :=
  mkProto (bs "@alice:example.org") (bs "!r:example.org") (bs "m.room.message") None
          (Ids [bs "$abc"]) IdsNil [] 6%Z None (JObj [(bs "body", JStr (bs "hi"))])
          (Some (JObj [(bs "age", JNum (bs "1"))])).

Example injective_instance :
  exists e1 e2,
    build H_inj S_const (bs "10") ex_proto [] 1000%Z (bs "example.org") (bs "ed25519:1") = BOk e1 true /\
    build H_inj S_const (bs "10") ex_proto' [] 1000%Z (bs "example.org") (bs "ed25519:1") = BOk e2 true /\
    bytes_eqb (event_id H_inj e1) (event_id H_inj e2) = false.
Proof. do 2 eexists. split; [vm_compute; reflexivity|]. split; vm_compute; reflexivity. Qed.

Print Assumptions C03_version_table.
Print Assumptions C03_strip_lists_match_source.
Print Assumptions build_fields.
Print Assumptions build_reparse_trusted.
Print Assumptions build_reparse_headered.
Print Assumptions build_reparse_untrusted.
Print Assumptions event_id_ignores_unsigned.
Print Assumptions event_id_ignores_signatures.
Print Assumptions event_id_ignores_added_signature.
Print Assumptions event_id_ignores_redaction.
Print Assumptions event_id_after_edits.
Print Assumptions accepted_event_id_is_reference_id.
Print Assumptions trusted_and_redacted_events_have_no_json_id.
Print Assumptions cache_is_transparent.
Print Assumptions event_id_alphabet.
Print Assumptions v12_create_room_id.
Print Assumptions v12_first_auth_is_create.
Print Assumptions v12_auth_is_create_then_listed.
Print Assumptions v12_survives_edits.
Print Assumptions hashed_object_fixes_every_field.
Print Assumptions event_id_injective.
Print Assumptions different_events_different_ids.
