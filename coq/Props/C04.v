(* C04 -- placeholder, theorems follow *)
From Verif Require Import Lib.Bytes Json.Ast Event.Redact Event.Untrusted.
Theorem hash_match_yields_intact : forall ver j fl e,
  parse_untrusted ver j true = UOk fl e -> fl = false /\ e = strip ver j.
Proof.
  intros ver j fl e. unfold parse_untrusted, strip.
  destruct (parser_of_version ver) as [[p fn]|]; [|discriminate].
  destruct (has_underscore_key j); [discriminate|].
  destruct (negb (parse_checks p (strip_with (strip_keys fn) j))); [discriminate|].
  destruct (check_fields ver p (strip_with (strip_keys fn) j)); [|discriminate].
  intro H. inversion H. auto.
Qed.
Print Assumptions hash_match_yields_intact.
