(* C04 -- Untrusted events whose content hash fails surface only their redacted form.
   Only statements here; proofs in Event/UntrustedProofs.v and Event/RedactProofs.v.
   The hash function and the base64 decoder are Section variables (any functions). *)
From Verif Require Import Lib.Bytes Json.Ast Json.Print.
From Verif Require Import Event.Redact Event.RedactSpec Event.RedactTables Event.RedactProofs.
From Verif Require Import Event.Untrusted Event.UntrustedProofs Gen.GenStrip.
Open Scope N_scope.

(* the lists of deleted keys are the source's (regenerated every run): what is discarded on
   receipt per parser, and what checkEventContentHash leaves out of the hash *)
Theorem strip_lists_match_spec :
  strip_keys (bs "newEventFromUntrustedJSONV1") = keys ["outlier"; "destinations"; "age_ts"; "unsigned"]%string /\
  strip_keys (bs "newEventFromUntrustedJSONV2") = keys ["outlier"; "destinations"; "age_ts"; "unsigned"; "event_id"]%string /\
  strip_keys (bs "newEventFromUntrustedJSONV3") = keys ["outlier"; "destinations"; "age_ts"; "unsigned"; "event_id"]%string /\
  hash_strip_keys = keys ["signatures"; "unsigned"; "hashes"]%string /\
  (* versions 1 and 2 keep event_id (it is the event ID), every other version discards it *)
  forallb (fun ver => match parser_of_version ver with
                      | Some (PV1, _) => bytes_eqb ver (bs "1") || bytes_eqb ver (bs "2")
                      | Some (PV2, _) => negb (bytes_eqb ver (bs "1") || bytes_eqb ver (bs "2"))
                      | Some (PV3, _) => bytes_eqb ver (bs "12") || bytes_eqb ver (bs "org.matrix.hydra.11")
                      | None => false
                      end) versions = true.
Proof. vm_compute. repeat split; reflexivity. Qed.

Section Hash.
  Variable H : bytes -> bytes.
  Variable D : bytes -> option bytes.

  (* checkEventContentHash on the stripped, canonical event *)
  Definition content_hash_ok (s : json) : bool :=
    match jpath [bs "hashes"; bs "sha256"] s with
    | Some (JStr h) =>
        match D h with
        | Some want => bytes_eqb (H (canon_print (hashed_json s))) want
        | None => false
        end
    | _ => false
    end.

  Definition parse (ver : bytes) (j : json) : uresult :=
    parse_untrusted ver j (content_hash_ok (strip ver j)).

  (* a failed hash: the event comes back flagged as redacted, it IS the redaction of what was
     received (minus the keys discarded on receipt), every top-level key is one the version's
     algorithm keeps, and every content key is listed for the event's type *)
  Theorem hash_mismatch_yields_redacted : forall ver j fl e,
    content_hash_ok (strip ver j) = false -> parse ver j = UOk fl e ->
    fl = true /\ redact ver (strip ver j) = Some e /\
    exists a out ty cj, algo_of_version ver = Some a /\ e = JObj out /\
      (forall k, In k (keys_of out) -> In k (top_keep a)) /\
      assoc_first type_key out = Some (JStr ty) /\
      assoc_first content_key out = Some cj /\
      (cj = JNull \/ exists c, cj = JObj c /\ forall k, In k (keys_of c) -> listed a ty k).
  Proof. intros ver j fl e Hh. unfold parse. rewrite Hh. apply mismatch_yields_redacted. Qed.

  (* a matching hash: not flagged, every field intact (only the discarded keys are gone) *)
  Theorem hash_match_yields_intact : forall ver j fl e,
    content_hash_ok (strip ver j) = true -> parse ver j = UOk fl e ->
    fl = false /\ e = strip ver j.
  Proof. intros ver j fl e Hh. unfold parse. rewrite Hh. apply match_yields_intact. Qed.

  (* altering only keys that are discarded on receipt changes nothing at all *)
  Theorem tamper_stripped_only : forall ver j j',
    strip ver j' = strip ver j -> has_underscore_key j' = has_underscore_key j ->
    parse ver j' = parse ver j.
  Proof.
    intros ver j j' Hs Hu. unfold parse. rewrite Hs. unfold parse_untrusted, parse_untrusted_full.
    unfold strip in Hs. destruct (parser_of_version ver) as [[p fn]|]; [|reflexivity].
    rewrite Hu, Hs. reflexivity.
  Qed.

  Theorem stripped_keys_are_discarded : forall ver p fn k v m,
    parser_of_version ver = Some (p, fn) -> In k (strip_keys fn) ->
    strip ver (JObj (assoc_set k v m)) = strip ver (JObj m).
  Proof. intros ver p fn k v m Hp Hk. unfold strip. rewrite Hp. apply strip_set_stripped_key. exact Hk. Qed.

  (* altering only redactable material: the received event m' and the original m (both after
     the discarded keys are gone) agree on every kept top-level key other than content and on
     the kept part of the content.  Then they have the same redaction; so when the hash of m'
     fails, the redacted event that comes back has the original's event ID preimage and the
     original's signed object -- same event ID, same signature verdicts. *)
  Theorem tamper_redactable_only : forall ver a m m',
    algo_of_version ver = Some a ->
    exact_keys a m -> exact_keys a m' -> type_ok m -> content_ok m -> content_ok m' ->
    (forall k, In k (top_keep a) -> k <> content_key -> assoc_first k m' = assoc_first k m) ->
    kept_content a (decoded_type m) (decoded_content m') = kept_content a (decoded_type m) (decoded_content m) ->
    redact ver (JObj m') = redact ver (JObj m) /\
    forall j' fl e', strip ver j' = JObj m' -> content_hash_ok (JObj m') = false -> parse ver j' = UOk fl e' ->
      fl = true /\
      reference_json ver e' = reference_json ver (JObj m) /\
      signed_json ver e' = signed_json ver (JObj m).
  Proof.
    intros ver a m m' Ha Hex Hex' Hty Hco Hco' Htop Hkept.
    pose proof (protected_only ver a m m' Ha Hex Hex' Hty Hco Hco' Htop Hkept) as E.
    split; [exact E|]. intros j' fl e' Hs Hh Hp.
    unfold parse in Hp. rewrite Hs, Hh in Hp.
    destruct (mismatch_yields_redacted ver j' fl e' Hp) as (Hfl & Hr & _).
    split; [exact Hfl|]. rewrite Hs in Hr.
    apply (same_redaction_same_identity ver (JObj m) (JObj m') e' E Hr).
  Qed.
End Hash.

(* the comparison the model makes (and the correspondence exercises): the value of
   hashes.sha256, decoded by Base64Bytes.Decode, must be the hash byte for byte -- a longer value
   that merely starts with the hash does not match *)
Theorem hash_match_is_exact : forall real s,
  hash_matches real s = true ->
  real = [] \/
  exists h, jpath [bs "hashes"; bs "sha256"] s = Some (JStr h) /\
            Ident.Base64.base64bytes_decode h = Some real.
Proof.
  intros real s. unfold hash_matches.
  destruct (jpath [bs "hashes"; bs "sha256"] s) as [[| | |h| |]|];
    try (intro H; left; destruct real; [reflexivity|discriminate]).
  destruct (Ident.Base64.base64bytes_decode h) as [d|] eqn:E; [|discriminate].
  intro H. apply bytes_eqb_eq in H. subst. right. exists h. auto.
Qed.

Example over_long_hash_does_not_match :
  let ev (h : string) := JObj [(bs "hashes", JObj [(bs "sha256", JStr (bs h))])] in
  hash_matches [1; 2; 3] (ev "AQID"%string) = true /\
  hash_matches [1; 2; 3] (ev "AQIDBA"%string) = false /\      (* the same three bytes and one more *)
  hash_matches [1; 2; 3] (ev "AQI"%string) = false /\         (* one character short *)
  hash_matches [1; 2; 3] (ev "AQID="%string) = false.         (* padding is not accepted *)
Proof. vm_compute. repeat split; reflexivity. Qed.

(* ---------- non-vacuity: a concrete v10 event, an altered display name, an altered membership ---------- *)
Definition ev (display membership : string) : json :=
  JObj [ (bs "auth_events", JArr [JStr (bs "$a")]); (bs "prev_events", JArr [JStr (bs "$p")]);
         (bs "type", JStr (bs "m.room.member")); (bs "sender", JStr (bs "@alice:a"));
         (bs "room_id", JStr (bs "!r:a")); (bs "state_key", JStr (bs "@alice:a"));
         (bs "depth", JNum (bs "3")); (bs "origin_server_ts", JNum (bs "1700000000000"));
         (bs "hashes", JObj [(bs "sha256", JStr (bs "aGFzaA"))]);
         (bs "unsigned", JObj [(bs "age", JNum (bs "1"))]);
         (bs "content", JObj [(bs "membership", JStr (bs membership)); (bs "displayname", JStr (bs display))]) ].

Example mismatch_example :
  exists e, parse_untrusted (bs "10") (ev "Alice" "join") false = UOk true e /\
            jget (bs "content") e = Some (JObj [(bs "membership", JStr (bs "join"))]) /\
            jget (bs "unsigned") e = None.
Proof. eexists. vm_compute. repeat split; reflexivity. Qed.

Example match_example :
  exists e, parse_untrusted (bs "10") (ev "Alice" "join") true = UOk false e /\
            jget (bs "unsigned") e = None /\
            jget (bs "content") e = jget (bs "content") (ev "Alice" "join").
Proof. eexists. vm_compute. repeat split; reflexivity. Qed.

Example redactable_tamper_example :
  redact (bs "10") (strip (bs "10") (ev "Mallory" "join")) = redact (bs "10") (strip (bs "10") (ev "Alice" "join")) /\
  redact (bs "10") (strip (bs "10") (ev "Alice" "leave")) <> redact (bs "10") (strip (bs "10") (ev "Alice" "join")).
Proof. split; vm_compute; [reflexivity|discriminate]. Qed.

Print Assumptions strip_lists_match_spec.
Print Assumptions hash_mismatch_yields_redacted.
Print Assumptions hash_match_yields_intact.
Print Assumptions tamper_stripped_only.
Print Assumptions stripped_keys_are_discarded.
Print Assumptions tamper_redactable_only.
Print Assumptions hash_match_is_exact.
