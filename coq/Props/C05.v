(* C05 -- Redaction follows the room version's algorithm, is idempotent, keeps signatures.
   Only statements here; the proofs live in Event/RedactTables.v and Event/RedactProofs.v. *)
From Verif Require Import Lib.Bytes Json.Ast Json.Print.
From Verif Require Import Event.Redact Event.RedactSpec Event.RedactTables.
Open Scope N_scope.

(* ---------- tables: generated from the Go source on every run vs the specification ---------- *)

(* the keep-lists (top-level struct fields, per-type content keys, keep-all entries) of the five
   redaction functions are the specification's lists for v1-5, v6-7, v8, v9-10, v11+, with ONE
   stated exception: the specification's m.room.member rule for v11+ also keeps the signed key
   of third_party_invite (DESIGN F17) *)
Theorem keep_lists_match_spec : forall n : spec_name,
  exists a, algo_of_fn (code_fn n) = Some a /\
            algo_matches_spec a (without_tpi_signed (spec_of n)) = true.
Proof.
  intro n. pose proof keep_lists_match_spec_b as H.
  destruct n; vm_compute in H |- *; eexists; split; reflexivity.
Qed.

(* without the exception the v11 list differs, and here is an event on which it shows *)
Definition tpi_event : list (bytes * json) :=
  [ (bs "type", JStr (bs "m.room.member"));
    (bs "content", JObj [ (bs "membership", JStr (bs "invite"));
                          (bs "third_party_invite",
                           JObj [ (bs "display_name", JStr (bs "bob"));
                                  (bs "signed", JObj [ (bs "mxid", JStr (bs "@bob:b")) ]) ]) ]) ].

Theorem keep_lists_match_spec_refuted :
  (exists a, algo_of_fn (code_fn SV11) = Some a /\ algo_matches_spec a (spec_of SV11) = false) /\
  exists ver sp r, spec_of_version ver = Some sp /\ redact ver (JObj tpi_event) = Some r /\
                   canon_print r <> canon_print (JObj (spec_redact sp tpi_event)).
Proof.
  split.
  - vm_compute. eexists; split; reflexivity.
  - exists (bs "11"). vm_compute. do 2 eexists. repeat split. discriminate.
Qed.

(* the 16 registered versions are wired to the algorithm the specification names for them *)
Theorem version_to_algorithm_matches_spec :
  (forall ver n, In (ver, n) version_redaction -> redact_fn_of_version ver = Some (code_fn n)) /\
  same_set versions (map fst version_redaction) = true /\ length versions = 16%nat.
Proof.
  destruct version_column_b as (H1 & H2 & H3). repeat split; auto.
  intros ver n Hin. rewrite forallb_forall in H1. specialize (H1 _ Hin).
  unfold check_version in H1. simpl in H1.
  destruct (redact_fn_of_version ver); [|discriminate].
  apply bytes_eqb_eq in H1. subst. reflexivity.
Qed.

(* every version's algorithm has the struct shape the model covers *)
Theorem every_version_has_modelled_algorithm : forall ver a,
  algo_of_version ver = Some a -> algo_ok a = true.
Proof. exact algo_of_version_ok. Qed.

Print Assumptions keep_lists_match_spec.
Print Assumptions keep_lists_match_spec_refuted.
Print Assumptions version_to_algorithm_matches_spec.
Print Assumptions every_version_has_modelled_algorithm.
