(* C05 -- Redaction follows the room version's algorithm, is idempotent, keeps signatures.
   Only statements here; the proofs live in Event/RedactTables.v and Event/RedactProofs.v. *)
From Verif Require Import Lib.Bytes Json.Ast Json.Print.
From Verif Require Import Event.Redact Event.RedactSpec Event.RedactTables Event.RedactProofs.
Open Scope N_scope.

(* ---------- tables: generated from the Go source on every run vs the specification ---------- *)

(* the keep-lists (top-level struct fields, per-type content keys, keep-all entries) of the five
   redaction functions are the specification's lists for v1-5, v6-7, v8, v9-10, v11+, with ONE
   stated exception: the specification's m.room.member rule for v11+ also keeps the signed key
   of third_party_invite (DESIGN F17) *)
Theorem keep_lists_match_spec : forall n : spec_name,
  exists a, algo_of_fn (code_fn n) = Some a /\
            algo_matches_spec a (without_tpi_signed (spec_of n)) = true.
Proof.
  intro n. pose proof keep_lists_match_spec_b as H.
  destruct n; vm_compute in H |- *; eexists; split; reflexivity.
Qed.

(* without the exception the v11 list differs, and here is an event on which it shows *)
Definition tpi_event : list (bytes * json) :=
  [ (bs "type", JStr (bs "m.room.member"));
    (bs "content", JObj [ (bs "membership", JStr (bs "invite"));
                          (bs "third_party_invite",
                           JObj [ (bs "display_name", JStr (bs "bob"));
                                  (bs "signed", JObj [ (bs "mxid", JStr (bs "@bob:b")) ]) ]) ]) ].

Theorem keep_lists_match_spec_refuted :
  (exists a, algo_of_fn (code_fn SV11) = Some a /\ algo_matches_spec a (spec_of SV11) = false) /\
  exists ver sp r, spec_of_version ver = Some sp /\ redact ver (JObj tpi_event) = Some r /\
                   canon_print r <> canon_print (JObj (spec_redact sp tpi_event)).
Proof.
  split.
  - vm_compute. eexists; split; reflexivity.
  - exists (bs "11"). vm_compute. do 2 eexists. repeat split. discriminate.
Qed.

(* the 16 registered versions are wired to the algorithm the specification names for them *)
Theorem version_to_algorithm_matches_spec :
  (forall ver n, In (ver, n) version_redaction -> redact_fn_of_version ver = Some (code_fn n)) /\
  same_set versions (map fst version_redaction) = true /\ length versions = 16%nat.
Proof.
  destruct version_column_b as (H1 & H2 & H3). repeat split; auto.
  intros ver n Hin. rewrite forallb_forall in H1. specialize (H1 _ Hin).
  unfold check_version in H1. simpl in H1.
  destruct (redact_fn_of_version ver); [|discriminate].
  apply bytes_eqb_eq in H1. subst. reflexivity.
Qed.

(* every version's algorithm has the struct shape the model covers *)
Theorem every_version_has_modelled_algorithm : forall ver a,
  algo_of_version ver = Some a -> algo_ok a = true.
Proof. exact algo_of_version_ok. Qed.

(* ---------- the function, for all events and all 16 versions ---------- *)

(* Events: unique top-level keys none of which is a case variant of a kept key ([exact_keys]: a
   key that selects a struct field at all is that field's exact name), a string type of valid
   UTF-8, an object content of plain values (unique keys, valid UTF-8; [plain_value] also asks
   for numbers that are integers within +-(2^53-1): the premise under which the model, which
   keeps number literals as they are, is the code -- float64 round trip).
   Then redaction succeeds and
   - the output's keys are exactly the input's keys that the version's struct lists,
   - each of them other than content has its input value,
   - content has exactly the input's content members whose key the version lists for the
     event's type (all members for a keep-all entry, none for an unlisted type), values unchanged. *)
Theorem redact_keeps_exactly : forall ver a m ty c,
  algo_of_version ver = Some a -> exact_keys a m ->
  assoc_first type_key m = Some (JStr ty) -> utf8_sanitize ty = ty ->
  assoc_first content_key m = Some (JObj c) -> plain_value (JObj c) = true ->
  exists out, redact ver (JObj m) = Some (JObj out) /\
    NoDup (keys_of out) /\
    (forall k, In k (keys_of out) <-> In k (keys_of m) /\ In k (top_keep a)) /\
    (forall k, In k (top_keep a) -> k <> content_key -> assoc_first k out = assoc_first k m) /\
    assoc_first content_key out = Some (JObj (kept_plain a ty c)) /\
    (forall k v, In (k, v) (kept_plain a ty c) <->
                 In (k, v) c /\ match assoc_first ty (a_content a) with
                                | Some [] => True
                                | Some ks => In k ks
                                | None => False
                                end).
Proof.
  intros ver a m ty c Ha Hex Hty Hv Hco Hpl.
  destruct (redact_keeps_exactly_v ver a m ty c Ha Hex Hty Hv Hco Hpl) as (out & H1 & H2 & H3 & H4 & H5).
  exists out. split; [exact H1|]. split; [exact H2|]. split; [exact H3|]. split; [exact H4|].
  split; [exact H5|]. intros k v. apply kept_plain_members.
Qed.

(* the same without asking for type and content to be present or plain: what is decoded
   (type: a string, or the empty string when absent or null; content: the object read through
   interface{}, or a nil map when absent or null), and the additions of the encoder: type and
   content are always emitted, a nil map that a keep-all entry passes on is printed as null *)
Theorem redact_exact_events : forall a m,
  algo_ok a = true -> exact_keys a m -> type_ok m -> content_ok m ->
  exists out, redact_members a m = Some (JObj out) /\
    NoDup (keys_of out) /\
    (forall k, In k (keys_of out) -> In k (map fname (a_fields a))) /\
    (forall f, In f (a_fields a) -> fkind_of f = FRaw -> assoc_first (fname f) out = assoc_first (fname f) m) /\
    assoc_first type_key out = Some (JStr (decoded_type m)) /\
    assoc_first content_key out = Some (content_json (kept_content a (decoded_type m) (decoded_content m))).
Proof. exact redact_members_exact. Qed.

(* redacting twice is redacting once -- for EVERY input the library accepts (no premise) *)
Theorem redact_idempotent : forall ver j r, redact ver j = Some r -> redact ver r = Some r.
Proof. exact RedactProofs.redact_idempotent. Qed.

(* type, sender, room, state key -- and signatures, hashes, origin_server_ts, event_id (the v1/v2
   event ID) -- are the input's, in every version *)
Theorem redact_preserves_identity_fields : forall ver a m ty c out k,
  algo_of_version ver = Some a -> exact_keys a m ->
  assoc_first type_key m = Some (JStr ty) -> utf8_sanitize ty = ty ->
  assoc_first content_key m = Some (JObj c) -> plain_value (JObj c) = true ->
  redact ver (JObj m) = Some (JObj out) ->
  In k (identity_keys ++ signature_keys) ->
  assoc_first k out = assoc_first k m.
Proof. exact redact_identity. Qed.

Section Crypto.
  (* the reference hash and the base64 that turns it into a v3+ event ID: any functions *)
  Variable H : bytes -> bytes.
  Variable enc : bytes -> bytes.
  (* referenceOfEvent: redact, drop signatures and unsigned, canonical JSON, hash *)
  Definition event_id_v3 (ver : bytes) (j : json) : option bytes :=
    option_map (fun x => 36 :: enc (H (canon_print x))) (reference_json ver j).

  (* v3+: the event ID of the redacted event is the event ID of the event *)
  Theorem redact_preserves_event_id : forall ver j r,
    redact ver j = Some r -> event_id_v3 ver r = event_id_v3 ver j.
  Proof. intros ver j r Hr. unfold event_id_v3. rewrite (reference_of_redacted ver j r Hr). reflexivity. Qed.

  (* VerifyEventSignatures hands RedactEventJSON(e.JSON()) to the verifier; whatever the verifier
     computes from that message (signature lookup, canonical bytes, ed25519) it computes the
     same on the redacted event: every signature that verified still verifies *)
  Variable V : json -> bool.
  Definition verified (ver : bytes) (j : json) : bool :=
    match redact ver j with Some x => V x | None => false end.

  Theorem redact_preserves_signatures : forall ver j r,
    redact ver j = Some r -> verified ver r = verified ver j.
  Proof.
    intros ver j r Hr. unfold verified. rewrite (RedactProofs.redact_idempotent ver j r Hr), Hr. reflexivity.
  Qed.

  (* the signed object itself (what VerifyJSON canonicalises after dropping signatures and unsigned) *)
  Theorem redact_preserves_signed_bytes : forall ver j r,
    redact ver j = Some r ->
    option_map canon_print (signed_json ver r) = option_map canon_print (signed_json ver j).
  Proof. intros ver j r Hr. unfold signed_json. rewrite (reference_of_redacted ver j r Hr). reflexivity. Qed.
End Crypto.

(* ---------- non-vacuity ---------- *)
Definition sample_event : list (bytes * json) :=
  [ (bs "type", JStr (bs "m.room.member"));
    (bs "sender", JStr (bs "@alice:a"));
    (bs "room_id", JStr (bs "!r:a"));
    (bs "state_key", JStr (bs "@alice:a"));
    (bs "unsigned", JObj [(bs "age", JNum (bs "5"))]);
    (bs "signatures", JObj [(bs "a", JObj [(bs "ed25519:k", JStr (bs "c2ln"))])]);
    (bs "content", JObj [ (bs "membership", JStr (bs "join"));
                          (bs "displayname", JStr (bs "Alice"));
                          (bs "join_authorised_via_users_server", JStr (bs "@bob:b")) ]) ].

Example sample_satisfies_premises :
  exists a, algo_of_version (bs "9") = Some a /\ exact_keys a sample_event /\
            plain_value (JObj sample_event) = true.
Proof.
  eexists. split; [vm_compute; reflexivity|]. split; [|vm_compute; reflexivity].
  split.
  - unfold keys_of. simpl. repeat constructor; simpl; intuition discriminate.
  - repeat constructor; vm_compute; auto.
Qed.

Example sample_redacted :
  option_map canon_print (redact (bs "9") (JObj sample_event)) =
  Some (bs "{""content"":{""join_authorised_via_users_server"":""@bob:b"",""membership"":""join""},""room_id"":""!r:a"",""sender"":""@alice:a"",""signatures"":{""a"":{""ed25519:k"":""c2ln""}},""state_key"":""@alice:a"",""type"":""m.room.member""}")
  /\ option_map canon_print (redact (bs "8") (JObj sample_event)) =
  Some (bs "{""content"":{""membership"":""join""},""room_id"":""!r:a"",""sender"":""@alice:a"",""signatures"":{""a"":{""ed25519:k"":""c2ln""}},""state_key"":""@alice:a"",""type"":""m.room.member""}").
Proof. split; vm_compute; reflexivity. Qed.

Print Assumptions keep_lists_match_spec.
Print Assumptions keep_lists_match_spec_refuted.
Print Assumptions version_to_algorithm_matches_spec.
Print Assumptions every_version_has_modelled_algorithm.
Print Assumptions redact_keeps_exactly.
Print Assumptions redact_exact_events.
Print Assumptions redact_idempotent.
Print Assumptions redact_preserves_identity_fields.
Print Assumptions redact_preserves_event_id.
Print Assumptions redact_preserves_signatures.
Print Assumptions redact_preserves_signed_bytes.
