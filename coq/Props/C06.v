(* C06 - An event verifies only if every protocol-required server validly signed it.
   Only statements here; the model is Event/VerifySig.v (VerifyEventSignatures as the code is),
   the specification Event/RequiredSpec.v (required servers and validity rule transcribed from
   the property text), the proofs Event/VerifySigProofs.v.

   The caller's JSONVerifier is an arbitrary function  verifier : request -> bool  (a key of
   r_server, valid at r_ts under the rule r_strict, signed r_msg); the caller's sender resolution
   is the outcome lk; the redaction is C05's model (redact ver j).  Nothing is assumed about
   them beyond what each statement names. *)
From Verif Require Import Lib.Bytes Json.Ast Json.Parse Gen.GenVersions Gen.GenConsts Gen.GenC06 Event.Redact
  Event.VerifySig Event.RequiredSpec Event.VerifySigProofs Event.VerifySigRedact.
Open Scope N_scope.

(* ---- the literals and the wiring the model takes from eventcrypto.go (regenerated every run) ---- *)
Theorem C06_constants_match_source :
  gen_c06_pseudoid_version = pseudoid_version /\
  gen_c06_authorised_via_key = k_authorised_via /\
  (* the member is decoded by encoding/json into a string field (null leaves it, the empty string
     names nobody), as MemberContent does for the auth rules *)
  gen_c06_authorised_via_type = bs "string" /\
  gen_c06_authorised_via_conditions = [bs "err != nil"; bs "c.AuthorisedVia != """""; bs "err != nil"] /\
  assoc_first (bs "MRoomMember") gen_spec_eventtypes = Some m_room_member /\
  assoc_first (bs "Join") gen_spec_eventtypes = Some k_join /\
  assoc_first (bs "Invite") gen_spec_eventtypes = Some k_invite /\
  (* SplitID: the event ID with its sigil, the state key and the authorising user with theirs *)
  gen_c06_splitid_calls =
    [ (bs "VerifyEventSignatures", 36, bs "e.EventID()");
      (bs "VerifyEventSignatures", 64, bs "*e.StateKey()");
      (bs "extractAuthorisedViaServerName", 64, bs "c.AuthorisedVia") ] /\
  (* the request: redacted event, origin_server_ts, needed server, the version's validity rule *)
  gen_c06_request_fields =
    [ (bs "Message", bs "redactedJSON"); (bs "AtTS", bs "e.OriginServerTS()");
      (bs "ServerName", bs "serverName"); (bs "ValidityCheckingFunc", bs "verImpl.SignatureValidityCheck") ] /\
  gen_c06_message_source = bs "verImpl.RedactEventJSON(e.JSON());".
Proof. repeat split; reflexivity. Qed.

(* ---- the version switches of the code are the specification's (generated table, every run) ---- *)
Theorem validity_rule_per_version : forall ver, In ver spec_versions ->
  strict_validity ver = spec_strict_validity ver /\
  id_format_v1 ver = spec_event_id_names_server ver /\
  restricted_extract ver = spec_restricted_joins ver /\
  ver_known ver = true.
Proof.
  intros ver H. apply mem_bytes_In in H. destruct (version_row ver H) as [A [B [C D]]]. auto.
Qed.

(* strict from room version 5 on, lax in 1-4, and nothing else is a room version *)
Theorem validity_rule_strict_from_v5 :
  map (fun v => (v, strict_validity v)) [bs "1"; bs "2"; bs "3"; bs "4"; bs "5"; bs "6"; bs "12"]
  = [(bs "1", false); (bs "2", false); (bs "3", false); (bs "4", false); (bs "5", true); (bs "6", true); (bs "12", true)]
  /\ forall ver, ver_known ver = true -> In ver spec_versions.
Proof.
  split; [vm_compute; reflexivity|].
  intros ver H. apply mem_bytes_In. exact (known_version_is_spec ver H).
Qed.

(* ---- the servers the code asks are exactly the required servers (same list, same order) ---- *)
Theorem required_model_eq_spec : forall ver j d,
  wf_event ver j = true -> sender_server j = Some d ->
  exists e, read_event j = Some e /\ required_servers ver (LDom d) e = Some (required_spec ver j).
Proof.
  intros ver j d H1 H2. destruct (required_model_eq_spec_lemma ver j d H1 H2) as [e [A [_ B]]]. eauto.
Qed.

(* ---- the main statement: success exactly when every required server's signature verifies,
   each checked at origin_server_ts, under the version's rule, over the redacted event ---- *)
Theorem verify_event_iff_required : forall ver j d msg verifier verr,
  wf_event ver j = true -> sender_server j = Some d -> redact ver j = Some msg ->
  (verify_event ver (LDom d) j verifier verr = true <->
   verr = false /\
   forall s, In s (required_spec ver j) -> verifier (spec_request ver j msg s) = true).
Proof. intros. apply verify_event_iff; assumption. Qed.

(* every well-formed event has a redacted form (C05's model of RedactEventJSON never fails on it),
   so the premise  redact ver j = Some msg  above is always satisfiable *)
Theorem wf_event_has_redacted_form : forall ver j,
  wf_event ver j = true -> exists msg, redact ver j = Some msg.
Proof. exact wf_event_redacts. Qed.

(* the same with the verifier seen as a predicate on servers (DESIGN's form), no other premise *)
Theorem verify_event_iff_required_servers : forall ver j d (valid : bytes -> bool),
  wf_event ver j = true -> sender_server j = Some d ->
  (verify_event ver (LDom d) j (fun r => valid (r_server r)) false = true <->
   forall s, In s (required_spec ver j) -> valid s = true).
Proof.
  intros ver j d valid H1 H2. destruct (wf_event_redacts ver j H1) as [msg H3].
  rewrite (verify_event_iff ver j d msg _ false H1 H2 H3). simpl. split; [intros [_ H]; exact H | auto].
Qed.

Theorem one_bad_required_signature_fails : forall ver j d msg verifier verr s,
  wf_event ver j = true -> sender_server j = Some d -> redact ver j = Some msg ->
  In s (required_spec ver j) -> verifier (spec_request ver j msg s) = false ->
  verify_event ver (LDom d) j verifier verr = false.
Proof.
  intros ver j d msg verifier verr s H1 H2 H3 Hin Hbad.
  destruct (verify_event ver (LDom d) j verifier verr) eqn:E; [|reflexivity].
  apply (verify_event_iff ver j d msg verifier verr H1 H2 H3) in E as [_ E].
  rewrite (E s Hin) in Hbad. discriminate.
Qed.

Theorem non_required_signatures_irrelevant : forall ver j d msg verifier verifier' verr,
  wf_event ver j = true -> sender_server j = Some d -> redact ver j = Some msg ->
  (forall s, In s (required_spec ver j) ->
     verifier (spec_request ver j msg s) = verifier' (spec_request ver j msg s)) ->
  verify_event ver (LDom d) j verifier verr = verify_event ver (LDom d) j verifier' verr.
Proof.
  intros ver j d msg v v' verr H1 H2 H3 Hag.
  pose proof (verify_event_iff ver j d msg v verr H1 H2 H3) as A.
  pose proof (verify_event_iff ver j d msg v' verr H1 H2 H3) as B.
  destruct (verify_event ver (LDom d) j v verr) eqn:E1, (verify_event ver (LDom d) j v' verr) eqn:E2; try reflexivity.
  - destruct (proj1 A eq_refl) as [Hv Hall]. assert (false = true); [|discriminate].
    apply B. split; [exact Hv|]. intros s Hs. rewrite <- (Hag s Hs). auto.
  - destruct (proj1 B eq_refl) as [Hv Hall]. assert (false = true); [|discriminate].
    apply A. split; [exact Hv|]. intros s Hs. rewrite (Hag s Hs). auto.
Qed.

(* every request the code ever makes (no well-formedness needed) carries the redacted event, the
   event's origin_server_ts and the version's validity rule; and without a redacted form there
   is no success *)
Theorem verification_is_over_redacted_form : forall ver lk j rs,
  verify_requests ver lk j = Some rs ->
  exists e msg, read_event j = Some e /\ redact ver j = Some msg /\
    forall r, In r rs -> r_msg r = msg /\ r_ts r = e_ts e /\ r_strict r = strict_validity ver.
Proof.
  intros ver lk j rs H. destruct (verify_requests_shape ver lk j rs H) as [e [msg [l [A [B [_ [_ C]]]]]]].
  exists e, msg. auto.
Qed.

(* the verdict depends on the event only through its required servers, its redacted form and its
   timestamp: two well-formed events agreeing on those get the same verdict from any verifier *)
Theorem verdict_depends_on_redacted_form_only : forall ver j j' d d' msg verifier verr,
  wf_event ver j = true -> sender_server j = Some d -> redact ver j = Some msg ->
  wf_event ver j' = true -> sender_server j' = Some d' -> redact ver j' = Some msg ->
  required_spec ver j = required_spec ver j' -> s_ts j = s_ts j' ->
  verify_event ver (LDom d) j verifier verr = verify_event ver (LDom d') j' verifier verr.
Proof.
  intros ver j j' d d' msg v verr H1 H2 H3 H1' H2' H3' Hreq Hts.
  unfold verify_event.
  rewrite (verify_requests_wf ver j d msg H1 H2 H3), (verify_requests_wf ver j' d' msg H1' H2' H3').
  rewrite Hreq. unfold spec_request. rewrite Hts. reflexivity.
Qed.

(* fails closed: any success had a known version, a resolved sender, a redacted form, no verifier
   error *)
Theorem verify_event_fails_closed : forall ver lk j verifier verr,
  verify_event ver lk j verifier verr = true ->
  verr = false /\ ver_known ver = true /\ lk <> LErr /\ redact ver j <> None /\ read_event j <> None.
Proof. exact VerifySigProofs.verify_event_fails_closed. Qed.

(* VerifyAllEventSignatures is VerifyEventSignatures event by event *)
Theorem verify_all_pointwise : forall ver evs verifier verr n lk j,
  nth_error evs n = Some (lk, j) ->
  nth_error (verify_all ver evs verifier verr) n = Some (verify_event ver lk j verifier verr).
Proof.
  intros ver evs verifier verr n lk j H. unfold verify_all.
  rewrite nth_error_map, H. reflexivity.
Qed.

(* ---- pseudo-ID version (org.matrix.msc4014), stated separately: what a success implies ---- *)
Theorem verify_event_pseudoid_sender_self_signed : forall ver j valid self_valid verr,
  verify_event_pseudoid ver j valid self_valid verr = true ->
  exists e, read_event j = Some e /\ self_valid (e_sender e) = true.
Proof. exact pseudoid_sender_must_self_sign. Qed.

Theorem verify_event_pseudoid_invited_self_signed : forall ver j e sk valid self_valid verr,
  verify_event_pseudoid ver j valid self_valid verr = true ->
  read_event j = Some e -> e_type e = m_room_member -> membership_of e = Some k_invite ->
  e_state_key e = Some sk -> self_valid sk = true.
Proof. exact pseudoid_invited_must_self_sign. Qed.

(* repair F60: the mapping of a join is for the room key that sent the event, and the server of the
   user it names (spec.NewUserID, C17's model) is the one REQUIRED server of the mapping *)
Theorem verify_event_pseudoid_join_mapping_verified : forall ver j e valid self_valid verr,
  verify_event_pseudoid ver j valid self_valid verr = true ->
  read_event j = Some e -> e_type e = m_room_member -> membership_of e = Some k_join ->
  verr = false /\
  exists u l d, mxid_mapping e = MMapping (e_sender e) u /\ Ident.Ids.user_id_parse true u = Some (l, d) /\
                valid d = true.
Proof. exact pseudoid_join_mapping_must_verify. Qed.

(* ---- non-vacuity: concrete well-formed events, their required servers, their verdicts ---- *)
Definition ex_json (s : string) : json := match parse_json (bs s) with Some j => j | None => JNull end.

(* an invite in room version 1: sender's, event ID's and invited user's servers *)
Definition ex_invite_v1 : json := ex_json
  "{""type"":""m.room.member"",""sender"":""@alice:a.example"",""state_key"":""@bob:c.example"",""event_id"":""$e:b.example"",""room_id"":""!r:a.example"",""origin_server_ts"":1700000000000,""content"":{""membership"":""invite""}}".

Example ex_invite_v1_wf :
  wf_event (bs "1") ex_invite_v1 = true /\ sender_server ex_invite_v1 = Some (bs "a.example") /\
  redact (bs "1") ex_invite_v1 <> None /\
  required_spec (bs "1") ex_invite_v1 = [bs "a.example"; bs "b.example"; bs "c.example"] /\
  required_spec (bs "10") ex_invite_v1 = [bs "a.example"; bs "c.example"].
Proof. vm_compute. repeat split; try reflexivity. discriminate. Qed.

Example ex_invite_v1_verdicts :
  let all3 := fun r => mem_bytes (r_server r) [bs "a.example"; bs "b.example"; bs "c.example"; bs "x.example"] in
  let no_b := fun r => mem_bytes (r_server r) [bs "a.example"; bs "c.example"; bs "x.example"] in
  verify_event (bs "1") (LDom (bs "a.example")) ex_invite_v1 all3 false = true /\
  verify_event (bs "1") (LDom (bs "a.example")) ex_invite_v1 no_b false = false /\
  verify_event (bs "10") (LDom (bs "a.example")) ex_invite_v1 no_b false = true /\
  verify_event (bs "1") (LDom (bs "a.example")) ex_invite_v1 all3 true = false.
Proof. vm_compute. repeat split; reflexivity. Qed.

(* a restricted join: the authorising user's server is required from version 8 on, not before *)
Definition ex_restricted_join : json := ex_json
  "{""type"":""m.room.member"",""sender"":""@alice:a.example"",""state_key"":""@alice:a.example"",""room_id"":""!r:a.example"",""origin_server_ts"":5,""content"":{""membership"":""join"",""join_authorised_via_users_server"":""@carol:d.example""}}".

Example ex_restricted_join_required :
  wf_event (bs "9") ex_restricted_join = true /\ wf_event (bs "7") ex_restricted_join = true /\
  redact (bs "9") ex_restricted_join <> None /\
  required_spec (bs "9") ex_restricted_join = [bs "a.example"; bs "d.example"] /\
  required_spec (bs "7") ex_restricted_join = [bs "a.example"] /\
  strict_validity (bs "9") = true /\ strict_validity (bs "4") = false.
Proof. vm_compute. repeat split; try reflexivity. discriminate. Qed.

(* pseudo-ID version (repair F60): a join whose mxid_mapping names @victim:a.example verifies exactly
   when a.example's signature over the mapping verifies (whatever other servers signed) and the
   mapping is for the sender's room key *)
Definition ex_pseudoid_join : json := ex_json
  "{""type"":""m.room.member"",""sender"":""PSEUDOKEY"",""state_key"":""PSEUDOKEY"",""room_id"":""!r:a.example"",""origin_server_ts"":5,""content"":{""membership"":""join"",""mxid_mapping"":{""user_room_key"":""PSEUDOKEY"",""user_id"":""@victim:a.example""}}}".
Definition ex_pseudoid_join_other_key : json := ex_json
  "{""type"":""m.room.member"",""sender"":""PSEUDOKEY"",""state_key"":""PSEUDOKEY"",""room_id"":""!r:a.example"",""origin_server_ts"":5,""content"":{""membership"":""join"",""mxid_mapping"":{""user_room_key"":""OTHERKEY"",""user_id"":""@victim:a.example""}}}".

Example pseudoid_mapping_requires_the_users_server :
  let self := fun n => bytes_eqb n (bs "PSEUDOKEY") in
  verify_event_pseudoid (bs "org.matrix.msc4014") ex_pseudoid_join (fun _ => false) self false = false /\
  verify_event_pseudoid (bs "org.matrix.msc4014") ex_pseudoid_join (fun s => bytes_eqb s (bs "evil.example")) self false = false /\
  verify_event_pseudoid (bs "org.matrix.msc4014") ex_pseudoid_join (fun s => bytes_eqb s (bs "a.example")) self false = true /\
  verify_event_pseudoid (bs "org.matrix.msc4014") ex_pseudoid_join_other_key (fun _ => true) self false = false.
Proof. vm_compute. repeat split; reflexivity. Qed.

(* ---- refuted: members under names the specification does not know do not always leave the
   required servers unchanged (finding F-C06-1).  encoding/json takes the member named
   member + U+017F + hip for the membership field; placed after the real one it wins, the invite is
   treated as a leave and the invited user's server is no longer asked ---- *)
Definition long_s_membership : bytes := bs "member" ++ [197; 191] ++ bs "hip".
Definition add_content_member (k : bytes) (v : json) (j : json) : json :=
  match j with
  | JObj m => JObj (map (fun kv => if bytes_eqb (fst kv) (bs "content")
                                   then match snd kv with
                                        | JObj c => (fst kv, JObj (c ++ [(k, v)]))
                                        | _ => kv
                                        end
                                   else kv) m)
  | _ => j
  end.
Definition ex_invite_lookalike : json := add_content_member long_s_membership (JStr (bs "leave")) ex_invite_v1.

Theorem unknown_members_irrelevant_refuted :
  exists ver jt j e,
    wf_event ver jt = true /\ sender_server jt = Some (bs "a.example") /\
    j = add_content_member long_s_membership (JStr (bs "leave")) jt /\
    read_event j = Some e /\
    required_spec ver jt = [bs "a.example"; bs "b.example"; bs "c.example"] /\
    required_servers ver (LDom (bs "a.example")) e = Some [bs "a.example"; bs "b.example"] /\
    verify_event ver (LDom (bs "a.example")) j
      (fun r => mem_bytes (r_server r) [bs "a.example"; bs "b.example"]) false = true.
Proof.
  exists (bs "1"), ex_invite_v1, ex_invite_lookalike.
  eexists. vm_compute. repeat split; reflexivity.
Qed.

(* ---- repair F49: with the member repeated, under a case variant, or followed by null, the server
   demanded is the server of the user the auth rules read (RequiredSpec.auth_authoriser); concrete
   instances of the family the harness walks (all versions, all positions) ---- *)
Definition ex_join_with (content : string) : json := ex_json
  ("{""type"":""m.room.member"",""sender"":""@alice:a.example"",""state_key"":""@alice:a.example"",""room_id"":""!r:a.example"",""origin_server_ts"":5,""content"":" ++ content ++ "}").
Definition ex_needed (j : json) : option (list bytes) :=
  match read_event j with Some e => required_servers (bs "10") (LDom (bs "a.example")) e | None => None end.
Definition ex_auth (j : json) : auth_reading :=
  match jget (bs "content") j with Some (JObj c) => auth_authoriser c | _ => AUnparseable end.

Example authoriser_is_the_auth_rules_reading_examples :
  let twice := ex_join_with "{""join_authorised_via_users_server"":""@x:x.example"",""join_authorised_via_users_server"":""@admin:v.example"",""membership"":""join""}" in
  let variant := ex_join_with "{""Join_authorised_via_users_server"":""@admin:v.example"",""join_authorised_via_users_server"":""@x:x.example"",""membership"":""join""}" in
  let nulled := ex_join_with "{""join_authorised_via_users_server"":""@admin:v.example"",""join_authorised_via_users_server"":null,""membership"":""join""}" in
  let number := ex_join_with "{""join_authorised_via_users_server"":""@admin:v.example"",""join_authorised_via_users_server"":5,""membership"":""join""}" in
  ex_auth twice = AUser (bs "@admin:v.example") /\ ex_needed twice = Some [bs "a.example"; bs "v.example"] /\
  ex_auth variant = AUser (bs "@x:x.example") /\ ex_needed variant = Some [bs "a.example"; bs "x.example"] /\
  ex_auth nulled = AUser (bs "@admin:v.example") /\ ex_needed nulled = Some [bs "a.example"; bs "v.example"] /\
  ex_auth number = AUnparseable /\ ex_needed number = None.
Proof. vm_compute. repeat split; reflexivity. Qed.

Print Assumptions C06_constants_match_source.
Print Assumptions validity_rule_per_version.
Print Assumptions validity_rule_strict_from_v5.
Print Assumptions required_model_eq_spec.
Print Assumptions verify_event_iff_required.
Print Assumptions wf_event_has_redacted_form.
Print Assumptions verify_event_iff_required_servers.
Print Assumptions one_bad_required_signature_fails.
Print Assumptions non_required_signatures_irrelevant.
Print Assumptions verification_is_over_redacted_form.
Print Assumptions verdict_depends_on_redacted_form_only.
Print Assumptions verify_event_fails_closed.
Print Assumptions verify_all_pointwise.
Print Assumptions verify_event_pseudoid_sender_self_signed.
Print Assumptions verify_event_pseudoid_invited_self_signed.
Print Assumptions verify_event_pseudoid_join_mapping_verified.
Print Assumptions unknown_members_irrelevant_refuted.
