(* C06 - placeholder, theorems follow *)
From Verif Require Import Lib.Bytes.
