(* C07 — Event authorisation decides exactly what the Matrix authorisation rules decide.

   Model: Auth/Abs.v (JSON events -> abstract input, executable, tied to Allowed by the
   correspondence check) and Auth/Decide.v (the library's decision procedure on that input).
   Specification: Auth/AllowedSpec.v (the rule list of the Matrix specification in its own order,
   with the documented departures of DESIGN.md 6.1 as named definitions dep_...).
   The theorems hold for every abstract input (no bounds). Where the unchanged library differs
   from the rules and the difference is a finding, the input class is excluded by a named
   hypothesis (no_F18, no_tpi_on_non_invite, no_F22, no_F26, no_F53, no_broken_power_levels) and a
   ..._refuted witness shows the difference on a concrete input. *)
From Verif Require Import Lib.Bytes Json.Ast Auth.GoJson Auth.Ids Auth.Types Auth.Versions Auth.Abs
     Auth.Decide Auth.Model Auth.AllowedSpec Auth.PLSpec Auth.PLProofs Auth.SpecProofs
     Auth.Departures Auth.DepartureProofs Auth.DepartureExamples Auth.TpiBlock.
Open Scope Z_scope.

(* the rules accept exactly when the library's procedure answers "allowed" *)
Theorem allowed_refines_spec :
  forall a sv,
    rules_agree (ai_flags a) sv -> auth_wf sv a ->
    no_F18 a -> no_tpi_on_non_invite a -> no_F22 sv a -> no_F26 a -> no_F53 a -> no_broken_power_levels a ->
    decide_spec sv a = accepted (decide_model a).
Proof. exact refines_spec. Qed.

(* the switches generated from eventversion.go agree with the specification's version matrix for
   every version of the table (F10, the missing restricted-join switch of org.matrix.msc3787, is
   repaired) *)
Theorem spec_table_agrees :
  forall ver f sv,
    In ver all_versions ->
    flags_of_version ver = Some f -> spec_rules_of ver = Some sv -> rules_agree f sv.
Proof. exact version_rules_agree. Qed.

(* stronger: version by version, every switch authorisation reads -- knocking, restricted joins,
   the power-level checker, the level parser, the create checker, privileged creators, pseudo IDs,
   the event format -- is the one the hand-written specification matrix prescribes. A table entry
   rewired in eventversion.go breaks this proof, and the specification oracles, which read events
   with spec_flags_of only, then disagree with the implementation on concrete inputs. *)
Theorem generated_switches_match_spec :
  forall ver, In ver all_versions -> flags_of_version ver = spec_flags_of ver.
Proof. exact version_flags_eq_spec. Qed.

(* on JSON events, through abs: Allowed (model) accepts iff the rules accept *)
Theorem allowed_model_refines_spec :
  forall sig_ok ver f sv e auths,
    In ver all_versions ->
    flags_of_version ver = Some f -> spec_rules_of ver = Some sv ->
    let a := abs sig_ok f e auths in
    auth_wf sv a ->
    no_F18 a -> no_tpi_on_non_invite a -> no_F22 sv a -> no_F26 a -> no_F53 a -> no_broken_power_levels a ->
    (decide_spec sv a = true <-> allowed_model sig_ok ver e auths = Some VOk).
Proof.
  intros sig_ok ver f sv e auths Hin Hf Hs a Hwf H18 Ht H22 H26 H53 Hnb.
  unfold allowed_model. rewrite Hf. fold a.
  rewrite (refines_spec a sv (version_rules_agree ver f sv Hin Hf Hs) Hwf H18 Ht H22 H26 H53 Hnb).
  destruct (decide_model a); simpl; split; congruence.
Qed.

(* families (each for every input of its event type) *)
Theorem create_rules :
  forall a sv, rules_agree (ai_flags a) sv -> auth_wf sv a -> no_F22 sv a -> ai_kind a = KCreate ->
    spec_create sv a = accepted (decide_create a).
Proof. exact SpecProofs.create_rules. Qed.

Theorem membership_rules :
  forall a sv, rules_agree (ai_flags a) sv -> auth_wf sv a ->
    no_F18 a -> no_tpi_on_non_invite a -> no_F26 a ->
    spec_member sv a = accepted (decide_member a).
Proof. exact member_rules. Qed.

Theorem power_levels_rules :
  forall a sv, rules_agree (ai_flags a) sv -> no_broken_power_levels a ->
    spec_power_levels sv a = accepted (decide_power_levels a).
Proof. exact SpecProofs.power_levels_rules. Qed.

Theorem redaction_rules :
  forall a sv, rules_agree (ai_flags a) sv -> ai_redacts_domain a <> None ->
    spec_redaction sv a = accepted (decide_redaction a).
Proof. exact SpecProofs.redaction_rules. Qed.

Theorem alias_rules :
  forall a sv, rules_agree (ai_flags a) sv -> spec_aliases sv a = accepted (decide_aliases a).
Proof. exact SpecProofs.alias_rules. Qed.

Theorem generic_rules :
  forall a sv, rules_agree (ai_flags a) sv ->
    (match spec_generic sv a with Some _ => true | None => false end) = accepted (decide_default a).
Proof. exact SpecProofs.generic_rules. Qed.

(* events whose auth events come from different rooms are refused *)
Theorem different_rooms_refused :
  forall a, ai_provider_ok a = true -> ai_one_room a = false -> decide_model a = VNotAllowed.
Proof. intros a H1 H2. unfold decide_model. rewrite H1, H2. reflexivity. Qed.

(* defaults when power-levels, join-rules or member events are absent *)
Theorem defaults_when_absent :
  forall sig_ok f e auths,
    let a := abs sig_ok f e auths in
    (find_auth t_power_levels [] auths = None ->
       ai_pl_present a = false /\
       ai_pl a = pl_absent (match ai_create a with Some c => c_sender c | None => [] end))
    /\ (find_auth t_join_rules [] auths = None -> ai_join_rule a = JrInvite)
    /\ (find_auth t_member (ev_sender e) auths = None -> ai_sender_member a = Some MsLeave)
    /\ (forall creator,
          let p := pl_absent creator in
          pl_ban p = 50 /\ pl_kick p = 50 /\ pl_redact p = 50 /\ pl_invite p = 0
          /\ pl_state_default p = 50 /\ pl_events_default p = 0 /\ pl_users_default p = 0
          /\ pl_user_level p creator = 9007199254740991
          /\ (forall u, u <> creator -> pl_user_level p u = 0)
          /\ (forall n, pl_notif_level p n = 50)).
Proof.
  intros sig_ok f e auths a. repeat split.
  - unfold a, abs. cbn [ai_pl_present]. unfold pl_of_auths. rewrite H. reflexivity.
  - unfold a, abs. cbn [ai_pl ai_create]. unfold pl_of_auths. rewrite H. reflexivity.
  - intro H. unfold a, abs. cbn [ai_join_rule]. unfold join_rule_of. rewrite H. reflexivity.
  - intro H. unfold a, abs. cbn [ai_sender_member]. unfold member_from_auth. rewrite H. reflexivity.
  - rewrite absent_user_level, bytes_eqb_refl. reflexivity.
  - intros u Hu. rewrite absent_user_level. apply bytes_eqb_neq in Hu. rewrite Hu. reflexivity.
Qed.

(* creators are privileged in version 12: their level is 2^53 whatever the power-levels event
   says, it satisfies every required level an integer-only content can express, and an accepted
   power-levels event can never name them (C08 clause 5) *)
Theorem creators_privileged_v12 :
  forall f c present pl u,
    vf_priv_creators f = true -> In u (creators_of c) ->
    user_power_level f c present pl u = creator_level
    /\ creator_level = 2 ^ 53
    /\ (forall old new sender, flags_consistent f -> old_wf c present old ->
          pl_change_allowed f c present old new sender = VOk -> ~ In u (map fst (pl_users new))).
Proof.
  intros f c present pl u Hp Hin. repeat split.
  - unfold user_power_level. rewrite Hp. apply mem_bytes_In in Hin. rewrite Hin. reflexivity.
  - intros old new sender Hc Hw Hacc.
    destruct (accept_no_escalation f c present old new sender Hc Hw Hacc) as (_ & _ & _ & _ & _ & H5).
    exact (H5 Hp u Hin).
Qed.

Theorem v12_versions_privileged :
  forall ver f, In ver [bs "12"; bs "org.matrix.hydra.11"] -> flags_of_version ver = Some f ->
    vf_priv_creators f = true.
Proof.
  intros ver f Hin Hf. simpl in Hin.
  destruct Hin as [<-|[<-|[]]]; vm_compute in Hf; inversion Hf; reflexivity.
Qed.

(* ---------- the finding classes are real: concrete inputs on which the library differs ---------- *)
Definition wit_flags (cc : create_checker) : ver_flags :=
  {| vf_knocking := true; vf_restricted := Some true; vf_pl_check := PlV2; vf_int_levels := true;
     vf_create_check := cc; vf_priv_creators := false; vf_pseudo_ids := false; vf_event_v3 := false |}.
Definition wit_rules (creator_required : bool) : spec_rules :=
  mk_rules true true true creator_required true false false false.
Definition wit_create : create_info :=
  {| c_room := bs "!r:hs1"; c_event_id := bs "$c"; c_sender := bs "@creator:hs1";
     c_sender_domain := bs "hs1"; c_federate := true; c_room_version := Some (bs "10");
     c_additional := [] |}.
Definition wit_input (f : ver_flags) (k : ekind) (sk : option bytes) (jr : jrule)
           (nm : option member_info) (tm : option mship) (cc : create_check)
           (tpi_ev : option (option (list bytes))) (sig sender_ok : bool) : auth_input :=
  {| ai_flags := f; ai_provider_ok := true; ai_one_room := true; ai_kind := k;
     ai_type := bs "m.room.member"; ai_room := bs "!r:hs1"; ai_room_kind := RoomWithDomain (bs "hs1");
     ai_sender := bs "@alice:hs1"; ai_sender_domain := Some (bs "hs1"); ai_state_key := sk;
     ai_prev := [bs "$p"]; ai_create := Some wit_create; ai_pl_present := false;
     ai_pl := pl_absent (bs "@creator:hs1"); ai_join_rule := jr;
     ai_sender_member := Some MsJoin; ai_new_member := nm; ai_target_member := tm;
     ai_tpi_event := tpi_ev; ai_sig_ok := sig; ai_sig_ok_spec := sig; ai_tpi_sender_ok := sender_ok;
     ai_via_split_ok := false; ai_via_member := None; ai_new_pl := None; ai_new_pl_users_ok := true;
     ai_redacts_domain := None; ai_cc := cc |}.
Definition cc_ok (known : bool) : create_check :=
  {| cc_content_ok := true; cc_has_creator := false; cc_room_version_known := known;
     cc_additional_ok := true; cc_room_id_present := true |}.

(* F22: a version-11 create event with an unknown room_version is allowed *)
Theorem F22_refuted :
  let a := wit_input (wit_flags CrV2) KCreate (Some []) JrInvite None None (cc_ok false) None false false in
  let a := {| ai_flags := ai_flags a; ai_provider_ok := true; ai_one_room := true; ai_kind := KCreate;
              ai_type := bs "m.room.create"; ai_room := ai_room a; ai_room_kind := ai_room_kind a;
              ai_sender := ai_sender a; ai_sender_domain := ai_sender_domain a; ai_state_key := Some [];
              ai_prev := []; ai_create := None; ai_pl_present := false; ai_pl := ai_pl a;
              ai_join_rule := JrInvite; ai_sender_member := Some MsLeave; ai_new_member := None;
              ai_target_member := None; ai_tpi_event := None; ai_sig_ok := false; ai_sig_ok_spec := false;
              ai_tpi_sender_ok := false; ai_via_split_ok := false; ai_via_member := None;
              ai_new_pl := None; ai_new_pl_users_ok := true; ai_redacts_domain := None;
              ai_cc := cc_ok false |} in
  rules_agree (ai_flags a) (wit_rules false) /\ decide_model a = VOk /\ decide_spec (wit_rules false) a = false.
Proof. cbv zeta. split; [|split; vm_compute; reflexivity]. repeat split; try reflexivity; discriminate. Qed.

(* F26: knock -> join under join rule public is refused *)
Theorem F26_refuted :
  let m := {| m_membership := MsJoin; m_tpi := None; m_via := []; m_mapping := None |} in
  let a := wit_input (wit_flags CrV1) KMember (Some (bs "@alice:hs1")) JrPublic (Some m) (Some MsKnock)
                     (cc_ok true) None false false in
  let a := {| ai_flags := ai_flags a; ai_provider_ok := true; ai_one_room := true; ai_kind := KMember;
              ai_type := ai_type a; ai_room := ai_room a; ai_room_kind := ai_room_kind a;
              ai_sender := ai_sender a; ai_sender_domain := ai_sender_domain a; ai_state_key := ai_state_key a;
              ai_prev := ai_prev a; ai_create := ai_create a; ai_pl_present := false; ai_pl := ai_pl a;
              ai_join_rule := JrPublic; ai_sender_member := Some MsKnock; ai_new_member := Some m;
              ai_target_member := Some MsKnock; ai_tpi_event := None; ai_sig_ok := false; ai_sig_ok_spec := false;
              ai_tpi_sender_ok := false; ai_via_split_ok := false; ai_via_member := None;
              ai_new_pl := None; ai_new_pl_users_ok := true; ai_redacts_domain := None;
              ai_cc := cc_ok true |} in
  decide_model a = VNotAllowed /\ decide_spec (wit_rules true) a = true.
Proof. vm_compute. split; reflexivity. Qed.

(* F18: a third-party invite for a banned target, or by another sender than the one who sent the
   m.room.third_party_invite event, is accepted *)
Theorem F18_refuted :
  let t := {| t_mxid := bs "@bob:hs2"; t_token := bs "tok"; t_sigs := [(bs "id", bs "ed25519:1")] |} in
  let m := {| m_membership := MsInvite; m_tpi := Some t; m_via := []; m_mapping := None |} in
  let banned := wit_input (wit_flags CrV1) KMember (Some (bs "@bob:hs2")) JrInvite (Some m) (Some MsBan)
                          (cc_ok true) (Some (Some [bs "key"])) true true in
  let other := wit_input (wit_flags CrV1) KMember (Some (bs "@bob:hs2")) JrInvite (Some m) (Some MsLeave)
                         (cc_ok true) (Some (Some [bs "key"])) true false in
  decide_model banned = VOk /\ decide_spec (wit_rules true) banned = false
  /\ decide_model other = VOk /\ decide_spec (wit_rules true) other = false.
Proof. vm_compute. repeat split; reflexivity. Qed.

(* F53: the creator (level 2^53-1 without a power-levels event) redacts in a version 1 room with a
   redacts that has no domain part: the rules allow (level first), the library refuses *)
Theorem F53_refuted :
  let c1 := {| c_room := bs "!r:hs1"; c_event_id := bs "$c"; c_sender := bs "@alice:hs1";
               c_sender_domain := bs "hs1"; c_federate := true; c_room_version := Some (bs "1");
               c_additional := [] |} in
  let a0 := wit_input (wit_flags CrV1) KRedaction None JrInvite None None (cc_ok true) None false false in
  let a := {| ai_flags := ai_flags a0; ai_provider_ok := true; ai_one_room := true; ai_kind := KRedaction;
              ai_type := bs "m.room.redaction"; ai_room := ai_room a0; ai_room_kind := ai_room_kind a0;
              ai_sender := ai_sender a0; ai_sender_domain := ai_sender_domain a0; ai_state_key := None;
              ai_prev := ai_prev a0; ai_create := Some c1; ai_pl_present := false;
              ai_pl := pl_absent (bs "@alice:hs1");
              ai_join_rule := JrInvite; ai_sender_member := Some MsJoin; ai_new_member := None;
              ai_target_member := None; ai_tpi_event := None; ai_sig_ok := false; ai_sig_ok_spec := false;
              ai_tpi_sender_ok := false; ai_via_split_ok := false; ai_via_member := None;
              ai_new_pl := None; ai_new_pl_users_ok := true; ai_redacts_domain := None;
              ai_cc := cc_ok true |} in
  decide_model a = VNotAllowed /\ decide_spec (wit_rules true) a = true.
Proof. vm_compute. split; reflexivity. Qed.

(* the third-party-invite rule belongs to membership invite only: on every other membership the
   rules -- under any choice of departures, hence also the literal text -- ignore the block *)
Theorem third_party_block_ignored_on_non_invite :
  forall sv a, not_invite a -> decide_spec sv (strip_tpi a) = decide_spec sv a.
Proof. exact block_ignored. Qed.

Theorem third_party_block_ignored_on_non_invite_with :
  forall d sv a x, not_invite a -> decide_spec_with d sv (strip_tpi a) x = decide_spec_with d sv a x.
Proof. exact block_ignored_with. Qed.

(* F27: the library refuses a join that carries a block whose m.room.third_party_invite event is
   missing, where the rules (a public room, the user has left) accept *)
Theorem F27_refuted :
  let t := {| t_mxid := bs "@alice:hs1"; t_token := bs "tok"; t_sigs := [] |} in
  let m := {| m_membership := MsJoin; m_tpi := Some t; m_via := []; m_mapping := None |} in
  let a0 := wit_input (wit_flags CrV1) KMember (Some (bs "@alice:hs1")) JrPublic (Some m) (Some MsLeave)
                      (cc_ok true) None false false in
  let a := {| ai_flags := ai_flags a0; ai_provider_ok := true; ai_one_room := true; ai_kind := KMember;
              ai_type := ai_type a0; ai_room := ai_room a0; ai_room_kind := ai_room_kind a0;
              ai_sender := ai_sender a0; ai_sender_domain := ai_sender_domain a0; ai_state_key := ai_state_key a0;
              ai_prev := ai_prev a0; ai_create := ai_create a0; ai_pl_present := false; ai_pl := ai_pl a0;
              ai_join_rule := JrPublic; ai_sender_member := Some MsLeave; ai_new_member := Some m;
              ai_target_member := Some MsLeave; ai_tpi_event := None; ai_sig_ok := false; ai_sig_ok_spec := false;
              ai_tpi_sender_ok := false; ai_via_split_ok := false; ai_via_member := None;
              ai_new_pl := None; ai_new_pl_users_ok := true; ai_redacts_domain := None;
              ai_cc := cc_ok true |} in
  decide_model a = VNotAllowed /\ decide_spec (wit_rules true) a = true
  /\ decide_model (strip_tpi a) = VOk.
Proof. vm_compute. repeat split; reflexivity. Qed.

(* non-vacuity of the main theorem: an ordinary accepted invite satisfies every hypothesis *)
Example allowed_refines_spec_concrete :
  let m := {| m_membership := MsInvite; m_tpi := None; m_via := []; m_mapping := None |} in
  let a := wit_input (wit_flags CrV1) KMember (Some (bs "@bob:hs2")) JrInvite (Some m) (Some MsLeave)
                     (cc_ok true) None false false in
  rules_agree (ai_flags a) (wit_rules true) /\ auth_wf (wit_rules true) a
  /\ no_F18 a /\ no_tpi_on_non_invite a /\ no_F22 (wit_rules true) a /\ no_F26 a /\ no_F53 a
  /\ no_broken_power_levels a
  /\ decide_model a = VOk /\ decide_spec (wit_rules true) a = true.
Proof.
  cbv zeta.
  split. { repeat split; try reflexivity; discriminate. }
  split. { split; [reflexivity|]. split; [discriminate|]. split.
           - intro H. discriminate.
           - intro H. vm_compute in H. discriminate. }
  split. { intros m t keys H. vm_compute in H. inversion H; subst. discriminate. }
  split. { intros m t H. vm_compute in H. inversion H; subst. discriminate. }
  split. { intro H. discriminate. }
  split. { intros m H. vm_compute in H. inversion H; subst. discriminate. }
  split. { intro H. discriminate. }
  split. { intros c H. vm_compute in H. inversion H; subst. reflexivity. }
  split; vm_compute; reflexivity.
Qed.

(* ====================================================================================== *)
(* The 13 documented departures (DESIGN.md 6.1) as switches: Auth/Departures.v.
   decide_spec_with all_on is the rule list the theorems above are about; decide_spec_with
   all_off = decide_spec_literal is the literal text of the specification. spec_extra carries
   what the literal text needs beyond the abstract record (computed from the JSON by extra_of). *)

Theorem rules_are_all_departures_on :
  forall sv a x, decide_spec_with all_on sv a x = decide_spec sv a.
Proof. exact with_all_on. Qed.

Theorem literal_is_all_departures_off :
  forall sv a x, decide_spec_literal sv a x = decide_spec_with all_off sv a x.
Proof. reflexivity. Qed.

(* switching off departure k alone changes the verdict only under its condition cond_k *)
Theorem dep_only_differs_when :
  forall sv a x k, In k dep_numbers ->
    decide_spec_with (only_off k) sv a x <> decide_spec_with all_on sv a x ->
    cond_nth sv a x k = true.
Proof. exact only_off_differs_when. Qed.

(* each from its own switch lemma (so that its Print Assumptions walks that proof only) *)
Ltac dep_k lem :=
  let Hc := fresh "Hc" in
  intros sv a x; apply differs_bool; intro Hc; unfold only_off, all_on; simpl; apply lem; exact Hc.

(* 1: leave -> leave by oneself *)
Theorem dep_1_only_differs_when : forall sv a x,
  decide_spec_with (only_off 1) sv a x <> decide_spec_with all_on sv a x -> cond1 a = true.
Proof. dep_k switch1. Qed.
(* 2: unbanning while the kick test or the target-below-sender test fails *)
Theorem dep_2_only_differs_when : forall sv a x,
  decide_spec_with (only_off 2) sv a x <> decide_spec_with all_on sv a x -> cond2 sv a = true.
Proof. dep_k switch2. Qed.
(* 3: no power-levels event *)
Theorem dep_3_only_differs_when : forall sv a x,
  decide_spec_with (only_off 3) sv a x <> decide_spec_with all_on sv a x -> cond3 a = true.
Proof. dep_k switch3. Qed.
(* 4: content.creator is not the sender of the create event (v1-10) *)
Theorem dep_4_only_differs_when : forall sv a x,
  decide_spec_with (only_off 4) sv a x <> decide_spec_with all_on sv a x -> cond4 sv a x = true.
Proof. dep_k switch4. Qed.
(* 5: a power-levels event that adds or removes a key or an entry *)
Theorem dep_5_only_differs_when : forall sv a x,
  decide_spec_with (only_off 5) sv a x <> decide_spec_with all_on sv a x -> cond5 a x = true.
Proof. dep_k switch5. Qed.
(* 6: a power-levels event before v10 with a float or padded-string level *)
Theorem dep_6_only_differs_when : forall sv a x,
  decide_spec_with (only_off 6) sv a x <> decide_spec_with all_on sv a x -> cond6 a x = true.
Proof. dep_k switch6. Qed.
(* 7: join or knock under knock_restricted before v10 *)
Theorem dep_7_only_differs_when : forall sv a x,
  decide_spec_with (only_off 7) sv a x <> decide_spec_with all_on sv a x -> cond7 sv a = true.
Proof. dep_k switch7. Qed.
(* 8: redaction: rule set selected by the create content / sender's own domain *)
Theorem dep_8_only_differs_when : forall sv a x,
  decide_spec_with (only_off 8) sv a x <> decide_spec_with all_on sv a x -> cond8 a x = true.
Proof. dep_k switch8. Qed.
(* 9: m.room.aliases in version 6 or later *)
Theorem dep_9_only_differs_when : forall sv a x,
  decide_spec_with (only_off 9) sv a x <> decide_spec_with all_on sv a x -> cond9 sv a = true.
Proof. dep_k switch9. Qed.
(* 10: join by an invited or joined user under a rule other than invite/knock/restricted/public *)
Theorem dep_10_only_differs_when : forall sv a x,
  decide_spec_with (only_off 10) sv a x <> decide_spec_with all_on sv a x -> cond10 sv a = true.
Proof. dep_k switch10. Qed.
(* 11: never: the clause is reached only by users who are neither invited nor joined, and those
   are refused under the literal text and under the invite rule alike; the departure describes
   the structure of the code, no verdict depends on it *)
Theorem dep_11_never_differs : forall sv a x,
  decide_spec_with (only_off 11) sv a x = decide_spec_with all_on sv a x.
Proof. intros sv a x. unfold only_off, all_on; simpl. apply switch11. reflexivity. Qed.
(* 12: duplicate or superfluous auth events *)
Theorem dep_12_only_differs_when : forall sv a x,
  decide_spec_with (only_off 12) sv a x <> decide_spec_with all_on sv a x -> cond12 x = true.
Proof. dep_k switch12. Qed.
(* 13: own knock -> leave before v7; a first join not sent by the creator *)
Theorem dep_13_only_differs_when : forall sv a x,
  decide_spec_with (only_off 13) sv a x <> decide_spec_with all_on sv a x -> cond13 sv a = true.
Proof. dep_k switch13. Qed.

(* the literal text and the rules differ only where the condition of some departure holds *)
Theorem literal_differs_only_under_departures :
  forall sv a x, decide_spec_literal sv a x <> decide_spec sv a ->
    exists k, In k dep_numbers /\ cond_nth sv a x k = true.
Proof. exact DepartureProofs.literal_differs_only_under_departures. Qed.

(* the same on JSON events: spec_extra and the record are read from the events *)
Theorem literal_differs_only_under_departures_json :
  forall sig_ok ver e auths l r,
    allowed_spec_with all_off sig_ok ver e auths = Some l ->
    allowed_spec_with all_on sig_ok ver e auths = Some r -> l <> r ->
    exists sf sv k, spec_flags_of ver = Some sf /\ spec_rules_of ver = Some sv /\ In k dep_numbers
      /\ cond_nth sv (abs sig_ok sf e auths) (extra_of ver e auths) k = true.
Proof.
  intros sig_ok ver e auths l r Hl Hr Hne. unfold allowed_spec_with in *.
  destruct (spec_flags_of ver) as [sf|]; [|discriminate].
  destruct (spec_rules_of ver) as [sv|]; [|discriminate].
  inversion Hl; inversion Hr; subst. rewrite with_all_on in Hne.
  destruct (DepartureProofs.literal_differs_only_under_departures sv _ _ Hne) as (k & Hin & Hc).
  exists sf, sv, k. auto.
Qed.

(* ---- every condition is reachable: the two readings really differ there ---- *)
Example dep_1_reachable_concrete :
  let i := set_new_member (ex_member MsLeave) (set_target_member (Some MsLeave) (set_sender_member (Some MsLeave) ex_base)) in
  decide_spec_with (only_off 1) rules_v10 i ex_extra = false /\ decide_spec_with all_on rules_v10 i ex_extra = true.
Proof. vm_compute. split; reflexivity. Qed.

Example dep_2_reachable_concrete :
  let i := set_pl (ex_pl 50 60) (set_state_key (Some bob) (set_new_member (ex_member MsLeave)
             (set_target_member (Some MsBan) ex_base))) in
  decide_spec_with (only_off 2) rules_v10 i ex_extra = false /\ decide_spec_with all_on rules_v10 i ex_extra = true.
Proof. vm_compute. split; reflexivity. Qed.

Definition ex_topic_no_pl (sender : bytes) : auth_input :=
  set_sender sender (set_kind KOther (set_type (bs "m.room.topic") (set_state_key (Some [])
    (set_pl_present false (set_pl (pl_absent creator) ex_base))))).

Example dep_3_reachable_concrete :
  decide_spec_with (only_off 3) rules_v10 (ex_topic_no_pl alice) ex_extra = true
  /\ decide_spec_with all_on rules_v10 (ex_topic_no_pl alice) ex_extra = false.
Proof. vm_compute. split; reflexivity. Qed.

Example dep_4_reachable_concrete :
  let x := {| sx_creator := Some alice; sx_old_named := []; sx_new_named := []; sx_levels_literal := true;
              sx_selection_ok := true; sx_event_id_domain := None; sx_v1v2 := false |} in
  decide_spec_with (only_off 4) rules_v10 (ex_topic_no_pl creator) x = false
  /\ decide_spec_with all_on rules_v10 (ex_topic_no_pl creator) x = true.
Proof. vm_compute. split; reflexivity. Qed.

Definition ex_pl_event (level : Z) : auth_input :=
  set_kind KPowerLevels (set_type (bs "m.room.power_levels") (set_state_key (Some [])
    (set_pl (ex_pl level 50) (set_new_pl (Some (ex_pl level 50)) ex_base)))).

Example dep_5_reachable_concrete :
  let x := {| sx_creator := Some creator; sx_old_named := []; sx_new_named := [k_ban]; sx_levels_literal := true;
              sx_selection_ok := true; sx_event_id_domain := None; sx_v1v2 := false |} in
  decide_spec_with (only_off 5) rules_v10 (ex_pl_event 40) x = false
  /\ decide_spec_with all_on rules_v10 (ex_pl_event 40) x = true.
Proof. vm_compute. split; reflexivity. Qed.

Example dep_6_reachable_concrete :
  let x := {| sx_creator := Some creator; sx_old_named := []; sx_new_named := []; sx_levels_literal := false;
              sx_selection_ok := true; sx_event_id_domain := None; sx_v1v2 := false |} in
  decide_spec_with (only_off 6) rules_v8 (ex_pl_event 50) x = false
  /\ decide_spec_with all_on rules_v8 (ex_pl_event 50) x = true.
Proof. vm_compute. split; reflexivity. Qed.

Example dep_7_reachable_concrete :
  let i := set_join_rule JrKnockRestricted (set_new_member (ex_member MsKnock)
             (set_target_member (Some MsLeave) (set_sender_member (Some MsLeave) ex_base))) in
  decide_spec_with (only_off 7) rules_v8 i ex_extra = false /\ decide_spec_with all_on rules_v8 i ex_extra = true.
Proof. vm_compute. split; reflexivity. Qed.

Example dep_8_reachable_concrete :
  let c1 := {| c_room := bs "!r:hs1"; c_event_id := bs "$c"; c_sender := creator; c_sender_domain := bs "hs1";
               c_federate := true; c_room_version := Some (bs "1"); c_additional := [] |} in
  let i := set_create (Some c1) (set_kind KRedaction (set_type (bs "m.room.redaction") (set_state_key None
             (set_pl (ex_pl 0 50) (set_redacts_domain (Some (bs "hs9")) ex_base))))) in
  decide_spec_with (only_off 8) rules_v10 i ex_extra = true /\ decide_spec_with all_on rules_v10 i ex_extra = false.
Proof. vm_compute. split; reflexivity. Qed.

Example dep_9_reachable_concrete :
  let i := set_kind KAliases (set_type (bs "m.room.aliases") (set_state_key (Some (bs "hs1"))
             (set_sender_member (Some MsLeave) ex_base))) in
  decide_spec_with (only_off 9) rules_v6 i ex_extra = false /\ decide_spec_with all_on rules_v6 i ex_extra = true.
Proof. vm_compute. split; reflexivity. Qed.

Definition ex_join_invited_private : auth_input :=
  set_join_rule JrOther (set_new_member (ex_member MsJoin)
    (set_target_member (Some MsInvite) (set_sender_member (Some MsInvite) ex_base))).

Example dep_10_reachable_concrete :
  decide_spec_with (only_off 10) rules_v10 ex_join_invited_private ex_extra = false
  /\ decide_spec_with all_on rules_v10 ex_join_invited_private ex_extra = true.
Proof. vm_compute. split; reflexivity. Qed.

(* 11: a restricted join without authoriser by somebody who left: refused under both readings *)
Example dep_11_agree_concrete :
  let i := set_join_rule JrRestricted (set_new_member (ex_member MsJoin)
             (set_target_member (Some MsLeave) (set_sender_member (Some MsLeave) ex_base))) in
  decide_spec_with (only_off 11) rules_v10 i ex_extra = false /\ decide_spec_with all_on rules_v10 i ex_extra = false.
Proof. vm_compute. split; reflexivity. Qed.

Example dep_12_reachable_concrete :
  let x := {| sx_creator := Some creator; sx_old_named := []; sx_new_named := []; sx_levels_literal := true;
              sx_selection_ok := false; sx_event_id_domain := None; sx_v1v2 := false |} in
  decide_spec_with (only_off 12) rules_v10 ex_join_invited_private x = false
  /\ decide_spec_with all_on rules_v10 ex_join_invited_private x = true.
Proof. vm_compute. split; reflexivity. Qed.

Example dep_13_reachable_concrete :
  let i := set_new_member (ex_member MsLeave) (set_target_member (Some MsKnock) (set_sender_member (Some MsKnock) ex_base)) in
  decide_spec_with (only_off 13) rules_v6 i ex_extra = false /\ decide_spec_with all_on rules_v6 i ex_extra = true.
Proof. vm_compute. split; reflexivity. Qed.

Print Assumptions allowed_refines_spec.
Print Assumptions spec_table_agrees.
Print Assumptions generated_switches_match_spec.
Print Assumptions allowed_model_refines_spec.
Print Assumptions create_rules.
Print Assumptions membership_rules.
Print Assumptions power_levels_rules.
Print Assumptions redaction_rules.
Print Assumptions alias_rules.
Print Assumptions generic_rules.
Print Assumptions different_rooms_refused.
Print Assumptions defaults_when_absent.
Print Assumptions creators_privileged_v12.
Print Assumptions v12_versions_privileged.
Print Assumptions F22_refuted.
Print Assumptions F26_refuted.
Print Assumptions F18_refuted.
Print Assumptions F27_refuted.
Print Assumptions F53_refuted.
Print Assumptions third_party_block_ignored_on_non_invite.
Print Assumptions third_party_block_ignored_on_non_invite_with.
Print Assumptions rules_are_all_departures_on.
Print Assumptions literal_is_all_departures_off.
Print Assumptions dep_only_differs_when.
Print Assumptions dep_1_only_differs_when.
Print Assumptions dep_2_only_differs_when.
Print Assumptions dep_3_only_differs_when.
Print Assumptions dep_4_only_differs_when.
Print Assumptions dep_5_only_differs_when.
Print Assumptions dep_6_only_differs_when.
Print Assumptions dep_7_only_differs_when.
Print Assumptions dep_8_only_differs_when.
Print Assumptions dep_9_only_differs_when.
Print Assumptions dep_10_only_differs_when.
Print Assumptions dep_11_never_differs.
Print Assumptions dep_12_only_differs_when.
Print Assumptions dep_13_only_differs_when.
Print Assumptions literal_differs_only_under_departures.
Print Assumptions literal_differs_only_under_departures_json.
