(* C07 — placeholder while the model is being tied to the code; theorems follow. *)
From Verif Require Import Lib.Bytes Auth.Types Auth.Decide.

Theorem different_rooms_refused :
  forall a, ai_provider_ok a = true -> ai_one_room a = false -> decide_model a = VNotAllowed.
Proof. intros a H1 H2. unfold decide_model. rewrite H1, H2. reflexivity. Qed.

Print Assumptions different_rooms_refused.
