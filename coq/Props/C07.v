(* C07 — Event authorisation decides exactly what the Matrix authorisation rules decide.

   Model: Auth/Abs.v (JSON events -> abstract input, executable, tied to Allowed by the
   correspondence check) and Auth/Decide.v (the library's decision procedure on that input).
   Specification: Auth/AllowedSpec.v (the rule list of the Matrix specification in its own order,
   with the documented departures of DESIGN.md 6.1 as named definitions dep_...).
   The theorems hold for every abstract input (no bounds). Where the unchanged library differs
   from the rules and the difference is a finding, the input class is excluded by a named
   hypothesis (no_F18, no_tpi_on_non_invite, no_F22, no_F26, no_broken_power_levels) and a
   ..._refuted witness shows the difference on a concrete input. *)
From Verif Require Import Lib.Bytes Json.Ast Auth.GoJson Auth.Ids Auth.Types Auth.Versions Auth.Abs
     Auth.Decide Auth.Model Auth.AllowedSpec Auth.PLSpec Auth.PLProofs Auth.SpecProofs.
Open Scope Z_scope.

(* the rules accept exactly when the library's procedure answers "allowed" *)
Theorem allowed_refines_spec :
  forall a sv,
    rules_agree (ai_flags a) sv -> auth_wf sv a ->
    no_F18 a -> no_tpi_on_non_invite a -> no_F22 sv a -> no_F26 a -> no_broken_power_levels a ->
    decide_spec sv a = accepted (decide_model a).
Proof. exact refines_spec. Qed.

(* the switches generated from eventversion.go agree with the specification's version matrix for
   every version of the table (F10, the missing restricted-join switch of org.matrix.msc3787, is
   repaired) *)
Theorem spec_table_agrees :
  forall ver f sv,
    In ver all_versions ->
    flags_of_version ver = Some f -> spec_rules_of ver = Some sv -> rules_agree f sv.
Proof. exact version_rules_agree. Qed.

(* stronger: version by version, every switch authorisation reads -- knocking, restricted joins,
   the power-level checker, the level parser, the create checker, privileged creators, pseudo IDs,
   the event format -- is the one the hand-written specification matrix prescribes. A table entry
   rewired in eventversion.go breaks this proof, and the specification oracles, which read events
   with spec_flags_of only, then disagree with the implementation on concrete inputs. *)
Theorem generated_switches_match_spec :
  forall ver, In ver all_versions -> flags_of_version ver = spec_flags_of ver.
Proof. exact version_flags_eq_spec. Qed.

(* on JSON events, through abs: Allowed (model) accepts iff the rules accept *)
Theorem allowed_model_refines_spec :
  forall sig_ok ver f sv e auths,
    In ver all_versions ->
    flags_of_version ver = Some f -> spec_rules_of ver = Some sv ->
    let a := abs sig_ok f e auths in
    auth_wf sv a ->
    no_F18 a -> no_tpi_on_non_invite a -> no_F22 sv a -> no_F26 a -> no_broken_power_levels a ->
    (decide_spec sv a = true <-> allowed_model sig_ok ver e auths = Some VOk).
Proof.
  intros sig_ok ver f sv e auths Hin Hf Hs a Hwf H18 Ht H22 H26 Hnb.
  unfold allowed_model. rewrite Hf. fold a.
  rewrite (refines_spec a sv (version_rules_agree ver f sv Hin Hf Hs) Hwf H18 Ht H22 H26 Hnb).
  destruct (decide_model a); simpl; split; congruence.
Qed.

(* families (each for every input of its event type) *)
Theorem create_rules :
  forall a sv, rules_agree (ai_flags a) sv -> auth_wf sv a -> no_F22 sv a -> ai_kind a = KCreate ->
    spec_create sv a = accepted (decide_create a).
Proof. exact SpecProofs.create_rules. Qed.

Theorem membership_rules :
  forall a sv, rules_agree (ai_flags a) sv -> auth_wf sv a ->
    no_F18 a -> no_tpi_on_non_invite a -> no_F26 a ->
    spec_member sv a = accepted (decide_member a).
Proof. exact member_rules. Qed.

Theorem power_levels_rules :
  forall a sv, rules_agree (ai_flags a) sv -> no_broken_power_levels a ->
    spec_power_levels sv a = accepted (decide_power_levels a).
Proof. exact SpecProofs.power_levels_rules. Qed.

Theorem redaction_rules :
  forall a sv, rules_agree (ai_flags a) sv -> spec_redaction sv a = accepted (decide_redaction a).
Proof. exact SpecProofs.redaction_rules. Qed.

Theorem alias_rules :
  forall a sv, rules_agree (ai_flags a) sv -> spec_aliases sv a = accepted (decide_aliases a).
Proof. exact SpecProofs.alias_rules. Qed.

Theorem generic_rules :
  forall a sv, rules_agree (ai_flags a) sv ->
    (match spec_generic sv a with Some _ => true | None => false end) = accepted (decide_default a).
Proof. exact SpecProofs.generic_rules. Qed.

(* events whose auth events come from different rooms are refused *)
Theorem different_rooms_refused :
  forall a, ai_provider_ok a = true -> ai_one_room a = false -> decide_model a = VNotAllowed.
Proof. intros a H1 H2. unfold decide_model. rewrite H1, H2. reflexivity. Qed.

(* defaults when power-levels, join-rules or member events are absent *)
Theorem defaults_when_absent :
  forall sig_ok f e auths,
    let a := abs sig_ok f e auths in
    (find_auth t_power_levels [] auths = None ->
       ai_pl_present a = false /\
       ai_pl a = pl_absent (match ai_create a with Some c => c_sender c | None => [] end))
    /\ (find_auth t_join_rules [] auths = None -> ai_join_rule a = JrInvite)
    /\ (find_auth t_member (ev_sender e) auths = None -> ai_sender_member a = Some MsLeave)
    /\ (forall creator,
          let p := pl_absent creator in
          pl_ban p = 50 /\ pl_kick p = 50 /\ pl_redact p = 50 /\ pl_invite p = 0
          /\ pl_state_default p = 50 /\ pl_events_default p = 0 /\ pl_users_default p = 0
          /\ pl_user_level p creator = 9007199254740991
          /\ (forall u, u <> creator -> pl_user_level p u = 0)
          /\ (forall n, pl_notif_level p n = 50)).
Proof.
  intros sig_ok f e auths a. repeat split.
  - unfold a, abs. cbn [ai_pl_present]. unfold pl_of_auths. rewrite H. reflexivity.
  - unfold a, abs. cbn [ai_pl ai_create]. unfold pl_of_auths. rewrite H. reflexivity.
  - intro H. unfold a, abs. cbn [ai_join_rule]. unfold join_rule_of. rewrite H. reflexivity.
  - intro H. unfold a, abs. cbn [ai_sender_member]. unfold member_from_auth. rewrite H. reflexivity.
  - rewrite absent_user_level, bytes_eqb_refl. reflexivity.
  - intros u Hu. rewrite absent_user_level. apply bytes_eqb_neq in Hu. rewrite Hu. reflexivity.
Qed.

(* creators are privileged in version 12: their level is 2^53 whatever the power-levels event
   says, it satisfies every required level an integer-only content can express, and an accepted
   power-levels event can never name them (C08 clause 5) *)
Theorem creators_privileged_v12 :
  forall f c present pl u,
    vf_priv_creators f = true -> In u (creators_of c) ->
    user_power_level f c present pl u = creator_level
    /\ creator_level = 2 ^ 53
    /\ (forall old new sender, flags_consistent f -> old_wf c present old ->
          pl_change_allowed f c present old new sender = VOk -> ~ In u (map fst (pl_users new))).
Proof.
  intros f c present pl u Hp Hin. repeat split.
  - unfold user_power_level. rewrite Hp. apply mem_bytes_In in Hin. rewrite Hin. reflexivity.
  - intros old new sender Hc Hw Hacc.
    destruct (accept_no_escalation f c present old new sender Hc Hw Hacc) as (_ & _ & _ & _ & _ & H5).
    exact (H5 Hp u Hin).
Qed.

Theorem v12_versions_privileged :
  forall ver f, In ver [bs "12"; bs "org.matrix.hydra.11"] -> flags_of_version ver = Some f ->
    vf_priv_creators f = true.
Proof.
  intros ver f Hin Hf. simpl in Hin.
  destruct Hin as [<-|[<-|[]]]; vm_compute in Hf; inversion Hf; reflexivity.
Qed.

(* ---------- the finding classes are real: concrete inputs on which the library differs ---------- *)
Definition wit_flags (cc : create_checker) : ver_flags :=
  {| vf_knocking := true; vf_restricted := Some true; vf_pl_check := PlV2; vf_int_levels := true;
     vf_create_check := cc; vf_priv_creators := false; vf_pseudo_ids := false; vf_event_v3 := false |}.
Definition wit_rules (creator_required : bool) : spec_rules :=
  mk_rules true true true creator_required true false false false.
Definition wit_create : create_info :=
  {| c_room := bs "!r:hs1"; c_event_id := bs "$c"; c_sender := bs "@creator:hs1";
     c_sender_domain := bs "hs1"; c_federate := true; c_room_version := Some (bs "10");
     c_additional := [] |}.
Definition wit_input (f : ver_flags) (k : ekind) (sk : option bytes) (jr : jrule)
           (nm : option member_info) (tm : option mship) (cc : create_check)
           (tpi_ev : option (option (list bytes))) (sig sender_ok : bool) : auth_input :=
  {| ai_flags := f; ai_provider_ok := true; ai_one_room := true; ai_kind := k;
     ai_type := bs "m.room.member"; ai_room := bs "!r:hs1"; ai_room_kind := RoomWithDomain (bs "hs1");
     ai_sender := bs "@alice:hs1"; ai_sender_domain := Some (bs "hs1"); ai_state_key := sk;
     ai_prev := [bs "$p"]; ai_create := Some wit_create; ai_pl_present := false;
     ai_pl := pl_absent (bs "@creator:hs1"); ai_join_rule := jr;
     ai_sender_member := Some MsJoin; ai_new_member := nm; ai_target_member := tm;
     ai_tpi_event := tpi_ev; ai_sig_ok := sig; ai_sig_ok_spec := sig; ai_tpi_sender_ok := sender_ok;
     ai_via_split_ok := false; ai_via_member := None; ai_new_pl := None; ai_new_pl_users_ok := true;
     ai_redacts_domain := None; ai_cc := cc |}.
Definition cc_ok (known : bool) : create_check :=
  {| cc_content_ok := true; cc_has_creator := false; cc_room_version_known := known;
     cc_additional_ok := true; cc_room_id_present := true |}.

(* F22: a version-11 create event with an unknown room_version is allowed *)
Theorem F22_refuted :
  let a := wit_input (wit_flags CrV2) KCreate (Some []) JrInvite None None (cc_ok false) None false false in
  let a := {| ai_flags := ai_flags a; ai_provider_ok := true; ai_one_room := true; ai_kind := KCreate;
              ai_type := bs "m.room.create"; ai_room := ai_room a; ai_room_kind := ai_room_kind a;
              ai_sender := ai_sender a; ai_sender_domain := ai_sender_domain a; ai_state_key := Some [];
              ai_prev := []; ai_create := None; ai_pl_present := false; ai_pl := ai_pl a;
              ai_join_rule := JrInvite; ai_sender_member := Some MsLeave; ai_new_member := None;
              ai_target_member := None; ai_tpi_event := None; ai_sig_ok := false; ai_sig_ok_spec := false;
              ai_tpi_sender_ok := false; ai_via_split_ok := false; ai_via_member := None;
              ai_new_pl := None; ai_new_pl_users_ok := true; ai_redacts_domain := None;
              ai_cc := cc_ok false |} in
  rules_agree (ai_flags a) (wit_rules false) /\ decide_model a = VOk /\ decide_spec (wit_rules false) a = false.
Proof. cbv zeta. split; [|split; vm_compute; reflexivity]. repeat split; try reflexivity; discriminate. Qed.

(* F26: knock -> join under join rule public is refused *)
Theorem F26_refuted :
  let m := {| m_membership := MsJoin; m_tpi := None; m_via := []; m_mapping := None |} in
  let a := wit_input (wit_flags CrV1) KMember (Some (bs "@alice:hs1")) JrPublic (Some m) (Some MsKnock)
                     (cc_ok true) None false false in
  let a := {| ai_flags := ai_flags a; ai_provider_ok := true; ai_one_room := true; ai_kind := KMember;
              ai_type := ai_type a; ai_room := ai_room a; ai_room_kind := ai_room_kind a;
              ai_sender := ai_sender a; ai_sender_domain := ai_sender_domain a; ai_state_key := ai_state_key a;
              ai_prev := ai_prev a; ai_create := ai_create a; ai_pl_present := false; ai_pl := ai_pl a;
              ai_join_rule := JrPublic; ai_sender_member := Some MsKnock; ai_new_member := Some m;
              ai_target_member := Some MsKnock; ai_tpi_event := None; ai_sig_ok := false; ai_sig_ok_spec := false;
              ai_tpi_sender_ok := false; ai_via_split_ok := false; ai_via_member := None;
              ai_new_pl := None; ai_new_pl_users_ok := true; ai_redacts_domain := None;
              ai_cc := cc_ok true |} in
  decide_model a = VNotAllowed /\ decide_spec (wit_rules true) a = true.
Proof. vm_compute. split; reflexivity. Qed.

(* F18: a third-party invite for a banned target, or by another sender than the one who sent the
   m.room.third_party_invite event, is accepted *)
Theorem F18_refuted :
  let t := {| t_mxid := bs "@bob:hs2"; t_token := bs "tok"; t_sigs := [(bs "id", bs "ed25519:1")] |} in
  let m := {| m_membership := MsInvite; m_tpi := Some t; m_via := []; m_mapping := None |} in
  let banned := wit_input (wit_flags CrV1) KMember (Some (bs "@bob:hs2")) JrInvite (Some m) (Some MsBan)
                          (cc_ok true) (Some (Some [bs "key"])) true true in
  let other := wit_input (wit_flags CrV1) KMember (Some (bs "@bob:hs2")) JrInvite (Some m) (Some MsLeave)
                         (cc_ok true) (Some (Some [bs "key"])) true false in
  decide_model banned = VOk /\ decide_spec (wit_rules true) banned = false
  /\ decide_model other = VOk /\ decide_spec (wit_rules true) other = false.
Proof. vm_compute. repeat split; reflexivity. Qed.

(* non-vacuity of the main theorem: an ordinary accepted invite satisfies every hypothesis *)
Example allowed_refines_spec_concrete :
  let m := {| m_membership := MsInvite; m_tpi := None; m_via := []; m_mapping := None |} in
  let a := wit_input (wit_flags CrV1) KMember (Some (bs "@bob:hs2")) JrInvite (Some m) (Some MsLeave)
                     (cc_ok true) None false false in
  rules_agree (ai_flags a) (wit_rules true) /\ auth_wf (wit_rules true) a
  /\ no_F18 a /\ no_tpi_on_non_invite a /\ no_F22 (wit_rules true) a /\ no_F26 a /\ no_broken_power_levels a
  /\ decide_model a = VOk /\ decide_spec (wit_rules true) a = true.
Proof.
  cbv zeta.
  split. { repeat split; try reflexivity; discriminate. }
  split. { split; [reflexivity|]. split; [discriminate|]. split.
           - intro H. discriminate.
           - intro H. vm_compute in H. discriminate. }
  split. { intros m t keys H. vm_compute in H. inversion H; subst. discriminate. }
  split. { intros m t H. vm_compute in H. inversion H; subst. discriminate. }
  split. { intro H. discriminate. }
  split. { intros m H. vm_compute in H. inversion H; subst. discriminate. }
  split. { intros c H. vm_compute in H. inversion H; subst. reflexivity. }
  split; vm_compute; reflexivity.
Qed.

Print Assumptions allowed_refines_spec.
Print Assumptions spec_table_agrees.
Print Assumptions generated_switches_match_spec.
Print Assumptions allowed_model_refines_spec.
Print Assumptions create_rules.
Print Assumptions membership_rules.
Print Assumptions power_levels_rules.
Print Assumptions redaction_rules.
Print Assumptions alias_rules.
Print Assumptions generic_rules.
Print Assumptions different_rooms_refused.
Print Assumptions defaults_when_absent.
Print Assumptions creators_privileged_v12.
Print Assumptions v12_versions_privileged.
Print Assumptions F22_refuted.
Print Assumptions F26_refuted.
Print Assumptions F18_refuted.
