(* C08 — Power-level changes can never escalate privilege.

   Model: Auth/Decide.v (pl_change_allowed = checkEventLevels + the version's CheckPowerLevelEvent +
   checkUserLevels, as tied to the code by the correspondence check); specification:
   Auth/PLSpec.v (no_escalation: the five clauses, over effective values). All statements are for
   every old/new content, sender, create event and version switches (no size bounds).

   Reading of the text fixed here: "no other user whose current level is at least the sender's
   has been changed or removed" speaks about entries of the users map of the old or new content
   (clause 4b); for users named in neither map the level is users_default, which is one of the
   thresholds of clause 1 (changing it needs old <= L, as the Matrix rule for users_default says),
   see users_default_at_equality_concrete below. *)
From Verif Require Import Lib.Bytes Json.Ast Json.Parse Auth.GoJson Auth.Ids Auth.Types Auth.Versions Auth.Abs
     Auth.Decide Auth.Model Auth.PLSpec Auth.PLProofs Auth.AllowedSpec Auth.SpecProofs.
Open Scope Z_scope.

(* (1)-(5) for every accepted change; L is the sender's effective level (userPowerLevel) *)
Theorem pl_accept_no_escalation :
  forall f c present old new sender L,
    flags_consistent f -> old_wf c present old ->
    L = user_power_level f c present old sender ->
    pl_change_allowed f c present old new sender = VOk ->
    no_escalation f c L sender old new.
Proof. intros f c present old new sender L Hc Hw ->. apply accept_no_escalation; assumption. Qed.

(* the two side conditions hold for every version of the generated table and for every
   current content the context can hold *)
Theorem every_version_consistent :
  forall ver f, In ver all_versions -> flags_of_version ver = Some f -> flags_consistent f.
Proof. exact version_flags_consistent. Qed.

(* end to end: an m.room.power_levels event that Allowed accepts (model on JSON events) *)
Theorem allowed_pl_no_escalation :
  forall sig_ok ver f e auths,
    In ver all_versions -> flags_of_version ver = Some f ->
    ev_type e = t_power_levels ->
    allowed_model sig_ok ver e auths = Some VOk ->
    exists c new,
      let a := abs sig_ok f e auths in
      ai_create a = Some c /\ ai_new_pl a = Some new /\
      no_escalation f c (user_power_level f c (ai_pl_present a) (ai_pl a) (ev_sender e))
                    (ev_sender e) (ai_pl a) new.
Proof.
  intros sig_ok ver f e auths Hin Hf Hty Hok.
  unfold allowed_model in Hok. rewrite Hf in Hok. inversion Hok as [Hd]. clear Hok.
  unfold decide_model in Hd.
  destruct (negb (ai_provider_ok _)); [discriminate|].
  destruct (negb (ai_one_room _)); [discriminate|].
  assert (Hk : ai_kind (abs sig_ok f e auths) = KPowerLevels).
  { unfold abs. cbn [ai_kind]. rewrite Hty. reflexivity. }
  rewrite Hk in Hd.
  destruct (ai_room_kind _); [discriminate| |];
  (unfold decide_power_levels in Hd;
   destruct (common_checks _) as [v|] eqn:Ecc; [exfalso; exact (common_checks_not_ok _ _ Ecc Hd)|];
   destruct (ai_create (abs sig_ok f e auths)) as [c|] eqn:Ec; [|discriminate];
   destruct (ai_new_pl (abs sig_ok f e auths)) as [new|] eqn:En; [|discriminate];
   destruct (negb (ai_new_pl_users_ok _)); [discriminate|];
   exists c, new; cbv zeta; split; [exact Ec|split; [exact En|]];
   apply accept_no_escalation;
   [ eapply version_flags_consistent; eauto
   | apply abs_old_wf; assumption
   | exact Hd ]).
Qed.

(* history form: one step, and every history from the room's initial state *)
Theorem pl_step_monotone :
  forall f c present cur s,
    flags_consistent f -> old_wf c present cur ->
    pl_change_allowed f c present cur (st_new s) (st_sender s) = VOk ->
    forall u, pl_user_level (st_new s) u <=
              Z.max (pl_user_level cur u) (user_power_level f c present cur (st_sender s)).
Proof. exact step_bound. Qed.

Theorem pl_history_monotone :
  forall f c steps present cur B,
    flags_consistent f -> old_wf c present cur ->
    creator_level <= B -> (forall u, pl_user_level cur u <= B) ->
    accepted_history f c present cur steps ->
    forall u, pl_user_level (final_content cur steps) u <= B.
Proof.
  intros f c steps present cur B Hc Hw HB Hb Hacc.
  exact (history_bounded f c Hc steps present cur B Hw HB Hb Hacc).
Qed.

(* from the initial state of a room (no power-levels event) nobody ever exceeds the creator level *)
Theorem pl_history_from_creation :
  forall f c steps,
    flags_consistent f ->
    accepted_history f c false (pl_absent (c_sender c)) steps ->
    forall u, pl_user_level (final_content (pl_absent (c_sender c)) steps) u <= creator_level.
Proof.
  intros f c steps Hc Hacc.
  apply (history_bounded f c Hc steps false (pl_absent (c_sender c)) creator_level).
  - intros _. left. reflexivity.
  - apply Z.le_refl.
  - intro u. rewrite absent_user_level. destruct (bytes_eqb u (c_sender c)); cbv; congruence.
  - exact Hacc.
Qed.

(* version 10 and later parse levels as integers only: every present level member of an accepted
   content is an integer literal -- or null, which encoding/json skips (see the witness below) *)
Theorem integer_only_from_v10_partial :
  forall o p,
    pl_of_obj true o = Some p ->
    (forall k d, In (k, d) named_specs -> forall j, field k o = Some j -> int_or_null j)
    /\ (forall mk, In mk [k_users; k_events; k_notifications] ->
        forall m, field mk o = Some (JObj m) -> forall k v, In (k, v) m -> int_or_null v).
Proof. exact strict_parse_integer_only. Qed.

Theorem v10_and_later_integer_only :
  forall ver f,
    In ver all_versions -> flags_of_version ver = Some f ->
    vf_int_levels f = spec_int_levels ver.
Proof.
  intros ver f Hin Hf. rewrite (version_flags_eq_spec ver Hin) in Hf.
  unfold spec_flags_of in Hf. destruct (spec_rules_of ver); inversion Hf. reflexivity.
Qed.

(* the hand-written list: versions 10, 11, 12 and the unstable versions built on them or
   introducing the rule *)
Example integer_only_versions_concrete :
  spec_int_level_versions =
  [bs "10"; bs "11"; bs "12"; bs "org.matrix.msc4014"; bs "org.matrix.msc3667"; bs "org.matrix.hydra.11"]
  /\ spec_int_levels (bs "9") = false /\ spec_int_levels (bs "org.matrix.msc3787") = false.
Proof. vm_compute. repeat split; reflexivity. Qed.

(* the faithful model refutes the unqualified claim: a null level is accepted in version 10+ *)
Theorem null_level_accepted_refuted :
  exists o p, pl_of_obj true o = Some p /\ field k_ban o = Some JNull.
Proof.
  exists [(k_ban, JNull)]. eexists. split; [vm_compute; reflexivity|reflexivity].
Qed.

(* ---- non-vacuity ---- *)
Definition ex_create : create_info :=
  {| c_room := bs "!r:hs1"; c_event_id := bs "$c"; c_sender := bs "@creator:hs1";
     c_sender_domain := bs "hs1"; c_federate := true; c_room_version := Some (bs "10");
     c_additional := [] |}.
Definition ex_flags : ver_flags :=
  {| vf_knocking := true; vf_restricted := Some true; vf_pl_check := PlV2; vf_int_levels := true;
     vf_create_check := CrV1; vf_priv_creators := false; vf_pseudo_ids := false; vf_event_v3 := false |}.
Definition ex_old : pl_content :=
  {| pl_ban := 50; pl_invite := 0; pl_kick := 50; pl_redact := 50; pl_users_default := 0;
     pl_events_default := 0; pl_state_default := 50;
     pl_users := [(bs "@alice:hs1", 50); (bs "@bob:hs2", 10)]; pl_events := []; pl_notifs := [] |}.
Definition ex_new : pl_content :=
  {| pl_ban := 40; pl_invite := 0; pl_kick := 50; pl_redact := 50; pl_users_default := 0;
     pl_events_default := 0; pl_state_default := 50;
     pl_users := [(bs "@alice:hs1", 50); (bs "@bob:hs2", 50)]; pl_events := [];
     pl_notifs := [(bs "room", 40)] |}.

Example accepted_change_concrete :
  pl_change_allowed ex_flags ex_create true ex_old ex_new (bs "@alice:hs1") = VOk
  /\ flags_consistent ex_flags /\ old_wf ex_create true ex_old.
Proof. split; [vm_compute; reflexivity|]. split; [split; discriminate|intro; discriminate]. Qed.

(* raising users_default above one's level is refused (F6 repaired) *)
Example users_default_raise_concrete :
  pl_change_allowed ex_flags ex_create true ex_old
    {| pl_ban := 50; pl_invite := 0; pl_kick := 50; pl_redact := 50; pl_users_default := 100;
       pl_events_default := 0; pl_state_default := 50;
       pl_users := pl_users ex_old; pl_events := []; pl_notifs := [] |} (bs "@alice:hs1") = VNotAllowed.
Proof. vm_compute. reflexivity. Qed.

(* users_default at equality: a level-50 sender may lower users_default from 50, although users
   named in no map thereby drop from 50 (the Matrix rule for users_default; outside clause 4b) *)
Example users_default_at_equality_concrete :
  let old := {| pl_ban := 50; pl_invite := 0; pl_kick := 50; pl_redact := 50; pl_users_default := 50;
                pl_events_default := 0; pl_state_default := 50;
                pl_users := []; pl_events := []; pl_notifs := [] |} in
  let new := {| pl_ban := 50; pl_invite := 0; pl_kick := 50; pl_redact := 50; pl_users_default := 0;
                pl_events_default := 0; pl_state_default := 50;
                pl_users := []; pl_events := []; pl_notifs := [] |} in
  pl_change_allowed ex_flags ex_create true old new (bs "@alice:hs1") = VOk
  /\ pl_user_level old (bs "@zed:hs9") = 50 /\ pl_user_level new (bs "@zed:hs9") = 0.
Proof. vm_compute. repeat split; reflexivity. Qed.

Example history_concrete :
  accepted_history ex_flags ex_create false (pl_absent (c_sender ex_create))
    [ {| st_sender := bs "@creator:hs1"; st_new := ex_old |};
      {| st_sender := bs "@alice:hs1"; st_new := ex_new |} ].
Proof. vm_compute. repeat split; reflexivity. Qed.

Print Assumptions pl_accept_no_escalation.
Print Assumptions every_version_consistent.
Print Assumptions allowed_pl_no_escalation.
Print Assumptions pl_step_monotone.
Print Assumptions pl_history_monotone.
Print Assumptions pl_history_from_creation.
Print Assumptions integer_only_from_v10_partial.
Print Assumptions v10_and_later_integer_only.
Print Assumptions null_level_accepted_refuted.
