(* Property C09: an auth verdict depends only on the event and the state it needs.

   Vocabulary.
     state_needed / tuples / add_auth_events   Auth/StateNeeded.v   model of StateNeededForAuth,
                                               StateNeeded.Tuples, EventBuilder.AddAuthEvents
     allowed9 sig f e st                       Auth/CheckerAuth.v   the auth verdict: C07's executable
                                               model (decide_model on abs) with the empty-token repair
     needed7 e                                 Auth/C09Needed.v     the (type, state_key) pairs under which
                                               the check consults the provider (its read-set)
     run_checker9 / one_shot9                  Auth/Checker.v, CheckerAuth.v   one allowerContext fed many
                                               (provider, event) pairs / a new context per pair
   st, st' are auth states as supplied: lists of events in insertion order (NewAuthEvents). *)
From Verif Require Import Lib.Bytes Json.Ast Json.Parse.
From Verif Require Import Auth.StateNeeded Auth.StateNeededProofs Auth.Checker Auth.CheckerProofs.
From Verif Require Import Auth.GoJson Auth.Ids Auth.Types Auth.Versions Auth.Abs Auth.Decide Auth.Model.
From Verif Require Import Auth.CheckerAuth Auth.CheckerAuthProofs Auth.C09Needed Auth.C09NeededProofs Auth.C09OrderProofs Auth.C09LinkProofs.
From Coq Require Import Sorted Permutation.
Open Scope N_scope.

(* ---------------- needed state ---------------- *)

(* the member and third-party-invite keys of a needed-state value are sorted and duplicate-free,
   and are exactly the accumulated ones (util.UniqueStrings) *)
Theorem state_needed_keys_unique : forall es,
  NoDup (n_member (state_needed_list es)) /\ NoDup (n_tpi (state_needed_list es)) /\
  Sorted blt (n_member (state_needed_list es)) /\ Sorted blt (n_tpi (state_needed_list es)).
Proof.
  intro es. unfold state_needed_list, finish. simpl.
  repeat split; auto using unique_strings_nodup, unique_strings_sorted.
Qed.

(* add_auth_events_covers_needed: the references AddAuthEvents stores cover every needed tuple
   the provider has an event for; in a domainless (v12) room the create event is left out exactly
   when its ID is the room ID without the sigil, which every reader re-derives from the room ID *)
Theorem add_auth_events_covers_needed :
  forall ver room typ sender sk content st n ids,
    state_needed_proto typ sender sk content = Some n ->
    add_auth_events ver room typ sender sk content st = Some ids ->
    forall k e, In k (tuples n) -> lookup st k = Some e ->
      In (StateNeeded.ev_id e) ids \/
      (domainless_room_ids ver = true /\ room <> [] /\ StateNeeded.ev_id e = 36 :: tl room).
Proof. exact add_auth_events_covers. Qed.

Theorem add_auth_events_references_only_needed :
  forall ver room typ sender sk content st n ids,
    state_needed_proto typ sender sk content = Some n ->
    add_auth_events ver room typ sender sk content st = Some ids ->
    forall id, In id ids -> exists k e, In k (tuples n) /\ lookup st k = Some e /\ StateNeeded.ev_id e = id.
Proof. exact add_auth_events_only_needed. Qed.

(* what the builder computes for the proto event is what every server computes for the built event *)
Theorem proto_needed_is_event_needed :
  forall typ sender sk c n e,
    state_needed_proto typ sender sk (Some c) = Some n ->
    StateNeeded.ev_type e = typ -> StateNeeded.ev_sender e = sender ->
    StateNeeded.ev_state_key e = sk -> StateNeeded.ev_content e = c ->
    state_needed e = n.
Proof. exact StateNeededProofs.proto_needed_is_event_needed. Qed.

(* ---------------- the verdict depends on the needed state only ---------------- *)

(* verdict_depends_on_needed_only. Two auth states that answer the lookups of the read-set alike
   give the same verdict. provider_ok (NewAuthEvents accepts the list: state events only) and
   valid9 (AuthEvents.Valid: the entries HELD - the last event of every key - are of one room) are
   the two tests Allowed makes on the provider as a whole. *)
Theorem verdict_depends_on_needed_only :
  forall sig f e st st',
    (forall ty sk, In (ty, sk) (needed7 e) -> find_auth ty sk st = find_auth ty sk st') ->
    provider_ok st = provider_ok st' -> valid9 f st = valid9 f st' ->
    allowed9 sig f e st = allowed9 sig f e st'.
Proof. exact allowed9_depends_on_needed7. Qed.

(* same on every evaluation: the verdict is a function (no hidden state) -- immediate for a
   Gallina function; stated for completeness of the property text *)
Theorem verdict_same_on_every_evaluation :
  forall sig f e st, allowed9 sig f e st = allowed9 sig f e st.
Proof. reflexivity. Qed.

(* verdict_order_independent: any supply order of a state with one event per key *)
Theorem verdict_order_independent :
  forall sig f e st st',
    NoDup (map key7 st) -> Permutation st st' ->
    allowed9 sig f e st = allowed9 sig f e st'.
Proof.
  intros sig f e st st' ND P. apply allowed9_depends_on_needed7.
  - intros ty sk _. apply find_auth_permutation; assumption.
  - apply provider_ok_permutation; exact P.
  - apply valid9_permutation; assumption.
Qed.

(* unrelated state added (after or before): state events filed under keys the check does not
   read, which leave the Valid() test as it was (e.g. events of the same room) *)
Theorem verdict_ignores_added_state :
  forall sig f e st extra,
    (forall ty sk x, In (ty, sk) (needed7 e) -> In x extra -> matches7 (ty, sk) x = false) ->
    provider_ok extra = true ->
    valid9 f (st ++ extra) = valid9 f st -> valid9 f (extra ++ st) = valid9 f st ->
    allowed9 sig f e (st ++ extra) = allowed9 sig f e st /\
    allowed9 sig f e (extra ++ st) = allowed9 sig f e st.
Proof.
  intros sig f e st extra U PO OR OR'. split; apply allowed9_depends_on_needed7.
  - intros ty sk K. apply (find_auth_add_unrelated ty sk st extra). intros x Hx. apply (U ty sk x K Hx).
  - unfold provider_ok in *. rewrite forallb_app, PO, andb_true_r. reflexivity.
  - exact OR.
  - intros ty sk K. apply (find_auth_add_unrelated ty sk st extra). intros x Hx. apply (U ty sk x K Hx).
  - unfold provider_ok in *. rewrite forallb_app, PO. reflexivity.
  - exact OR'.
Qed.

(* ... in particular when everything supplied is of one room *)
Corollary verdict_ignores_added_state_of_the_room :
  forall sig f e st extra,
    (forall ty sk x, In (ty, sk) (needed7 e) -> In x extra -> matches7 (ty, sk) x = false) ->
    provider_ok extra = true -> one_room f (st ++ extra) = true ->
    allowed9 sig f e (st ++ extra) = allowed9 sig f e st /\
    allowed9 sig f e (extra ++ st) = allowed9 sig f e st.
Proof.
  intros sig f e st extra U PO OR. apply verdict_ignores_added_state; auto.
  - rewrite (valid9_of_one_room f (st ++ extra) (st ++ extra) OR (fun x H => H)).
    symmetry. apply (valid9_of_one_room f (st ++ extra)); [exact OR|]. intros x H. apply in_or_app. left. exact H.
  - rewrite (valid9_of_one_room f (st ++ extra) (extra ++ st) OR).
    + symmetry. apply (valid9_of_one_room f (st ++ extra)); [exact OR|]. intros x H. apply in_or_app. left. exact H.
    + intros x H. apply in_app_or in H. apply in_or_app. tauto.
Qed.

(* unrelated state removed: any sub-state that keeps the events filed under the read keys *)
Theorem verdict_ignores_removed_state :
  forall sig f e st keep,
    (forall ty sk x, In (ty, sk) (needed7 e) -> In x st -> matches7 (ty, sk) x = true -> keep x = true) ->
    provider_ok st = true -> one_room f st = true ->
    allowed9 sig f e (filter keep st) = allowed9 sig f e st.
Proof.
  intros sig f e st keep K PO OR. apply allowed9_depends_on_needed7.
  - intros ty sk I. apply find_auth_filter. intros x Hx M. apply (K ty sk x I Hx M).
  - rewrite PO. unfold provider_ok in *. rewrite forallb_forall in *.
    intros x Hx. apply filter_In in Hx as [Hx _]. apply PO. exact Hx.
  - rewrite (valid9_of_one_room f st st OR (fun x H => H)).
    apply (valid9_of_one_room f st); [exact OR|]. intros x Hx. apply filter_In in Hx. tauto.
Qed.

(* the verdict is that of the entries the provider HOLDS after the events were added in this
   order - the last event of every (type, state_key): an entry that was replaced plays no part,
   not even through its room (AuthEvents.Valid after repair F59) *)
Theorem verdict_depends_on_entries_held :
  forall sig f e st, provider_ok st = true ->
    allowed9 sig f e st = allowed9 sig f e (held7 st).
Proof.
  intros sig f e st PO. apply allowed9_depends_on_needed7.
  - intros ty sk _. symmetry. apply find_auth_held7.
  - rewrite PO. symmetry. apply provider_ok_held7.
  - symmetry. apply valid9_held7.
Qed.

(* ---------------- the reused checker ---------------- *)

(* checker_reuse_transparent, for any auth model plugged into the cache discipline of
   allowerContext (contents loaded per slot, power-level contents of an EVENT independent of the
   creator): whatever was checked before through the context, same or new provider object, same
   or different or vanished create / power-levels / join-rules events, each verdict is the verdict
   of a new context. ev_of: an event object (token) is one event. *)
Theorem checker_reuse_transparent :
  forall (matches : bytes * bytes -> json -> bool) (sender_of : json -> bytes)
         (CC PC JC V : Type)
         (load_create : option json -> option CC) (load_pl : option json -> bytes -> option PC)
         (load_jr : option json -> option JC)
         (decide : view CC PC JC -> list json -> json -> V * option JC),
    (forall e c1 c2, load_pl (Some e) c1 = load_pl (Some e) c2) ->
    forall (ev_of : N -> json) p0 steps,
      p_wf ev_of p0 -> (forall pe, In pe steps -> p_wf ev_of (fst pe)) ->
      run_checker matches sender_of load_create load_pl load_jr decide
                  (new_context matches sender_of load_create load_pl load_jr p0) steps
      = map (one_shot matches sender_of load_create load_pl load_jr decide) steps.
Proof.
  intros. eapply run_after_new_context; eauto.
Qed.

(* ... and over the auth model: verdict_i = allowed9 e_i provider_i. The hypothesis on one_room
   is the AuthEvents.Valid() test, which Allowed makes and a context fed by state resolution
   does not. *)
Theorem checker_reuse_transparent_auth :
  forall sig f (ev_of : N -> json) p0 steps,
    p_wf ev_of p0 -> (forall pe, In pe steps -> p_wf ev_of (fst pe)) ->
    (forall pe, In pe steps -> valid9 f (p_auths (fst pe)) = true) ->
    run_checker9 sig f (new_context9 f p0) steps =
    map (fun pe => allowed9 sig f (snd pe) (p_auths (fst pe))) steps.
Proof. exact run_checker9_is_allowed9. Qed.

(* C07's allowed_model is this verdict except on member events whose third_party_invite has an
   empty token (rejected by the repaired code without a lookup) *)
Theorem allowed9_is_C07_model :
  forall sig f e st, empty_token_invite e = false -> valid9 f st = one_room f st ->
    allowed9 sig f e st = decide_model (abs (sig e) f e st).
Proof. exact allowed9_is_allowed_model. Qed.

(* ---------------- AddAuthEvents is sufficient ---------------- *)

(* a server that evaluates with exactly the events filed under a key set ks reaches the verdict
   of the server that built the event with its whole state, provided ks contains the read-set *)
Theorem verdict_same_on_state_filed_under_keys :
  forall sig f e st ks,
    (forall k, In k (needed7 e) -> In k ks) ->
    provider_ok st = true -> one_room f st = true ->
    allowed9 sig f e (filter (fun a => existsb (fun k => matches7 k a) ks) st) = allowed9 sig f e st.
Proof.
  intros sig f e st ks Hks PO OR. apply verdict_ignores_removed_state; auto.
  intros ty sk x I Hx M. apply existsb_exists. exists (ty, sk). split; [apply Hks; exact I|exact M].
Qed.

(* the read-set of the check is within the tuples StateNeededForAuth names.  Two vocabularies meet
   here: C07's accessors match member names exactly, StateNeeded.v matches them the way
   encoding/json does (ASCII case ignored, last match wins); they read the same members when no
   member name of the event, its content, the third_party_invite and its signed object is a case
   variant of a field name (exact_keys, Auth/C09Needed.v).  Excluded: a member event whose
   content is null (null_member) -- the needed-state computation fails for it and names nothing,
   while the check looks up the create event before it rejects (only the class of the rejection
   depends on the state). *)
Theorem readset_within_state_needed :
  forall e, exact_keys e = true -> null_member e = false ->
    forall k, In k (needed7 e) -> In k (tuples (state_needed e)).
Proof. exact needed7_within_state_needed. Qed.

(* add_auth_events_sufficient: a server that evaluates with exactly the events filed under the
   tuples of StateNeededForAuth(e) -- what the references stored by AddAuthEvents name
   (add_auth_events_covers_needed, add_auth_events_references_only_needed) -- reaches the verdict of
   the server that built the event with its whole state. *)
Theorem add_auth_events_sufficient :
  forall sig f e st,
    exact_keys e = true -> null_member e = false ->
    provider_ok st = true -> one_room f st = true ->
    allowed9 sig f e (filter (fun a => existsb (fun k => matches7 k a) (tuples (state_needed e))) st)
    = allowed9 sig f e st.
Proof.
  intros sig f e st X NM PO OR. apply verdict_same_on_state_filed_under_keys; auto.
  apply readset_within_state_needed; assumption.
Qed.

(* ---------------- non-vacuity: concrete instances ---------------- *)
Definition x_ev1 : bytes := bs "{""event_id"":""$e1AAAAAAAAAAAAAAAAAAAAAAAAAAAAAAAAAAAAAAAAA"",""type"":""m.room.create"",""sender"":""@alice:a"",""room_id"":""!room:a"",""content"":{""creator"":""@alice:a"",""room_version"":""10""},""prev_events"":[],""auth_events"":[],""depth"":1,""origin_server_ts"":1,""state_key"":""""}".
Definition x_ev2 : bytes := bs "{""event_id"":""$e2AAAAAAAAAAAAAAAAAAAAAAAAAAAAAAAAAAAAAAAAA"",""type"":""m.room.power_levels"",""sender"":""@alice:a"",""room_id"":""!room:a"",""content"":{""users"":{""@alice:a"":100},""invite"":50},""prev_events"":[],""auth_events"":[],""depth"":2,""origin_server_ts"":2,""state_key"":""""}".
Definition x_ev3 : bytes := bs "{""event_id"":""$e3AAAAAAAAAAAAAAAAAAAAAAAAAAAAAAAAAAAAAAAAA"",""type"":""m.room.join_rules"",""sender"":""@alice:a"",""room_id"":""!room:a"",""content"":{""join_rule"":""restricted"",""allow"":[{""type"":""m.room_membership"",""room_id"":""!other:a""}]},""prev_events"":[],""auth_events"":[],""depth"":3,""origin_server_ts"":3,""state_key"":""""}".
Definition x_ev4 : bytes := bs "{""event_id"":""$e4AAAAAAAAAAAAAAAAAAAAAAAAAAAAAAAAAAAAAAAAA"",""type"":""m.room.member"",""sender"":""@alice:a"",""room_id"":""!room:a"",""content"":{""membership"":""join""},""prev_events"":[],""auth_events"":[],""depth"":4,""origin_server_ts"":4,""state_key"":""@alice:a""}".
Definition x_ev5 : bytes := bs "{""event_id"":""$e5AAAAAAAAAAAAAAAAAAAAAAAAAAAAAAAAAAAAAAAAA"",""type"":""m.room.member"",""sender"":""@dave:d"",""room_id"":""!room:a"",""content"":{""membership"":""join"",""join_authorised_via_users_server"":""@alice:a""},""prev_events"":[],""auth_events"":[],""depth"":5,""origin_server_ts"":5,""state_key"":""@dave:d""}".
Definition x_ev6 : bytes := bs "{""event_id"":""$e6AAAAAAAAAAAAAAAAAAAAAAAAAAAAAAAAAAAAAAAAA"",""type"":""m.room.member"",""sender"":""@grace:c"",""room_id"":""!room:a"",""content"":{""membership"":""join""},""prev_events"":[],""auth_events"":[],""depth"":6,""origin_server_ts"":6,""state_key"":""@grace:c""}".
Definition x_ev7 : bytes := bs "{""event_id"":""$e7AAAAAAAAAAAAAAAAAAAAAAAAAAAAAAAAAAAAAAAAA"",""type"":""m.room.topic"",""sender"":""@alice:a"",""room_id"":""!room:a"",""content"":{""topic"":""t""},""prev_events"":[],""auth_events"":[],""depth"":7,""origin_server_ts"":7,""state_key"":""""}".


Definition x_json (t : bytes) : json := match parse_json t with Some j => j | None => JNull end.
Definition x_f : ver_flags :=
  match flags_of_version (bs "10") with Some f => f | None =>
    {| vf_knocking := false; vf_restricted := None; vf_pl_check := PlV1; vf_int_levels := false;
       vf_create_check := CrV1; vf_priv_creators := false; vf_pseudo_ids := false; vf_event_v3 := false |} end.
Definition x_nosig : json -> bytes -> bytes -> bytes -> bool := fun _ _ _ _ => false.
(* tokens 1..7 name the seven event objects *)
Definition x_tok (i : N) (t : bytes) : N * json := (i, x_json t).
Definition x_state : list (N * json) := [x_tok 1 x_ev1; x_tok 2 x_ev2; x_tok 3 x_ev3; x_tok 4 x_ev4].
(* the shared provider object refilled for each step, as state resolution does *)
Definition x_steps : list (provider * json) :=
  [ ({| p_id := 0; p_events := x_state |}, x_json x_ev5);      (* dave joins, authorised by alice *)
    ({| p_id := 0; p_events := [x_tok 1 x_ev1; x_tok 2 x_ev2; x_tok 3 x_ev3] |}, x_json x_ev6);  (* grace joins, nobody authorises *)
    ({| p_id := 0; p_events := [x_tok 2 x_ev2; x_tok 4 x_ev4] |}, x_json x_ev7) ].  (* create event gone *)

(* a three-event sequence over a restricted room: accepted, rejected, rejected -- the second and
   third are the shapes the unrepaired context got wrong (join rule left at public; stale create) *)
Example reuse_instance :
  run_checker9 x_nosig x_f (new_context9 x_f {| p_id := 0; p_events := [] |}) x_steps
  = [VOk; VNotAllowed; VNotAllowed]
  /\ map (fun pe => allowed9 x_nosig x_f (snd pe) (p_auths (fst pe))) x_steps = [VOk; VNotAllowed; VNotAllowed].
Proof. split; vm_compute; reflexivity. Qed.

(* the read-set and the needed state of the authorised join agree, and the hypotheses of the
   permutation theorem are satisfiable *)
Example needed_instance :
  needed7 (x_json x_ev5) =
    [(t_create, []); (t_power_levels, []); (t_member, bs "@dave:d"); (t_member, bs "@dave:d");
     (t_join_rules, []); (t_member, bs "@alice:a")]
  /\ tuples (state_needed (x_json x_ev5)) =
    [(bs "m.room.create", []); (bs "m.room.join_rules", []); (bs "m.room.power_levels", []);
     (bs "m.room.member", bs "@alice:a"); (bs "m.room.member", bs "@dave:d")]
  /\ NoDup (map key7 (map snd x_state)).
Proof.
  split; [vm_compute; reflexivity|]. split; [vm_compute; reflexivity|].
  vm_compute. repeat constructor; simpl; intuition discriminate.
Qed.

(* AddAuthEvents on that join against the room state: the four needed events are referenced *)
Example add_auth_events_instance :
  add_auth_events (bs "10") (bs "!room:a") (bs "m.room.member") (bs "@dave:d") (Some (bs "@dave:d"))
    (parse_json (bs "{""membership"":""join"",""join_authorised_via_users_server"":""@alice:a""}"))
    (map snd x_state ++ [x_json x_ev7])
  = Some [StateNeeded.ev_id (x_json x_ev1); StateNeeded.ev_id (x_json x_ev3); StateNeeded.ev_id (x_json x_ev2);
          StateNeeded.ev_id (x_json x_ev4)].
Proof. vm_compute. reflexivity. Qed.

(* the hypotheses of add_auth_events_sufficient hold of the restricted join above, and its
   read-set is non-trivial: create, power levels, join rules, the joiner and the authoriser *)
Example link_hypotheses_inhabited :
  exact_keys (x_json x_ev5) = true /\ null_member (x_json x_ev5) = false /\
  length (needed7 (x_json x_ev5)) = 6%nat /\
  forallb (fun k => existsb (tuple_eqb k) (tuples (state_needed (x_json x_ev5)))) (needed7 (x_json x_ev5)) = true.
Proof. vm_compute. repeat split; reflexivity. Qed.

(* the cache discipline is what the reuse theorem rests on: a context whose checks write the join
   rule back (the code before the repair) is not transparent -- toy auth model, verdict = the
   cached rule, every check leaves the rule changed *)
Example leaky_context_not_transparent :
  let decide (v : view unit unit bool) (_ : list json) (_ : json) := (v_jr v, Some true) in
  let p := {| p_id := 0; p_events := [(1, JNull)] |} in   (* one event object, filed under every key *)
  let steps := [(p, JNull); (p, JNull)] in
  run_from (fun _ _ => true) (fun _ => []) (fun _ => None) (fun _ _ => None) (fun _ => Some false) decide
           true true (ctx0 unit unit bool) steps
  <> map (one_shot (fun _ _ => true) (fun _ => []) (fun _ => None) (fun _ _ => None) (fun _ => Some false) decide) steps.
Proof. vm_compute. intro H. discriminate H. Qed.

Print Assumptions state_needed_keys_unique.
Print Assumptions add_auth_events_covers_needed.
Print Assumptions add_auth_events_references_only_needed.
Print Assumptions proto_needed_is_event_needed.
Print Assumptions verdict_depends_on_needed_only.
Print Assumptions verdict_same_on_every_evaluation.
Print Assumptions verdict_order_independent.
Print Assumptions verdict_ignores_added_state.
Print Assumptions verdict_ignores_added_state_of_the_room.
Print Assumptions verdict_ignores_removed_state.
Print Assumptions verdict_depends_on_entries_held.
Print Assumptions checker_reuse_transparent.
Print Assumptions checker_reuse_transparent_auth.
Print Assumptions allowed9_is_C07_model.
Print Assumptions verdict_same_on_state_filed_under_keys.
Print Assumptions readset_within_state_needed.
Print Assumptions add_auth_events_sufficient.
