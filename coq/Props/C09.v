(* Property C09 (skeleton; theorems follow). *)
From Verif Require Import Lib.Bytes.
