(* C10 - State resolution returns the state the room version's algorithm defines.

   The model (StateRes/{Event,Kahn,V2,V1,Entry}.v) is the code as it is after the repairs F7,
   F8, F12 (tied to it by ./check C10: every stage and every entry point, on generated room
   histories).  StateRes/V2Spec.v states the stages in set / relation style from the
   specification text plus DESIGN.md 6.2; its executable readings are oracles on the
   implementation's split and auth difference (incl. the v2.1 conflicted subgraph).
   Proved here, for ALL inputs and every [allowed] / [rejected]:
     - v2.1 starts from the empty state, v2 from the unconflicted state in power order;
     - the unconflicted events are re-applied last, so an unconflicted event is in the result;
     - the power ordering (6.2 r1-r3, Kahn from the leaves) of a repeat-free acyclic list is a
       topological permutation for every sender-power assignment, and it is exactly the order
       6.2 r1 defines (power_order_is_library_order);
     - the mainline ordering is a permutation sorted by (position, steps, timestamp, ID);
     - the partial state is a map: the result has at most one event per key.
     - split_is_spec: the unconflicted events are exactly the specification's.
     - full_auth_chain_is_spec, auth_difference_is_spec: the full auth chains and the v2 auth
       difference are exactly the specification's.
   Not proved (covered by the correspondence and the oracles only): that the model's
   conflicted-subgraph enumeration (v2.1) / control-set closure equal their V2Spec definitions,
   and the v1 resolver's refinement r7. *)
From Coq Require Import Permutation Sorted.
From Verif Require Import Lib.Bytes StateRes.Event StateRes.Kahn StateRes.V2 StateRes.V1 StateRes.Entry
     StateRes.SortProofs StateRes.KahnProofs StateRes.OrderProofs StateRes.ResultProofs StateRes.CmpProofs StateRes.KahnOrderProofs StateRes.V2Spec StateRes.OrderSetProofs StateRes.SplitProofs StateRes.ChainProofs StateRes.ChainCompleteProofs StateRes.AuthDiffProofs StateRes.V1Proofs StateRes.V1Spec StateRes.V1SpecProofs StateRes.SubgraphProofs StateRes.PowerSetProofs StateRes.IterAuthProofs StateRes.AuthDiff21Proofs StateRes.ComposeProofs.

Section C10.
  Variable allowed : event -> list event -> bool.
  Variable rejected : bytes -> bool.
  Variable shE : list event -> list event.
  Variable shP : list pwrap -> list pwrap.
  Variable shG : list (tkey * list event) -> list (tkey * list event).
  Hypothesis shP_perm : forall l, Permutation (shP l) l.
  Variable priv : bool.
  Variable cl ud : Z.

  Notation resolve_new := (resolve_v2_new allowed rejected shE shP shG priv cl ud).
  Notation tail := (resolve_tail allowed rejected shP priv cl ud).

  (* v2.1: the iterative auth checks start from the empty partial state *)
  Theorem v21_starts_empty sets auth_events :
    resolve_new true sets auth_events = mkR [] [] \/
    exists authmap control others unconflicted,
      resolve_new true sets auth_events = tail authmap (mkR [] []) control others unconflicted.
  Proof.
    unfold resolve_v2_new.
    destruct (fst (split_conflicted shG false sets)) eqn:E1;
      destruct (snd (split_conflicted shG false sets)) eqn:E2;
      destruct auth_events eqn:E3; try (left; reflexivity); right; do 4 eexists; reflexivity.
  Qed.

  (* v2: they start from the unconflicted events applied in power order, without auth checks *)
  Theorem v2_starts_from_unconflicted sets auth_events :
    resolve_new false sets auth_events = mkR [] [] \/
    exists authmap control others unconflicted,
      unconflicted = power_order shP priv cl ud authmap None (dedup_events (snd (split_conflicted shG false sets))) /\
      resolve_new false sets auth_events
      = tail authmap (mkR (apply_events [] unconflicted) []) control others unconflicted.
  Proof.
    unfold resolve_v2_new.
    set (X := match fst (split_conflicted shG false sets), snd (split_conflicted shG false sets), auth_events with
              | [], [], [] => true | _, _, _ => false end).
    destruct (fst (split_conflicted shG false sets)) eqn:E1;
      destruct (snd (split_conflicted shG false sets)) eqn:E2;
      destruct auth_events eqn:E3; try (left; reflexivity); right;
      eexists; eexists; eexists; eexists; (split; [reflexivity|]); unfold r_apply; reflexivity.
  Qed.

  (* the unconflicted events are applied again after all conflicted events *)
  Theorem unconflicted_reapplied_last authmap r0 control others unconflicted :
    exists r2, r_state (tail authmap r0 control others unconflicted) = apply_events (r_state r2) unconflicted.
  Proof. apply unconflicted_applied_last. Qed.

  (* ... so an unconflicted event (one per key, as the split produces them) is in the result *)
  Theorem unconflicted_in_result authmap r0 control others unconflicted e k :
    In e unconflicted -> event_tkey e = Some k ->
    (forall e', In e' unconflicted -> event_tkey e' = Some k -> e' = e) ->
    In e (result_events (tail authmap r0 control others unconflicted)).
  Proof. apply unconflicted_event_kept. Qed.

  (* 6.2 r1: the power ordering of a repeat-free acyclic list is a permutation in which every
     event follows the auth events it names, whatever the senders' power levels are *)
  Theorem power_order_is_topological authmap create l :
    NoDup (ids_of l) -> acyclic e_auth l ->
    topological_permutation e_auth l (power_order shP priv cl ud authmap create l).
  Proof. apply power_order_topological; assumption. Qed.


  (* 6.2 r1-r2: the order the library publishes for the power events IS the order defined by
     "repeatedly take, among the events no remaining event names, the greatest under (sender
     power descending, timestamp ascending, event ID ascending) and put it last" - for a
     repeat-free list with an acyclic auth relation (then there are no strays, r3) *)
  Theorem power_order_is_library_order authmap create l (rank : bytes -> nat) :
    NoDup (ids_of l) ->
    (forall e a, In e l -> In a (e_auth e) -> In a (ids_of l) -> (rank a < rank (e_id e))%nat) ->
    let items := map (fun e => mkPw e (sender_power priv cl ud authmap create e)) l in
    let ordered := kahn (fun w => e_id (pw_ev w)) (fun w => e_auth (pw_ev w)) pw_cmp shP items in
    power_order shP priv cl ud authmap create l = map pw_ev ordered /\
    library_order pwrap (fun w => e_id (pw_ev w)) (fun w => e_auth (pw_ev w)) pw_cmp items ordered.
  Proof.
    intros ND R items ordered. split; [reflexivity|].
    apply (kahn_is_library_order pwrap _ _ pw_cmp pw_cmp_good shP shP_perm items) with (rank := rank).
    - unfold items. rewrite map_map. exact ND.
    - intros w a Hw Ha Hin. unfold items in Hw, Hin. rewrite map_map in Hin. simpl in Hin.
      apply in_map_iff in Hw as [e [<- He]]. simpl in *. apply R; assumption.
  Qed.

  (* 6.2 r4: the mainline ordering rearranges its input and sorts it by the mainline key *)
  Theorem mainline_order_sorted authmap resolved_power l :
    Permutation (mainline_order authmap resolved_power l) l /\
    exists ws, mainline_order authmap resolved_power l = map ow_ev ws /\
               Sorted (fun a b => ow_cmp a b <> Gt) ws.
  Proof.
    unfold mainline_order. split.
    - set (pos := mainline_positions _).
      rewrite ssort_perm. rewrite map_map. rewrite (map_ext _ (fun e => e)); [rewrite map_id; reflexivity|].
      intro e. reflexivity.
    - eexists. split; [reflexivity|].
      apply StronglySorted_Sorted. apply ssort_sorted.
      + apply (good_antisym _ _ ow_cmp_good).
      + apply (good_le_trans _ _ ow_cmp_good).
  Qed.
End C10.


(* the split of v2 / v2.1 computes the specification's unconflicted state map: an event is
   reported unconflicted iff its key is present in every state set with that same event
   (state sets without repeated entries; event IDs identify events) *)
Theorem split_is_spec (shG : groups -> groups) (sets : list (list event)) (e : event) :
  (forall l, Permutation (shG l) l) ->
  (forall s, In s sets -> NoDup (ids_of s)) ->
  ids_identify (concat sets) ->
  (In e (snd (split_conflicted shG false sets)) <-> In e (dedup_events (concat sets)) /\ spec_unconflicted sets e).
Proof. intros. apply split_unconflicted_is_spec; assumption. Qed.


(* the walk that collects a state set's full auth chain collects exactly the events the
   specification's reachability relation reaches: it is sound (ChainProofs.v) and, with the fuel
   S (refs set + refs authmap + |authmap|) the code's bound corresponds to, complete
   (ChainCompleteProofs.chain_walk_complete: every step consumes a work item or moves an event of
   authmap into the visited set, and the visited set ends closed under auth steps) *)
Theorem full_auth_chain_is_spec (authmap set : list event) (x : event) :
  In x (full_auth_chain authmap set) <-> in_full_chain authmap set x.
Proof. apply full_auth_chain_spec. Qed.

(* the auth difference of v2 is the specification's: the union of the full auth chains of the
   state sets minus their intersection (for every iteration order shE of the result).  The v2.1
   variant adds the conflicted subgraph to this set; that the subgraph enumeration equals
   spec_conflicted_subgraph is not proved (oracle C10.prop.authdiff checks it on every case). *)
Theorem auth_difference_is_spec (shE : list event -> list event) (authmap conflicted : list event)
        (sets : list (list event)) (x : event) :
  (forall l, Permutation (shE l) l) ->
  (In x (auth_difference_new shE false authmap conflicted sets) <-> spec_auth_difference authmap sets x).
Proof. intro P. apply auth_difference_new_is_spec. exact P. Qed.



(* v2.1: the conflicted subgraph the library adds to the auth difference (path enumeration from
   every conflicted event of every state set, DFS with the exploration path) is exactly the
   specification's: the auth events lying on an auth path from a conflicted event of a state
   set to a conflicted event. (After the F81 repair the library computes it with two walks that
   visit every event once; no acyclicity premise is needed any more.) The state-set events are
   the auth map's events of their IDs. *)
Theorem conflicted_subgraph_is_spec authmap conflicted sets x :
  (forall s o y, In s sets -> In o s -> find_event (e_id o) authmap = Some y -> y = o) ->
  (In x (complete_subgraph authmap conflicted sets) <-> spec_conflicted_subgraph authmap conflicted sets x).
Proof. apply conflicted_subgraph_spec. Qed.


(* 6.2 r5: the power set. As a SET, the list fullControlSet produces (one visited set shared by
   all roots, repeats included) is exactly: the conflicted control events of the full conflicted
   set together with everything they reach through auth events that are themselves events of
   the conflicted map. Acyclic auth relation on the conflicted map. *)
Theorem power_set_is_spec cm unconflicted full (rank : bytes -> nat) x :
  (forall a b, auth_step cm a b -> (rank (e_id b) < rank (e_id a))%nat) ->
  (In x (control_events cm unconflicted full) <-> spec_power_set cm unconflicted full x).
Proof. intro H. apply (power_set_spec cm rank H). Qed.


(* iterative auth checks: (1) what the auth rules are shown for an event checked against a
   partial state st is, in the order of the keys the event needs, the partial state's event of
   the key if there is one, else the event's own last supplied non-rejected auth event of that
   key (after the F7 repair); (2) the loop applies an event exactly when the rules allow it
   against those events. needs_ok: the needed keys are distinct and the needed member /
   third-party-invite state keys are non-empty (true of every event with a non-empty sender). *)
Theorem iterative_auth_shows_spec_events rejected authmap st e :
  smap_wf st -> needs_ok e ->
  smap_values (auth_provider rejected authmap st e) = spec_auth_events_v2 rejected authmap (smap_get st) e.
Proof. intros W [N1 [N2 N3]]. apply auth_provider_is_spec; assumption. Qed.

Theorem iterative_auth_is_spec allowed rejected authmap l r :
  smap_wf (r_state r) -> (forall e, In e l -> needs_ok e) ->
  spec_iterative_auth allowed rejected authmap (r_state r) l
                      (r_state (auth_and_apply allowed rejected authmap r l)).
Proof. apply iterative_auth_spec. Qed.


(* v2.1 auth difference with the conflicted subgraph, as a set *)
Theorem auth_difference_v21_is_spec (shE : list event -> list event) authmap conflicted sets x :
  (forall l, Permutation (shE l) l) ->
  (forall s o y, In s sets -> In o s -> find_event (e_id o) authmap = Some y -> y = o) ->
  (In x (auth_difference_new shE true authmap conflicted sets) <->
   spec_auth_difference authmap sets x \/ spec_conflicted_subgraph authmap conflicted sets x).
Proof. apply auth_difference_v21_spec. Qed.

(* The composition for v2.1 (resolve_v2_new with v21 = true), after the repairs F76 and F77: there
   are partial states st1, st2 such that every stage is the specification's stage and the driver
   chains them as specified: the unconflicted events are the specification's; the full conflicted
   set is the conflicted events + auth difference + conflicted subgraph, with no exception for
   events of the unconflicted state (F77); the power set is its closure (r5); the DISTINCT power
   events are ordered topologically (F76: repeated entries are dropped, so r3 never applies to an
   acyclic history); the iterative auth checks start from the EMPTY state, run over the power
   events in that order, then over the remaining events in mainline order, each event judged
   against the specification's auth events; the unconflicted state is re-applied last.
   PARTIAL in one named respect: missing lemma conflicted_is_spec - the events reported CONFLICTED
   by the split are left as the model computes them (split_is_spec characterises the unconflicted
   ones). *)
Theorem resolve_v2_refines_spec_partial
  allowed rejected (shE : list event -> list event) (shP : list pwrap -> list pwrap) (shG : groups -> groups)
  priv cl ud sets auth_events (rank : bytes -> nat) :
  (forall l, Permutation (shE l) l) -> (forall l, Permutation (shP l) l) -> (forall l, Permutation (shG l) l) ->
  auth_events <> [] ->
  (forall s, In s sets -> NoDup (ids_of s)) -> ids_identify (concat sets) ->
  let authmap := dedup_events auth_events in
  let conflicted := fst (split_conflicted shG false sets) in
  let unconflicted := snd (split_conflicted shG false sets) in
  let cm := dedup_events conflicted in
  let full := conflicted ++ auth_difference_new shE true authmap conflicted sets in
  let control := control_events cm [] full in
  let others := other_events [] full control in
  acyclic e_auth (dedup_events control) ->
  (forall a b, auth_step cm a b -> (rank (e_id b) < rank (e_id a))%nat) ->
  (forall s o y, In s sets -> In o s -> find_event (e_id o) authmap = Some y -> y = o) ->
  (forall e, In e (concat sets) \/ In e auth_events -> needs_ok e) ->
  exists st1 st2,
    (forall e, In e unconflicted <-> In e (dedup_events (concat sets)) /\ spec_unconflicted sets e) /\
    (forall x, In x full <-> In x conflicted \/ spec_auth_difference authmap sets x
                             \/ spec_conflicted_subgraph authmap conflicted sets x) /\
    (forall x, In x control <-> spec_power_set cm [] full x) /\
    (forall x, In x others <-> In x full /\ is_control_event x = false /\ has_event (e_id x) control = false) /\
    topological_permutation e_auth (dedup_events control)
                            (power_order shP priv cl ud authmap None (dedup_events control)) /\
    spec_iterative_auth allowed rejected authmap [] (power_order shP priv cl ud authmap None (dedup_events control)) st1 /\
    spec_iterative_auth allowed rejected authmap st1 (mainline_order authmap (smap_get st1 (t_power, [])) others) st2 /\
    r_state (resolve_v2_new allowed rejected shE shP shG priv cl ud true sets auth_events) = apply_events st2 unconflicted.
Proof. intros. apply resolve_v21_stages with (rank := rank); assumption. Qed.


(* F76: what the resolvers hand to the power ordering is the list of DISTINCT events
   (reverseTopologicalOrdering drops repeated entries first), so the statement needs no
   premise on the list: whatever the control list looks like - an event that is both conflicted
   and in the auth difference, events fullControlSet pulled in twice - the order is a
   topological permutation of its distinct events. (The former premise NoDup (ids_of l) of
   power_order_is_topological was exactly the defect: the library called the ordering on lists
   with repeats, where ancestors of a repeated event came out as strays.) *)
Theorem resolver_power_order_is_topological (shP : list pwrap -> list pwrap) priv cl ud authmap create l :
  (forall x, Permutation (shP x) x) ->
  acyclic e_auth (dedup_events l) ->
  topological_permutation e_auth (dedup_events l) (power_order shP priv cl ud authmap create (dedup_events l)).
Proof. intros P A. apply power_order_topological; [exact P|apply dedup_nodup|exact A]. Qed.

(* v1 (DESIGN.md 6.2 r7): the model of ResolveStateConflicts returns exactly the list the
   per-key specification StateRes/V1Spec.v defines - per conflicted key, in the order create,
   power levels, join rules, third-party invites, members, the candidates oldest first by
   (depth, SHA-1 descending), the walk that stops at the first candidate failing the auth
   rules against the state resolved so far plus the current candidate, results of a type
   registered only when the type is done; every other key: the newest candidate that passes
   against the final auth state, else the oldest. Preconditions: the conflicted events are
   distinct state events whose sort key identifies them. (No condition on the auth events any
   more: after the F78 repair an auth event under a conflicted key is put back after its block.) *)
Theorem v1_resolves_per_spec allowed conflicted auth_events :
  NoDup (ids_of conflicted) ->
  (forall a b, In a conflicted -> In b conflicted -> v1_cmp a b = Eq -> a = b) ->
  (forall e, In e conflicted -> e_skey e <> None) ->
  v_result (resolve_v1 allowed conflicted auth_events) = spec_resolve_v1 allowed conflicted auth_events.
Proof. apply resolve_v1_is_spec. Qed.

(* and, with no precondition at all, it returns only conflicted events it was given *)
Theorem v1_returns_conflicted_events allowed conflicted auth_events x :
  In x (v_result (resolve_v1 allowed conflicted auth_events)) -> In x conflicted.
Proof. apply v1_picks_conflicted_events. Qed.

(* the resolved state is a map: at most one event per (type, state_key), for every auth-rule
   oracle, rejected-event oracle and map iteration order *)
Theorem result_is_a_state_map allowed rejected shE shP shG priv cl ud v21 sets auth_events e1 e2 :
  let result := result_events (resolve_v2_new allowed rejected shE shP shG priv cl ud v21 sets auth_events) in
  In e1 result -> In e2 result -> event_tkey e1 = event_tkey e2 -> e1 = e2.
Proof. intros result. apply smap_wf_unique. apply resolve_v2_new_wf. Qed.

(* non-vacuity: two state sets that disagree on the topic; the auth rules allow everything *)
Definition c10_ev (id : bytes) (ty : bytes) (auth : list bytes) (ts : Z) : event :=
  mkEvent id ty (Some []) (bs "@u:h") ts 1%Z auth auth [] (bs "{}").
Definition c10_create := c10_ev (bs "$C") t_create [] 1%Z.
Definition c10_t1 := c10_ev (bs "$T1") (bs "m.room.topic") [bs "$C"] 2%Z.
Definition c10_t2 := c10_ev (bs "$T2") (bs "m.room.topic") [bs "$C"] 3%Z.

Example resolve_concrete :
  ids_of (result_events (resolve_v2_new (fun _ _ => true) (fun _ => false) (fun l => l) (fun l => l) (fun l => l)
                                        false 0%Z 0%Z true [[c10_create; c10_t1]; [c10_create; c10_t2]] [c10_create]))
  = [bs "$T2"; bs "$C"].
Proof. vm_compute. reflexivity. Qed.

Print Assumptions v21_starts_empty.
Print Assumptions v2_starts_from_unconflicted.
Print Assumptions unconflicted_reapplied_last.
Print Assumptions unconflicted_in_result.
Print Assumptions power_order_is_topological.
Print Assumptions power_order_is_library_order.
Print Assumptions mainline_order_sorted.
Print Assumptions split_is_spec.
Print Assumptions full_auth_chain_is_spec.
Print Assumptions auth_difference_is_spec.
Print Assumptions conflicted_subgraph_is_spec.
Print Assumptions power_set_is_spec.
Print Assumptions iterative_auth_shows_spec_events.
Print Assumptions iterative_auth_is_spec.
Print Assumptions auth_difference_v21_is_spec.
Print Assumptions resolve_v2_refines_spec_partial.
Print Assumptions resolver_power_order_is_topological.
Print Assumptions v1_resolves_per_spec.
Print Assumptions v1_returns_conflicted_events.
Print Assumptions result_is_a_state_map.
