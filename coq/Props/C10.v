(* C10 - placeholder while the model and the correspondence are brought up. *)
From Verif Require Import Lib.Bytes StateRes.Event StateRes.V2.

Theorem v21_starts_empty_stub : apply_events [] [] = [].
Proof. reflexivity. Qed.

Print Assumptions v21_starts_empty_stub.
