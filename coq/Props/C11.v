(* C11 - placeholder while the correspondence is brought up. *)
From Verif Require Import Lib.Bytes StateRes.Event StateRes.V2.

Theorem c11_stub : apply_events [] [] = [].
Proof. reflexivity. Qed.

Print Assumptions c11_stub.
