(* C11 - State resolution is order-independent and yields well-formed state; every ordering
   the library returns for an acyclic event set is a topological permutation.

   Model: StateRes/{Event,Kahn,V2,V1,Entry}.v (tied to the Go code by ./check C10 and
   ./check C11).  Go map / hash-set iteration orders are the functions sh* below: arbitrary
   rearrangements (Permutation (sh l) l), so every statement holds for every iteration order. *)
From Coq Require Import Permutation.
From Verif Require Import Lib.Bytes StateRes.Event StateRes.Kahn StateRes.V2 StateRes.V1 StateRes.Entry
     StateRes.SortProofs StateRes.KahnProofs StateRes.OrderProofs StateRes.ResultProofs StateRes.CmpProofs StateRes.KahnSetProofs StateRes.OrderSetProofs StateRes.V2Spec StateRes.SplitProofs StateRes.AgreedProofs StateRes.SubsetProofs StateRes.SubsetOldProofs StateRes.V1Proofs StateRes.FixedPointProofs.

(* slices.SortStableFunc by a total order whose ties are identities: the result depends only on
   the set of elements, not on the order they were in (map iteration order, input order) *)
Theorem sort_total_order_canonical (T : Type) (cmp : T -> T -> comparison) (l l' : list T) :
  (forall a b, cmp b a = CompOpp (cmp a b)) ->
  (forall a b c, cmp a b <> Gt -> cmp b c <> Gt -> cmp a c <> Gt) ->
  (forall a b, In a l -> In b l -> cmp a b = Eq -> a = b) ->
  Permutation l l' -> ssort cmp l = ssort cmp l'.
Proof. intros A Tr E P. apply ssort_canonical; assumption. Qed.

(* both Kahn implementations (generic in the reference function and the sort key): for a
   duplicate-free, acyclic input the output is a permutation of the input in which every item
   follows each item it refers to that is present in the input; in particular there are no
   strays *)
Theorem kahn_is_topological_permutation
  (T : Type) (tid : T -> bytes) (trefs : T -> list bytes) (tcmp : T -> T -> comparison)
  (sh : list T -> list T) (items : list T) (rank : bytes -> nat) :
  (forall l, Permutation (sh l) l) ->
  NoDup (map tid items) ->
  ranked T tid trefs items rank ->
  Permutation (kahn tid trefs tcmp sh items) items /\
  ancestors_first T tid trefs items (kahn tid trefs tcmp sh items).
Proof. intros Hsh ND R. apply kahn_topological with (rank := rank); assumption. Qed.

Section Orderings.
  Variable shE : list event -> list event.
  Variable shP : list pwrap -> list pwrap.
  Variable shO : list owrap -> list owrap.
  Hypothesis shE_perm : forall l, Permutation (shE l) l.
  Hypothesis shP_perm : forall l, Permutation (shP l) l.
  Hypothesis shO_perm : forall l, Permutation (shO l) l.

  (* ReverseTopologicalOrdering / HeaderedReverseTopologicalOrdering, by auth events or by prev
     events, for EVERY input list (repeated entries included): a permutation of the distinct
     input events with ancestors first. Also the ordering inside LoadAndVerify and
     RequestBackfill, which call this function. *)
  Theorem reverse_topological_ordering_is_topological_permutation
    (ver : bytes) (by_auth : bool) (input : list event) :
    acyclic (if by_auth then e_auth else e_prev) (dedup_events input) ->
    topological_permutation (if by_auth then e_auth else e_prev) (dedup_events input)
                            (reverse_topological_ordering shP shO ver by_auth input).
  Proof. apply reverse_topological_ordering_topological; assumption. Qed.

  Theorem linearise_state_response_is_topological_permutation
    (ver : bytes) (auth_events state_events : list event) :
    acyclic e_auth (dedup_events (auth_events ++ state_events)) ->
    topological_permutation e_auth (dedup_events (auth_events ++ state_events))
                            (linearise_state_response shE shP shO ver auth_events state_events).
  Proof. apply linearise_topological; assumption. Qed.

  (* the ordering of the conflicted power events inside the resolver, when the list handed to
     it has no repeated entries *)
  Theorem power_order_is_topological_permutation
    (priv : bool) (cl ud : Z) (authmap : list event) (create : option event) (l : list event) :
    NoDup (ids_of l) -> acyclic e_auth l ->
    topological_permutation e_auth l (power_order shP priv cl ud authmap create l).
  Proof. apply power_order_topological; assumption. Qed.
End Orderings.


(* ---------- well-formed results (v2 / v2.1, current and deprecated driver) ---------- *)
Section Results.
  Variable allowed : event -> list event -> bool.
  Variable rejected : bytes -> bool.
  Variable shE : list event -> list event.
  Variable shP : list pwrap -> list pwrap.
  Variable shG : list (tkey * list event) -> list (tkey * list event).
  Variable priv : bool.
  Variable cl ud : Z.

  (* at most one event per (type, state_key); only state events *)
  Theorem result_at_most_one_per_key v21 sets auth_events e1 e2 :
    let result := result_events (resolve_v2_new allowed rejected shE shP shG priv cl ud v21 sets auth_events) in
    In e1 result -> In e2 result -> event_tkey e1 = event_tkey e2 -> e1 = e2.
  Proof. intro result. apply smap_wf_unique, resolve_v2_new_wf. Qed.

  Theorem result_only_state_events v21 sets auth_events e :
    In e (result_events (resolve_v2_new allowed rejected shE shP shG priv cl ud v21 sets auth_events)) ->
    e_skey e <> None.
  Proof. apply smap_wf_state_events, resolve_v2_new_wf. Qed.

  Theorem result_at_most_one_per_key_deprecated conflicted unconflicted auth_events e1 e2 :
    let result := result_events (resolve_v2_old allowed rejected shE shP priv cl ud conflicted unconflicted auth_events) in
    In e1 result -> In e2 result -> event_tkey e1 = event_tkey e2 -> e1 = e2.
  Proof. intro result. apply smap_wf_unique, resolve_v2_old_wf. Qed.

  (* an event the split reports as unconflicted (one per key) is kept: the unconflicted events
     are re-applied after everything else.  (The tail of both drivers; the statement against the
     state sets - a key on which all state sets agree keeps that event - is agreed_keys_kept
     below.) *)
  Theorem unconflicted_kept_by_tail authmap r0 control others unconflicted e k :
    In e unconflicted -> event_tkey e = Some k ->
    (forall e', In e' unconflicted -> event_tkey e' = Some k -> e' = e) ->
    In e (result_events (resolve_tail allowed rejected shP priv cl ud authmap r0 control others unconflicted)).
  Proof. apply unconflicted_event_kept. Qed.
End Results.


(* ---------- results against the state sets (v2 / v2.1, current entry point) ---------- *)
Section AgainstInputs.
  Variable allowed : event -> list event -> bool.
  Variable rejected : bytes -> bool.
  Variable shE : list event -> list event.
  Variable shP : list pwrap -> list pwrap.
  Variable shG : groups -> groups.
  Hypothesis shE_perm : forall l, Permutation (shE l) l.
  Hypothesis shP_perm : forall l, Permutation (shP l) l.
  Hypothesis shG_perm : forall l, Permutation (shG l) l.
  Variable priv : bool.
  Variable cl ud : Z.

  Notation resolve := (resolve_v2_new allowed rejected shE shP shG priv cl ud).

  (* only supplied events: no assumption on the input at all *)
  Theorem result_subset_of_inputs v21 sets auth_events x :
    In x (result_events (resolve v21 sets auth_events)) -> In x (concat sets) \/ In x auth_events.
  Proof. apply result_subset_of_inputs_v2; assumption. Qed.

  (* a key on which all state sets agree keeps exactly that event *)
  Theorem agreed_keys_kept v21 sets auth_events e :
    (forall s, In s sets -> NoDup (ids_of s)) -> ids_identify (concat sets) ->
    In e (concat sets) -> spec_unconflicted sets e ->
    In e (result_events (resolve v21 sets auth_events)).
  Proof. intros. apply agreed_keys_kept_v2; assumption. Qed.

  (* state sets that all hold the same events (each a map) are a fixed point: the result is
     exactly their state events.  Nothing is conflicted (FixedPointProofs.nothing_conflicted),
     the full auth chains of the sets coincide, so the auth difference is empty
     (auth_difference_empty, with C10's chain-walk completeness), and the unconflicted events
     are kept (agreed_keys_kept). *)
  Theorem equal_sets_fixed_point v21 sets auth_events e :
    (forall s, In s sets -> NoDup (ids_of s)) -> ids_identify (concat sets) ->
    (forall s a b, In s sets -> In a s -> In b s -> event_tkey a = event_tkey b -> e_id a = e_id b) ->
    (forall s1 s2 x, In s1 sets -> In s2 sets -> In x s1 -> present_in x s2) ->
    (In e (result_events (resolve v21 sets auth_events)) <-> In e (concat sets) /\ e_skey e <> None).
  Proof. intros. apply equal_sets_fixed_point_v2; assumption. Qed.
End AgainstInputs.


(* the deprecated v2 driver also returns only events it was given *)
Theorem result_subset_of_inputs_deprecated allowed rejected shE shP priv cl ud conflicted unconflicted auth_events x :
  (forall l, Permutation (shE l) l) -> (forall l, Permutation (shP l) l) ->
  In x (result_events (resolve_v2_old allowed rejected shE shP priv cl ud conflicted unconflicted auth_events)) ->
  In x conflicted \/ In x unconflicted \/ In x auth_events.
Proof. intros. eapply result_subset_of_inputs_v2_old; eauto. Qed.


(* v1 through the current entry point: only events of the state sets are returned *)
Theorem result_subset_of_inputs_v1 allowed rejected shE shP shG ver sets auth_events res log x :
  (forall l, Permutation (shG l) l) ->
  algo_of_version ver = Some AlgoV1 ->
  resolve_conflicts_new allowed rejected shE shP shG ver sets auth_events = Some (res, log) ->
  In x res -> In x (concat sets).
Proof.
  intros HG Hv. unfold resolve_conflicts_new. rewrite Hv. intro H. inversion H; subst; clear H. intro Hx.
  apply in_app_or in Hx as [Hx|Hx].
  - apply v1_picks_conflicted_events in Hx. apply (split_conflicted_sub allowed shG HG true). left. exact Hx.
  - apply (split_conflicted_sub allowed shG HG true). right. exact Hx.
Qed.

(* the tie-break keys are total orders whose ties are the same event ID, so the sorts (and the
   pops of the Kahn queue) do not depend on the order the items arrive in *)
Theorem power_sort_canonical (l l' : list pwrap) :
  NoDup (map (fun w => e_id (pw_ev w)) l) -> Permutation l l' -> ssort pw_cmp l = ssort pw_cmp l'.
Proof.
  intros ND P. apply ssort_canonical; auto.
  - apply (good_antisym _ _ pw_cmp_good).
  - apply (good_le_trans _ _ pw_cmp_good).
  - intros a b Ha Hb E. apply pw_cmp_eq in E. eapply NoDup_map_inj; eauto.
Qed.

Theorem mainline_sort_canonical (l l' : list owrap) :
  NoDup (map (fun w => e_id (ow_ev w)) l) -> Permutation l l' -> ssort ow_cmp l = ssort ow_cmp l'.
Proof.
  intros ND P. apply ssort_canonical; auto.
  - apply (good_antisym _ _ ow_cmp_good).
  - apply (good_le_trans _ _ ow_cmp_good).
  - intros a b Ha Hb E. apply ow_cmp_eq in E. eapply NoDup_map_inj; eauto.
Qed.


(* ---------- order independence of the orderings ---------- *)
(* both Kahn implementations: for a duplicate-free input the output list is the same for every
   presentation order of the items and every iteration order of the Go maps (sort key: a total
   order whose ties are the same ID; acyclicity not needed) *)
Theorem kahn_depends_on_set_only
  (T : Type) (tid : T -> bytes) (trefs : T -> list bytes) (tcmp : T -> T -> comparison)
  (sh sh' : list T -> list T) (l l' : list T) :
  good T tcmp -> (forall a b, tcmp a b = Eq -> tid a = tid b) ->
  (forall x, Permutation (sh x) x) -> (forall x, Permutation (sh' x) x) ->
  NoDup (map tid l) -> Permutation l l' ->
  kahn tid trefs tcmp sh l = kahn tid trefs tcmp sh' l'.
Proof. intros G E S S' ND P. apply kahn_set_only; assumption. Qed.

(* ReverseTopologicalOrdering / HeaderedReverseTopologicalOrdering return the same list for
   every presentation order of the same events (repeats allowed) and every map order *)
Theorem reverse_topological_ordering_order_independent
  (shP shP' : list pwrap -> list pwrap) (shO shO' : list owrap -> list owrap)
  (ver : bytes) (by_auth : bool) (input input' : list event) :
  (forall l, Permutation (shP l) l) -> (forall l, Permutation (shP' l) l) ->
  (forall l, Permutation (shO l) l) -> (forall l, Permutation (shO' l) l) ->
  ids_identify input -> one_create input -> Permutation input input' ->
  reverse_topological_ordering shP shO ver by_auth input
  = reverse_topological_ordering shP' shO' ver by_auth input'.
Proof. intros. apply reverse_topological_ordering_set_only; assumption. Qed.

(* the two ordered stages inside the v2 resolvers, for repeat-free lists *)
Theorem power_order_order_independent
  (shP shP' : list pwrap -> list pwrap) (priv : bool) (cl ud : Z) (authmap : list event)
  (create : option event) (l l' : list event) :
  (forall x, Permutation (shP x) x) -> (forall x, Permutation (shP' x) x) ->
  NoDup (ids_of l) -> Permutation l l' ->
  power_order shP priv cl ud authmap create l = power_order shP' priv cl ud authmap create l'.
Proof. intros. apply power_order_set_only; assumption. Qed.

Theorem mainline_order_order_independent (authmap : list event) (resolved_power : option event) (l l' : list event) :
  NoDup (ids_of l) -> Permutation l l' ->
  mainline_order authmap resolved_power l = mainline_order authmap resolved_power l'.
Proof. apply mainline_order_set_only. Qed.

(* ---------- non-vacuity: a concrete chain A <- B <- C given in the order C, A, B ---------- *)
Definition ex_ev (id : bytes) (auth : list bytes) (ts : Z) : event :=
  mkEvent id (bs "m.room.topic") (Some []) (bs "@u:h") ts 1%Z auth auth [] (bs "{}").
Definition ex_A := ex_ev (bs "$A") [] 30%Z.
Definition ex_B := ex_ev (bs "$B") [bs "$A"] 20%Z.
Definition ex_C := ex_ev (bs "$C") [bs "$B"; bs "$A"] 10%Z.

Example ordering_concrete :
  ids_of (reverse_topological_ordering (fun l => l) (fun l => l) (bs "10") true [ex_C; ex_A; ex_B; ex_C])
  = [bs "$A"; bs "$B"; bs "$C"].
Proof. vm_compute. reflexivity. Qed.

Example acyclic_inhabited : acyclic e_auth [ex_C; ex_A; ex_B].
Proof.
  exists (fun k => if bytes_eqb k (bs "$A") then 0 else if bytes_eqb k (bs "$B") then 1 else 2)%nat.
  intros e a [<-|[<-|[<-|[]]]] Ha _; simpl in Ha;
    repeat (destruct Ha as [<-|Ha]; [vm_compute; repeat constructor|]); destruct Ha.
Qed.

Print Assumptions sort_total_order_canonical.
Print Assumptions kahn_is_topological_permutation.
Print Assumptions reverse_topological_ordering_is_topological_permutation.
Print Assumptions linearise_state_response_is_topological_permutation.
Print Assumptions power_order_is_topological_permutation.
Print Assumptions result_at_most_one_per_key.
Print Assumptions result_only_state_events.
Print Assumptions result_at_most_one_per_key_deprecated.
Print Assumptions unconflicted_kept_by_tail.
Print Assumptions power_sort_canonical.
Print Assumptions mainline_sort_canonical.
Print Assumptions kahn_depends_on_set_only.
Print Assumptions reverse_topological_ordering_order_independent.
Print Assumptions power_order_order_independent.
Print Assumptions mainline_order_order_independent.
Print Assumptions result_subset_of_inputs.
Print Assumptions agreed_keys_kept.
Print Assumptions equal_sets_fixed_point.
Print Assumptions result_subset_of_inputs_deprecated.
Print Assumptions result_subset_of_inputs_v1.
