(* C12 — placeholder; statements follow. *)
From Verif Require Import Lib.Bytes Keys.Model.
Open Scope Z_scope.
Theorem c12_seven_days : seven_days_ns = 7 * 24 * 3600 * 1000000000.
Proof. reflexivity. Qed.
Print Assumptions c12_seven_days.
