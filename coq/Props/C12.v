(* C12 — The key ring accepts a signature only from a fetched key valid at that time.
   Only statements here; proofs live in Keys/MapFacts.v and Keys/Proofs.v.

   The theorems hold for EVERY message type M, every ListKeyIDs (kids_of), every VerifyJSON
   (vj server key_id public_key message = true iff VerifyJSON returns nil), every key database
   (dbf = FetchKeys, dbs = StoreKeys succeeded) and every list of fetchers, each an arbitrary
   function from the request map it is handed to an error (None) or an answer.  No assumption
   on signatures is needed: the claims are about WHICH key VerifyJSON is run with.
   A pair is a (server name, key id); maps are association lists; where a theorem needs the
   keys of an answer to be unique (Go maps always are) it says NoDup. *)
From Coq Require Import Sorted.
From Verif Require Import Lib.Bytes Json.Ast Keys.Model Keys.Spec Keys.MapFacts Keys.Proofs Keys.ServerKeys Keys.ServerKeysProofs Keys.KeyDoc Keys.KeyDocProofs Gen.GenC12.
Open Scope Z_scope.

(* the constants and comparison operators of the model are those of the source (regenerated
   from keyring.go / keys.go on every run) *)
Theorem C12_constants_match_source :
  gen_c12_strict_cap_ns = seven_days_ns /\
  gen_c12_strict_cap_ns = seven_days_ms * 1000000 /\
  gen_c12_strict_unsigned = strict_unsigned /\
  gen_c12_signatures_per_entry = signatures_per_entry /\
  gen_c12_publickeynotexpired = public_key_not_expired /\
  gen_c12_publickeynotvalid = public_key_not_valid /\
  gen_c12_supported_prefix = supported_prefix /\
  gen_c12_strict_novalidity_op = bs "==" /\
  gen_c12_expired_op = bs "<" /\
  gen_c12_expired_test_op = bs "!=" /\
  gen_c12_refetch_op = bs "<" /\
  gen_c12_first_pass_op = bs "==" /\
  gen_c12_maxts_op = bs "<=" /\
  gen_c12_fetcher_checkkeys_now_ns = [fetcher_check_now; fetcher_check_now; fetcher_check_now] /\
  gen_c12_checkkeys_algorithm = ed25519_name /\
  gen_c12_checkkeys_key_length = Z.of_nat ed25519_key_length /\
  gen_c12_local_key_valid_until_ms = local_key_valid_until.
Proof. repeat split; reflexivity. Qed.

(* ---------- the validity rule ---------- *)

(* WasValidAt with either rule, for all uint64 values.  The source computes the strict rule either
   through Timestamp.Time(), i.e. on the int64 reading of the values (strict_unsigned = false,
   valid_at_spec), or - once finding F62 is repaired - on the unsigned millisecond values
   (strict_unsigned = true, valid_at_unsigned); C12_constants_match_source says which.  now is the
   clock in nanoseconds since the epoch, within int64. *)
Theorem was_valid_at_spec_all : forall now r atts rl, 0 <= now < 2 ^ 63 ->
  was_valid_at now r atts rl =
  (if strict_unsigned then valid_at_unsigned else valid_at_spec)
    (rule_strict rl) now (pk_expired r) (pk_valid_until r) atts.
Proof. intros now r atts rl H. rewrite (was_valid_at_eq_lib now r atts rl H). unfold lib_rule. destruct strict_unsigned; reflexivity. Qed.

(* the property text, for timestamps below 2^63 (either computation): an expired key is valid
   strictly before expired_ts; otherwise always under the lenient rule, and under the strict rule
   iff a validity period is known and the timestamp is at or before
   min(valid_until_ts, now + 7 days) *)
Theorem was_valid_at_spec : forall now r atts rl,
  0 <= now < 2 ^ 63 -> 0 <= atts < 2 ^ 63 -> 0 <= pk_valid_until r < 2 ^ 63 ->
  (was_valid_at now r atts rl = true <->
   (pk_expired r <> 0 /\ atts < pk_expired r) \/
   (pk_expired r = 0 /\
    (rl = Lenient \/
     (pk_valid_until r <> 0 /\ atts <= Z.min (pk_valid_until r) (now / 1000000 + seven_days_ms))))).
Proof. exact was_valid_at_text. Qed.

(* with the unsigned computation the text holds for every uint64 value *)
Theorem was_valid_at_follows_the_text_when_unsigned : forall now r atts rl,
  strict_unsigned = true -> 0 <= now < 2 ^ 63 ->
  was_valid_at now r atts rl = valid_at_unsigned (rule_strict rl) now (pk_expired r) (pk_valid_until r) atts.
Proof. exact was_valid_at_eq_unsigned. Qed.

(* F62: through int64 a timestamp of 2^63 or more is read as an instant before the epoch and passes
   the strict rule against any known validity period ... *)
Theorem strict_check_wraps_above_int64 : forall now atts vu,
  2 ^ 63 <= atts < 2 ^ 64 -> 0 < vu < 2 ^ 63 -> 0 <= now -> strict_check now atts vu = true.
Proof. exact strict_check_wraps. Qed.

(* ... which the text forbids: the claim that the int64 computation follows the text for all
   uint64 timestamps is refuted (292 million years after valid_until_ts, accepted) *)
Theorem strict_rule_through_int64_refuted :
  exists now atts vu, strict_check now atts vu = true /\ strict_check_unsigned now atts vu = false /\
                      valid_at_unsigned true now 0 vu atts = false.
Proof. exists (1700000000000 * 1000000), (2 ^ 63), 1700003600000. exact strict_rule_wrap_witness. Qed.

Section C12.
  Context {M : Type} (kids_of : bytes -> M -> option (list bytes))
          (vj : bytes -> bytes -> bytes -> M -> bool).
  Notation verify_jsons := (verify_jsons M kids_of vj).

  (* one result per request (in request order: the theorems below are stated index by index) *)
  Theorem verify_jsons_shape : forall now dbf dbs fs reqs rs,
    o_results (verify_jsons now dbf dbs fs reqs) = Some rs -> length rs = length reqs.
  Proof. intros now dbf dbs fs reqs. exact (shape M kids_of vj now dbf dbs fs reqs). Qed.

  (* success for request i only if some key id kid of the named server on that message has a
     supported algorithm, and VerifyJSON succeeds under a key rec that the database answer or the
     answer of a fetcher that was called holds for (server, kid), and rec was valid at the
     requested timestamp under the requested rule *)
  Theorem verify_jsons_sound : forall now dbf dbs fs reqs rs i r,
    let o := verify_jsons now dbf dbs fs reqs in
    o_results o = Some rs -> nth_error reqs i = Some r -> nth_error rs i = Some ROk ->
    exists kid rec,
      (exists ids, kids_of (rq_server r) (rq_msg r) = Some ids /\ In kid ids) /\
      supported kid = true /\
      vj (rq_server r) kid (pk_key rec) (rq_msg r) = true /\
      was_valid_at now rec (rq_at r) (rq_rule r) = true /\
      ((exists kr fromdb, o_dbcall o = Some kr /\ dbf kr = Some fromdb /\ In ((rq_server r, kid), rec) fromdb)
       \/ (exists c ans, In c (o_calls o) /\ c_answer c = Some ans /\ In ((rq_server r, kid), rec) ans)).
  Proof. exact (thm_verify_jsons_sound M kids_of vj). Qed.

  (* the database is asked exactly for the (server, supported key id) pairs of the requests, each
     with the largest timestamp any request needs it for *)
  Theorem database_asked_only_for_needed_pairs : forall now dbf dbs fs reqs kr k t,
    o_dbcall (verify_jsons now dbf dbs fs reqs) = Some kr -> mfind k kr = Some t ->
    exists r ids, In r reqs /\ fst k = rq_server r /\ t = rq_at r /\
                  kids_of (rq_server r) (rq_msg r) = Some ids /\ In (snd k) ids /\ supported (snd k) = true.
  Proof. exact (thm_database_asked_only_for_needed_pairs M kids_of vj). Qed.

  Theorem database_asked_for_every_needed_pair : forall now dbf dbs fs reqs r ids kid,
    In r reqs -> kids_of (rq_server r) (rq_msg r) = Some ids -> In kid ids -> supported kid = true ->
    0 <= rq_at r ->
    exists kr t, o_dbcall (verify_jsons now dbf dbs fs reqs) = Some kr /\
                 mfind (rq_server r, kid) kr = Some t /\ rq_at r <= t.
  Proof. exact (thm_database_asked_for_every_needed_pair M kids_of vj). Qed.

  (* every recorded call is a call of the configured fetcher with that index on the recorded
     request map, and fetchers are called at most once each, in order *)
  Theorem fetcher_calls_are_faithful : forall now dbf dbs fs reqs c,
    In c (o_calls (verify_jsons now dbf dbs fs reqs)) ->
    exists f, nth_error fs (c_idx c) = Some f /\ c_answer c = f (c_asked c).
  Proof. intros now dbf dbs fs reqs. exact (calls_spec M kids_of vj now dbf dbs fs reqs). Qed.

  Theorem fetcher_calls_in_order : forall now dbf dbs fs reqs,
    StronglySorted (fun a b => (c_idx a < c_idx b)%nat) (o_calls (verify_jsons now dbf dbs fs reqs)).
  Proof. intros now dbf dbs fs reqs. exact (calls_ordered M kids_of vj now dbf dbs fs reqs). Qed.

  (* success whenever the key finally held for some supported key id of the message verifies and
     was valid; the next three theorems say which key is finally held *)
  Theorem verify_jsons_complete : forall now dbf dbs fs reqs rs i r kid rec,
    let o := verify_jsons now dbf dbs fs reqs in
    o_results o = Some rs -> nth_error reqs i = Some r ->
    (exists ids, kids_of (rq_server r) (rq_msg r) = Some ids /\ In kid ids) -> supported kid = true ->
    mfind (rq_server r, kid) (o_keys o) = Some rec ->
    was_valid_at now rec (rq_at r) (rq_rule r) = true ->
    vj (rq_server r) kid (pk_key rec) (rq_msg r) = true ->
    nth_error rs i = Some ROk.
  Proof. exact (thm_verify_jsons_complete M kids_of vj). Qed.

  (* a key the database holds expired or inside its validity (now < valid_until_ts) is the key
     finally held, and no fetcher is asked for that pair *)
  Theorem database_key_inside_validity_is_used : forall now dbf dbs fs reqs kr fromdb k v,
    let o := verify_jsons now dbf dbs fs reqs in
    o_dbcall o = Some kr -> dbf kr = Some fromdb -> NoDup (map fst fromdb) -> In (k, v) fromdb ->
    (pk_expired v <> 0 \/ as_timestamp now < pk_valid_until v) ->
    mfind k (o_keys o) = Some v /\ forall c, In c (o_calls o) -> mhas k (c_asked c) = false.
  Proof. exact (thm_database_key_inside_validity_is_used M kids_of vj). Qed.

  (* fetchers are asked only for pairs some request needs and that the database lacks or holds
     non-expired and past validity *)
  Theorem fetchers_asked_only_for_missing_or_stale : forall now dbf dbs fs reqs c k,
    let o := verify_jsons now dbf dbs fs reqs in
    In c (o_calls o) -> mhas k (c_asked c) = true ->
    exists kr fromdb, o_dbcall o = Some kr /\ dbf kr = Some fromdb /\ mhas k kr = true /\
      forall v, In (k, v) fromdb -> pk_expired v = 0 /\ pk_valid_until v <= as_timestamp now.
  Proof. exact (thm_fetchers_asked_only_for_missing_or_stale M kids_of vj). Qed.

  (* the first fetcher able to answer decides: once an answer mentions a pair, no later fetcher is
     asked for it, and a pair a fetcher was asked for and answered is finally held with that
     answer's key and is handed to StoreKeys *)
  Theorem answered_pairs_are_not_asked_again : forall now dbf dbs fs reqs c1 c2 ans k v,
    let o := verify_jsons now dbf dbs fs reqs in
    In c1 (o_calls o) -> In c2 (o_calls o) -> (c_idx c1 < c_idx c2)%nat ->
    c_answer c1 = Some ans -> In (k, v) ans -> mhas k (c_asked c2) = false.
  Proof. intros now dbf dbs fs reqs c1 c2 ans k v. exact (asked_first M kids_of vj now dbf dbs fs reqs c1 c2 ans k v). Qed.

  Theorem fetched_keys_stored : forall now dbf dbs fs reqs c ans k v,
    let o := verify_jsons now dbf dbs fs reqs in
    In c (o_calls o) -> c_answer c = Some ans -> NoDup (map fst ans) -> In (k, v) ans ->
    mhas k (c_asked c) = true ->
    o_stored o = Some (o_keys o) /\ mfind k (o_keys o) = Some v.
  Proof. intros now dbf dbs fs reqs c ans k v. exact (stored_spec M kids_of vj now dbf dbs fs reqs c ans k v). Qed.

  Theorem store_follows_every_fetch : forall now dbf dbs fs reqs,
    let o := verify_jsons now dbf dbs fs reqs in
    o_calls o <> [] -> o_stored o = Some (o_keys o).
  Proof. intros now dbf dbs fs reqs. exact (stored_whenever_fetching M kids_of vj now dbf dbs fs reqs). Qed.

  (* the two halves of: succeeds whenever the database or the first fetcher able to answer
     supplies such a key; spelled out *)
  Theorem verify_jsons_complete_database : forall now dbf dbs fs reqs rs i r kid rec kr fromdb,
    let o := verify_jsons now dbf dbs fs reqs in
    o_results o = Some rs -> nth_error reqs i = Some r ->
    (exists ids, kids_of (rq_server r) (rq_msg r) = Some ids /\ In kid ids) -> supported kid = true ->
    o_dbcall o = Some kr -> dbf kr = Some fromdb -> NoDup (map fst fromdb) ->
    In ((rq_server r, kid), rec) fromdb ->
    (pk_expired rec <> 0 \/ as_timestamp now < pk_valid_until rec) ->
    was_valid_at now rec (rq_at r) (rq_rule r) = true ->
    vj (rq_server r) kid (pk_key rec) (rq_msg r) = true ->
    nth_error rs i = Some ROk.
  Proof. exact (thm_verify_jsons_complete_database M kids_of vj). Qed.

  Theorem verify_jsons_complete_fetcher : forall now dbf dbs fs reqs rs i r kid rec c ans,
    let o := verify_jsons now dbf dbs fs reqs in
    o_results o = Some rs -> nth_error reqs i = Some r ->
    (exists ids, kids_of (rq_server r) (rq_msg r) = Some ids /\ In kid ids) -> supported kid = true ->
    In c (o_calls o) -> mhas (rq_server r, kid) (c_asked c) = true ->
    c_answer c = Some ans -> NoDup (map fst ans) -> In ((rq_server r, kid), rec) ans ->
    was_valid_at now rec (rq_at r) (rq_rule r) = true ->
    vj (rq_server r) kid (pk_key rec) (rq_msg r) = true ->
    nth_error rs i = Some ROk.
  Proof. exact (thm_verify_jsons_complete_fetcher M kids_of vj). Qed.
End C12.

(* ---------- key responses ---------- *)
Section C12Keys.
  Context {M : Type} (kids_of : bytes -> M -> option (list bytes))
          (vj : bytes -> bytes -> bytes -> M -> bool).

  (* CheckKeys passes exactly when the response names the server asked for, its valid_until_ts
     is after the instant handed in, it lists at least one ed25519 key, and every ed25519 key it
     lists has 32 bytes and a signature by the named server under that key id that verifies
     with that very key *)
  Theorem check_keys_spec : forall server now (sk : server_keys M),
    ck_all (check_keys M vj server now sk) = true <->
    server = sk_server sk /\ now < ts_time (sk_valid_until sk) /\
    (exists kv, In kv (sk_verify sk) /\ is_ed25519 (fst kv) = true) /\
    (forall kv, In kv (sk_verify sk) -> is_ed25519 (fst kv) = true ->
                length (snd kv) = 32%nat /\ vj (sk_server sk) (fst kv) (snd kv) (sk_raw sk) = true).
  Proof. exact (check_keys_all M vj). Qed.

  Theorem check_keys_returns_only_checked_keys : forall server now (sk : server_keys M) l kid key,
    ck_keys (check_keys M vj server now sk) = Some l -> In (kid, key) l ->
    ck_all (check_keys M vj server now sk) = true /\ In (kid, key) (sk_verify sk) /\
    is_ed25519 kid = true /\ length key = 32%nat /\ vj (sk_server sk) kid key (sk_raw sk) = true.
  Proof. exact (check_keys_keys M vj). Qed.

  (* both fetchers hand CheckKeys the epoch (C12_constants_match_source), so through them
     valid_until_ts in the future means 0 < valid_until_ts < 2^63; freshness is WasValidAt's job *)
  Theorem fetchers_check_validity_against_the_epoch : forall vu,
    0 <= vu < 2 ^ 64 -> (fetcher_check_now < ts_time vu <-> 0 < vu < 2 ^ 63).
  Proof. exact future_at_epoch. Qed.

  (* what a response contributes: current keys with the response's valid_until_ts, old keys with
     their expired_ts, all under the response's own server name *)
  Theorem server_keys_map_spec : forall (d : server_keys M) m k r,
    In (k, r) (map_server_keys M d m) -> In (k, r) m \/ entry_from M d k r.
  Proof. exact (map_server_keys_In M). Qed.

  (* ServerKeys.PublicKey hands out a listed current key up to and including valid_until_ts, or a
     listed old key up to and INCLUDING its expired_ts (the key ring itself, via WasValidAt,
     stops strictly before expired_ts) *)
  Theorem server_keys_public_key_spec : forall (sk : server_keys M) kid atts key,
    public_key M sk kid atts = Some key ->
    (In (kid, key) (sk_verify sk) /\ atts <= sk_valid_until sk) \/
    (exists e, In (kid, (key, e)) (sk_old sk) /\ atts <= e).
  Proof. exact (public_key_spec M). Qed.

  (* an answer of the perspective fetcher exists only if EVERY response of the notary carries a
     signature of the notary, under a key id we hold a notary key for, that verifies with that
     key; and every key in the answer comes from one of those responses that moreover is about a
     server of the request map (F64) and passes CheckKeys for the server it names *)
  Theorem perspective_requires_notary_signature :
    forall (lookup_keys : bytes -> kmap Z -> option (list (server_keys M))) pname pkeys asked res,
    perspective_fetch M kids_of vj lookup_keys pname pkeys asked = Some res ->
    exists docs, lookup_keys pname asked = Some docs /\
      (forall d, In d docs ->
         exists kids kid key, kids_of pname (sk_raw d) = Some kids /\ In kid kids /\
                              assoc_first kid pkeys = Some key /\ vj pname kid key (sk_raw d) = true) /\
      (forall k r, In (k, r) res ->
         exists d, In d docs /\
           ((exists kids kid key, kids_of pname (sk_raw d) = Some kids /\ In kid kids /\
                                  assoc_first kid pkeys = Some key /\ vj pname kid key (sk_raw d) = true) /\
            server_requested asked (sk_server d) = true /\
            ck_all (check_keys M vj (sk_server d) fetcher_check_now d) = true) /\
           entry_from M d k r).
  Proof. exact (perspective_fetch_spec M kids_of vj). Qed.

  Theorem perspective_answers_only_for_requested_servers :
    forall (lookup_keys : bytes -> kmap Z -> option (list (server_keys M))) pname pkeys asked res k r,
    perspective_fetch M kids_of vj lookup_keys pname pkeys asked = Some res -> In (k, r) res ->
    exists kid t, In ((fst k, kid), t) asked.
  Proof. exact (perspective_fetch_requested M kids_of vj). Qed.

  (* every key the direct fetcher returns is the configured local key for a local server that was
     asked for, or comes from a response for that key's server (fetched from the server itself or,
     failing that, from it acting as notary for itself) that passed CheckKeys for that server *)
  Theorem direct_fetcher_accepts_only_checked_responses :
    forall (get_keys : bytes -> option (server_keys M))
           (lookup_keys : bytes -> kmap Z -> option (list (server_keys M)))
           is_local local_key now_ts asked k r,
    In (k, r) (direct_fetch M vj get_keys lookup_keys is_local local_key now_ts asked) ->
    (is_local (fst k) = true /\ mhas k asked = true /\
     r = {| pk_key := local_key; pk_expired := 0; pk_valid_until := local_key_valid_until |})
    \/ (exists d, is_local (fst k) = false /\
                  ((get_keys (fst k) = Some d \/
                    exists all, lookup_keys (fst k) [((fst k, []), now_ts)] = Some all /\ In d all /\
                                sk_server d = fst k)
                   /\ ck_all (check_keys M vj (fst k) fetcher_check_now d) = true)
                  /\ entry_from M d k r).
  Proof. exact (direct_fetch_spec M vj). Qed.
End C12Keys.

(* ---------- key documents are read by their exact member names (F64) ---------- *)

(* what a key document decodes to depends only on its members spelled exactly server_name,
   verify_keys, valid_until_ts, old_verify_keys ... *)
Theorem key_document_depends_only_on_exact_members : forall top top',
  (forall n, In n doc_members -> assoc_last n top = assoc_last n top') ->
  doc_of_members top = doc_of_members top'.
Proof. exact doc_of_members_ext. Qed.

(* ... so a member under any other name (a case variant, a name that merely folds to one of the
   four) can be added anywhere without changing it *)
Theorem key_document_ignores_other_members : forall top1 k v top2,
  ~ In k doc_members -> doc_of_members (top1 ++ (k, v) :: top2) = doc_of_members (top1 ++ top2).
Proof. exact other_member_ignored. Qed.

Section C12Raw.
  Context (kids_of : bytes -> bytes -> option (list bytes)) (vj : bytes -> bytes -> bytes -> bytes -> bool)
          (get_raw : bytes -> option bytes) (lookup_raw : bytes -> kmap Z -> option (list bytes)).

  (* the fetched key of a server, through a notary: it is listed by a raw document of the notary's
     answer that names that server by the member spelled exactly server_name, that the notary signed
     under a key id we hold its key for, that is about a requested server, and that the named
     server signed with each of its listed ed25519 keys (CheckKeys) *)
  Theorem perspective_fetched_key_names_its_server_exactly : forall pname pkeys asked res k r,
    perspective_fetch bytes kids_of vj (lookup_decoded lookup_raw) pname pkeys asked = Some res ->
    In (k, r) res ->
    exists raws raw d,
      lookup_raw pname asked = Some raws /\ In raw raws /\ server_keys_of raw = Some d /\
      names_server_exactly raw (fst k) /\
      (exists kid t, In ((fst k, kid), t) asked) /\
      (exists kids kid key, kids_of pname raw = Some kids /\ In kid kids /\
                            assoc_first kid pkeys = Some key /\ vj pname kid key raw = true) /\
      ck_all (check_keys bytes vj (fst k) fetcher_check_now d) = true /\
      entry_from bytes d k r.
  Proof. exact (perspective_fetched_key kids_of vj lookup_raw). Qed.

  (* ... and fetched directly: the local key, or listed by a raw document obtained from that very
     server (or from it as its own notary) that names it exactly and passes CheckKeys for it *)
  Theorem direct_fetched_key_names_its_server_exactly : forall is_local local_key now_ts asked k r,
    In (k, r) (direct_fetch bytes vj (get_decoded get_raw) (lookup_decoded lookup_raw) is_local local_key now_ts asked) ->
    (is_local (fst k) = true /\ mhas k asked = true /\
     r = {| pk_key := local_key; pk_expired := 0; pk_valid_until := local_key_valid_until |})
    \/ (exists raw d,
          is_local (fst k) = false /\
          (get_raw (fst k) = Some raw \/
           exists raws, lookup_raw (fst k) [((fst k, []), now_ts)] = Some raws /\ In raw raws) /\
          server_keys_of raw = Some d /\ names_server_exactly raw (fst k) /\
          ck_all (check_keys bytes vj (fst k) fetcher_check_now d) = true /\ entry_from bytes d k r).
  Proof. exact (direct_fetched_key vj get_raw lookup_raw). Qed.
End C12Raw.

(* the planted-key document of finding F64 decodes to a document of the server its exact member
   names; the long-s member plays no part *)
Example long_s_member_is_not_server_name :
  option_map kd_server
    (parse_key_doc (bs "{""server_name"":""evil.example"",""valid_until_ts"":5,""verify_keys"":{}," ++
                    [34; 197; 191]%N ++ bs "erver_name"":""victim.example""}"))
  = Some (bs "evil.example").
Proof. vm_compute. reflexivity. Qed.

(* ---------- non-vacuity: a concrete ring ---------- *)
Definition ex_kid : bytes := bs "ed25519:a".
Definition ex_kids (_ : bytes) (_ : bytes) : option (list bytes) := Some [ex_kid; bs "rsa:1"].
Definition ex_vj (_ kid key _ : bytes) : bool := bytes_eqb key (bs "K") && bytes_eqb kid ex_kid.
Definition ex_req (atts : Z) (rl : rule) : vreq bytes :=
  {| rq_server := bs "srv"; rq_at := atts; rq_rule := rl; rq_msg := bs "m" |}.
Definition ex_rec (key : bytes) (vu : Z) : pkres := {| pk_key := key; pk_expired := 0; pk_valid_until := vu |}.
Definition ex_now : Z := 1700000000000 * 1000000.
Definition ex_fetcher (key : bytes) (vu : Z) : fetcher := fun asked => Some [((bs "srv", ex_kid), ex_rec key vu)].
Definition ex_empty_db : fetcher := fun _ => Some [].

(* the database lacks the key, the fetcher supplies it: Ok, one call, key stored *)
Example ring_fetches_and_stores :
  let o := verify_jsons bytes ex_kids ex_vj ex_now ex_empty_db (fun _ => true)
                        [ex_fetcher (bs "K") 1700000100000] [ex_req 1700000000000 Strict] in
  o_results o = Some [ROk] /\ length (o_calls o) = 1%nat /\
  o_stored o = Some [((bs "srv", ex_kid), ex_rec (bs "K") 1700000100000)].
Proof. vm_compute. repeat split; reflexivity. Qed.

(* one millisecond past valid_until_ts under the strict rule: refused; lenient: accepted;
   a different key: refused *)
Example ring_validity_boundary :
  o_results (verify_jsons bytes ex_kids ex_vj ex_now ex_empty_db (fun _ => true)
                          [ex_fetcher (bs "K") 1700000100000] [ex_req 1700000100001 Strict]) = Some [RErr] /\
  o_results (verify_jsons bytes ex_kids ex_vj ex_now ex_empty_db (fun _ => true)
                          [ex_fetcher (bs "K") 1700000100000] [ex_req 1700000100000 Strict]) = Some [ROk] /\
  o_results (verify_jsons bytes ex_kids ex_vj ex_now ex_empty_db (fun _ => true)
                          [ex_fetcher (bs "K") 1700000100000] [ex_req 1700000100001 Lenient]) = Some [ROk] /\
  o_results (verify_jsons bytes ex_kids ex_vj ex_now ex_empty_db (fun _ => true)
                          [ex_fetcher (bs "X") 1700000100000] [ex_req 1700000000000 Lenient]) = Some [RErr].
Proof. vm_compute. repeat split; reflexivity. Qed.

(* the database holds the key inside its validity: no fetcher is called *)
Example ring_uses_database :
  let o := verify_jsons bytes ex_kids ex_vj ex_now (ex_fetcher (bs "K") 1700000100000) (fun _ => true)
                        [ex_fetcher (bs "X") 1700000100000] [ex_req 1700000000000 Strict] in
  o_results o = Some [ROk] /\ o_calls o = [] /\ o_stored o = None.
Proof. vm_compute. repeat split; reflexivity. Qed.

(* seven-day cap: valid_until_ts far ahead, timestamp just inside / just outside now + 7 d *)
Example strict_cap :
  strict_check ex_now (1700000000000 + 604800000) (1700000000000 + 10 * 604800000) = true /\
  strict_check ex_now (1700000000000 + 604800001) (1700000000000 + 10 * 604800000) = false.
Proof. vm_compute. split; reflexivity. Qed.

(* CheckKeys on a concrete response: passes; fails at the instant valid_until_ts; fails when the
   listed key is not the signing key *)
Definition ex_doc (key : bytes) : server_keys bytes :=
  {| sk_server := bs "srv"; sk_verify := [(ex_kid, key)]; sk_valid_until := 1700000000000;
     sk_old := []; sk_raw := bs "raw" |}.
Definition ex_key32 : bytes := repeat 7%N 32.
Definition ex_doc_vj (_ kid key _ : bytes) : bool := bytes_eqb key ex_key32 && bytes_eqb kid ex_kid.
Example check_keys_concrete :
  ck_all (check_keys bytes ex_doc_vj (bs "srv") 0 (ex_doc ex_key32)) = true /\
  ck_all (check_keys bytes ex_doc_vj (bs "srv") (1700000000000 * 1000000) (ex_doc ex_key32)) = false /\
  ck_all (check_keys bytes ex_doc_vj (bs "srv") (1700000000000 * 1000000 - 1) (ex_doc ex_key32)) = true /\
  ck_all (check_keys bytes ex_doc_vj (bs "other") 0 (ex_doc ex_key32)) = false /\
  ck_all (check_keys bytes ex_doc_vj (bs "srv") 0 (ex_doc (repeat 8%N 32))) = false /\
  ck_all (check_keys bytes ex_doc_vj (bs "srv") 0 (ex_doc (repeat 7%N 31))) = false.
Proof. vm_compute. repeat split; reflexivity. Qed.

Print Assumptions C12_constants_match_source.
Print Assumptions was_valid_at_spec_all.
Print Assumptions was_valid_at_spec.
Print Assumptions was_valid_at_follows_the_text_when_unsigned.
Print Assumptions strict_check_wraps_above_int64.
Print Assumptions strict_rule_through_int64_refuted.
Print Assumptions verify_jsons_shape.
Print Assumptions verify_jsons_sound.
Print Assumptions database_asked_only_for_needed_pairs.
Print Assumptions database_asked_for_every_needed_pair.
Print Assumptions fetcher_calls_are_faithful.
Print Assumptions fetcher_calls_in_order.
Print Assumptions verify_jsons_complete.
Print Assumptions database_key_inside_validity_is_used.
Print Assumptions fetchers_asked_only_for_missing_or_stale.
Print Assumptions answered_pairs_are_not_asked_again.
Print Assumptions fetched_keys_stored.
Print Assumptions store_follows_every_fetch.
Print Assumptions verify_jsons_complete_database.
Print Assumptions verify_jsons_complete_fetcher.
Print Assumptions check_keys_spec.
Print Assumptions check_keys_returns_only_checked_keys.
Print Assumptions fetchers_check_validity_against_the_epoch.
Print Assumptions server_keys_map_spec.
Print Assumptions server_keys_public_key_spec.
Print Assumptions perspective_requires_notary_signature.
Print Assumptions perspective_answers_only_for_requested_servers.
Print Assumptions key_document_depends_only_on_exact_members.
Print Assumptions key_document_ignores_other_members.
Print Assumptions perspective_fetched_key_names_its_server_exactly.
Print Assumptions direct_fetched_key_names_its_server_exactly.
Print Assumptions direct_fetcher_accepts_only_checked_responses.
