(* C13 -- Federation request authentication binds method, request URI, origin, destination and
   JSON body.  Only statements here; proofs live in Fed/XMatrixProofs.v and Fed/RequestProofs.v.

   The signature scheme is a premise (ideal_sig: complete, and a verifying signature is the
   signature of exactly that message), never an axiom; ideal_sig_inhabited (Fed/C13Instance.v) shows it satisfiable.
   The facts about canonical JSON are C01's theorems and are used as such (no premise left):
     canon_print_injective (Json/CanonFacts.v), specialised to the five-member signing object
     (RequestProofs.canon_inj_holds; the bodies are parsed values, hence well-formed:
     ParseSound.parse_wf), and canonical_idempotent_all (Json/ParseSound.v): the body Sign leaves
     is non-empty and canonicalises to itself (RequestProofs.fr_sign_content).
   What remains a hypothesis of sign_send_verify about the input: the canonical body is valid
   UTF-8 (the parser does not check the encoding of raw string bytes, the receiver does).
   net/url is a parameter: url_request_uri d u is what url.Parse(matrix://d ++ u).RequestURI()
   returns; the request target the server hands to the handler is the one the client wrote
   (Request.deliver). *)
From Verif Require Import Lib.Bytes Json.Ast Json.Parse Json.Print.
From Verif Require Import Fed.Utf8C13 Fed.XMatrix Fed.XMatrixProofs Fed.ServerNameC13 Fed.MediaTypeC13
     Fed.ServerNameC13Proofs Fed.Base64C13 Fed.Base64C13Proofs Fed.C13Instance Fed.Request Fed.RequestProofs.
Open Scope N_scope.

(* The header HTTPRequest emits is read back by ParseAuthorization, field for field, for ALL
   valid server names o d (DNS names, IPv4 and bracketed IPv6 literals, with or without port),
   key IDs ed25519:[A-Za-z0-9_]+ and base64 texts s (either alphabet) -- no length bound. *)
Theorem xmatrix_roundtrip : forall o k s d,
  valid_server_name o = true -> valid_server_name d = true ->
  key_id_ok k = true -> forallb b64_text_char s = true ->
  parse_authorization (emit_auth o k s d)
  = (s_xmatrix, {| x_origin := o; x_dest := d; x_key := k; x_sig := s |}).
Proof. intros. apply roundtrip_lemma; auto using valid_server_name_plain. Qed.

(* more generally: any origin and destination of printable ASCII without quote and comma *)
Theorem xmatrix_roundtrip_plain : forall o k s d,
  plain o = true -> plain d = true -> key_id_ok k = true -> forallb b64_text_char s = true ->
  parse_authorization (emit_auth o k s d)
  = (s_xmatrix, {| x_origin := o; x_dest := d; x_key := k; x_sig := s |}).
Proof. exact roundtrip_lemma. Qed.

(* every valid server name is made of such characters *)
Theorem valid_server_names_are_plain : forall s, valid_server_name s = true -> plain s = true.
Proof. exact valid_server_name_plain. Qed.

Section C13.
  Context {skT pkT sigT : Type} (pub : skT -> pkT) (sign : skT -> bytes -> sigT)
          (verify : pkT -> bytes -> sigT -> bool)
          (sig_wire : sigT -> bytes) (sig_unwire : bytes -> option sigT)
          (url_request_uri : bytes -> bytes -> option bytes).

  (* the ideal signature scheme *)
  Record ideal_sig : Prop := {
    sig_complete : forall k m, verify (pub k) m (sign k m) = true;
    sig_sound : forall p m s, verify p m s = true -> exists k, p = pub k /\ s = sign k m;
    sign_inj : forall k m k' m', sign k m = sign k' m' -> pub k = pub k' /\ m = m';
    wire_ok : forall k m, sig_unwire (sig_wire (sign k m)) = Some (sign k m);
    wire_nonempty : forall k m, sig_wire (sign k m) <> [];
    wire_b64 : forall k m, b64_decode (b64_encode (sig_wire (sign k m))) = Some (sig_wire (sign k m))
  }.
  Variable IS : ideal_sig.

  Notation verify_http_request := (verify_http_request pkT sigT verify sig_unwire).
  Notation fr_sign := (fr_sign skT sigT sign sig_wire).
  Notation http_request := (http_request url_request_uri).
  Notation refused := (refused pkT sigT verify sig_unwire).
  Notation dest_local := (dest_local pkT).

  (* A request signed by its origin and sent through HTTPRequest is accepted at the named
     destination; the method, URI, origin, destination and body reported are the signed ones. *)
  Theorem sign_send_verify :
    forall r0 origin keyid sk r1 h rc now realnow e,
      f_sigs r0 = [] ->
      fr_sign r0 origin keyid sk = Some r1 -> http_request r1 = Some h ->
      f_method r0 <> [] -> utf8_valid (f_method r0) = true -> utf8_valid (f_uri r0) = true ->
      valid_server_name origin = true -> valid_server_name (f_dest r0) = true ->
      key_id_ok keyid = true ->
      (forall b, f_content r1 = Some b -> utf8_valid b = true) ->
      dest_local rc (f_dest r0) = true ->
      lookup_key pkT (rc_store rc) origin keyid = Some e -> k_pub e = pub sk ->
      was_valid_at pkT e now realnow = true -> rc_dberr rc = false ->
      exists r', verify_http_request rc now realnow (deliver h) = (200, Some r') /\
                 f_method r' = f_method r1 /\ f_uri r' = f_uri r1 /\ f_origin r' = f_origin r1 /\
                 f_dest r' = f_dest r1 /\ f_content r' = f_content r1.
  Proof.
    destruct IS. intros until e. intros H1 H2 H3 H4 H5 H6 Ho Hd Hk Hu.
    destruct (key_id_plain _ Hk).
    assert (f_dest r0 <> []) by (intro E; rewrite E in Hd; discriminate).
    assert (forall b, f_content r1 = Some b -> b <> [] /\ utf8_valid b = true /\ canonical b = Some b).
    { intros b Hb. destruct (fr_sign_content skT sigT sign sig_wire _ _ _ _ _ _ H2 Hb). auto. }
    eapply sign_send_verify_lemma; eauto using valid_server_name_plain.
  Qed.

  (* Binding.  Whatever VerifyHTTPRequest accepts on the strength of the signature the origin
     made over (method, uri, origin, destination, body) IS that request: a difference in any
     one of the five means refusal. *)
  Theorem verify_binds_fields :
    forall rc now realnow q code r k c0 d0 m0 o0 u0 msg0,
      signing_bytes c0 d0 m0 o0 u0 = Some msg0 ->
      verify_http_request rc now realnow q = (code, Some r) ->
      (forall text raw sg, In text (map snd (f_sigs r)) -> b64_decode text = Some raw ->
                           sig_unwire raw = Some sg -> sg = sign k msg0) ->
      to_valid_utf8 (f_method r) = to_valid_utf8 m0 /\ to_valid_utf8 (f_uri r) = to_valid_utf8 u0 /\
      to_valid_utf8 (f_origin r) = to_valid_utf8 o0 /\ to_valid_utf8 (f_dest r) = to_valid_utf8 d0 /\
      option_map canonical (f_content r) = option_map canonical c0.
  Proof. destruct IS. intros. eapply binding_lemma; eauto. Qed.

  (* ... and what it reports is what it was sent: method and URI of the request line, body of
     the request, origin of the header, destination of the header or else its own name *)
  Theorem verify_reports_request :
    forall rc now realnow q code r,
      verify_http_request rc now realnow q = (code, Some r) ->
      code = 200 /\ f_method r = q_method q /\ f_uri r = q_uri q /\
      f_content r = (match q_body q with [] => None | b => Some b end) /\
      f_origin r <> [] /\ valid_server_name (f_origin r) = true /\
      (dest_local rc (f_dest r) = true \/ f_dest r = rc_default rc).
  Proof. intros. eapply reports_lemma; eauto. Qed.

  (* addressed to a server name the receiver does not own *)
  Theorem wrong_destination_refused :
    forall rc now realnow q r0,
      read_http_request q = Some r0 -> f_dest r0 <> [] -> dest_local rc (f_dest r0) = false ->
      verify_http_request rc now realnow q = (400, None).
  Proof. intros. eapply wrong_destination; eauto. Qed.

  (* no X-Matrix header at all; or one without origin, key or signature *)
  Theorem missing_or_malformed_header_refused :
    forall rc now realnow q,
      ((forall h, In h (q_auths q) -> fst (parse_authorization h) <> s_xmatrix) ->
       refused rc now realnow q) /\
      (forall h, In h (q_auths q) -> malformed h ->
       verify_http_request rc now realnow q = (400, None)).
  Proof.
    intros. split; [apply missing_header|intros; eapply malformed_header; eauto].
  Qed.

  Theorem invalid_origin_refused :
    forall rc now realnow q r0,
      read_http_request q = Some r0 -> valid_server_name (f_origin r0) = false ->
      refused rc now realnow q.
  Proof. intros. eapply invalid_origin; eauto. Qed.

  Theorem non_json_or_non_utf8_body_refused :
    forall rc now realnow q,
      q_body q <> [] ->
      (is_json_content_type (q_ctype q) = false \/ utf8_valid (q_body q) = false) ->
      verify_http_request rc now realnow q = (400, None).
  Proof. intros. apply bad_body; assumption. Qed.

  (* the repair made for this property: a request line that is not UTF-8 is refused *)
  Theorem non_utf8_request_line_refused :
    forall rc now realnow q,
      (utf8_valid (q_method q) = false \/ utf8_valid (q_uri q) = false) ->
      verify_http_request rc now realnow q = (400, None).
  Proof. intros. apply bad_request_line; assumption. Qed.

  (* no key of the origin was valid at the time of receipt (strict rule: not withdrawn, and
     now <= min(valid_until_ts, clock + 7 days); a withdrawn key only before its expiry) *)
  Theorem expired_key_refused :
    forall rc now realnow q r0,
      read_http_request q = Some r0 ->
      (forall e, In e (rc_store rc) -> k_server e = f_origin r0 ->
                 (k_expired e <> 0 /\ k_expired e <= now) \/
                 (k_expired e = 0 /\ (k_valid_until e = 0 \/ k_valid_until e < now
                                      \/ realnow + seven_days_ms < now))) ->
      refused rc now realnow q.
  Proof. intros. eapply expired_lemma; eauto. Qed.
End C13.

(* ---- non-vacuity: the ideal scheme has an instance (signature = self-delimiting code of key
   and message, carried as real base64) ---- *)
Example ideal_sig_inhabited :
  ideal_sig (fun k : bytes => k) i_sign i_verify (fun s : bytes => s) (fun s => Some s).
Proof.
  constructor.
  - intros k m. apply bytes_eqb_refl.
  - intros p m s H. exists p. split; [reflexivity|]. apply bytes_eqb_eq in H. exact H.
  - intros k m k' m' H. apply i_sign_inj in H. exact H.
  - reflexivity.
  - apply i_sign_nonempty.
  - intros k m. apply b64_roundtrip, i_sign_small.
Qed.

(* ---- non-vacuity: a concrete request goes through the executable model (table instance of the
   signature scheme: the signature is the one the table records for that key and message) ---- *)
Definition ex_sig : bytes := repeat 7 64.
Definition ex_r0 : fedreq := new_federation_request (bs "put") [] (bs "dest.example:8448") (bs "/_matrix/x?a=1").
Definition ex_r1 : option fedreq :=
  match set_content ex_r0 (bs "{""b"": 1, ""a"": [true, null]}") with
  | Some r => fr_sign bytes bytes (fun _ _ => ex_sig) (fun s => s) r (bs "origin.example") (bs "ed25519:k1") []
  | None => None
  end.
Definition ex_rc (vu : N) : receiver bytes :=
  {| rc_default := bs "dest.example:8448"; rc_locals := None;
     rc_store := [ {| k_server := bs "origin.example"; k_id := bs "ed25519:k1"; k_pub := bs "K";
                      k_expired := 0; k_valid_until := vu |} ];
     rc_dberr := false |}.
Definition ex_verify (m : bytes) (vu : N) (tamper : rawreq -> rawreq) : N :=
  match ex_r1 with
  | Some r1 =>
      match http_request (fun _ u => Some u) r1 with
      | Some h => fst (verify_http_request bytes bytes
                         (fun pk msg s => bytes_eqb pk (bs "K") && bytes_eqb msg m && bytes_eqb s ex_sig)
                         (fun s => Some s) (ex_rc vu) 1000 1000 (tamper (deliver h)))
      | None => 0
      end
  | None => 0
  end.
Definition ex_msg : bytes :=
  bs "{""content"":{""a"":[true,null],""b"":1},""destination"":""dest.example:8448"",""method"":""PUT"",""origin"":""origin.example"",""uri"":""/_matrix/x?a=1""}".

Example concrete_roundtrip_accepted_and_tamperings_refused :
  ex_verify ex_msg 2000 (fun q => q) = 200 /\
  ex_verify ex_msg 999 (fun q => q) = 401 /\
  ex_verify ex_msg 2000 (fun q => {| q_method := bs "POST"; q_uri := q_uri q; q_ctype := q_ctype q;
                                     q_body := q_body q; q_auths := q_auths q |}) = 401 /\
  ex_verify ex_msg 2000 (fun q => {| q_method := q_method q; q_uri := q_uri q; q_ctype := bs "text/plain";
                                     q_body := q_body q; q_auths := q_auths q |}) = 400 /\
  ex_verify ex_msg 2000 (fun q => {| q_method := q_method q; q_uri := q_uri q; q_ctype := q_ctype q;
                                     q_body := bs "{ ""a"":[true,null], ""b"":1 }"; q_auths := q_auths q |}) = 200 /\
  ex_verify ex_msg 2000 (fun q => {| q_method := q_method q; q_uri := q_uri q; q_ctype := q_ctype q;
                                     q_body := bs "{""a"":[true,null],""b"":2}"; q_auths := q_auths q |}) = 401.
Proof. vm_compute. repeat split; reflexivity. Qed.

Print Assumptions xmatrix_roundtrip.
Print Assumptions xmatrix_roundtrip_plain.
Print Assumptions valid_server_names_are_plain.
Print Assumptions sign_send_verify.
Print Assumptions verify_binds_fields.
Print Assumptions verify_reports_request.
Print Assumptions wrong_destination_refused.
Print Assumptions missing_or_malformed_header_refused.
Print Assumptions invalid_origin_refused.
Print Assumptions non_json_or_non_utf8_body_refused.
Print Assumptions non_utf8_request_line_refused.
Print Assumptions expired_key_refused.
