(* C13 -- placeholder while the correspondence is brought up; theorems follow. *)
From Verif Require Import Lib.Bytes Fed.XMatrix.
Example xmatrix_concrete :
  parse_authorization (emit_auth (bs "o.example") (bs "ed25519:k1") (bs "AbC+/") (bs "d.example:8448"))
  = (s_xmatrix, {| x_origin := bs "o.example"; x_dest := bs "d.example:8448"; x_key := bs "ed25519:k1"; x_sig := bs "AbC+/" |}).
Proof. vm_compute. reflexivity. Qed.
Print Assumptions xmatrix_concrete.
