(* C14 -- Only events that pass signature and auth checks leave federation verification.

   Only statements here; the models are in Fed/{Filters,AuthChain,Load}.v, the specification in
   Fed/Spec.v, the proofs in Fed/*Proofs.v.

   Parameters of every statement (never axioms):
     sig_ok e     the event's signatures verify             (VerifyEventSignatures)
     allowed e l  the authorisation rules allow e given the auth events l, l being the sequence
                  of AuthEvents.AddEvent calls               (Allowed)
     prov         the caller's event provider. Where a statement says what the auth events of an
                  event ARE, the provider is a function of the requested ID that answers with an
                  event of that ID, with nothing or with an error (`honest`); a provider that keeps
                  answering with other events makes the Go loop spin (last theorem).
   "Allowed by its auth events" is allowed_by: no two different cited events for one
   (type, state_key) (auth rule 2.1, enforced since fix F84) and the rules proper.
   Nothing is assumed about `allowed`. Loop bounds of the model (fuel) are explicit premises in the
   general statements and computed from the input in the *_total statements. *)
From Coq Require Import List NArith ZArith Bool Lia.
From Verif Require Import Lib.Bytes Fed.Filters Fed.AuthChain Fed.Load Fed.Spec Fed.Instance
  Fed.GatherProofs Fed.StateProofs Fed.LoadProofs Fed.ChainProofs Fed.InstanceProofs.
Import ListNotations.
Open Scope N_scope.

Section C14.
  Variable sig_ok : event -> bool.
  Variable allowed : event -> list event -> bool.
  Variable prov : N -> presp.
  Hypothesis prov_honest : honest prov.

  (* ---- CheckStateResponse ----
     On success the returned auth and state lists are exactly the parsed inputs (UntrustedEvents:
     parse errors dropped, persistable size errors kept) that pass both checks, in input order.
     good_id e: every event of the response with e's ID has verified signatures and is allowed
     by those of its auth events that arrived with verified signatures or, failing that, that
     the provider supplied. hasprov = false is the call with a nil provider. *)
  Theorem check_state_response_exact : forall fuel hasprov rauth rstate a s,
    let all := untrusted_events rauth ++ untrusted_events rstate in
    (forall e, In e all -> (2 * length (auth_ids e) < fuel)%nat) ->
    check_state_response unit sig_ok allowed (pcall_of prov) fuel hasprov rauth rstate tt
      = (CsrOk a s, tt) ->
    a = filter (good_id sig_ok allowed (eff_prov hasprov prov) all) (untrusted_events rauth) /\
    s = filter (good_id sig_ok allowed (eff_prov hasprov prov) all) (untrusted_events rstate).
  Proof. intros. eapply csr_exact; eauto. Qed.

  (* with unique event IDs: kept iff sig_ok e && allowed e (its auth events) *)
  Theorem check_state_response_exact_unique_ids : forall fuel hasprov rauth rstate a s,
    let all := untrusted_events rauth ++ untrusted_events rstate in
    NoDup (map eid all) ->
    (forall e, In e all -> (2 * length (auth_ids e) < fuel)%nat) ->
    check_state_response unit sig_ok allowed (pcall_of prov) fuel hasprov rauth rstate tt
      = (CsrOk a s, tt) ->
    forall e, In e all ->
      (In e (a ++ s) <-> sig_ok e = true /\
         allowed_by allowed e (auth_events_of sig_ok (eff_prov hasprov prov) all e) = true).
  Proof.
    intros fuel hasprov rauth rstate a s all Hnd Hf Hc e He.
    destruct (csr_exact sig_ok allowed prov prov_honest hasprov fuel rauth rstate a s Hf Hc)
      as [-> ->].
    fold all. rewrite in_app_iff, !filter_In.
    rewrite (good_id_unique sig_ok allowed prov hasprov all e Hnd He).
    unfold good. rewrite andb_true_iff. unfold all in He. apply in_app_or in He. tauto.
  Qed.

  (* ---- CheckSendJoinResponse ----
     accepted exactly when the /state checks succeed, the join event is allowed by its auth
     events (taken from the returned events, else from the provider) and by the returned state *)
  Theorem send_join_accept_iff : forall fuel hasprov rauth rstate join a s,
    (2 * length (auth_ids join) < fuel)%nat ->
    (check_send_join unit sig_ok allowed (pcall_of prov) fuel hasprov rauth rstate join tt
       = (SjOk a s, tt)
     <-> check_state_response unit sig_ok allowed (pcall_of prov) fuel hasprov rauth rstate tt
           = (CsrOk a s, tt)
         /\ allowed_by allowed join (join_auth_events (eff_prov hasprov prov) a s join) = true
         /\ allowed join s = true).
  Proof. intros. eapply sj_accept_iff; eauto. Qed.

  (* ---- VerifyEventAuthChain ----
     Reach: the event and, recursively, every auth event the provider supplies.
     chain_ok c: the provider does not fail on c's auth events, those obtained are state events
     and allow c. *)
  Theorem auth_chain_accepts_iff : forall fuel gfuel e,
    (forall c, Reach prov e c -> (2 * length (auth_ids c) < gfuel)%nat) ->
    fst (verify_event_auth_chain unit allowed (pcall_of prov) fuel gfuel e tt) <> ChainOutOfFuel ->
    (fst (verify_event_auth_chain unit allowed (pcall_of prov) fuel gfuel e tt) = ChainOk
     <-> forall c, Reach prov e c -> chain_ok allowed prov e c).
  Proof.
    intros fuel gfuel e Hg Hfuel. unfold verify_event_auth_chain in *. split.
    - intros Hok.
      destruct (chain_loop unit allowed (pcall_of prov) fuel gfuel [e] (mset [] (eid e) (Some e)) [] tt)
        as [r u] eqn:Hl. destruct u. simpl in Hok. subst r.
      eapply (chain_sound allowed prov prov_honest e gfuel Hg); eauto.
      apply J_init.
    - intros Hall.
      destruct (J_init allowed prov e) as [HT _].
      assert (HS : forall c, In c [e] -> Reach prov e c) by (intros c [<-|[]]; constructor).
      destruct (chain_complete allowed prov prov_honest e gfuel Hg Hall fuel [e]
                  (mset [] (eid e) (Some e)) [] HT HS) as [H|H]; auto.
      contradiction.
  Qed.

  (* ---- no fuel premise ----
     With the fuel computed from the response (csr_fuel: twice the longest auth_events list, plus
     one) CheckStateResponse never runs out: it fails as a whole or returns the exact filter. *)
  Theorem check_state_response_total : forall hasprov rauth rstate,
    let all := untrusted_events rauth ++ untrusted_events rstate in
    let r := check_state_response unit sig_ok allowed (pcall_of prov) (csr_fuel all) hasprov rauth rstate tt in
    whole_failure unit r tt \/
    r = (CsrOk (filter (good_id sig_ok allowed (eff_prov hasprov prov) all) (untrusted_events rauth))
               (filter (good_id sig_ok allowed (eff_prov hasprov prov) all) (untrusted_events rstate)), tt).
  Proof.
    intros. eapply csr_shape; eauto. intros e He. now apply csr_fuel_ok.
  Qed.

  Theorem send_join_never_out_of_fuel : forall hasprov rauth rstate join,
    let all := untrusted_events rauth ++ untrusted_events rstate in
    fst (check_send_join unit sig_ok allowed (pcall_of prov) (csr_fuel (join :: all)) hasprov rauth rstate join tt)
      <> SjOutOfFuel.
  Proof.
    intros. eapply sj_no_out_of_fuel; eauto.
    - intros e He. apply csr_fuel_ok. now right.
    - apply csr_fuel_ok. now left.
  Qed.

  (* For a provider that is a function of the ID, the events reachable from e lie in some finite
     list univ (e.g. e plus the provider's range). With the fuel computed from univ
     (fuel_of: 2 + the sum of (1 + number of auth event IDs) over univ; gfuel_of: twice the
     longest auth_events list, plus one) VerifyEventAuthChain terminates within the fuel, and
     accepts exactly when every reachable event passes. *)
  Theorem auth_chain_accepts_iff_total : forall univ e,
    (forall c, Reach prov e c -> In c univ) ->
    let r := fst (verify_event_auth_chain unit allowed (pcall_of prov) (fuel_of univ) (gfuel_of univ) e tt) in
    r <> ChainOutOfFuel /\
    (r = ChainOk <-> forall c, Reach prov e c -> chain_ok allowed prov e c).
  Proof.
    intros univ e Huniv r.
    assert (Hg : forall c, Reach prov e c -> (2 * length (auth_ids c) < gfuel_of univ)%nat)
      by (intros c Hc; apply gfuel_of_ok; auto).
    assert (Hnf : r <> ChainOutOfFuel).
    { unfold r, verify_event_auth_chain.
      destruct (J_init allowed prov e) as [HT _].
      apply (chain_fuel_ok allowed prov prov_honest e (gfuel_of univ) Hg univ Huniv
               (fuel_of univ) [e] _ [] HT).
      - intros c [<-|[]]. constructor.
      - rewrite weight_nil. unfold fuel_of. simpl. lia. }
    split; auto. apply auth_chain_accepts_iff; auto.
  Qed.
End C14.

(* ---- whole-response failures, for ANY provider (stateful, lying, failing) ---- *)
Theorem duplicate_state_key_fails :
  forall PS sig_ok allowed pcall fuel hasprov rauth rstate (ps : PS) l1 e1 l2 e2 l3,
    untrusted_events rstate = l1 ++ e1 :: l2 ++ e2 :: l3 ->
    etype e1 = etype e2 -> skey e1 = skey e2 ->
    whole_failure PS (check_state_response PS sig_ok allowed pcall fuel hasprov rauth rstate ps) ps.
Proof. intros. eapply csr_duplicate_fails; eauto. Qed.

Theorem non_state_event_fails :
  forall PS sig_ok allowed pcall fuel hasprov rauth rstate (ps : PS) e,
    In e (untrusted_events rauth ++ untrusted_events rstate) -> skey e = None ->
    whole_failure PS (check_state_response PS sig_ok allowed pcall fuel hasprov rauth rstate ps) ps.
Proof. intros. eapply csr_nonstate_fails; eauto. Qed.

(* fix F85: a response whose events do not all belong to one room fails as a whole *)
Theorem mixed_rooms_fail :
  forall PS sig_ok allowed pcall fuel hasprov rauth rstate (ps : PS),
    one_room (untrusted_events rauth ++ untrusted_events rstate) = false ->
    whole_failure PS (check_state_response PS sig_ok allowed pcall fuel hasprov rauth rstate ps) ps.
Proof. intros. eapply csr_mixed_rooms_fails; eauto. Qed.

(* ---- VerifyAuthRulesAtState, for any state provider ----
   accepted exactly when the state IDs can be fetched and either (validation permitted) all auth
   event IDs are among them, or the state can be fetched, has at most one event per
   (type, state_key), and the state events of THAT STATE allow the event (fix F83: not merely
   those of them the event cites) *)
Theorem auth_rules_at_state_accepts_iff :
  forall PS allowed sp_ids sp_state e allowValidation (ps : PS),
    fst (verify_auth_rules_at_state PS allowed sp_ids sp_state e allowValidation ps) = RasOk <->
    exists ps1 ids, sp_ids ps e = (ps1, Some ids) /\
      ((allowValidation = true /\ forallb (fun a => mem_N a ids) (auth_ids e) = true) \/
       exists ps2 m, sp_state ps1 e ids = (ps2, Some m) /\
         tuples_distinct (state_events_of m) = true /\
         allowed e (state_events_of m) = true).
Proof. intros. apply vras_accept_iff. Qed.

(* ---- LoadAndVerify, for any providers ----
   one result per input: first the loadable events in the order ReverseTopologicalOrdering gives
   them (topo; only its length preservation is used), each classified by the first check it fails
   (class_spec: signature, then auth chain, then auth rules at state, threading the providers'
   state), then one error entry per input that could not be loaded *)
Theorem load_and_verify_shape :
  forall PS sig_ok allowed pcall sp_ids sp_state topo fuel gfuel vk raws (ps : PS) rs ps',
    (forall l, length (topo l) = length l) ->
    load_and_verify PS sig_ok allowed pcall sp_ids sp_state topo fuel gfuel vk raws ps
      = (LoadResults rs, ps') ->
    length rs = length raws /\
    exists rs1, rs = rs1 ++ repeat (None, LParse) (length raws - length (loaded raws)) /\
      classified PS sig_ok allowed pcall sp_ids sp_state fuel gfuel (topo (loaded raws)) ps rs1 ps'.
Proof. intros. eapply load_shape; eauto. Qed.

(* ---- RequestBackfill, for any providers ----
   the returned events carry pairwise different IDs; without starting points nothing is asked
   and nothing is returned. (Which events are taken: those LoadAndVerify classified as passing
   or as failing only the signature check - Fed/LoadProofs.take_results_spec; the code documents
   that signature failures are passed on.) *)
Theorem backfill_returns_unique_ids :
  forall PS sig_ok allowed pcall sp_ids sp_state topo servers_at backfill
         fuel gfuel vk room from_ids limit (ps : PS) evs lastErr ps',
    request_backfill PS sig_ok allowed pcall sp_ids sp_state topo servers_at backfill
                     fuel gfuel vk room from_ids limit ps = (BfResult evs lastErr, ps') ->
    NoDup (map eid evs) /\ (from_ids = [] -> evs = [] /\ lastErr = false /\ ps' = ps).
Proof. intros. eapply backfill_unique_ids; eauto. Qed.

(* every event RequestBackfill returns got, from LoadAndVerify on some server's answer, the class
   "no error" or "signature error only" as the class of its first failing check *)
Theorem backfill_returns_checked_events :
  forall PS sig_ok allowed pcall sp_ids sp_state topo servers_at backfill
         fuel gfuel vk room from_ids limit (ps : PS) evs lastErr ps',
    request_backfill PS sig_ok allowed pcall sp_ids sp_state topo servers_at backfill
                     fuel gfuel vk room from_ids limit ps = (BfResult evs lastErr, ps') ->
    forall e, In e evs ->
      exists psa psb c, (c = LOk \/ c = LSig) /\
        class_spec PS sig_ok allowed pcall sp_ids sp_state fuel gfuel e psa c psb.
Proof. intros. eapply backfill_events_checked; eauto. Qed.

(* An event is returned iff, in the sequence of load results of the servers asked (in server
   order; bf_answers records them), it is the FIRST copy of its event ID classified "no error" or
   "signature error only": a rejected or unloadable copy from an earlier server does not shadow a
   good copy from a later one, and a later copy never replaces the one taken. *)
Theorem backfill_takes_first_good_copy :
  forall PS sig_ok allowed pcall sp_ids sp_state topo servers_at backfill
         fuel gfuel vk room first rest limit (ps : PS) evs lastErr ps',
    request_backfill PS sig_ok allowed pcall sp_ids sp_state topo servers_at backfill
                     fuel gfuel vk room (first :: rest) limit ps = (BfResult evs lastErr, ps') ->
    forall e, In e evs <->
      first_good_copy room
        (concat (bf_answers PS sig_ok allowed pcall sp_ids sp_state topo backfill room fuel gfuel vk limit
                            (snd (servers_at ps first)) [] [] (fst (servers_at ps first)))) [] e.
Proof. intros. eapply backfill_first_good_copy; eauto. Qed.

(* fix F85: only events of the requested room are returned *)
Theorem backfill_returns_only_room_events :
  forall PS sig_ok allowed pcall sp_ids sp_state topo servers_at backfill
         fuel gfuel vk room from_ids limit (ps : PS) evs lastErr ps',
    request_backfill PS sig_ok allowed pcall sp_ids sp_state topo servers_at backfill
                     fuel gfuel vk room from_ids limit ps = (BfResult evs lastErr, ps') ->
    forall e, In e evs -> eroom e = room.
Proof. intros. eapply backfill_only_room; eauto. Qed.

Theorem backfill_nonpositive_limit_returns_nothing :
  forall PS sig_ok allowed pcall sp_ids sp_state topo servers_at backfill
         fuel gfuel vk room from_ids limit (ps : PS) evs lastErr ps',
    (limit <= 0)%Z ->
    request_backfill PS sig_ok allowed pcall sp_ids sp_state topo servers_at backfill
                     fuel gfuel vk room from_ids limit ps = (BfResult evs lastErr, ps') ->
    evs = [] /\ lastErr = false.
Proof. intros. eapply backfill_limit_nonpositive; eauto. Qed.

(* ---- termination, for ANY provider (fix F82) ----
   Whatever the event provider answers (other events than the one asked for, ever different
   ones, stateful), the retry loop of checkAllowedByAuthEvents visits its label at most twice per
   cited auth event, and CheckStateResponse never runs out of the fuel computed from the response. *)
Theorem retry_loop_terminates_for_any_provider :
  forall PS pcall aes fuel hasprov acc m (ps : PS),
    (2 * length aes < fuel)%nat ->
    fst (fst (fst (gather PS pcall fuel hasprov aes acc m ps))) <> GOutOfFuel.
Proof. intros. now apply gather_total. Qed.

Theorem check_state_response_terminates_for_any_provider :
  forall PS sig_ok allowed pcall fuel hasprov rauth rstate (ps : PS),
    (forall e, In e (untrusted_events rauth ++ untrusted_events rstate) ->
               (2 * length (auth_ids e) < fuel)%nat) ->
    fst (check_state_response PS sig_ok allowed pcall fuel hasprov rauth rstate ps) <> CsrOutOfFuel.
Proof. intros. now apply csr_total_any_provider. Qed.

(* ---------- non-vacuity ---------- *)
Definition ex_create : event := mkEvent 0 10 1 (Some 0) 7 [].
Definition ex_member : event := mkEvent 1 11 2 (Some 5) 7 [10].
Definition ex_badsig : event := mkEvent 2 12 3 (Some 0) 7 [10].
Definition ex_topic : event := mkEvent 3 13 4 (Some 0) 7 [10; 12].
Definition ex_sig (e : event) : bool := negb (uid e =? 2).
(* allowed when every auth event ID was resolved to an event *)
Definition ex_allowed (e : event) (l : list event) : bool :=
  forallb (fun x => existsb (fun a => eid a =? x) l) (auth_ids e).
Definition ex_prov_none (_ : N) : presp := RNone.
Definition ex_prov (x : N) : presp := if x =? 12 then REv ex_badsig else RNone.

Lemma ex_prov_honest_concrete : honest ex_prov /\ honest ex_prov_none.
Proof.
  split; intros x a; unfold ex_prov, ex_prov_none; [|discriminate].
  destruct (x =? 12) eqn:H; [|discriminate]. intros [= <-]. apply N.eqb_eq in H. now subst.
Qed.

(* the event with the bad signature is dropped; the topic event that cites it is dropped when
   the provider has nothing, and kept when the provider supplies the cited event; an
   unparsable input vanishes *)
Example concrete_state_response :
  check_state_response unit ex_sig ex_allowed (pcall_of ex_prov_none) 10 true
    [POk ex_create; POk ex_member; PErr; POk ex_badsig] [POk ex_topic] tt
    = (CsrOk [ex_create; ex_member] [], tt)
  /\ check_state_response unit ex_sig ex_allowed (pcall_of ex_prov) 10 true
    [POk ex_create; POk ex_member; PErr; POk ex_badsig] [POk ex_topic] tt
    = (CsrOk [ex_create; ex_member] [ex_topic], tt).
Proof. split; vm_compute; reflexivity. Qed.

Example concrete_auth_chain :
  fst (verify_event_auth_chain unit ex_allowed (pcall_of ex_prov) 20 10 ex_topic tt) = ChainNotAllowed
  /\ fst (verify_event_auth_chain unit ex_allowed (pcall_of ex_prov) 20 10 ex_create tt) = ChainOk
  /\ Reach ex_prov ex_topic ex_badsig.
Proof.
  split; [vm_compute; reflexivity|]. split; [vm_compute; reflexivity|].
  eapply reach_step with (c := ex_topic) (x := 12); [constructor| | |]; simpl; auto.
  discriminate.
Qed.

Print Assumptions check_state_response_exact.
Print Assumptions check_state_response_exact_unique_ids.
Print Assumptions send_join_accept_iff.
Print Assumptions auth_chain_accepts_iff.
Print Assumptions duplicate_state_key_fails.
Print Assumptions non_state_event_fails.
Print Assumptions auth_rules_at_state_accepts_iff.
Print Assumptions load_and_verify_shape.
Print Assumptions check_state_response_total.
Print Assumptions send_join_never_out_of_fuel.
Print Assumptions auth_chain_accepts_iff_total.
Print Assumptions backfill_returns_unique_ids.
Print Assumptions backfill_returns_checked_events.
Print Assumptions backfill_takes_first_good_copy.
Print Assumptions backfill_nonpositive_limit_returns_nothing.
Print Assumptions retry_loop_terminates_for_any_provider.
Print Assumptions check_state_response_terminates_for_any_provider.
Print Assumptions mixed_rooms_fail.
Print Assumptions backfill_returns_only_room_events.
Print Assumptions ex_prov_honest_concrete.
Print Assumptions concrete_state_response.
Print Assumptions concrete_auth_chain.
