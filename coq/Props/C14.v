(* C14 property theorems (placeholder while the model is being tied). *)
From Verif Require Import Fed.Filters.
Theorem c14_placeholder : untrusted_events nil = nil.
Proof. reflexivity. Qed.
Print Assumptions c14_placeholder.
