(* C15 — Join, leave and invite handshakes admit only well-formed, authorised requests.
   Only statements here; models in Fed/Handshake{Common,Join,Invite,Perform}.v, the flat
   specification in Fed/HandshakeSpec.v, proofs in Fed/HandshakeProofs.v.

   Every handler is modelled as a function of an input record in which the answers of the
   queriers, of the signature verifier, of the event builder, of the auth rules (Allowed, C07) and of
   the federation-response checks (CheckSendJoinResponse, C14) are DATA; the theorems quantify over
   ALL such records (no bounds).  The correspondence run (harness/c15*.go) obtains those answers
   from the real library for the very event in question and compares outcome class, the order
   and arguments of querier calls, and the returned object with the real handlers.

   Signing is abstract: a Section variable with the two laws of an ideal scheme as premises.

   Not expressible for HandleInvite (stated in invite_accept_only_if as what holds instead):
   HandleInviteInput carries neither the event ID nor the origin of the request, so the conjuncts
   event ID matches the request and sender belongs to the requesting server are the caller's;
   the handler checks the signature of the SENDER's server instead. *)
From Verif Require Import Lib.Bytes Json.Ast Fed.HandshakeCommon Fed.HandshakeJoin Fed.HandshakeInvite
     Fed.HandshakePerform Fed.HandshakePerformInvite Fed.HandshakeSpec Fed.HandshakeProofs
     Gen.GenConsts Gen.GenVersions.
Open Scope N_scope.

(* the constants of the models are those of package spec, and the version table is the one of
   eventversion.go (both regenerated from the source on every run) *)
Theorem C15_constants_match_source :
  assoc_first (bs "MRoomMember") gen_spec_eventtypes = Some m_room_member /\
  assoc_first (bs "MRoomCreate") gen_spec_eventtypes = Some m_room_create /\
  assoc_first (bs "MRoomJoinRules") gen_spec_eventtypes = Some m_room_join_rules /\
  assoc_first (bs "MRoomPowerLevels") gen_spec_eventtypes = Some m_room_power_levels /\
  assoc_first (bs "MRoomMembership") gen_spec_eventtypes = Some m_room_membership /\
  assoc_first (bs "Join") gen_spec_eventtypes = Some s_join /\
  assoc_first (bs "Invite") gen_spec_eventtypes = Some s_invite /\
  assoc_first (bs "Leave") gen_spec_eventtypes = Some s_leave /\
  assoc_first (bs "Ban") gen_spec_eventtypes = Some s_ban /\
  assoc_first (bs "Restricted") gen_spec_eventtypes = Some s_restricted /\
  assoc_first (bs "KnockRestricted") gen_spec_eventtypes = Some s_knock_restricted.
Proof. repeat split; reflexivity. Qed.

(* which room versions run checkRestrictedJoin, and which of them with privileged creators *)
Theorem C15_restricted_join_versions :
  map (fun v => (v, version_rj_kind v, version_privileged_creators v))
      [bs "7"; bs "8"; bs "10"; bs "11"; bs "12"; bs "org.matrix.msc3787"; bs "org.matrix.msc4014"] =
  [(bs "7", RJKNoCheck, false); (bs "8", RJKCheck, false); (bs "10", RJKCheck, false);
   (bs "11", RJKCheck, false); (bs "12", RJKCheck, true); (bs "org.matrix.msc3787", RJKCheck, false);
   (bs "org.matrix.msc4014", RJKCheck, false)] /\
  forallb (fun e => match version_rj_kind (fst e) with RJKNilFunc => false | _ => true end) gen_versions = true.
Proof. split; vm_compute; reflexivity. Qed.

(* ---------- make_join / make_leave ---------- *)

Theorem make_join_template_only_if : forall i,
  tr_out (make_join i) = OOk ->
  (* the remote supports the room version *)
  In (mj_version i) (mj_remote_versions i) /\
  (* the user belongs to the requesting server *)
  mj_user_domain i = mj_origin i /\
  (* the local server is in the room *)
  mj_local_in_room i = true /\
  (* a restricted join can be authorised by a local user entitled to invite *)
  restricted_join_authorisable (mj_version i) (mj_rj i) = true /\
  (* the resulting event is a member event that passes the auth rules *)
  (exists e, mj_build i = BBuilt e /\ b_type e = m_room_member /\
             b_provider_ok e = true /\ b_allowed_ok e = true) /\
  (* and the template is a join of the requesting user naming the chosen authoriser *)
  exists via refs log,
    tr_template (make_join i) =
      Some ({| t_sender := mj_sender_id i; t_room := mj_room_id i; t_type := m_room_member;
               t_state_key := mj_sender_id i; t_membership := s_join;
               t_authorised_via := via; t_refs := refs |}, mj_version i) /\
    version_check_restricted_join (mj_version i) (mj_local_name i) (mj_room_id i)
      (mj_sender_id i) (mj_rj i) = Some (RJVia via, log) /\
    ((version_rj_kind (mj_version i) = RJKNoCheck /\ via = []) \/
     (version_rj_kind (mj_version i) = RJKCheck /\
      rj_verdict_spec (version_privileged_creators (mj_version i)) (mj_rj i) (RJVia via))).
Proof.
  intros i H. destruct (make_join_ok i H) as [A [via [refs [T [log L]]]]].
  destruct (make_join_admissible_meaning i A) as [P1 [P2 [P3 [P4 P5]]]].
  repeat split; try assumption.
  exists via, refs, log. repeat split; try assumption.
  eapply version_check_via_spec; eauto.
Qed.

Theorem make_leave_template_only_if : forall i,
  tr_out (make_leave i) = OOk ->
  ml_user_domain i = ml_origin i /\
  ml_local_in_room i = true /\
  (exists e, ml_build i = BBuilt e /\ b_type e = m_room_member /\
             b_provider_ok e = true /\ b_allowed_ok e = true) /\
  exists refs,
    tr_template (make_leave i) =
      Some ({| t_sender := ml_sender_id i; t_room := ml_room_id i; t_type := m_room_member;
               t_state_key := ml_sender_id i; t_membership := s_leave;
               t_authorised_via := []; t_refs := refs |}, ml_version i).
Proof.
  intros i H. destruct (make_leave_ok i H) as [A T].
  destruct (make_leave_admissible_meaning i A) as [P1 [P2 P3]].
  repeat split; assumption.
Qed.

(* checkRestrictedJoin: a chosen (non-empty) user is a joined member reported for a room in which
   the local server is resident and the joiner is a member, named by an m.room_membership allow
   rule of a restricted join rule, and is a creator (v12) or has at least the invite level *)
Theorem restricted_join_authoriser_spec : forall localname room sender privileged d u log,
  check_restricted_join localname room sender privileged d = (RJVia u, log) ->
  (u = [] /\ no_authoriser_needed d = true) \/
  exists jr pl r info,
    rj_join_rules d = QVal jr /\ is_restricted_rule (jr_join_rule jr) = true /\
    rj_pending d = Some false /\
    rj_power d = QVal pl /\ pl_ok pl = true /\
    In r (jr_allow jr) /\ rr_type r = m_room_membership /\ rr_room_valid r = true /\
    rr_info r = QVal info /\ ri_local_in_room info = true /\ ri_user_joined info = true /\
    (exists m, In m (ri_joined info) /\ rm_type m = m_room_member /\ rm_state_key m = Some u) /\
    (In u (creators_of privileged d) \/ (pl_invite pl <= user_level pl u)%Z).
Proof.
  intros localname room sender privileged d u log H.
  pose proof (check_restricted_join_spec localname room sender privileged d) as S.
  rewrite H in S. simpl in S. destruct S as [S|[S _]]; [left; exact S|right].
  apply vouched_by_meaning. exact S.
Qed.

(* unable to authorise versus forbidden, as coded: nobody can vouch in either case; the verdict
   is "unable" exactly when some rule could not be evaluated (not resident / no answer) *)
Theorem restricted_join_refusals_spec : forall localname room sender privileged d,
  rj_verdict_spec privileged d (fst (check_restricted_join localname room sender privileged d)).
Proof. exact check_restricted_join_spec. Qed.

(* the oracle of the correspondence run for checkRestrictedJoin: every verdict of the model is
   admissible when judged from the per-room querier answers (power levels of the joined room) *)
Theorem restricted_join_oracle_sound : forall ver localname room sender d r log,
  version_check_restricted_join ver localname room sender d = Some (r, log) ->
  rj_observed_admissible ver d (observe r) = true.
Proof. exact rj_oracle_sound. Qed.

(* ---------- send_join / invite ---------- *)

(* ideal signature scheme over event values: a signature made verifies, and removing the
   signature just made gives back what removing it from the original gives *)
Record ideal_signing (sign : bytes -> bytes -> json -> json)
                     (verifies : bytes -> bytes -> json -> bool)
                     (unsign : bytes -> bytes -> json -> json) : Prop := {
  sign_verifies : forall name key ev, verifies name key (sign name key ev) = true;
  sign_only_adds : forall name key ev, unsign name key (sign name key ev) = unsign name key ev
}.

Section Signed.
  Variable sign : bytes -> bytes -> json -> json.
  Variable verifies : bytes -> bytes -> json -> bool.
  Variable unsign : bytes -> bytes -> json -> json.
  Hypothesis IS : ideal_signing sign verifies unsign.

  Theorem send_join_accept_only_if : forall i,
    er_out (send_join sign i) = OOk ->
    let f := sj_fields i in
    version_known (sj_version i) = true /\ sj_parse_ok i = true /\
    (* it is a join *)
    ef_type f = m_room_member /\ ef_membership f = Some s_join /\
    (* whose sender equals its state key *)
    ef_state_key f = Some (ef_sender f) /\ ef_sender f <> [] /\
    (* whose room and event ID match the request *)
    ef_room_id f = sj_req_room i /\ ef_event_id f = sj_req_event_id i /\
    (* whose sender belongs to the requesting server *)
    sj_sender i = SUser (sj_origin i) /\
    (* which that server has validly signed *)
    sj_verify i = VGood /\
    (* whose target is not banned *)
    (exists cur, sj_membership i = Some cur /\ cur <> s_ban) /\
    (* and whose authorising user is local *)
    (ef_authorised_via f = [] \/ sj_authvia_domain i = Some (sj_local_name i)).
  Proof.
    intros i H. apply send_join_admissible_meaning. apply (send_join_ok sign i H).
  Qed.

  (* the same read off the event text, when the record is the one fields_of_event extracts
     (a repeated member counts as its last occurrence, as for every reader of the stored event) *)
  Theorem send_join_accept_only_if_on_event_text : forall i,
    sj_fields i = fields_of_event (sj_event i) (ef_event_id (sj_fields i)) ->
    er_out (send_join sign i) = OOk ->
    let ev := sj_event i in
    jget_last_str (bs "type") ev = Some m_room_member /\
    (exists content, jget_last (bs "content") ev = Some content /\
                     string_member (bs "membership") content = Some s_join) /\
    (exists sender, sender <> [] /\ jget_last_str (bs "sender") ev = Some sender /\
                    jget_last (bs "state_key") ev = Some (JStr sender)).
  Proof.
    intros i F H. destruct (send_join_accept_only_if i H) as [_ [_ [Ht [Hm [Hk [Hs _]]]]]].
    rewrite F in Ht, Hm, Hk, Hs. eapply join_fields_on_event; eassumption.
  Qed.

  Theorem send_join_output_signed_locally : forall i,
    er_out (send_join sign i) = OOk ->
    exists out, er_event (send_join sign i) = Some out /\
                out = sign (sj_local_name i) (sj_key_id i) (sj_event i) /\
                verifies (sj_local_name i) (sj_key_id i) out = true /\
                unsign (sj_local_name i) (sj_key_id i) out =
                  unsign (sj_local_name i) (sj_key_id i) (sj_event i).
  Proof.
    intros i H. destruct (send_join_ok sign i H) as [_ [E _]].
    eexists. split; [exact E|]. split; [reflexivity|]. destruct IS. split; auto.
  Qed.

  Theorem invite_accept_only_if : forall i,
    er_out (handle_invite sign i) = OOk ->
    let f := iv_fields i in
    version_known (iv_version i) = true /\
    (* it is an invite *)
    ef_type f = m_room_member /\ ef_membership f = Some s_invite /\
    (* whose room matches the request *)
    ef_room_id f = iv_req_room i /\
    (* whose sender is known, and whose server has validly signed it *)
    (exists dom, iv_sender i = SUser dom) /\
    iv_verify i = VGood /\
    (* whose target is not already joined (a room unknown to the server has no local members) *)
    (iv_known_room i = Some false \/
     (iv_known_room i = Some true /\ exists cur, iv_membership i = Some cur /\ cur <> s_join)).
  Proof.
    intros i H. apply invite_admissible_meaning. apply (handle_invite_ok sign i H).
  Qed.

  (* the invite that comes back is the received event signed under the invited user's server
     name, changed in its unsigned member only *)
  Theorem invite_output_signed_locally : forall i,
    er_out (handle_invite sign i) = OOk ->
    exists out signed,
      er_event (handle_invite sign i) = Some out /\
      signed = sign (iv_invited_domain i) (iv_key_id i) (iv_event i) /\
      verifies (iv_invited_domain i) (iv_key_id i) signed = true /\
      unsign (iv_invited_domain i) (iv_key_id i) signed =
        unsign (iv_invited_domain i) (iv_key_id i) (iv_event i) /\
      jdel (bs "unsigned") out = jdel (bs "unsigned") signed.
  Proof.
    intros i H. destruct (handle_invite_ok sign i H) as [_ [v E]].
    eexists. eexists. split; [exact E|]. split; [reflexivity|]. destruct IS.
    repeat split; auto. apply set_invite_room_state_only_unsigned.
  Qed.
End Signed.

(* HandleInviteV3 (pseudo-ID rooms): what is completed and signed with the invitee's room key is
   an m.room.member invite of the requested room whose target is not already joined, with the
   invitee's sender ID as state key *)
Theorem invite_v3_accept_only_if : forall x i,
  er_out (handle_invite_v3 x i) = OOk ->
  version_known (iv_version i) = true /\
  v3_proto_type x = m_room_member /\ v3_proto_membership x = Some s_invite /\
  v3_proto_room x = iv_req_room i /\
  (iv_known_room i = Some false \/
   (iv_known_room i = Some true /\ exists cur, iv_membership i = Some cur /\ cur <> s_join)) /\
  exists sid v, v3_sender_id x = Some sid /\
    er_event (handle_invite_v3 x i) = Some (set_invite_room_state v (v3_built x sid)).
Proof.
  intros x i H. destruct (handle_invite_v3_ok x i H) as [A B].
  unfold invite_v3_admissible in A.
  apply andb_true_iff in A. destruct A as [A Hk].
  apply andb_true_iff in A. destruct A as [A _].
  apply andb_true_iff in A. destruct A as [A Hr].
  apply andb_true_iff in A. destruct A as [A Hm].
  apply andb_true_iff in A. destruct A as [Hv Ht].
  destruct (v3_proto_membership x) as [m|]; [|discriminate].
  apply bytes_eqb_eq in Hm. subst m.
  repeat split; try assumption; try reflexivity.
  - apply bytes_eqb_eq. exact Ht.
  - apply bytes_eqb_eq. exact Hr.
  - destruct (iv_known_room i) as [[|]|]; [right|left; reflexivity|discriminate].
    split; [reflexivity|].
    destruct (iv_membership i) as [cur|]; [|discriminate].
    exists cur. split; [reflexivity|]. intro E. subst cur. discriminate.
Qed.

(* ---------- perform_join ---------- *)

Theorem perform_join_only_if : forall i used,
  perform_join i = PJJoined used ->
  (* both requests were answered and the room version is known *)
  pj_make_join_ok i = true /\ pj_send_join_ok i = true /\
  version_known (effective_version i) = true /\
  (* the remote's state passes the federation-response checks, run with the very join event that
     is handed back: the remote's copy if that is used, else the locally built one *)
  (if used then pj_check_remote i else pj_check_own i) = true /\
  (* and its auth chain contains a create event, of the room being joined, of a known room version *)
  (exists e, In e (pj_auth_events i) /\ pa_type e = m_room_create /\ pa_state_key e = Some [] /\
             pa_room_ok e = true /\ pa_content_ok e = true /\
             version_known (match pa_room_version e with [] => v_1 | v => v end) = true) /\
  (* the remote's copy of the join is used only if it is a join of this room *)
  (used = true -> exists r, pj_remote i = Some r /\ pr_parse_ok r = true /\
                  pr_membership r = Some s_join /\ pr_room_id r = pj_room_id i).
Proof.
  intros i used H. destruct (perform_join_ok i used H) as [A [V _]].
  destruct (perform_join_admissible_meaning i used A) as [P1 [P2 [P3 [P4 P5]]]].
  repeat split; assumption.
Qed.

(* ---------- perform_invite (room versions with user-ID senders) ----------
   Not named by the property text; stated because the function is among the anchors.  An invite is
   handed back only for a known room version, an invitee who is not already joined, an existing
   room, and an event the auth rules allow.  What is handed back is the built event (state key =
   invitee, at most 10 auth and 20 prev events), signed under the inviter's server name and, for a
   local invitee only, under the invitee's; for a remote invitee the invited server's answer is
   taken only if it is that very event with a signature entry of the invited server added (no
   answer at all leaves the event as sent). *)
Theorem perform_invite_only_if : forall i,
  pir_out (perform_invite i) = OOk ->
  perform_invite_admissible i = true /\
  exists le st, pi_latest_q i = Some le /\
    let auth := truncate 10 (pl_refs le) in
    let prev := truncate 20 (pl_prev le) in
    (length auth <= 10)%nat /\ (length prev <= 20)%nat /\
    let built signers := PIBuilt (pi_invitee i) (pl_depth le) auth prev signers st in
    if pi_target_local i then
      pir_event (perform_invite i) = Some (built (both_names (pi_inviter_domain i) (pi_invitee_domain i)))
    else match pi_send i with
         | PSNil => pir_event (perform_invite i) = Some (built [pi_inviter_domain i])
         | PSSame true => pir_event (perform_invite i) = Some PIRemote
         | _ => False
         end.
Proof.
  intros i H. destruct (perform_invite_ok i H) as [A [le [st [E B]]]].
  split; [exact A|]. exists le, st. split; [exact E|].
  cbv zeta. split; [apply firstn_le|]. split; [apply firstn_le|]. exact B.
Qed.

(* ---------- the oracles of the correspondence run are the theorems' right-hand sides ---------- *)
Theorem C15_oracles_sound :
  (forall i, tr_out (make_join i) = OOk -> make_join_admissible i = true) /\
  (forall i, tr_out (make_leave i) = OOk -> make_leave_admissible i = true) /\
  (forall sign i, er_out (send_join sign i) = OOk -> send_join_admissible i = true) /\
  (forall sign i, er_out (handle_invite sign i) = OOk -> invite_admissible i = true) /\
  (forall i used, perform_join i = PJJoined used -> perform_join_admissible i used = true).
Proof.
  repeat split; intros.
  - apply make_join_ok; assumption.
  - apply make_leave_ok; assumption.
  - eapply send_join_ok; eassumption.
  - eapply handle_invite_ok; eassumption.
  - eapply perform_join_ok; eassumption.
Qed.

(* ---------- non-vacuity ---------- *)

(* a free signing scheme satisfies the premises *)
Definition free_sign (name key : bytes) (ev : json) : json :=
  JObj [(bs "signed_by", JStr name); (bs "key", JStr key); (bs "event", ev)].
Definition free_verifies (name key : bytes) (ev : json) : bool :=
  match ev with
  | JObj [(_, JStr n); (_, JStr k); (_, _)] => bytes_eqb n name && bytes_eqb k key
  | _ => false
  end.
Definition free_unsign (name key : bytes) (ev : json) : json :=
  match ev with
  | JObj [(_, JStr n); (_, JStr k); (_, e)] =>
      if bytes_eqb n name && bytes_eqb k key then e else ev
  | _ => ev
  end.

(* events of this example are plain strings, so that unsign leaves them alone *)
Example ideal_signing_inhabited_on_atoms :
  (forall name key ev, free_verifies name key (free_sign name key ev) = true) /\
  (forall name key s, free_unsign name key (free_sign name key (JStr s)) = free_unsign name key (JStr s)).
Proof.
  split; intros; unfold free_verifies, free_unsign, free_sign; rewrite !bytes_eqb_refl; reflexivity.
Qed.

Definition ex_fields : ev_fields :=
  {| ef_type := m_room_member; ef_state_key := Some (bs "@user:remote"); ef_sender := bs "@user:remote";
     ef_room_id := bs "!room:remote"; ef_event_id := bs "$ev"; ef_membership := Some s_join;
     ef_content_ok := true; ef_authorised_via := [] |}.

Definition ex_send_join : sj_input :=
  {| sj_version := bs "10"; sj_parse_ok := true; sj_event := JStr (bs "the event"); sj_fields := ex_fields;
     sj_req_room := bs "!room:remote"; sj_req_event_id := bs "$ev"; sj_origin := bs "remote";
     sj_local_name := bs "local"; sj_key_id := bs "ed25519:1"; sj_mapping_ok := true;
     sj_mapping_key_ok := true; sj_mapping_sig_ok := true; sj_store_ok := true; sj_sender := SUser (bs "remote");
     sj_redact_ok := true; sj_verify := VGood; sj_membership := Some s_leave;
     sj_authvia_domain := None; sj_joiner_entitled := true |}.

Example send_join_accepts_a_good_join_and_refuses_a_topic :
  er_out (send_join free_sign ex_send_join) = OOk /\
  er_out (send_join free_sign
            {| sj_version := sj_version ex_send_join; sj_parse_ok := true; sj_event := sj_event ex_send_join;
               sj_fields := {| ef_type := bs "m.room.topic"; ef_state_key := ef_state_key ex_fields;
                               ef_sender := ef_sender ex_fields; ef_room_id := ef_room_id ex_fields;
                               ef_event_id := ef_event_id ex_fields; ef_membership := Some s_join;
                               ef_content_ok := true; ef_authorised_via := [] |};
               sj_req_room := sj_req_room ex_send_join; sj_req_event_id := sj_req_event_id ex_send_join;
               sj_origin := sj_origin ex_send_join; sj_local_name := sj_local_name ex_send_join;
               sj_key_id := sj_key_id ex_send_join; sj_mapping_ok := true; sj_mapping_key_ok := true;
               sj_mapping_sig_ok := true;
               sj_store_ok := true; sj_sender := sj_sender ex_send_join; sj_redact_ok := true;
               sj_verify := VGood; sj_membership := Some s_leave; sj_authvia_domain := None;
               sj_joiner_entitled := true |}) = OBadJson.
Proof. split; vm_compute; reflexivity. Qed.

Definition ex_invite (ty : bytes) : inv_input :=
  {| iv_version := bs "10"; iv_event := JObj [(bs "type", JStr ty)];
     iv_fields := {| ef_type := ty; ef_state_key := Some (bs "@invitee:local"); ef_sender := bs "@user:remote";
                     ef_room_id := bs "!room:remote"; ef_event_id := bs "$ev"; ef_membership := Some s_invite;
                     ef_content_ok := true; ef_authorised_via := [] |};
     iv_req_room := bs "!room:remote"; iv_invited_domain := bs "local"; iv_invited_sender := bs "@invitee:local";
     iv_key_id := bs "ed25519:1"; iv_redact_ok := true; iv_sender := SUser (bs "remote"); iv_verify := VGood;
     iv_known_room := Some true; iv_given_state := [JObj []]; iv_generated_state := QNil;
     iv_membership := Some s_leave; iv_set_unsigned_ok := true |}.

(* finding F15 as repaired: a validly signed m.room.topic is no longer counter-signed *)
Example invite_accepts_an_invite_and_refuses_a_topic :
  er_out (handle_invite free_sign (ex_invite m_room_member)) = OOk /\
  er_out (handle_invite free_sign (ex_invite (bs "m.room.topic"))) = OBadJson.
Proof. split; vm_compute; reflexivity. Qed.

Definition ex_rj (level : Z) : rj_data :=
  {| rj_join_rules := QVal {| jr_unmarshal_ok := true; jr_join_rule := s_restricted;
        jr_allow := [{| rr_type := m_room_membership; rr_room_id := bs "!allowed:local"; rr_room_valid := true;
                        rr_info := QVal {| ri_local_in_room := true; ri_user_joined := true;
                                           ri_joined := [{| rm_type := m_room_member;
                                                            rm_state_key := Some (bs "@auth:local") |}] |} |}] |};
     rj_pending := Some false;
     rj_power := QVal {| pl_ok := true; pl_invite := 50; pl_users_default := 0;
                         pl_users := [(bs "@auth:local", level)] |};
     rj_create := QNil |}.

(* the boundary of the invite level: 50 authorises, 49 does not *)
Example restricted_join_level_boundary :
  fst (check_restricted_join (bs "local") (bs "!room:remote") (bs "@user:remote") false (ex_rj 50))
    = RJVia (bs "@auth:local") /\
  fst (check_restricted_join (bs "local") (bs "!room:remote") (bs "@user:remote") false (ex_rj 49))
    = RJForbidden.
Proof. split; vm_compute; reflexivity. Qed.

Print Assumptions C15_constants_match_source.
Print Assumptions C15_restricted_join_versions.
Print Assumptions make_join_template_only_if.
Print Assumptions make_leave_template_only_if.
Print Assumptions restricted_join_authoriser_spec.
Print Assumptions restricted_join_refusals_spec.
Print Assumptions restricted_join_oracle_sound.
Print Assumptions send_join_accept_only_if.
Print Assumptions send_join_accept_only_if_on_event_text.
Print Assumptions send_join_output_signed_locally.
Print Assumptions invite_accept_only_if.
Print Assumptions invite_output_signed_locally.
Print Assumptions invite_v3_accept_only_if.
Print Assumptions perform_join_only_if.
Print Assumptions perform_invite_only_if.
Print Assumptions C15_oracles_sound.
