(* C15 — placeholder while the pipeline is brought up; theorems follow. *)
From Verif Require Import Lib.Bytes Fed.HandshakeCommon.
Theorem C15_placeholder : outcome_eqb OOk OOk = true.
Proof. reflexivity. Qed.
Print Assumptions C15_placeholder.
